package checks

// C18 — reading, validating, encoding and verifying do not change anything;
// decoded objects hold no reference to the caller's input buffer.

import (
	"bytes"
	"fmt"
	"reflect"
	"strings"
	"testing"

	"github.com/veraison/psatoken"
	"pgregory.net/rapid"

	"verifharness/icbor"
	"verifharness/icose"
)

// visibleFP: the part of the object graph a caller can reach (claims fields,
// component container). The COSE message inside an Evidence is unexported:
// it is fingerprinted separately and only its observable behaviour (Verify
// outcomes) is required to be stable.
func visibleFP(v any) string {
	r := FingerprintExported(v, "*cose.Sign1Message")
	// what the unexported containers hold is visible through the getters
	switch x := v.(type) {
	case psatoken.IClaims:
		r += "|" + ObserveGetters(x)
	case *psatoken.Evidence:
		if x != nil && x.Claims != nil {
			r += "|" + ObserveGetters(x.Claims)
		}
	}
	return r
}

// internalFP additionally renders unexported fields; a change confined to
// them (e.g. a cache) is recorded as a class but is not a violation.
func internalFP(v any) string { return Fingerprint(v, "*cose.Sign1Message") }

func hiddenFP(ev *psatoken.Evidence) string {
	f := reflect.ValueOf(ev).Elem().FieldByName("message")
	if !f.IsValid() {
		return "?"
	}
	return Fingerprint(readable(f).Interface())
}

type readOp struct {
	name string
	// run returns a rendering of the result
	run func() string
}

func errClass(err error) string {
	if err == nil {
		return "ok"
	}
	return errStr(err)
}

func claimsReadOps(c psatoken.IClaims) []readOp {
	ops := []readOp{
		{"Validate", func() string { return errClass(c.Validate()) }},
		{"EncodeClaimsToCBOR", func() string {
			b, err := psatoken.EncodeClaimsToCBOR(c)
			return fmt.Sprintf("%x/%v", b, err != nil)
		}},
		{"EncodeClaimsToJSON", func() string {
			b, err := psatoken.EncodeClaimsToJSON(c)
			return fmt.Sprintf("%s/%v", b, err != nil)
		}},
		{"ValidateAndEncodeClaimsToCBOR", func() string {
			b, err := psatoken.ValidateAndEncodeClaimsToCBOR(c)
			return fmt.Sprintf("%x/%s", b, errClass(err))
		}},
		{"ValidateAndEncodeClaimsToJSON", func() string {
			b, err := psatoken.ValidateAndEncodeClaimsToJSON(c)
			return fmt.Sprintf("%s/%s", b, errClass(err))
		}},
		{"ObserveGetters", func() string { return ObserveGetters(c) }},
	}
	for k := Claim(0); k < nClaims; k++ {
		k := k
		ops = append(ops, readOp{"Get:" + k.String(), func() string { return observeGetter(c, k).Val }})
	}
	// the component container, when reachable
	if sc := anySwContainer(c); sc != nil && !reflect.ValueOf(sc).IsNil() {
		ops = append(ops,
			readOp{"SwComponents.Validate", func() string { return errClass(sc.Validate()) }},
			readOp{"SwComponents.Values", func() string {
				vs, err := sc.Values()
				return fmt.Sprintf("%d/%s", len(vs), errClass(err))
			}},
			readOp{"SwComponents.IsEmpty", func() string { return fmt.Sprint(sc.IsEmpty()) }},
		)
	}
	// the exported component validator applied to the components the claims-set
	// itself holds (the pointers its getter hands out)
	ops = append(ops, readOp{"ValidateSwComponent(each returned component)", func() string {
		scs, err := c.GetSoftwareComponents()
		if err != nil {
			return errClass(err)
		}
		var r []string
		for _, x := range scs {
			if x == nil || reflect.ValueOf(x).IsNil() {
				r = append(r, "nil")
				continue
			}
			r = append(r, errClass(psatoken.ValidateSwComponent(x)), errClass(x.Validate()))
		}
		return strings.Join(r, ",")
	}})
	return ops
}

func evidenceReadOps(ev *psatoken.Evidence, keys []keyPair) []readOp {
	ops := []readOp{
		{"Evidence.MarshalJSON", func() string {
			b, err := ev.MarshalJSON()
			return fmt.Sprintf("%s/%v", b, err != nil)
		}},
		{"Evidence.GetInstanceID", func() string {
			if p := ev.GetInstanceID(); p != nil {
				return hexs(*p)
			}
			return "nil"
		}},
		{"Evidence.GetImplementationID", func() string {
			if p := ev.GetImplementationID(); p != nil {
				return hexs(*p)
			}
			return "nil"
		}},
		{"Evidence.Verify(nil)", func() string { return fmt.Sprint(ev.Verify(nil) == nil) }},
	}
	for _, k := range keys {
		k := k
		ops = append(ops, readOp{"Evidence.Verify(" + k.Name() + ")", func() string { return fmt.Sprint(ev.Verify(k.Pub) == nil) }})
	}
	return ops
}

// extSwContainerOf extends swContainerOf (c11) to the extension types.
func anySwContainer(c psatoken.IClaims) psatoken.ISwComponents {
	switch x := c.(type) {
	case *ExtP1Claims:
		return x.SwComponents
	case *ExtP2Claims:
		return x.SwComponents
	}
	return swContainerOf(c)
}

type c18Subject struct {
	model  *MClaims // what the subject holds, when known by construction
	signer keyPair  // for Evidence subjects: the one key that must verify
	desc   string
	claims psatoken.IClaims
	ev     *psatoken.Evidence
	keys   []keyPair
	sparse bool // empty component container / optional claims absent
	reps   int  // how often each call is repeated (default 2)
	// altWire: another (also invalid) token of the same profile whose first
	// offending component differs; decoded INTO the subject in the epilogue
	altWire []byte
}

func drawC18Subject(t *rapid.T) c18Subject {
	p := drawProf(t)
	var m *MClaims
	if rapid.IntRange(0, 2).Draw(t, "valid") > 0 {
		m = GenValid(t, p, false)
	} else {
		m = GenAny(t, p)
	}
	sparse := len(m.Comps) == 0 || m.CertRef == nil || m.VSI == nil || (p == P2 && m.BootSeed == nil) || (p == P1 && m.Profile == nil)
	kind := rapid.SampledFrom([]string{"literal", "decoded-cbor", "decoded-json", "setters", "evidence-decoded", "evidence-signed", "extension", "extension-ptr-embedded", "extension-p1-ptr-receiver", "long-component-list"}).Draw(t, "subject")
	if p == P2 && (kind == "literal" || kind == "decoded-cbor") && rapid.IntRange(0, 5).Draw(t, "samenonces") == 0 {
		// a nonce array whose entries are all the same value
		n := drawBytes(t, drawHashLen(t, "samenonce.len"), "samenonce")
		ns := [][]byte{}
		for k := rapid.IntRange(2, 4).Draw(t, "samenonce.n"); k > 0; k-- {
			ns = append(ns, append([]byte{}, n...))
		}
		m.Nonces = &ns
	}
	switch kind {
	case "long-component-list":
		// a composite device: 8..24 components, of which some (usually two
		// or more, broken in DIFFERENT ways) do not validate - reachable by
		// a non-validating decode or a struct literal. Which entry the
		// error names, and why, is the same every time one asks.
		m = GenValid(t, p, false)
		m.NoMeas, m.CompsNil = nil, false
		n := rapid.IntRange(8, 24).Draw(t, "long.n")
		comps := make([]*MComp, n)
		for i := range comps {
			comps[i] = drawComp(t, true, fmt.Sprintf("long.c%d", i))
		}
		for k := rapid.IntRange(0, 4).Draw(t, "long.bad"); k > 0; k-- {
			i := rapid.IntRange(0, n-1).Draw(t, "long.badidx")
			switch rapid.IntRange(0, 3).Draw(t, "long.badkind") {
			case 0:
				comps[i] = &MComp{NilEntry: true}
			case 1:
				comps[i] = &MComp{Signer: bp(drawBytes(t, 32, "long.signer"))} // no measurement value
			case 2:
				comps[i] = &MComp{Value: bp(drawBytes(t, 7, "long.short")), Signer: bp(drawBytes(t, 32, "long.signer"))}
			default:
				comps[i] = drawComp(t, false, "long.badcomp")
			}
		}
		m.Comps = comps
		var c psatoken.IClaims
		if genBool.Draw(t, "long.decoded") {
			if d, err := psatoken.DecodeClaimsFromCBOR(m.WireBytes()); err == nil {
				c = d
			}
		}
		if c == nil {
			lit, ok := m.BuildLiteral()
			if !ok {
				m.Profile = sp(p.Name())
				lit, _ = m.BuildLiteral()
			}
			c = lit
		}
		m2 := m.Clone()
		for i, j := 0, len(m2.Comps)-1; i < j; i, j = i+1, j-1 {
			m2.Comps[i], m2.Comps[j] = m2.Comps[j], m2.Comps[i]
		}
		return c18Subject{desc: kind, claims: c, sparse: true, reps: 6, altWire: m2.WireBytes()}
	case "extension-p1-ptr-receiver":
		// a profile-1 derived extension with pointer-receiver codec methods;
		// in the no-measurements form the (empty) component container may
		// still be in place next to the flag
		m = GenValid(t, P1, true)
		m.Profile = sp(P1Name)
		b, err := m.BuildSetters()
		if err != nil {
			t.Fatalf("VERIF-INFRA: %v", err)
		}
		n := PtrRecvP1Name
		c := &PtrRecvP1Claims{P1Claims: *(b.(*psatoken.P1Claims))}
		c.Profile, c.CanonicalProfile = &n, n
		if c.NoSwMeasurements != nil && genBool.Draw(t, "keepcontainer") {
			c.SwComponents = &psatoken.SwComponents[*psatoken.SwComponent]{}
		}
		if genBool.Draw(t, "extra") {
			x := int64(5)
			c.Extra = &x
		}
		return c18Subject{desc: kind, claims: c, sparse: true}
	case "extension-ptr-embedded":
		// an extension whose optional claim group is embedded BY POINTER and
		// absent, with pointer-receiver codec methods (the object itself,
		// not a copy, reaches the encoding helpers)
		m = GenValid(t, P2, true)
		b, err := m.BuildSetters()
		if err != nil {
			t.Fatalf("VERIF-INFRA: %v", err)
		}
		c := newPtrEmbClaims()
		prof, canon := c.Profile, c.CanonicalProfile
		c.P2Claims = *(b.(*psatoken.P2Claims))
		c.Profile, c.CanonicalProfile = prof, canon
		return c18Subject{desc: kind, claims: c, sparse: true}
	case "literal":
		c, ok := m.BuildLiteral()
		if !ok {
			m = baseValid(p, 0)
			c, _ = m.BuildLiteral()
		}
		return c18Subject{model: m, desc: kind, claims: c, sparse: sparse}
	case "decoded-cbor":
		if len(m.Comps) > 1 && rapid.IntRange(0, 3).Draw(t, "nilentry") == 0 {
			m.Comps[rapid.IntRange(0, len(m.Comps)-2).Draw(t, "nilidx")] = &MComp{NilEntry: true}
		}
		c, err := psatoken.DecodeClaimsFromCBOR(permutedToken(t, m))
		if err != nil {
			c, _ = psatoken.DecodeClaimsFromCBOR(baseValid(p, 2).WireBytes())
			m = baseValid(p, 2)
		}
		if p == P2 && (m.Profile == nil || *m.Profile != P2Name) {
			// without its profile claim the token is profile 1's business:
			// the model no longer describes what was decoded
			return c18Subject{desc: kind, claims: c, sparse: sparse}
		}
		return c18Subject{model: m, desc: kind, claims: c, sparse: sparse}
	case "decoded-json":
		cc := c07Case{Format: "json", Body: *m}
		if m.Profile != nil {
			if p == P1 {
				cc.S1 = slotVal{Kind: "name", Name: *m.Profile}
			} else {
				cc.S2 = slotVal{Kind: "name", Name: *m.Profile}
			}
		}
		c, err := psatoken.DecodeClaimsFromJSON(cc.jsonDoc(true))
		if err != nil {
			lit, _ := baseValid(p, 1).BuildLiteral()
			js, _ := psatoken.EncodeClaimsToJSON(lit)
			c, _ = psatoken.DecodeClaimsFromJSON(js)
		}
		return c18Subject{desc: kind, claims: c, sparse: sparse}
	case "setters":
		m = GenValid(t, p, true)
		c, err := m.BuildSetters()
		if err != nil {
			t.Fatalf("VERIF-INFRA: %v", err)
		}
		if rapid.IntRange(0, 2).Draw(t, "nonutf8") == 0 {
			// free-text values that are not valid UTF-8 (the setters and
			// validation accept any non-empty text)
			bad := rapid.SampledFrom(nonUTF8Texts).Draw(t, "nonutf8.text")
			if scs, gerr := c.GetSoftwareComponents(); gerr == nil && len(scs) > 0 {
				sc := scs[rapid.IntRange(0, len(scs)-1).Draw(t, "nonutf8.comp")]
				switch rapid.IntRange(0, 3).Draw(t, "nonutf8.field") {
				case 0:
					_ = sc.SetMeasurementType(bad)
				case 1:
					_ = sc.SetVersion("1.4." + bad)
				case 2:
					_ = sc.SetMeasurementDesc(bad)
				default:
					_ = sc.SetVersion(bad)
					_ = sc.SetMeasurementType(bad)
				}
			}
			if genBool.Draw(t, "nonutf8.vsi") {
				_ = c.SetVSI("https://v.example/" + bad)
			}
		}
		return c18Subject{desc: kind, claims: c, sparse: len(m.Comps) == 0 || m.CertRef == nil || m.VSI == nil}
	case "extension":
		m = GenValid(t, p, true)
		if p == P1 {
			m.Profile = sp(P1Name)
		}
		ets := drawOptInt(t, "ts")
		if extRuleBroken(ets) {
			*ets = 14
		}
		c, err := buildExt(m, ets)
		if err != nil {
			t.Fatalf("VERIF-INFRA: %v", err)
		}
		return c18Subject{desc: kind, claims: c, sparse: len(m.Comps) == 0 || m.CertRef == nil}
	}
	// evidence
	m = GenValid(t, p, false)
	kp := keyFor(rapid.SampledFrom(fastAlgs).Draw(t, "alg"), rapid.IntRange(0, 1).Draw(t, "key"))
	other := keyFor(kp.Alg, 1-kp.Idx)
	st, err := signModel(m, kp)
	if err != nil {
		t.Fatalf("VERIF-INFRA: cannot sign: %v", err)
	}
	if kind == "evidence-decoded" {
		// the library's own envelope, or the same payload in an envelope with
		// parameters in the unprotected header (a key id equal to / different
		// from the instance-id hash, of other lengths, other labels) or
		// further protected parameters
		tok := st.Tok
		if env := rapid.IntRange(0, 5).Draw(t, "envelope"); env > 0 {
			unprot, prot := icbor.Map(), icose.ProtectedAlg(kp.Alg)
			kid := drawBytes(t, rapid.SampledFrom([]int{32, 32, 33, 16, 0, 64}).Draw(t, "kid.len"), "kid")
			if m.InstID != nil && len(*m.InstID) == 33 && env == 1 {
				kid = append([]byte{}, (*m.InstID)[1:]...)
			}
			switch env {
			case 1, 2, 3:
				unprot = icbor.Map(icbor.P(icbor.U(4), icbor.Bstr(kid)))
			case 4:
				unprot = icbor.Map(icbor.P(icbor.U(4), icbor.Bstr(kid)), icbor.P(icbor.U(5), icbor.Bstr(kid)), icbor.P(icbor.U(99), icbor.Tstr("x")))
			default:
				prot = icbor.Encode(icbor.Map(icbor.P(icbor.U(1), icbor.I(kp.Alg)), icbor.P(icbor.U(4), icbor.Bstr(kid))))
			}
			sig, serr := icose.Sign(kp.Alg, kp.Priv, prot, st.Parts.Payload)
			if serr != nil {
				t.Fatalf("VERIF-INFRA: %v", serr)
			}
			tok = icbor.Encode(icose.Envelope(prot, unprot, st.Parts.Payload, sig))
		}
		ev, err := psatoken.DecodeEvidenceFromCOSE(tok)
		if err != nil {
			t.Fatalf("own token does not decode: %v", err)
		}
		return c18Subject{signer: kp, desc: kind, claims: ev.Claims, ev: ev, keys: []keyPair{kp, other, keyFor(icose.ES384, 0)}, sparse: len(m.Comps) == 0 || m.CertRef == nil}
	}
	c, _ := m.BuildLiteral()
	ev := &psatoken.Evidence{}
	if err := ev.SetClaims(c); err != nil {
		t.Fatalf("VERIF-INFRA: %v", err)
	}
	if _, err := ev.ValidateAndSign(kp.Signer()); err != nil {
		t.Fatalf("VERIF-INFRA: %v", err)
	}
	return c18Subject{signer: kp, desc: kind, claims: c, ev: ev, keys: []keyPair{kp, other, keyFor(icose.ES384, 0)}, sparse: len(m.Comps) == 0 || m.CertRef == nil}
}

func TestC18_ReadOnly(t *testing.T) {
	st := NewStats("C18", "TestC18_ReadOnly", "rapid: a subject (claims-set of either profile as struct literal / via setters / decoded from CBOR with permuted and extra keys / decoded from JSON / an extension-profile instance; a claims-set with 8..24 software components of which up to four are broken in different ways; valid or with rule deviations; or an Evidence, decoded or freshly signed) and a random sequence of 1..30 read-side calls {Validate, each of the 10 getters, all getters, Encode CBOR/JSON, validate-and-encode CBOR/JSON, component-container Validate/Values/IsEmpty, Evidence.MarshalJSON / GetInstanceID / GetImplementationID / Verify with right, wrong, other-algorithm and nil key}. Oracle: the reflect-based deep fingerprint of everything a caller can reach (exported fields, pointers, slices, the component container) is identical before and after every call; every call repeated immediately returns the identical result; Observe (all getters + validity + both encodings) is identical at the end; Verify outcomes are stable; byte slices returned by earlier encode calls keep their content while other claims-sets are encoded in between; error values returned by earlier reads keep their text and class when the object is later given other content and read again; after the sequence an Evidence still accepts SetClaims of another valid set. Non-trivial = sequence contains an encode or validate call on a set with an empty component container or an absent optional claim; distinct = subject kind + class of subject + op sequence")
	st.Require = []string{"literal", "decoded-cbor", "decoded-json", "setters", "evidence-decoded", "evidence-signed", "extension", "extension-ptr-embedded", "extension-p1-ptr-receiver", "long-component-list", "sparse", "held-errors"}
	defer st.Flush(t)
	withExtProfiles(func() {
		rapid.Check(t, func(t *rapid.T) {
			s := drawC18Subject(t)
			var target any = s.claims
			ops := claimsReadOps(s.claims)
			if s.ev != nil {
				target = s.ev
				ops = append(ops, evidenceReadOps(s.ev, s.keys)...)
			}
			// the very first reads already count: what they return must be what
			// the subject was built from (a read that rewrites its operand on
			// first use would otherwise go unnoticed)
			if s.model != nil {
				if d := checkGettersAgainstModel(s.claims, s.model, false); d != "" {
					t.Fatalf("C18 violated (%s): the first reads do not return what the claims-set was built from: %s\n  [%s]", s.desc, d, s.model.ClassVector())
				}
			}
			fp0 := visibleFP(target)
			obs0 := Observe(s.claims)
			if fp := visibleFP(target); fp != fp0 {
				t.Fatalf("C18 violated (%s): observing the subject once (getters, Validate, encodings) changed it: %s", s.desc, firstDiff(fp0, fp))
			}
			hid0 := ""
			if s.ev != nil {
				hid0 = hiddenFP(s.ev)
			}
			int0 := internalFP(target)
			n := rapid.IntRange(1, 30).Draw(t, "nops")
			var seq []string
			nt := false
			// results handed out earlier must stay what they were while other
			// objects are encoded (a result aliasing a reused buffer would not)
			type heldT struct {
				what string
				b    []byte
				snap string
			}
			var held []heldT
			hold := func(what string, b []byte, err error) {
				if err == nil && len(b) > 0 {
					held = append(held, heldT{what, b, string(b)})
				}
			}
			otherM := GenValid(t, drawProf(t), false)
			other, _ := otherM.BuildLiteral()
			verify0 := ""
			if s.ev != nil {
				for _, k := range s.keys {
					verify0 += fmt.Sprint(s.ev.Verify(k.Pub) == nil)
				}
			}
			for i := 0; i < n; i++ {
				switch rapid.IntRange(0, 9).Draw(t, "side") {
				case 0:
					b, err := psatoken.EncodeClaimsToCBOR(s.claims)
					hold("EncodeClaimsToCBOR", b, err)
					seq = append(seq, "hold:cbor")
				case 1:
					b, err := psatoken.EncodeClaimsToJSON(s.claims)
					hold("EncodeClaimsToJSON", b, err)
					seq = append(seq, "hold:json")
				case 2:
					b, err := psatoken.ValidateAndEncodeClaimsToCBOR(s.claims)
					hold("ValidateAndEncodeClaimsToCBOR", b, err)
					seq = append(seq, "hold:vcbor")
				case 3, 4:
					// encode something else in between
					_, _ = psatoken.EncodeClaimsToCBOR(other)
					_, _ = psatoken.ValidateAndEncodeClaimsToCBOR(other)
					_, _ = psatoken.EncodeClaimsToJSON(other)
					seq = append(seq, "encode-other")
				}
				for _, h := range held {
					if string(h.b) != h.snap {
						t.Fatalf("C18 violated (%s): bytes returned earlier by %s changed afterwards (the result aliases memory that later calls overwrite)\n  sequence: %v", s.desc, h.what, seq)
					}
				}
				op := ops[rapid.IntRange(0, len(ops)-1).Draw(t, "op")]
				seq = append(seq, op.name)
				r1 := op.run()
				if fp := visibleFP(target); fp != fp0 {
					t.Fatalf("C18 violated (%s): %s changed its operand: %s\n  sequence: %v", s.desc, op.name, firstDiff(fp0, fp), seq)
				}
				if s.ev != nil && strings.HasPrefix(op.name, "Evidence.Verify(") {
					// whatever was verified before, with whatever key: the
					// outcome is decided by the key alone
					want := fmt.Sprint(op.name == "Evidence.Verify("+s.signer.Name()+")")
					if r1 != want {
						t.Fatalf("C18 violated (%s): %s = %s, expected %s (token signed with %s); the outcome depends on earlier calls\n  sequence: %v", s.desc, op.name, r1, want, s.signer.Name(), seq)
					}
				}
				for rep := 1; rep < max(2, s.reps); rep++ {
					if r2 := op.run(); r1 != r2 {
						t.Fatalf("C18 violated (%s): %s is not repeatable: %s then (call %d) %s\n  sequence: %v", s.desc, op.name, truncate(r1, 300), rep+1, truncate(r2, 300), seq)
					}
				}
				if s.sparse && (strings.Contains(op.name, "Encode") || strings.Contains(op.name, "Validate") || strings.Contains(op.name, "MarshalJSON")) {
					nt = true
				}
			}
			if d := obs0.Diff(Observe(s.claims)); d != "" {
				t.Fatalf("C18 violated (%s): observations changed over a sequence of read-only calls: %s\n  sequence: %v", s.desc, d, seq)
			}
			if s.ev != nil {
				v1 := ""
				for _, k := range s.keys {
					v1 += fmt.Sprint(s.ev.Verify(k.Pub) == nil)
				}
				if v1 != verify0 {
					t.Fatalf("C18 violated (%s): verification outcomes changed over a sequence of read-only calls (and encodings of other objects): %s -> %s\n  sequence: %v", s.desc, verify0, v1, seq)
				}
			}
			cls := []string{s.desc}
			if s.sparse {
				cls = append(cls, "sparse")
			}
			// epilogue 1: a result handed out stays what it was. The ERROR
			// values the reads return are held; the claims object is then given
			// other content through its own decoder (a write) and read again:
			// the errors returned BEFORE still say what they said.
			if s.altWire != nil {
				type cu interface{ UnmarshalCBOR([]byte) error }
				if dec, ok := s.claims.(cu); ok {
					collect := func() []error {
						e1 := s.claims.Validate()
						_, e2 := s.claims.GetSoftwareComponents()
						var e3, e4 error
						if sc := anySwContainer(s.claims); sc != nil && !reflect.ValueOf(sc).IsNil() {
							e3 = sc.Validate()
							_, e4 = sc.Values()
						}
						return []error{e1, e2, e3, e4}
					}
					say := func(e error) string {
						if e == nil {
							return "ok"
						}
						return e.Error() + " " + clsSetString(classSet(e))
					}
					held := collect()
					var texts []string
					for _, e := range held {
						texts = append(texts, say(e))
					}
					// (a) the caller repairs the first offending component in
					// place, through the exported fields of the component
					// object it built; the next read then stumbles over the
					// next offender
					repaired := false
					if sc, ok := anySwContainer(s.claims).(*swContainer); ok && sc != nil {
						if vs, ok := containerValues(sc); ok {
							for _, v := range vs {
								if v == nil {
									break // a null entry cannot be repaired through a pointer
								}
								if v.Validate() != nil {
									mv, si := bytes.Repeat([]byte{0x5a}, 32), bytes.Repeat([]byte{0xa5}, 32)
									v.MeasurementValue, v.SignerID = &mv, &si
									repaired = true
									break
								}
							}
						}
					}
					if repaired {
						_ = collect()
						for i, e := range held {
							if now := say(e); now != texts[i] {
								t.Fatalf("C18 violated (%s): an error value returned by an earlier read (#%d of Validate / GetSoftwareComponents / container Validate / Values) was rewritten by a later read, after the caller had repaired the component it complained about:\n  it said:  %s\n  it says:  %s", s.desc, i, texts[i], now)
							}
						}
						held = collect()
						texts = texts[:0]
						for _, e := range held {
							texts = append(texts, say(e))
						}
					}
					// (b) the object decodes another token
					if dec.UnmarshalCBOR(s.altWire) == nil {
						_ = collect()
						for i, e := range held {
							if now := say(e); now != texts[i] {
								t.Fatalf("C18 violated (%s): an error value returned by an earlier read (#%d of Validate / GetSoftwareComponents / container Validate / Values) was rewritten by a later read of the same object:\n  it said:  %s\n  it says:  %s", s.desc, i, texts[i], now)
							}
						}
						cls = append(cls, "held-errors")
					}
				}
			}
			// epilogue 2: after all those reads (successful verifications
			// among them) the Evidence still takes another valid claims-set
			if s.ev != nil && other != nil {
				if err := s.ev.SetClaims(other); err != nil || s.ev.Claims != other {
					t.Fatalf("C18 violated (%s): after a sequence of read-only calls (Verify among them) the Evidence refuses SetClaims of another valid claims-set: %v\n  sequence: %v", s.desc, err, seq)
				}
			}
			if internalFP(target) != int0 {
				cls = append(cls, "unexported-state-changed(no-verdict)")
			}
			if s.ev != nil && hiddenFP(s.ev) != hid0 {
				cls = append(cls, "hidden-envelope-state-changed(no-verdict)")
			}
			key := ""
			if nt {
				key = s.desc + "|" + obs0.Valid + "|" + fmt.Sprint(len(obs0.CBOR)) + "|" + strings.Join(seq, ",")
			}
			st.Case(key, cls...)
			if key != "" && st.WantSample() {
				st.Sample(map[string]any{"subject": s.desc, "valid": obs0.Valid, "sequence": seq})
			}
		})
	})
}

// ---- aliasing of the input buffer ----

func scribble(t *rapid.T, b []byte) {
	switch rapid.IntRange(0, 2).Draw(t, "scribble") {
	case 0:
		for i := range b {
			b[i] = 0x00
		}
	case 1:
		for i := range b {
			b[i] = 0xff
		}
	default:
		x := rapid.Uint32().Draw(t, "scribble.seed") | 1
		for i := range b {
			x ^= x << 13
			x ^= x >> 17
			x ^= x << 5
			b[i] ^= byte(x) | 1
		}
	}
}

// mutateReturnedSlices writes into every slice a getter hands out.
func mutateReturnedSlices(c psatoken.IClaims) {
	flip := func(b []byte, err error) {
		for i := range b {
			b[i] ^= 0xa5
		}
	}
	flip(c.GetImplID())
	flip(c.GetBootSeed())
	flip(c.GetNonce())
	flip(c.GetInstID())
	if scs, err := c.GetSoftwareComponents(); err == nil {
		for _, sc := range scs {
			if sc == nil {
				continue
			}
			flip(sc.GetMeasurementValue())
			flip(sc.GetSignerID())
			_ = sc.SetMeasurementDesc("scribbled")
			_ = sc.SetVersion("scribbled")
		}
	}
	_ = c.SetClientID(-12345)
	_ = c.SetVSI("scribbled")
	if p, ok := c.(*psatoken.P1Claims); ok && p.Profile != nil {
		*p.Profile = "scribbled"
	}
}

func TestC18_Aliasing(t *testing.T) {
	st := NewStats("C18", "TestC18_Aliasing", "rapid: a valid (or deviating) claims-set is encoded (CBOR by the independent encoder, JSON by the library, COSE by signing); decoding happens from a private copy of those bytes, after which the copy is overwritten with 0x00 / 0xff / xor-noise: all getters, validity, both encodings (and for COSE: Verify with the right and a wrong key, the re-marshalled JSON) must be unchanged, and the decoder must not have written to its input; a second instance decoded from the same buffer must be unaffected by writes into every slice the first instance's getters return and by its setters. Non-trivial = every case (distinct buffers); distinct = format + class vector + scribble kind")
	st.Require = []string{"cbor", "json", "cose", "cbor-ext", "cose-ext"}
	defer st.Flush(t)
	registerMu.Lock()
	defer registerMu.Unlock()
	restore := psatoken.VerifCheckpointProfiles()
	defer restore()
	if err := psatoken.RegisterProfile(rawP2Profile{}); err != nil {
		t.Fatalf("VERIF-INFRA: %v", err)
	}
	rapid.Check(t, func(t *rapid.T) {
		p := drawProf(t)
		var m *MClaims
		if rapid.IntRange(0, 3).Draw(t, "valid") > 0 {
			m = GenValid(t, p, false)
		} else {
			m = GenAny(t, p)
		}
		format := rapid.SampledFrom([]string{"cbor", "json", "cose", "cbor-ext", "cose-ext"}).Draw(t, "format")
		if strings.HasSuffix(format, "-ext") {
			// a token of a registered extension profile whose own claims are
			// kept as raw CBOR / as a byte string
			p = P2
			m = GenValid(t, P2, false)
		}
		var orig []byte
		var kp keyPair
		switch format {
		case "cbor-ext", "cose-ext":
			ps := append(bodyPairs(m), icbor.P(icbor.U(265), icbor.Tstr(RawP2Name)),
				icbor.P(icbor.I(-75500), rapid.SampledFrom([]*icbor.Node{icbor.Bstr(drawBytes(t, 40, "blob")), icbor.Arr(icbor.U(1), icbor.Tstr("two"), icbor.Bstr(drawBytes(t, 9, "b9"))), icbor.Map(icbor.P(icbor.U(1), icbor.Tstr("vendor data of some length")))}).Draw(t, "blobkind")),
				icbor.P(icbor.I(-75501), icbor.Bstr(drawBytes(t, 24, "tail"))))
			orig = icbor.Encode(icbor.Map(ps...))
			if format == "cose-ext" {
				kp = keyFor(rapid.SampledFrom(fastAlgs).Draw(t, "alg"), 0)
				tok, err := icose.SignedToken(kp.Alg, kp.Priv, orig)
				if err != nil {
					t.Fatalf("VERIF-INFRA: %v", err)
				}
				orig = tok
			}
		case "cbor":
			orig = permutedToken(t, m)
		case "json":
			cc := c07Case{Format: "json", Body: *m}
			if m.Profile != nil {
				if p == P1 {
					cc.S1 = slotVal{Kind: "name", Name: *m.Profile}
				} else {
					cc.S2 = slotVal{Kind: "name", Name: *m.Profile}
				}
			}
			orig = cc.jsonDoc(true)
		default:
			kp = keyFor(rapid.SampledFrom(fastAlgs).Draw(t, "alg"), 0)
			tok, err := icose.SignedToken(kp.Alg, kp.Priv, m.WireBytes())
			if err != nil {
				t.Fatalf("VERIF-INFRA: %v", err)
			}
			orig = tok
		}
		buf := append([]byte{}, orig...)
		var c, c2 psatoken.IClaims
		var ev *psatoken.Evidence
		var err error
		switch format {
		case "cbor", "cbor-ext":
			c, err = psatoken.DecodeClaimsFromCBOR(buf)
			if err == nil {
				c2, _ = psatoken.DecodeClaimsFromCBOR(buf)
			}
		case "json":
			c, err = psatoken.DecodeClaimsFromJSON(buf)
			if err == nil {
				c2, _ = psatoken.DecodeClaimsFromJSON(buf)
			}
		default:
			ev, err = psatoken.DecodeEvidenceFromCOSE(buf)
			if err == nil {
				c = ev.Claims
				ev2, _ := psatoken.DecodeEvidenceFromCOSE(buf)
				c2 = ev2.Claims
			}
		}
		if !bytes.Equal(buf, orig) {
			t.Fatalf("C18 violated: decoding (%s) wrote to the caller's input buffer", format)
		}
		if err != nil {
			st.Case("", "undecodable", format)
			return
		}
		if strings.HasSuffix(format, "-ext") {
			if _, ok := c.(*RawP2Claims); !ok || err != nil {
				t.Fatalf("VERIF-INFRA: extension token does not decode as such: %T %v", c, err)
			}
		}
		obs0 := Observe(c)
		obs2 := Observe(c2)
		fp0 := visibleFP(c)
		var v0, w0 bool
		var js0 string
		if ev != nil {
			v0 = ev.Verify(kp.Pub) == nil
			w0 = ev.Verify(keyFor(kp.Alg, 1).Pub) == nil
			b, _ := ev.MarshalJSON()
			js0 = string(b)
			if !v0 {
				t.Fatalf("correctly signed token does not verify")
			}
		}
		scribble(t, buf)
		if fp := visibleFP(c); fp != fp0 {
			t.Fatalf("C18 violated: overwriting the input buffer after decoding (%s) changed what the decoded claims hold (they keep a reference into the caller's buffer): %s", format, firstDiff(fp0, fp))
		}
		if d := obs0.Diff(Observe(c)); d != "" {
			t.Fatalf("C18 violated: overwriting the input buffer after decoding (%s) changed the decoded claims: %s", format, d)
		}
		if ev != nil {
			if v1 := ev.Verify(kp.Pub) == nil; v1 != v0 {
				t.Fatalf("C18 violated: overwriting the input buffer changed the verification outcome (%v -> %v): the Evidence keeps a reference to the caller's buffer", v0, v1)
			}
			if w1 := ev.Verify(keyFor(kp.Alg, 1).Pub) == nil; w1 != w0 {
				t.Fatalf("C18 violated: overwriting the input buffer changed the wrong-key verification outcome")
			}
			if b, _ := ev.MarshalJSON(); string(b) != js0 {
				t.Fatalf("C18 violated: overwriting the input buffer changed Evidence.MarshalJSON")
			}
		}
		// two instances decoded from the same bytes share nothing
		mutateReturnedSlices(c)
		if d := obs2.Diff(Observe(c2)); d != "" {
			t.Fatalf("C18 violated: writing into the slices returned by one decoded instance's getters (and using its setters) changed ANOTHER instance decoded from the same bytes (%s): %s", format, d)
		}
		st.Case(format+"|"+m.ClassVector()+"|"+fmt.Sprint(len(orig)), format)
		if st.WantSample() {
			st.Sample(map[string]any{"format": format, "claims": m.ClassVector(), "input_len": len(orig)})
		}
	})
}

var _ = icbor.Encode
