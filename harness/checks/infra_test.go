package checks

import (
	"crypto/sha256"
	"encoding/binary"
	"encoding/hex"
	"encoding/json"
	"fmt"
	"os"
	"path/filepath"
	"sort"
	"strings"
	"sync"
	"testing"

	"github.com/veraison/psatoken"
	"github.com/veraison/psatoken/encoding"

	"verifharness/icose"
)

func icoseSigned(kp keyPair, payload []byte) ([]byte, error) {
	return icose.SignedToken(kp.Alg, kp.Priv, payload)
}

// ---------------------------------------------------------------------------
// Environment
//
//   VERIF_TIER        quick | thorough
//   VERIF_SEED        integer (driver passes it; used only where a test needs
//                     a seed outside rapid, which none does today)
//   VERIF_OUT         directory for stats / replay files of this shard
//   VERIF_REPLAY      path of a JSON replay file (TestReplayJSON)
//   VERIF_KNOWN       path of KNOWN_FINDINGS.txt
//   VERIF_SHARD/VERIF_SHARDS   shard index / count for enumerations
// ---------------------------------------------------------------------------

func tier() string {
	if v := os.Getenv("VERIF_TIER"); v != "" {
		return v
	}
	return "quick"
}

func thorough() bool { return tier() == "thorough" }

func outDir() string {
	if v := os.Getenv("VERIF_OUT"); v != "" {
		return v
	}
	return "."
}

// repoDir is the repository the harness was built against (/repo unless the
// driver was pointed at a scratch copy for a sensitivity run).
func repoDir() string {
	if v := os.Getenv("VERIF_REPO"); v != "" {
		return v
	}
	return "/repo"
}

func shardInfo() (k, n int) {
	fmt.Sscanf(os.Getenv("VERIF_SHARD"), "%d", &k)
	fmt.Sscanf(os.Getenv("VERIF_SHARDS"), "%d", &n)
	if n <= 0 {
		n = 1
	}
	if k < 0 || k >= n {
		k = 0
	}
	return
}

func TestMain(m *testing.M) {
	if w := os.Getenv("VERIF_WORKER"); w != "" {
		os.Exit(runWorker(w))
	}
	loadKnown()
	os.Exit(m.Run())
}

// ---------------------------------------------------------------------------
// Known findings
// ---------------------------------------------------------------------------

var knownActive = map[string]string{} // "C04/array-as-bstr" -> description

func loadKnown() {
	p := os.Getenv("VERIF_KNOWN")
	if p == "" {
		p = "../../KNOWN_FINDINGS.txt"
	}
	b, err := os.ReadFile(p)
	if err != nil {
		return
	}
	for _, ln := range strings.Split(string(b), "\n") {
		ln = strings.TrimSpace(ln)
		if !strings.HasPrefix(ln, "known:") {
			continue
		}
		var prop, id string
		rest := []string{}
		for _, f := range strings.Fields(strings.TrimPrefix(ln, "known:")) {
			switch {
			case strings.HasPrefix(f, "property=") && prop == "":
				prop = strings.TrimPrefix(f, "property=")
			case strings.HasPrefix(f, "id=") && id == "":
				id = strings.TrimPrefix(f, "id=")
			default:
				rest = append(rest, f)
			}
		}
		if prop != "" && id != "" {
			knownActive[prop+"/"+id] = strings.Join(rest, " ")
		}
	}
}

// ---------------------------------------------------------------------------
// Stats: per-test counters, class histogram, distinct non-trivial hashes,
// samples; flushed as JSON for the driver to merge into the evidence file.
// ---------------------------------------------------------------------------

type Stats struct {
	mu         sync.Mutex
	Prop       string
	Test       string
	Rule       string
	Evals      int64
	NonTrivial int64
	Classes    map[string]int64
	distinct   map[uint64]struct{}
	Samples    []any
	maxSamples int
	KnownHits  map[string]int64
	Exhaustive bool
	Extra      map[string]any
	Require    []string // classes that must have > 0 cases (vacuity self-check)
}

func NewStats(prop, test, rule string) *Stats {
	return &Stats{
		Prop: prop, Test: test, Rule: rule,
		Classes:    map[string]int64{},
		distinct:   map[uint64]struct{}{},
		KnownHits:  map[string]int64{},
		Extra:      map[string]any{},
		maxSamples: 6,
	}
}

func hash64(s string) uint64 {
	h := sha256.Sum256([]byte(s))
	return binary.BigEndian.Uint64(h[:8])
}

// Case records one oracle evaluation. ntKey is the canonical description of
// the case if it is non-trivial by the check's rule, "" otherwise.
func (s *Stats) Case(ntKey string, classes ...string) {
	s.mu.Lock()
	defer s.mu.Unlock()
	s.Evals++
	for _, c := range classes {
		s.Classes[c]++
	}
	if ntKey != "" {
		s.NonTrivial++
		s.distinct[hash64(s.Test+"|"+ntKey)] = struct{}{}
	}
}

// Class bumps a class counter without counting an evaluation.
func (s *Stats) Class(c string) {
	s.mu.Lock()
	s.Classes[c]++
	s.mu.Unlock()
}

func (s *Stats) Sample(v any) {
	s.mu.Lock()
	defer s.mu.Unlock()
	if len(s.Samples) < s.maxSamples {
		s.Samples = append(s.Samples, v)
	}
}

func (s *Stats) WantSample() bool {
	s.mu.Lock()
	defer s.mu.Unlock()
	return len(s.Samples) < s.maxSamples
}

// Known records a hit of an active known finding and reports whether the
// finding id is listed (active). If it is not listed the caller must treat the
// mismatch as a violation.
func (s *Stats) Known(id string) bool {
	if _, ok := knownActive[s.Prop+"/"+id]; !ok {
		return false
	}
	s.mu.Lock()
	s.KnownHits[id]++
	s.mu.Unlock()
	return true
}

func (s *Stats) Flush(t testing.TB) {
	s.mu.Lock()
	defer s.mu.Unlock()
	hs := make([]uint64, 0, len(s.distinct))
	for h := range s.distinct {
		hs = append(hs, h)
	}
	sort.Slice(hs, func(i, j int) bool { return hs[i] < hs[j] })
	raw := make([]byte, 8*len(hs))
	for i, h := range hs {
		binary.BigEndian.PutUint64(raw[8*i:], h)
	}
	base := filepath.Join(outDir(), "stats-"+s.Test)
	if err := os.WriteFile(base+".hashes", raw, 0o644); err != nil {
		t.Logf("VERIF-INFRA: cannot write hashes: %v", err)
	}
	var missing []string
	for _, c := range s.Require {
		if s.Classes[c] == 0 {
			missing = append(missing, c)
		}
	}
	doc := map[string]any{
		"prop": s.Prop, "test": s.Test, "rule": s.Rule,
		"evaluations": s.Evals, "nontrivial": s.NonTrivial,
		"distinct_local": len(hs),
		"classes":        s.Classes, "samples": s.Samples,
		"known_hits": s.KnownHits, "exhaustive": s.Exhaustive,
		"extra": s.Extra, "missing_classes": missing, "require": s.Require,
	}
	b, _ := json.MarshalIndent(doc, "", " ")
	if err := os.WriteFile(base+".json", b, 0o644); err != nil {
		t.Logf("VERIF-INFRA: cannot write stats: %v", err)
	}
	// (the driver checks the required classes over the union of all shards)
}

// ---------------------------------------------------------------------------
// Replayable (non-rapid) cases.
//
// Enumerations run every case through a registered "kind" function that takes
// a JSON-encodable input and returns a non-empty message if the property is
// violated. On violation the input is saved as a replay file which
// TestReplayJSON feeds back into the same function.
// ---------------------------------------------------------------------------

type replayDoc struct {
	Check string          `json:"check"`
	Kind  string          `json:"kind"`
	Input json.RawMessage `json:"input"`
	Note  string          `json:"note"`
}

var replayKinds = map[string]func(raw json.RawMessage) string{}

func registerKind[T any](kind string, fn func(in T) string) func(in T) string {
	replayKinds[kind] = func(raw json.RawMessage) string {
		var in T
		if err := json.Unmarshal(raw, &in); err != nil {
			return "VERIF-INFRA: bad replay input: " + err.Error()
		}
		return fn(in)
	}
	return fn
}

var replayMu sync.Mutex
var replaysWritten = map[string]int{}

// reportCase saves a replay file and fails the test.
func reportCase(t testing.TB, prop, kind string, input any, msg string) {
	t.Helper()
	raw, _ := json.Marshal(input)
	doc := replayDoc{Check: prop, Kind: kind, Input: raw, Note: msg}
	b, _ := json.MarshalIndent(doc, "", " ")
	h := sha256.Sum256(raw)
	name := fmt.Sprintf("replay-%s-%s-%s.json", prop, kind, hex.EncodeToString(h[:6]))
	replayMu.Lock()
	replaysWritten[prop+kind]++
	n := replaysWritten[prop+kind]
	replayMu.Unlock()
	if n <= 5 {
		p := filepath.Join(outDir(), name)
		_ = os.WriteFile(p, b, 0o644)
		fmt.Printf("VERIF-REPLAY %s %s\n", prop, p)
	}
	t.Errorf("%s/%s violated: %s\n  input: %s", prop, kind, msg, truncate(string(raw), 400))
	if n >= 3 && os.Getenv("VERIF_NOSTOP") == "" {
		t.FailNow() // enough distinct reproductions; do not flood the log
	}
}

func truncate(s string, n int) string {
	if len(s) <= n {
		return s
	}
	return s[:n] + "…"
}

func TestReplayJSON(t *testing.T) {
	p := os.Getenv("VERIF_REPLAY")
	if p == "" {
		t.Skip("no VERIF_REPLAY")
	}
	b, err := os.ReadFile(p)
	if err != nil {
		t.Fatalf("VERIF-INFRA: %v", err)
	}
	var doc replayDoc
	if err := json.Unmarshal(b, &doc); err != nil {
		t.Fatalf("VERIF-INFRA: %v", err)
	}
	fn, ok := replayKinds[doc.Kind]
	if !ok {
		t.Fatalf("VERIF-INFRA: unknown replay kind %q", doc.Kind)
	}
	if msg := fn(doc.Input); msg != "" {
		t.Fatalf("%s/%s violated: %s", doc.Check, doc.Kind, msg)
	}
}

// hx is a JSON-friendly byte slice (hex string).
type hx []byte

func (h hx) MarshalJSON() ([]byte, error) { return json.Marshal(hex.EncodeToString(h)) }
func (h *hx) UnmarshalJSON(b []byte) error {
	var s string
	if err := json.Unmarshal(b, &s); err != nil {
		return err
	}
	d, err := hex.DecodeString(s)
	if err != nil {
		return err
	}
	*h = d
	return nil
}

// ---------------------------------------------------------------------------
// interfere: encode a handful of OTHER claims-sets (different sizes, both
// formats, validating and not). Checks call it between obtaining a result
// (bytes, a signed Evidence) and using it: a result that aliases a buffer the
// library reuses for later calls would change underneath.
// ---------------------------------------------------------------------------

var interferePool []psatoken.IClaims

func interfere() {
	if interferePool == nil {
		for _, p := range []Prof{P1, P2} {
			for v := 0; v < 3; v++ {
				if c, ok := baseValid(p, v).BuildLiteral(); ok {
					interferePool = append(interferePool, c)
				}
			}
		}
		big := baseValid(P2, 1)
		big.VSI = sp(strings.Repeat("interference ", 40))
		if c, ok := big.BuildLiteral(); ok {
			interferePool = append(interferePool, c)
		}
	}
	for _, c := range interferePool {
		_, _ = psatoken.EncodeClaimsToCBOR(c)
		_, _ = psatoken.ValidateAndEncodeClaimsToCBOR(c)
		_, _ = psatoken.EncodeClaimsToJSON(c)
		_, _ = psatoken.ValidateAndEncodeClaimsToJSON(c)
	}
	// other Evidence objects sign, with two different algorithms
	for i, alg := range []int64{-8, -7} { // EdDSA, ES256
		ev := &psatoken.Evidence{Claims: interferePool[i%len(interferePool)]}
		_, _ = ev.ValidateAndSign(keyFor(alg, 6).Signer())
		_, _ = ev.Sign(keyFor(alg, 6).Signer())
	}
}

// otherTraffic: interfere() plus decodes (successful and failing) of unrelated
// CBOR / JSON / COSE documents and uses of the embedding-aware helpers - what a
// busy verifier does between two calls that belong together.
var otherTrafficDocs struct {
	once             sync.Once
	cbor, json, cose [][]byte
	flat             *ShapeFlat
}

var trafficTick int

// otherTrafficEvery runs otherTraffic on every n-th call (cheap checks call it
// on a sample of their cases).
func otherTrafficEvery(n int) {
	trafficTick++
	if trafficTick%n == 0 {
		otherTraffic()
	}
}

func otherTraffic() {
	interfere()
	d := &otherTrafficDocs
	d.once.Do(func() {
		for _, p := range []Prof{P1, P2} {
			m := baseValid(p, 1)
			d.cbor = append(d.cbor, m.WireBytes())
			if c, ok := m.BuildLiteral(); ok {
				if js, err := psatoken.EncodeClaimsToJSON(c); err == nil {
					d.json = append(d.json, js)
				}
			}
			kp := keyFor(-8, 2) // EdDSA
			if tok, err := icoseSigned(kp, m.WireBytes()); err == nil {
				d.cose = append(d.cose, tok)
			}
		}
		d.cbor = append(d.cbor, []byte{0xa1, 0x19, 0x01, 0x09, 0x05}, []byte{0xbf}, []byte{0xa2, 0x01, 0x00, 0x01, 0x00})
		d.json = append(d.json, []byte(`{"eat-profile":"http://example.com/nope"}`), []byte(`{"psa-profile":"PSA_IOT_PROFILE_1","eat-profile":"http://arm.com/psa/2.0.0"}`), []byte(`null`), []byte(`{"a":1,"a":2}`))
		d.cose = append(d.cose, []byte{0xd2, 0x84, 0x40}, []byte{0xd1, 0x84, 0x40, 0xa0, 0x40, 0x40})
		i7, s := int64(7), "s"
		bs := []byte{1, 2}
		d.flat = &ShapeFlat{A: &i7, B: &s, C: &bs, D: 3, E: "e"}
	})
	for _, b := range d.cbor {
		_, _ = psatoken.DecodeClaimsFromCBOR(b)
		_ = encoding.PopulateStructFromCBOR(hdm, b, &ShapeFlat{})
	}
	for _, b := range d.json {
		_, _ = psatoken.DecodeClaimsFromJSON(b)
		_ = encoding.PopulateStructFromJSON(b, &ShapeFlat{})
	}
	for _, b := range d.cose {
		if ev, err := psatoken.DecodeEvidenceFromCOSE(b); err == nil {
			_ = ev.Verify(keyFor(-8, 2).Pub)
		}
	}
	_, _ = encoding.SerializeStructToCBOR(hem, d.flat)
	_, _ = encoding.SerializeStructToJSON(d.flat)
}
