package checks

import (
	"bytes"
	"encoding/json"
	"fmt"
	"github.com/veraison/eat"
	"reflect"
	"strings"
	"testing"

	"github.com/veraison/psatoken"
	"pgregory.net/rapid"
)

// C11 — setters accept exactly what validation accepts and are all-or-nothing.

// newModel is the model of a freshly constructed claims-set.
func newModel(p Prof) *MClaims {
	return &MClaims{Prof: p, Profile: sp(p.Name())}
}

// setterOp describes one setter call in a JSON-serialisable way.
type setterOp struct {
	Claim Claim    `json:"claim"`
	I32   int32    `json:"i32,omitempty"`
	U16   uint16   `json:"u16,omitempty"`
	Bytes hx       `json:"bytes,omitempty"`
	Text  string   `json:"text,omitempty"`
	Comps []*MComp `json:"comps,omitempty"`
	// for CSwComps: 0 = nil slice, 1 = non-nil list (possibly empty),
	// 2 = container.Add(list), 3 = container.Replace(list)
	Mode int `json:"mode,omitempty"`
	// SamePtr: the last two entries of the list (equal in content) are ONE
	// component object listed twice
	SamePtr bool `json:"same_object_twice,omitempty"`
	// NilBytes: a zero-length byte-string argument is handed over as a nil
	// slice (what a caller gets from an absent field) instead of an empty one
	NilBytes bool `json:"nil_slice,omitempty"`
}

// libList: the list handed to the library for o.Comps.
func (o setterOp) libList() []psatoken.ISwComponent {
	l := libComps(o.Comps)
	if o.SamePtr && len(l) >= 2 {
		l[len(l)-1] = l[len(l)-2]
	}
	return l
}

func (o setterOp) String() string {
	switch o.Claim {
	case CClientID:
		return fmt.Sprintf("SetClientID(%d)", o.I32)
	case CLifecycle:
		return fmt.Sprintf("SetSecurityLifeCycle(0x%04x)", o.U16)
	case CCertRef:
		return fmt.Sprintf("SetCertificationReference(%q)", o.Text)
	case CVSI:
		return fmt.Sprintf("SetVSI(%q)", o.Text)
	case CSwComps:
		mode := []string{"SetSoftwareComponents(nil)", "SetSoftwareComponents", "container.Add", "container.Replace"}[o.Mode]
		s := mode + "["
		for i, c := range o.Comps {
			if i > 0 {
				s += " "
			}
			s += fmt.Sprintf("%v", compClass(c))
		}
		return s + "]"
	}
	return fmt.Sprintf("Set%s(len %d)", o.Claim, len(o.Bytes))
}

// modelAccepts: does the profile's validation rule accept this value?
func (o setterOp) modelAccepts(p Prof) bool {
	switch o.Claim {
	case CClientID:
		return true
	case CLifecycle:
		return lifecycleState(o.U16) >= 0
	case CImplID:
		return len(o.Bytes) == 32
	case CBootSeed:
		return bootSeedOK(p, len(o.Bytes))
	case CCertRef:
		return certRefOK(p, o.Text)
	case CNonce:
		return isHashLen(len(o.Bytes))
	case CInstID:
		return instIDOK(o.Bytes)
	case CVSI:
		return o.Text != ""
	case CSwComps:
		for _, c := range o.Comps {
			if compClass(c) != EOK {
				return false
			}
		}
		return true
	}
	panic("bad op")
}

func swContainerOf(c psatoken.IClaims) psatoken.ISwComponents {
	switch v := c.(type) {
	case *psatoken.P1Claims:
		return v.SwComponents
	case *psatoken.P2Claims:
		return v.SwComponents
	}
	return nil
}

// libraryValidationAccepts: the verdict of the library's getter (which is what
// Validate() consults) on a struct literal holding the value.
func libraryValidationAccepts(p Prof, o setterOp) (accepts, ok bool) {
	mm := baseValid(p, 0)
	cp := func() *[]byte { return bp(append([]byte{}, o.Bytes...)) }
	switch o.Claim {
	case CClientID:
		mm.ClientID = i32p(o.I32)
	case CLifecycle:
		mm.Lifecycle = u16p(o.U16)
	case CImplID:
		mm.ImplID = cp()
	case CBootSeed:
		mm.BootSeed = cp()
	case CCertRef:
		mm.CertRef = sp(o.Text)
	case CVSI:
		mm.VSI = sp(o.Text)
	case CInstID:
		mm.InstID = cp()
	case CNonce:
		if p != P1 {
			return false, false // eat.Nonce cannot hold every size
		}
		ns := [][]byte{append([]byte{}, o.Bytes...)}
		mm.Nonces = &ns
	default:
		return false, false
	}
	lit, lok := mm.BuildLiteral()
	if !lok {
		return false, false
	}
	var err error
	switch o.Claim {
	case CClientID:
		_, err = lit.GetClientID()
	case CLifecycle:
		_, err = lit.GetSecurityLifeCycle()
	case CImplID:
		_, err = lit.GetImplID()
	case CBootSeed:
		_, err = lit.GetBootSeed()
	case CCertRef:
		_, err = lit.GetCertificationReference()
	case CVSI:
		_, err = lit.GetVSI()
	case CInstID:
		_, err = lit.GetInstID()
	case CNonce:
		_, err = lit.GetNonce()
	}
	return err == nil, true
}

// apply performs the call on the library object.
func (o setterOp) apply(c psatoken.IClaims) (err error, applicable bool) {
	cp := func() []byte {
		if o.NilBytes && len(o.Bytes) == 0 {
			return nil
		}
		return append([]byte{}, o.Bytes...)
	}
	switch o.Claim {
	case CClientID:
		return c.SetClientID(o.I32), true
	case CLifecycle:
		return c.SetSecurityLifeCycle(o.U16), true
	case CImplID:
		return c.SetImplID(cp()), true
	case CBootSeed:
		return c.SetBootSeed(cp()), true
	case CCertRef:
		return c.SetCertificationReference(o.Text), true
	case CNonce:
		return c.SetNonce(cp()), true
	case CInstID:
		return c.SetInstID(cp()), true
	case CVSI:
		return c.SetVSI(o.Text), true
	case CSwComps:
		switch o.Mode {
		case 0:
			return c.SetSoftwareComponents(nil), true
		case 1:
			l := o.libList()
			if l == nil {
				l = []psatoken.ISwComponent{}
			}
			return c.SetSoftwareComponents(l), true
		default:
			sc := swContainerOf(c)
			if sc == nil || (reflect.ValueOf(sc).Kind() == reflect.Pointer && reflect.ValueOf(sc).IsNil()) {
				return nil, false
			}
			if o.Mode == 2 {
				return sc.Add(o.libList()...), true
			}
			return sc.Replace(o.libList()), true
		}
	}
	panic("bad op")
}

// updateModel applies a successful call to the model.
func (o setterOp) updateModel(m *MClaims, c psatoken.IClaims) {
	switch o.Claim {
	case CClientID:
		m.ClientID = i32p(o.I32)
	case CLifecycle:
		m.Lifecycle = u16p(o.U16)
	case CImplID:
		m.ImplID = bp(append([]byte{}, o.Bytes...))
	case CBootSeed:
		m.BootSeed = bp(append([]byte{}, o.Bytes...))
	case CCertRef:
		m.CertRef = sp(o.Text)
	case CNonce:
		ns := [][]byte{append([]byte{}, o.Bytes...)}
		m.Nonces = &ns
	case CInstID:
		m.InstID = bp(append([]byte{}, o.Bytes...))
	case CVSI:
		m.VSI = sp(o.Text)
	case CSwComps:
		cl := func() []*MComp {
			var r []*MComp
			for _, x := range o.Comps {
				r = append(r, x.Clone())
			}
			return r
		}
		switch o.Mode {
		case 0:
			if m.Prof == P1 {
				m.NoMeas = u64p(1)
				m.Comps = nil
				m.CompsNil = true
			} else { // nil is indistinguishable from an empty list: a clear
				m.Comps = nil
				m.CompsNil = false
			}
		case 1:
			m.Comps = cl()
			m.CompsNil = false
			if len(o.Comps) > 0 {
				m.NoMeas = nil
			} else if p1, ok := c.(*psatoken.P1Claims); ok {
				// a clear: the flag's fate is not specified; follow the object
				m.NoMeas = nil
				if p1.NoSwMeasurements != nil {
					m.NoMeas = u64p(reflect.ValueOf(p1.NoSwMeasurements).Elem().Uint())
				}
			}
		case 2:
			m.Comps = append(m.Comps, cl()...)
			m.CompsNil = false
		case 3:
			m.Comps = cl()
			m.CompsNil = false
		}
	}
}

// c11Step runs one call with the all-or-nothing and agreement oracles.
// Returns (message, succeeded).
func c11Step(c psatoken.IClaims, m *MClaims, o setterOp) (string, bool, bool) {
	if o.Claim == CSwComps && o.Mode >= 2 && m.Prof == P1 && m.NoMeas != nil {
		// Direct container calls bypass the claims-set's list/flag
		// bookkeeping by construction; with the flag asserted they are
		// outside the property's domain (the exclusivity mechanism lives in
		// SetSoftwareComponents).
		return "", false, false
	}
	before := Observe(c)
	err, applicable := o.apply(c)
	if !applicable {
		return "", false, false
	}
	otherTrafficEvery(8) // the claims-set is observed after unrelated work
	want := o.modelAccepts(m.Prof)
	isClear := o.Claim == CSwComps && len(o.Comps) == 0 && o.Mode <= 1
	if o.Claim == CSwComps && o.Mode >= 2 && len(o.Comps) == 0 {
		isClear = true // Add() of nothing / Replace with nothing: no iff verdict
	}
	if o.Claim == CSwComps && o.Mode <= 1 && len(o.Comps) == 0 && (o.Mode == 1 || m.Prof == P2) {
		// the 'clear' operation: whatever it returns, it must leave zero components
		if sc := anySwContainer(c); sc != nil && !(reflect.ValueOf(sc).Kind() == reflect.Pointer && reflect.ValueOf(sc).IsNil()) && !sc.IsEmpty() {
			return fmt.Sprintf("%s (an empty component list = clear; returned %v) left components in the claims-set", o, err), false, true
		}
		if err != nil {
			return fmt.Sprintf("%s (an empty component list = clear) failed: %v", o, err), false, true
		}
	}
	// "iff the value is one VALIDATION accepts": the library's own validation
	// of that value, held by a claims-set that did not get it through the
	// setter, is the other side of the comparison (besides the model)
	if lv, ok := libraryValidationAccepts(m.Prof, o); ok && lv != (err == nil) {
		return fmt.Sprintf("%s: the setter says %v, but the library's validation of a claims-set holding that value says accepted=%v", o, err, lv), false, true
	}
	if !isClear && (err == nil) != want {
		if want {
			return fmt.Sprintf("%s: value is acceptable to the profile's validation but the setter failed: %v", o, err), false, true
		}
		return fmt.Sprintf("%s: setter accepted a value the profile's validation rejects", o), false, true
	}
	if err != nil {
		after := Observe(c)
		if d := before.Diff(after); d != "" {
			return fmt.Sprintf("%s failed (%v) but changed the claims-set: %s", o, err, d), false, true
		}
		if classify(err) == EOther && o.Claim != CSwComps {
			// C13 is the judge of classes; here only note nothing.
			_ = err
		}
		return "", false, true
	}
	o.updateModel(m, c)
	return "", true, true
}

func c11Invariant(c psatoken.IClaims, m *MClaims) string {
	if d := checkGettersAgainstModel(c, m, false); d != "" {
		return "after the call: " + d
	}
	allMand := m.ClientID != nil && m.Lifecycle != nil && m.ImplID != nil && m.Nonces != nil && m.InstID != nil &&
		(m.Prof == P2 || m.BootSeed != nil) && (len(m.Comps) > 0 || (m.Prof == P1 && m.NoMeas != nil))
	err := c.Validate()
	if allMand && err != nil {
		return fmt.Sprintf("every mandatory claim was set successfully but Validate() fails: %v", err)
	}
	if (err == nil) != m.Valid() {
		return fmt.Sprintf("Validate() = %v, model valid = %v", err, m.Valid())
	}
	return ""
}

// c11Final: the encoding depends only on the final values.
func c11Final(c psatoken.IClaims, m *MClaims) string {
	// The clause is about claims-sets on which every mandatory claim was set
	// successfully; incomplete sets (e.g. a cleared component list, which a
	// fresh object encodes as null and a cleared one as []) carry no verdict.
	if !m.Valid() {
		return ""
	}
	fresh, err := psatoken.NewClaims(m.Prof.Name())
	if err != nil {
		return "VERIF-INFRA: " + err.Error()
	}
	must := func(e error, what string) string {
		if e != nil {
			return fmt.Sprintf("replaying the final value of %s on a fresh claims-set failed: %v", what, e)
		}
		return ""
	}
	if m.ClientID != nil {
		if s := must(fresh.SetClientID(*m.ClientID), "client-id"); s != "" {
			return s
		}
	}
	if m.VSI != nil {
		if s := must(fresh.SetVSI(*m.VSI), "vsi"); s != "" {
			return s
		}
	}
	if m.InstID != nil {
		if s := must(fresh.SetInstID(append([]byte{}, (*m.InstID)...)), "inst-id"); s != "" {
			return s
		}
	}
	if m.Nonces != nil {
		if s := must(fresh.SetNonce(append([]byte{}, (*m.Nonces)[0]...)), "nonce"); s != "" {
			return s
		}
	}
	if len(m.Comps) > 0 {
		if s := must(fresh.SetSoftwareComponents(libComps(m.Comps)), "sw-components"); s != "" {
			return s
		}
	} else if m.Prof == P1 && m.NoMeas != nil {
		if s := must(fresh.SetSoftwareComponents(nil), "no-sw-measurements"); s != "" {
			return s
		}
	}
	if m.CertRef != nil {
		if s := must(fresh.SetCertificationReference(*m.CertRef), "cert-ref"); s != "" {
			return s
		}
	}
	if m.BootSeed != nil {
		if s := must(fresh.SetBootSeed(append([]byte{}, (*m.BootSeed)...)), "boot-seed"); s != "" {
			return s
		}
	}
	if m.ImplID != nil {
		if s := must(fresh.SetImplID(append([]byte{}, (*m.ImplID)...)), "impl-id"); s != "" {
			return s
		}
	}
	if m.Lifecycle != nil {
		if s := must(fresh.SetSecurityLifeCycle(*m.Lifecycle), "lifecycle"); s != "" {
			return s
		}
	}
	a, b := Observe(c), Observe(fresh)
	if a.CBOR != b.CBOR {
		return fmt.Sprintf("CBOR encoding depends on the call history: %s vs %s (fresh object with the same final values)", a.CBOR, b.CBOR)
	}
	if a.JSON != b.JSON {
		return fmt.Sprintf("JSON encoding depends on the call history: %s vs %s", a.JSON, b.JSON)
	}
	if a.Getters != b.Getters {
		return fmt.Sprintf("getter results depend on the call history:\n %s\n %s", a.Getters, b.Getters)
	}
	return ""
}

type c11SweepIn struct {
	Prof   Prof     `json:"prof"`
	Filled bool     `json:"filled"` // start from a fully populated valid set instead of a fresh one
	Op     setterOp `json:"op"`
}

// c11StartKind: further start states - "bare" = a struct literal holding
// only the profile (component container nil), "json-nulls" = a constructor-made
// object that decoded a JSON document with the profile and
// "psa-software-components": null (what EncodeClaimsToJSON emits for an
// incomplete profile-2 set).
func c11StartKind(p Prof, kind string) (psatoken.IClaims, *MClaims, string) {
	switch kind {
	case "fresh":
		return c11Start(p, false)
	case "populated":
		return c11Start(p, true)
	case "bare":
		m := &MClaims{Prof: p, Profile: sp(p.Name()), CompsNil: true}
		if p == P1 {
			n := P1Name
			return &psatoken.P1Claims{Profile: &n, CanonicalProfile: P1Name}, m, ""
		}
		pr := eat.Profile{}
		if err := pr.Set(P2Name); err != nil {
			return nil, nil, "VERIF-INFRA: " + err.Error()
		}
		return &psatoken.P2Claims{Profile: &pr, CanonicalProfile: P2Name}, m, ""
	default:
		c, err := psatoken.NewClaims(p.Name())
		if err != nil {
			return nil, nil, "VERIF-INFRA: " + err.Error()
		}
		doc := `{"eat-profile":"` + P2Name + `","psa-software-components":null}`
		if p == P1 {
			doc = `{"psa-profile":"` + P1Name + `","psa-software-components":null}`
		}
		if err := json.Unmarshal([]byte(doc), c); err != nil {
			return nil, nil, "VERIF-INFRA: start document does not decode: " + err.Error()
		}
		return c, &MClaims{Prof: p, Profile: sp(p.Name()), CompsNil: true}, ""
	}
}

func c11Start(p Prof, filled bool) (psatoken.IClaims, *MClaims, string) {
	if !filled {
		c, err := psatoken.NewClaims(p.Name())
		if err != nil {
			return nil, nil, "VERIF-INFRA: " + err.Error()
		}
		return c, newModel(p), ""
	}
	m := baseValid(p, 1)
	c, err := m.BuildSetters()
	if err != nil {
		return nil, nil, "building the populated start state through setters failed: " + err.Error()
	}
	return c, m, ""
}

var c11Kind = registerKind("c11sweep", func(in c11SweepIn) string {
	c, m, msg := c11Start(in.Prof, in.Filled)
	if msg != "" {
		return msg
	}
	msg, ok, applicable := c11Step(c, m, in.Op)
	if msg != "" || !applicable {
		return msg
	}
	if s := c11Invariant(c, m); s != "" {
		return in.Op.String() + ": " + s
	}
	_ = ok
	return c11Final(c, m)
})

// component setter sweep
type c11CompIn struct {
	Field string `json:"field"`
	Bytes hx     `json:"bytes"`
}

var c11CompKind = registerKind("c11comp", func(in c11CompIn) string {
	sc := &psatoken.SwComponent{}
	other := make([]byte, 32)
	var err error
	set := func(f string, b []byte) error {
		if f == "value" {
			return sc.SetMeasurementValue(append([]byte{}, b...))
		}
		return sc.SetSignerID(append([]byte{}, b...))
	}
	otherField := map[string]string{"value": "signer", "signer": "value"}[in.Field]
	if err = set(otherField, other); err != nil {
		return "setting a 32-byte " + otherField + " failed: " + err.Error()
	}
	before := obsComp(sc)
	err = set(in.Field, in.Bytes)
	want := isHashLen(len(in.Bytes))
	if (err == nil) != want {
		return fmt.Sprintf("component %s setter with %d bytes: err=%v, validation accepts=%v", in.Field, len(in.Bytes), err, want)
	}
	if err != nil {
		if after := obsComp(sc); after != before {
			return fmt.Sprintf("failed component setter changed the component: %s -> %s", before, after)
		}
		if classify(err) != ESyntax {
			return fmt.Sprintf("component setter error is not wrong-syntax: %v", err)
		}
		return ""
	}
	var got []byte
	if in.Field == "value" {
		got, err = sc.GetMeasurementValue()
	} else {
		got, err = sc.GetSignerID()
	}
	if err != nil || hexs(got) != hexs(in.Bytes) {
		return fmt.Sprintf("component getter after successful set returns %x, %v", got, err)
	}
	if verr := sc.Validate(); verr != nil {
		return "component with both mandatory fields set does not validate: " + verr.Error()
	}
	return ""
})

// strings that are not valid UTF-8: validation (non-empty text) accepts them,
// so the setters must
// texts far longer than any boundary the encodings have (validation puts no
// upper limit on free text)
var longTexts = []string{strings.Repeat("x", 1024), strings.Repeat("x", 1025), strings.Repeat("y", 5000), strings.Repeat("z", 70000)}

var nonUTF8Texts = []string{"\xff", "a\xffb", "\xc3", "\x80", "\xed\xa0\x80", "https://psa-verifier.org/\xc3\x28", "\xf8\x88\x80\x80\x80"}

type c11CopyIn struct {
	Field    string `json:"field"`
	How      string `json:"how_the_second_component_was_made"`
	InClaims string `json:"both_held_by_claims_of_profile,omitempty"`
}

// c11CopyKind: component b shares every field pointer with component a; one
// setter call on b must leave a (and, when both are held by a claims-set,
// a's part of the encodings) exactly as it was.
var c11CopyKind = registerKind("c11copy", func(in c11CopyIn) string {
	val, sig := bytes.Repeat([]byte{0xaa}, 32), bytes.Repeat([]byte{0xbb}, 32)
	ty, ver, desc := "BL", "1.0", "sha-256"
	a := &psatoken.SwComponent{MeasurementValue: &val, SignerID: &sig, MeasurementType: &ty, Version: &ver, MeasurementDesc: &desc}
	var b *psatoken.SwComponent
	if in.How == "struct-copy" {
		cp := *a
		b = &cp
	} else {
		b = &psatoken.SwComponent{MeasurementValue: &val, SignerID: &sig, MeasurementType: &ty, Version: &ver, MeasurementDesc: &desc}
	}
	var c psatoken.IClaims
	if in.InClaims != "" {
		p := P1
		if in.InClaims == "P2" {
			p = P2
		}
		m := baseValid(p, 0)
		var err error
		if c, err = m.BuildSetters(); err != nil {
			return "VERIF-INFRA: " + err.Error()
		}
		if err := c.SetSoftwareComponents([]psatoken.ISwComponent{a, b}); err != nil {
			return "two equal valid components refused: " + err.Error()
		}
	}
	beforeA := obsComp(a)
	var err error
	switch in.Field {
	case "value":
		err = b.SetMeasurementValue(bytes.Repeat([]byte{0x11}, 48))
	case "signer":
		err = b.SetSignerID(bytes.Repeat([]byte{0x22}, 64))
	case "type":
		err = b.SetMeasurementType("PRoT")
	case "version":
		err = b.SetVersion("2.0")
	default:
		err = b.SetMeasurementDesc("sha-384")
	}
	if err != nil {
		return "valid component value refused: " + err.Error()
	}
	if after := obsComp(a); after != beforeA {
		return fmt.Sprintf("a setter call on one component changed ANOTHER component (they shared a field pointer, %s): %s -> %s", in.How, beforeA, after)
	}
	if c != nil {
		scs, gerr := c.GetSoftwareComponents()
		if gerr != nil || len(scs) != 2 {
			return fmt.Sprintf("claims-set no longer returns its two components: %v", gerr)
		}
		if got := obsComp(scs[0].(*psatoken.SwComponent)); got != beforeA {
			return fmt.Sprintf("the claims-set's first component changed after a setter call on the second: %s -> %s", beforeA, got)
		}
		out, eerr := psatoken.EncodeClaimsToCBOR(c)
		if eerr != nil {
			return "claims-set with two valid components does not encode: " + eerr.Error()
		}
		if !bytes.Contains(out, val) || !bytes.Contains(out, sig) {
			return fmt.Sprintf("the encoding no longer contains the first component's measurement value / signer id: %x", out)
		}
	}
	return ""
})

// c11CompText: the three optional text setters of the component.
var c11CompTextKind = registerKind("c11comptext", func(in struct {
	Field string  `json:"field"`
	Prev  *string `json:"previous_value"`
	Text  string  `json:"text"`
}) string {
	sc := &psatoken.SwComponent{}
	set := map[string]func(string) error{"type": sc.SetMeasurementType, "version": sc.SetVersion, "desc": sc.SetMeasurementDesc}[in.Field]
	// (closures, not method values: the getters have value receivers, and a
	// method value would bind a copy of the component as it is now)
	get := map[string]func() (string, error){
		"type":    func() (string, error) { return sc.GetMeasurementType() },
		"version": func() (string, error) { return sc.GetVersion() },
		"desc":    func() (string, error) { return sc.GetMeasurementDesc() },
	}[in.Field]
	if in.Prev != nil {
		if err := set(*in.Prev); err != nil {
			return "setting the earlier value failed: " + err.Error()
		}
	}
	if err := set(in.Text); err != nil {
		return fmt.Sprintf("component %s setter refuses %q: %v (every text is acceptable to validation)", in.Field, in.Text, err)
	}
	got, err := get()
	if err != nil || got != in.Text {
		return fmt.Sprintf("component %s getter after a successful set of %q returns %q, %v", in.Field, in.Text, got, err)
	}
	return ""
})

func TestC11_Sweep(t *testing.T) {
	st := NewStats("C11", "TestC11_Sweep", "exhaustive: every byte-string setter of both profiles (impl-id, boot-seed, nonce, inst-id incl. type byte) and of the software component x lengths 0..80; lifecycle range ends and neighbours; certification-reference single-edit neighbourhood; VSI; on a fresh and on a fully populated claims-set. Oracle: setter succeeds iff the model's rule accepts; getter returns exactly the value; failure leaves Observe() unchanged; final encodings equal those of a fresh object given the same values. Non-trivial = value other than the canned 32-byte one; distinct = (profile, start state, setter, value class)")
	st.Exhaustive = true
	defer st.Flush(t)
	run := func(in c11SweepIn, key string) {
		msg := c11Kind(in)
		cls := "rejected"
		if in.Op.modelAccepts(in.Prof) {
			cls = "accepted"
		}
		st.Case(key, cls)
		if st.WantSample() && cls == "rejected" {
			st.Sample(fmt.Sprintf("%s filled=%v %s", in.Prof, in.Filled, in.Op))
		}
		if msg != "" {
			reportCase(t, "C11", "c11sweep", in, msg)
		}
	}
	for _, p := range []Prof{P1, P2} {
		for _, filled := range []bool{false, true} {
			pre := fmt.Sprintf("%s/%v/", p, filled)
			for n := 0; n <= 80; n++ {
				buf := make([]byte, n)
				for i := range buf {
					buf[i] = byte(3*n + i)
				}
				for _, cl := range []Claim{CImplID, CBootSeed, CNonce} {
					run(c11SweepIn{p, filled, setterOp{Claim: cl, Bytes: buf}}, fmt.Sprintf("%s%s/%d", pre, cl, n))
					if n == 0 {
						run(c11SweepIn{p, filled, setterOp{Claim: cl, NilBytes: true}}, fmt.Sprintf("%s%s/nil", pre, cl))
					}
				}
				if n == 0 {
					run(c11SweepIn{p, filled, setterOp{Claim: CInstID, NilBytes: true}}, fmt.Sprintf("%sinst/nil", pre))
				}
				for _, first := range []int{0, 1, 2, 255} {
					b2 := append([]byte{}, buf...)
					if n > 0 {
						b2[0] = byte(first)
					}
					run(c11SweepIn{p, filled, setterOp{Claim: CInstID, Bytes: b2}}, fmt.Sprintf("%sinst/%d/%d", pre, n, first))
				}
			}
			for hi := 0; hi <= 0x70; hi += 0x10 {
				for _, v := range []int{hi<<8 - 1, hi << 8, hi<<8 + 0xff, hi<<8 + 0x100} {
					if v < 0 || v > 0xffff {
						continue
					}
					run(c11SweepIn{p, filled, setterOp{Claim: CLifecycle, U16: uint16(v)}}, fmt.Sprintf("%slc/%04x", pre, v))
				}
			}
			alphabet := []string{"0", "9", "-", " ", "\n", "a", "٣", "\x00"}
			for _, base := range []string{"1234567890123", "1234567890123-12345"} {
				try := func(s, k string) {
					run(c11SweepIn{p, filled, setterOp{Claim: CCertRef, Text: s}}, fmt.Sprintf("%scert/%s/%s", pre, base, k))
				}
				try(base, "id")
				for i := 0; i < len(base); i++ {
					try(base[:i]+base[i+1:], fmt.Sprintf("del%d", i))
					for _, ch := range alphabet {
						try(base[:i]+ch+base[i+1:], fmt.Sprintf("sub%d/%q", i, ch))
					}
				}
				for i := 0; i <= len(base); i++ {
					for _, ch := range alphabet {
						try(base[:i]+ch+base[i:], fmt.Sprintf("ins%d/%q", i, ch))
					}
				}
				for i, v := range multiByteDigitVariants(base) {
					try(v, fmt.Sprintf("samebytelen-nonascii-digits/%d", i))
				}
			}
			for _, s := range append(append(append([]string{"", " ", "x", "https://psa-verifier.org"}, interestingTexts...), nonUTF8Texts...), longTexts...) {
				run(c11SweepIn{p, filled, setterOp{Claim: CVSI, Text: s}}, fmt.Sprintf("%svsi/%q", pre, s))
			}
			for _, v := range []int32{0, 1, -1, 2147483647, -2147483648} {
				run(c11SweepIn{p, filled, setterOp{Claim: CClientID, I32: v}}, fmt.Sprintf("%scid/%d", pre, v))
			}
		}
	}
	for _, f := range []string{"value", "signer"} {
		for n := 0; n <= 80; n++ {
			in := c11CompIn{Field: f, Bytes: make([]byte, n)}
			msg := c11CompKind(in)
			st.Case(fmt.Sprintf("comp/%s/%d", f, n), "component-setter")
			if msg != "" {
				reportCase(t, "C11", "c11comp", in, msg)
			}
		}
		// binary values that happen to be TEXT (hex digits, decimal digits,
		// base64 alphabets, with and without padding / prefixes), at the
		// valid sizes, at twice and 4/3 of them and around
		for _, n := range []int{32, 48, 64, 96, 128, 44, 66, 88, 43, 86, 24, 16, 34, 50} {
			for ai, al := range []string{"0123456789abcdef", "0123456789ABCDEF", "00", "0123456789", "ABCDEFGHIJKLMNOPQRSTUVWXYZabcdefghijklmnopqrstuvwxyz0123456789+/", "ABCDEFGHIJKLMNOPQRSTUVWXYZabcdefghijklmnopqrstuvwxyz0123456789-_", "A"} {
				b := make([]byte, n)
				for i := range b {
					b[i] = al[(i*7+n)%len(al)]
				}
				variants := [][]byte{b}
				if n >= 4 {
					pad := append([]byte{}, b...)
					pad[n-1], pad[n-2] = '=', '='
					pfx := append([]byte{}, b...)
					pfx[0], pfx[1] = '0', 'x'
					variants = append(variants, pad, pfx)
				}
				for vi, v := range variants {
					in := c11CompIn{Field: f, Bytes: v}
					msg := c11CompKind(in)
					st.Case(fmt.Sprintf("comp/%s/text-like/%d/%d/%d", f, n, ai, vi), "component-setter")
					if msg != "" {
						reportCase(t, "C11", "c11comp", in, msg)
					}
				}
			}
		}
	}
	// two components that share their field pointers (the second is a struct
	// copy of the first, or both were built around the same &value): a
	// setter call on one changes nothing on the other
	for _, f := range []string{"value", "signer", "type", "version", "desc"} {
		for _, how := range []string{"struct-copy", "shared-literal"} {
			for _, inClaims := range []string{"", "P1", "P2"} {
				in := c11CopyIn{Field: f, How: how, InClaims: inClaims}
				msg := c11CopyKind(in)
				st.Case(fmt.Sprintf("compcopy/%s/%s/%s", f, how, inClaims), "component-copy")
				if msg != "" {
					reportCase(t, "C11", "c11copy", in, msg)
				}
			}
		}
	}
	prevs := []*string{nil, sp("old"), sp("")}
	for _, f := range []string{"type", "version", "desc"} {
		for _, txt := range append(append(append([]string{"", " ", "x"}, interestingTexts...), nonUTF8Texts...), longTexts...) {
			for pi, prev := range prevs {
				in := struct {
					Field string  `json:"field"`
					Prev  *string `json:"previous_value"`
					Text  string  `json:"text"`
				}{f, prev, txt}
				msg := c11CompTextKind(in)
				st.Case(fmt.Sprintf("comptext/%s/%d/%q", f, pi, txt), "component-text-setter")
				if msg != "" {
					reportCase(t, "C11", "c11comptext", in, msg)
				}
			}
		}
	}
	// the setters an instance of a DERIVED profile inherits (the documented
	// way to extend: embed the built-in claims, own profile name): each
	// byte-string setter x lengths 0..80 accepts exactly what the base
	// profile's rule - the one the same object's validation applies - accepts
	for _, es := range extStyles {
		for _, cl := range []Claim{CImplID, CBootSeed, CNonce, CInstID} {
			for n := 0; n <= 80; n++ {
				b := make([]byte, n)
				for i := range b {
					b[i] = byte(i + 1)
				}
				if cl == CInstID && n > 0 {
					b[0] = 1
				}
				o := setterOp{Claim: cl, Bytes: b}
				c := es.Impl.GetClaims()
				err, _ := o.apply(c)
				want := o.modelAccepts(es.Base)
				st.Case(fmt.Sprintf("derived/%s/%s/%d", es.Label, cl, n), "derived-profile-setter")
				if (err == nil) != want {
					t.Fatalf("C11 violated: instance of the derived profile %q (style %s, on %s): %s = %v; the rule of its base profile, which its validation applies, says accept=%v", es.Name, es.Label, es.Base, o, err, want)
				}
				if want {
					m2 := newModel(es.Base)
					o.updateModel(m2, c)
					if got := observeGetter(c, cl); got.Cls != EOK || got.Val != hexs(b) {
						t.Fatalf("C11 violated: derived profile %q: after %s the getter gives %s", es.Name, o, got.Val)
					}
				}
			}
		}
	}
}

func drawSetterOp(t *rapid.T, p Prof) setterOp {
	valid := rapid.IntRange(0, 9).Draw(t, "validvalue") < 6
	cl := rapid.SampledFrom([]Claim{CClientID, CLifecycle, CImplID, CBootSeed, CCertRef, CSwComps, CSwComps, CNonce, CInstID, CVSI}).Draw(t, "setter")
	o := setterOp{Claim: cl}
	switch cl {
	case CClientID:
		o.I32 = rapid.OneOf(rapid.SampledFrom([]int32{0, 1, -1, 2147483647, -2147483648, -2147483647}), genInt32).Draw(t, "cid")
	case CLifecycle:
		if valid {
			o.U16 = drawValidLifecycle(t)
		} else {
			o.U16 = drawInvalidLifecycle(t)
		}
	case CImplID:
		n := 32
		if !valid {
			n = drawBadLen(t, "impl.len", func(n int) bool { return n == 32 }, []int{0, 31, 33})
		}
		o.Bytes = drawBytes(t, n, "implid")
	case CBootSeed:
		var n int
		if valid {
			if p == P1 {
				n = 32
			} else {
				n = rapid.IntRange(8, 32).Draw(t, "boot.len")
			}
		} else {
			n = drawBadLen(t, "boot.len", func(n int) bool { return bootSeedOK(p, n) }, []int{0, 7, 33, 8, 31})
		}
		o.Bytes = drawBytes(t, n, "bootseed")
	case CCertRef:
		if valid {
			o.Text = drawValidCertRef(t, p)
		} else {
			o.Text = drawInvalidCertRef(t, p)
		}
	case CNonce:
		n := drawHashLen(t, "nonce.len")
		if !valid {
			n = drawBadLen(t, "nonce.len", isHashLen, []int{0, 8, 31, 33, 47, 49, 63, 65})
		}
		o.Bytes = drawBytes(t, n, "nonce")
	case CInstID:
		if valid {
			o.Bytes = drawBytes(t, 33, "instid")
			o.Bytes[0] = 1
		} else if genBool.Draw(t, "inst.badtype") {
			o.Bytes = drawBytes(t, 33, "instid")
			o.Bytes[0] = rapid.SampledFrom([]byte{0, 2, 255}).Draw(t, "inst.type")
		} else {
			o.Bytes = drawBytes(t, drawBadLen(t, "inst.len", func(n int) bool { return n == 33 }, []int{0, 32, 34}), "instid")
			if len(o.Bytes) > 0 {
				o.Bytes[0] = 1
			}
		}
	case CVSI:
		if valid {
			o.Text = drawText(t, "vsi", false)
		}
	case CSwComps:
		o.Mode = rapid.SampledFrom([]int{0, 1, 1, 1, 2, 3}).Draw(t, "sw.mode")
		if o.Mode == 0 {
			break
		}
		n := rapid.SampledFrom([]int{0, 1, 1, 2, 3, 4}).Draw(t, "sw.n")
		if rapid.IntRange(0, 14).Draw(t, "sw.long") == 0 {
			// a long list (around 64, 128, 256 entries): one drawn component
			// replicated with a varying byte; the malformed one, if any, sits
			// at the very end, right after a power of two, or anywhere
			n = rapid.SampledFrom([]int{63, 64, 65, 66, 100, 129, 257}).Draw(t, "sw.n.long")
			proto := drawComp(t, true, "sw")
			for i := 0; i < n; i++ {
				c := proto.Clone()
				v := append([]byte{}, (*c.Value)...)
				v[0], v[1] = byte(i), byte(i>>8)
				c.Value = &v
				o.Comps = append(o.Comps, c)
			}
			if !valid {
				i := rapid.SampledFrom([]int{n - 1, n - 1, 64 % n, 65 % n, 128 % n, n / 2, 0}).Draw(t, "sw.badidx.long")
				o.Comps[i] = drawComp(t, false, "sw.bad")
			}
			return o
		}
		for i := 0; i < n; i++ {
			o.Comps = append(o.Comps, drawComp(t, true, "sw"))
		}
		if !valid && n > 0 {
			i := rapid.IntRange(0, n-1).Draw(t, "sw.badidx")
			o.Comps[i] = drawComp(t, false, "sw.bad")
		}
		if n > 0 && rapid.IntRange(0, 5).Draw(t, "sw.sameobject") == 0 {
			// the last component once more - the very same object
			o.Comps = append(o.Comps, o.Comps[n-1].Clone())
			o.SamePtr = true
		}
	}
	switch o.Claim {
	case CImplID, CBootSeed, CNonce, CInstID:
		if len(o.Bytes) == 0 {
			o.NilBytes = genBool.Draw(t, "nil-slice")
		}
	}
	return o
}

// c11Bystander: "no other claim changes" and "the encoding depends only on
// the final values" also across OBJECTS: another claims-set of the same
// profile, built through the same setters, is re-used by its holder as the
// target of a decode (CBOR or JSON) of a token carrying other values (a
// no-measurements flag of 23, another lifecycle, ...). Nothing was called on
// c, so nothing about c changes.
func c11Bystander(t *rapid.T, p Prof, c psatoken.IClaims) string {
	before := Observe(c)
	mb := GenValid(t, p, true)
	mt := GenValid(t, p, false)
	if p == P1 && genBool.Draw(t, "by.nomeas") {
		mb.Comps, mb.NoMeas = nil, u64p(1)
		mt.Comps, mt.NoMeas = nil, u64p(rapid.SampledFrom([]uint64{23, 0, 2}).Draw(t, "by.flag"))
	}
	b, err := mb.BuildSetters()
	if err != nil {
		return "VERIF-INFRA: bystander: " + err.Error()
	}
	what := "CBOR"
	if genBool.Draw(t, "by.json") {
		what = "JSON"
		lit, ok := mt.BuildLiteral()
		if !ok {
			return ""
		}
		js, err := psatoken.EncodeClaimsToJSON(lit)
		if err != nil {
			return ""
		}
		_ = b.(json.Unmarshaler).UnmarshalJSON(js)
	} else {
		_ = b.(interface{ UnmarshalCBOR([]byte) error }).UnmarshalCBOR(mt.WireBytes())
	}
	after := Observe(c)
	if before.Getters != after.Getters || before.CBOR != after.CBOR || before.JSON != after.JSON {
		return fmt.Sprintf("the claims-set changed although nothing was called on it: ANOTHER claims-set of the profile (built through the same setters) was re-used as the target of a %s decode\n  before: %s | %s\n  after:  %s | %s", what, before.Getters, before.CBOR, after.Getters, after.CBOR)
	}
	return ""
}

func TestC11_Sequences(t *testing.T) {
	st := NewStats("C11", "TestC11_Sequences", "rapid: sequences of 1..40 setter calls (all nine setters of both profiles, SetSoftwareComponents with nil / empty / valid list / list with one invalid component, container Add/Replace), valid and invalid values interleaved, against a reference model of the final values; after every call: agreement setter<->rule, getters equal the model, failure leaves Observe() unchanged, Validate() once all mandatory claims are set; at the end: encodings equal those of a fresh object given only the final values. Non-trivial = contains a failed call followed by a successful one, or a list/flag switch; distinct = sequence hash")
	st.Require = []string{"fail-then-success", "P1", "P2", "mode0", "mode1", "mode2", "mode3", "complete", "start=bare", "start=json-nulls", "bystander-decodes"}
	defer st.Flush(t)
	rapid.Check(t, func(t *rapid.T) {
		p := drawProf(t)
		startKind := rapid.SampledFrom([]string{"fresh", "populated", "fresh", "populated", "bare", "json-nulls"}).Draw(t, "start")
		c, m, msg := c11StartKind(p, startKind)
		if msg != "" {
			t.Fatalf("%s", msg)
		}
		n := rapid.IntRange(1, 40).Draw(t, "steps")
		trace := ""
		sawFail, failThenOK, switched := false, false, false
		modes := map[string]bool{}
		bystanders := 0
		for i := 0; i < n; i++ {
			if rapid.IntRange(0, 7).Draw(t, "bystander") == 0 {
				if msg := c11Bystander(t, p, c); msg != "" {
					t.Fatalf("C11 violated at step %d (after %s): %s", i, trace, msg)
				}
				bystanders++
			}
			o := drawSetterOp(t, p)
			hadList, hadFlag := len(m.Comps) > 0, m.NoMeas != nil
			msg, ok, applicable := c11Step(c, m, o)
			if !applicable {
				continue
			}
			trace += o.String() + ";"
			if msg != "" {
				t.Fatalf("C11 violated at step %d: %s", i, msg)
			}
			if s := c11Invariant(c, m); s != "" {
				t.Fatalf("C11 violated at step %d (%s): %s", i, o, s)
			}
			if !ok {
				sawFail = true
			} else if sawFail {
				failThenOK = true
			}
			if o.Claim == CSwComps {
				modes[fmt.Sprintf("mode%d", o.Mode)] = true
				if hadList != (len(m.Comps) > 0) || hadFlag != (m.NoMeas != nil) {
					switched = true
				}
			}
		}
		if s := c11Final(c, m); s != "" {
			t.Fatalf("C11 violated at the end of %s: %s", trace, s)
		}
		cls := []string{p.String(), "start=" + startKind}
		for k := range modes {
			cls = append(cls, k)
		}
		if failThenOK {
			cls = append(cls, "fail-then-success")
		}
		if bystanders > 0 {
			cls = append(cls, "bystander-decodes")
		}
		if switched {
			cls = append(cls, "list-flag-switch")
		}
		if m.Valid() {
			cls = append(cls, "complete")
		}
		key := ""
		if failThenOK || switched {
			key = trace
		}
		st.Case(key, cls...)
		if key != "" && st.WantSample() {
			st.Sample(truncate(trace, 400))
		}
	})
}

// ---- component lists with an entry that holds no component ----

type c11NilIn struct {
	Prof   Prof `json:"prof"`
	Filled bool `json:"filled"`
	Mode   int  `json:"mode"`  // 1 = SetSoftwareComponents, 2 = container.Add, 3 = container.Replace
	Typed  bool `json:"typed"` // the empty entry is a nil *SwComponent (else a nil interface value)
	Pos    int  `json:"pos"`   // 0 = first, 1 = last, 2 = the only entry
	// Foreign: the entry is not empty but a VALID component of another
	// ISwComponent implementation (a type embedding SwComponent)
	Foreign bool `json:"foreign,omitempty"`
}

// A list entry that holds no component (a nil interface value, or a nil
// pointer of the component type) is not a component validation accepts: the
// setter refuses the list - it neither panics nor takes it - and the
// claims-set stays as it was.
var c11NilKind = registerKind("c11nil", func(in c11NilIn) (msg string) {
	c, _, _ := c11Start(in.Prof, in.Filled)
	before := ObserveGetters(c)
	var empty psatoken.ISwComponent
	if in.Typed {
		empty = (*psatoken.SwComponent)(nil)
	}
	good := libComp(baseValid(in.Prof, 1).Comps[0])
	if in.Foreign {
		empty = &foreignComp{SwComponent: *libComp(baseValid(in.Prof, 2).Comps[0])}
	}
	var list []psatoken.ISwComponent
	switch in.Pos {
	case 0:
		list = []psatoken.ISwComponent{empty, good}
	case 1:
		list = []psatoken.ISwComponent{good, empty}
	default:
		list = []psatoken.ISwComponent{empty}
	}
	what := []string{"", "SetSoftwareComponents", "container Add", "container Replace"}[in.Mode]
	defer func() {
		if r := recover(); r != nil {
			msg = fmt.Sprintf("%s given a list whose entry %d holds no component (typed nil: %v) panics: %v", what, in.Pos%2*(len(list)-1), in.Typed, r)
		}
	}()
	var err error
	switch in.Mode {
	case 1:
		err = c.SetSoftwareComponents(list)
	default:
		sc := swContainerOf(c)
		if sc == nil || (reflect.ValueOf(sc).Kind() == reflect.Pointer && reflect.ValueOf(sc).IsNil()) {
			return ""
		}
		if in.Mode == 2 {
			err = sc.Add(list...)
		} else {
			err = sc.Replace(list)
		}
	}
	if in.Foreign {
		// whether a component of another implementation is taken is the
		// container's business; if it IS taken, the claims-set holds it
		if err != nil {
			if after := ObserveGetters(c); after != before {
				return fmt.Sprintf("%s refused a list with a component of another ISwComponent implementation (%v) but the claims-set changed", what, err)
			}
			return ""
		}
		got, gerr := c.GetSoftwareComponents()
		if gerr != nil {
			return fmt.Sprintf("%s accepted a list with a valid component of another ISwComponent implementation, but the claims-set then cannot return its components (%v): the setter accepted what validation rejects", what, gerr)
		}
		for i, g := range got {
			if isNilComp(g) {
				return fmt.Sprintf("%s accepted a list with a valid component of another ISwComponent implementation, but the claims-set then holds NO component at position %d", what, i)
			}
		}
		return ""
	}
	if err == nil {
		return fmt.Sprintf("%s accepts a list with an entry that holds no component (typed nil: %v, position %d of %d); validation does not accept such a list", what, in.Typed, in.Pos, len(list))
	}
	if after := ObserveGetters(c); after != before {
		return fmt.Sprintf("%s refused a list with an empty entry (%v) but the claims-set changed:\n  before %s\n  after  %s", what, err, truncate(before, 300), truncate(after, 300))
	}
	return ""
})

func isNilComp(sc psatoken.ISwComponent) bool {
	if sc == nil {
		return true
	}
	v := reflect.ValueOf(sc)
	return v.Kind() == reflect.Pointer && v.IsNil()
}

func TestC11_NilEntries(t *testing.T) {
	st := NewStats("C11", "TestC11_NilEntries", "enumeration: SetSoftwareComponents / the container's Add / Replace x both profiles x fresh and fully populated claims-set x a list whose first / last / only entry holds no component (a nil interface value, a nil *SwComponent), or is a valid component of ANOTHER ISwComponent implementation. Oracle: for an empty entry the call returns an error (no panic, not accepted) and every getter gives what it gave before; a foreign component is either refused (nothing changes) or the claims-set then returns its components, none of them empty. Non-trivial = every case; distinct = the case")
	st.Exhaustive = true
	defer st.Flush(t)
	for _, p := range []Prof{P1, P2} {
		for _, filled := range []bool{false, true} {
			for mode := 1; mode <= 3; mode++ {
				for _, typed := range []bool{false, true} {
					for pos := 0; pos < 3; pos++ {
						for _, foreign := range []bool{false, true} {
							if foreign && typed {
								continue
							}
							in := c11NilIn{p, filled, mode, typed, pos, foreign}
							msg := c11NilKind(in)
							st.Case(fmt.Sprintf("%+v", in), "nil-entry")
							if msg != "" {
								reportCase(t, "C11", "c11nil", in, msg)
							}
						}
					}
				}
			}
		}
	}
}
