package checks

import (
	"strings"
	"bytes"
	"crypto"
	"crypto/rsa"
	"fmt"
	"testing"

	"github.com/veraison/psatoken"
	"pgregory.net/rapid"

	"verifharness/icbor"
	"verifharness/icose"
)

// C03 — sign -> decode -> verify round trip binds exactly the validated claims.

// c03Check signs c on an Evidence prepared by prep (nil = fresh Evidence): the
// Evidence may already have signed or decoded something else, possibly with a
// different algorithm.
func c03Check(m *MClaims, c psatoken.IClaims, kp keyPair, validating bool, prep func(*psatoken.Evidence)) string {
	want, err := psatoken.ValidateAndEncodeClaimsToCBOR(c)
	if err != nil {
		return "valid set does not validate-and-encode: " + err.Error()
	}
	ev := &psatoken.Evidence{}
	if prep != nil {
		prep(ev)
	}
	if err := ev.SetClaims(c); err != nil {
		return "SetClaims of a valid set failed: " + err.Error()
	}
	var tok []byte
	if validating {
		tok, err = ev.ValidateAndSign(kp.Signer())
	} else {
		tok, err = ev.Sign(kp.Signer())
	}
	if err != nil {
		return fmt.Sprintf("signing a valid set with %s failed: %v", kp.Name(), err)
	}
	// other work happens before the token / the signing Evidence are used
	tokSnap := string(tok)
	wantSnap := string(want)
	interfere()
	if string(tok) != tokSnap || string(want) != wantSnap {
		return "bytes returned by the library (token / validated encoding) changed while other claims-sets were being encoded"
	}
	// independent parse of the token
	n, fl, rerr := icbor.Read(tok)
	if rerr != nil {
		return "token is not one well-formed CBOR item: " + rerr.Error()
	}
	if n.Kind != icbor.KTag || n.U != 18 {
		return "token is not tagged 18 (COSE_Sign1): " + truncate(icbor.Diag(n), 60)
	}
	if fl.HasIndef {
		return "token uses indefinite-length encoding"
	}
	parts, ok := icose.Split(tok)
	if !ok {
		return "token is not [bstr, map, bstr, bstr]"
	}
	if parts.Unprotected.Kind != icbor.KMap {
		return "unprotected header is not a map"
	}
	alg, ok := icose.ProtectedAlgOf(parts.Protected)
	if !ok {
		return fmt.Sprintf("protected header %x carries no algorithm", parts.Protected)
	}
	if alg != kp.Alg {
		return fmt.Sprintf("protected header algorithm %d, signer's is %d", alg, kp.Alg)
	}
	if !bytes.Equal(parts.Payload, want) {
		return fmt.Sprintf("payload is not the validated encoding of the claims:\n  payload %x\n  encoding %x", parts.Payload, want)
	}
	if l := kp.SigLen(); len(parts.Signature) != l {
		return fmt.Sprintf("signature is %d bytes, %s requires %d", len(parts.Signature), icose.AlgName(kp.Alg), l)
	}
	// independent verification: Sig_structure with empty external AAD
	if !icose.Verify(kp.Alg, kp.Pub, parts.Protected, parts.Payload, parts.Signature) {
		return "independent COSE verifier rejects the token (wrong Sig_structure, external AAD, or algorithm?)"
	}
	// library round trip
	if err := ev.Verify(kp.Pub); err != nil {
		return "signing Evidence does not verify with the matching key: " + err.Error()
	}
	dec, err := psatoken.DecodeAndValidateEvidenceFromCOSE(tok)
	if err != nil {
		return "decode-and-validate of the signed token failed: " + err.Error()
	}
	if err := dec.Verify(kp.Pub); err != nil {
		return "decoded Evidence does not verify with the matching key: " + err.Error()
	}
	g0, g1 := ObserveGetters(c), ObserveGetters(dec.Claims)
	if g0 != g1 {
		return fmt.Sprintf("decoded claims differ from the originals:\n  signed:  %s\n  decoded: %s", g0, g1)
	}
	if d := checkGettersAgainstModel(dec.Claims, m, true); d != "" {
		return "decoded claims differ from the model: " + d
	}
	// claim for claim, presence included: what the decoded Evidence exposes
	// re-encodes to exactly the signed payload and to the original's JSON
	// (getters alone mask e.g. a profile claim that was not in the token)
	if re, err := psatoken.EncodeClaimsToCBOR(dec.Claims); err != nil || !bytes.Equal(re, parts.Payload) {
		return fmt.Sprintf("the decoded Evidence's claims do not re-encode to the signed payload (a claim appeared or vanished):\n  payload   %x\n  re-encoded %x (%v)", parts.Payload, re, err)
	}
	j0, _ := psatoken.EncodeClaimsToJSON(c)
	if j1, err := psatoken.EncodeClaimsToJSON(dec.Claims); err != nil || !bytes.Equal(j0, j1) {
		return fmt.Sprintf("the decoded Evidence's claims differ from the originals in JSON form:\n  original %s\n  decoded  %s", j0, j1)
	}
	// the claims exposed are the decoding of the payload the signature covers
	fromPayload, err := psatoken.DecodeClaimsFromCBOR(parts.Payload)
	if err != nil {
		return "payload does not decode as claims: " + err.Error()
	}
	if g2 := ObserveGetters(fromPayload); g2 != g1 {
		return "decoded Evidence exposes claims that are not the decoding of the signed payload"
	}
	// a second key of the same kind must not verify (sanity of the positive)
	other := keyFor(kp.Alg, kp.Idx+1)
	if dec.Verify(other.Pub) == nil {
		return "decoded Evidence verifies with a different key"
	}
	// a verifier that tries several candidate keys: after failed attempts
	// (another key of the same kind, a key of another kind, nil) the right
	// key still verifies, on the decoded and on the signing Evidence, and
	// both still expose the same claims
	for _, e := range []*psatoken.Evidence{dec, ev} {
		for _, wrong := range []crypto.PublicKey{other.Pub, keyFor(icose.EdDSA, kp.Idx+3).Pub, keyFor(icose.PS256, kp.Idx+1).Pub, nil} {
			if e.Verify(wrong) == nil {
				return fmt.Sprintf("Evidence verifies with a wrong key (%T)", wrong)
			}
		}
		if err := e.Verify(kp.Pub); err != nil {
			return "after failed attempts with other keys the matching key no longer verifies: " + err.Error()
		}
		if e.Claims == nil {
			return "after failed verification attempts the Evidence exposes no claims any more"
		}
		if g := ObserveGetters(e.Claims); g != g1 {
			return fmt.Sprintf("after failed verification attempts the Evidence exposes different claims:\n  before: %s\n  after:  %s", g1, g)
		}
	}
	// the caller keeps ITS claims object: after the signing Evidence has signed
	// and verified, a claim changed through that object (a fresh challenge
	// for the next token) is what the next signature covers
	if old, gerr := c.GetNonce(); gerr == nil && len(old) > 0 {
		fresh := make([]byte, len(old))
		for i := range old {
			fresh[i] = old[i] ^ 0xa5
		}
		if serr := c.SetNonce(fresh); serr == nil {
			want2, werr := psatoken.ValidateAndEncodeClaimsToCBOR(c)
			var tok2 []byte
			var err2 error
			if validating {
				tok2, err2 = ev.ValidateAndSign(kp.Signer())
			} else {
				tok2, err2 = ev.Sign(kp.Signer())
			}
			if werr != nil || err2 != nil {
				return fmt.Sprintf("after the nonce was refreshed through the caller's claims object the set no longer encodes / signs: %v / %v", werr, err2)
			}
			p2, ok2 := icose.Split(tok2)
			if !ok2 || !bytes.Equal(p2.Payload, want2) {
				return fmt.Sprintf("second token (after Verify on the signing Evidence and a nonce refreshed through the caller's claims object) does not carry the validated encoding of the claims as they are NOW:\n  payload  %x\n  encoding %x", p2.Payload, want2)
			}
			d2, derr := psatoken.DecodeAndValidateEvidenceFromCOSE(tok2)
			if derr != nil || d2.Verify(kp.Pub) != nil || ev.Verify(kp.Pub) != nil {
				return fmt.Sprintf("second token does not decode / verify (%v)", derr)
			}
			if n2, _ := d2.Claims.GetNonce(); !bytes.Equal(n2, fresh) {
				return fmt.Sprintf("second token carries nonce %x, the claims object holds %x", n2, fresh)
			}
		}
	}
	// second use of the decoded Evidence: a correctly signed token whose
	// payload is a claims map with one wrong-typed claim does not decode; the
	// Evidence must not go on exposing the first token's claims while
	// verifying the second token's signature
	{
		bad := m.Clone()
		root := bad.WireNode()
		if sl := slotOf(bad.Prof, root, wtarget{comp: -1, key: wireKey(bad.Prof, CClientID)}); sl != nil {
			sl[1] = icbor.Tstr("not an integer")
		}
		kb := keyFor(icose.EdDSA, 7)
		if tb, err := icose.SignedToken(kb.Alg, kb.Priv, icbor.Encode(root)); err == nil {
			if uerr := dec.UnmarshalCOSE(tb); uerr == nil {
				return "UnmarshalCOSE accepted a token whose client id is a text string"
			}
			if dec.Verify(kb.Pub) == nil && dec.Claims != nil {
				return "after a failed UnmarshalCOSE the Evidence verifies the NEW token's signature while still exposing the PREVIOUS token's claims"
			}
			if dec.Verify(kp.Pub) == nil && dec.Claims == nil {
				// old envelope kept, claims dropped: allowed by C19's model only
				// if no claims are exposed - nothing to report
				_ = 0
			}
		}
	}
	return ""
}

// c03Extension: sign -> decode -> verify for a valid claims-set of one of the
// registered extension styles that the dispatching CBOR decoder can select.
func c03Extension(t *rapid.T) (msg string, class string) {
	var cands []extStyle
	for _, es := range extStyles {
		if es.CBORDisp {
			cands = append(cands, es)
		}
	}
	es := cands[rapid.IntRange(0, len(cands)-1).Draw(t, "ext.style")]
	m := GenValid(t, es.Base, true)
	if es.Base == P1 {
		m.Profile = sp(P1Name)
	}
	var own []*int64
	present := drawOwnPresent(t, len(es.OwnKeys), "ext.own")
	for i := range es.OwnKeys {
		if present[i] {
			v := rapid.Int64Range(0, 1<<40).Draw(t, fmt.Sprintf("ext.own%d.val", i))
			if extRuleBroken(&v) {
				v = 14
			}
			own = append(own, &v)
		} else {
			own = append(own, nil)
		}
	}
	kp := keyFor(rapid.SampledFrom([]int64{icose.EdDSA, icose.ES256, icose.ES384}).Draw(t, "ext.alg"), rapid.IntRange(0, 2).Draw(t, "ext.key"))
	validating := genBool.Draw(t, "ext.validating")
	class = es.Label + "|" + m.ClassVector()
	withExtStyles(func() {
		c, err := es.build(m, own...)
		if err != nil {
			msg = "VERIF-INFRA: " + err.Error()
			return
		}
		want, err := psatoken.ValidateAndEncodeClaimsToCBOR(c)
		if err != nil {
			msg = fmt.Sprintf("valid %s claims do not validate-and-encode: %v", es.Label, err)
			return
		}
		ev := &psatoken.Evidence{}
		if err := ev.SetClaims(c); err != nil {
			msg = "SetClaims of a valid set failed: " + err.Error()
			return
		}
		var tok []byte
		if validating {
			tok, err = ev.ValidateAndSign(kp.Signer())
		} else {
			tok, err = ev.Sign(kp.Signer())
		}
		if err != nil {
			msg = fmt.Sprintf("signing valid %s claims with %s failed: %v", es.Label, kp.Name(), err)
			return
		}
		parts, ok := icose.Split(tok)
		if !ok || !bytes.Equal(parts.Payload, want) {
			msg = fmt.Sprintf("the payload of the token is not the validated encoding of the claims:\n  payload %x\n  encoding %x", parts.Payload, want)
			return
		}
		if !icose.Verify(kp.Alg, kp.Pub, parts.Protected, parts.Payload, parts.Signature) {
			msg = "the independent verifier rejects the token"
			return
		}
		if verr := ev.Verify(kp.Pub); verr != nil {
			msg = fmt.Sprintf("Verify on the signing Evidence fails: %v", verr)
			return
		}
		for _, decode := range []func([]byte) (*psatoken.Evidence, error){psatoken.DecodeAndValidateEvidenceFromCOSE, psatoken.DecodeEvidenceFromCOSE} {
			dv, derr := decode(tok)
			if derr != nil {
				msg = fmt.Sprintf("the token the library made for valid claims of the registered profile %q does not decode: %v\n  token: %x", es.Name, derr, tok)
				return
			}
			if fmt.Sprintf("%T", dv.Claims) != fmt.Sprintf("%T", c) {
				msg = fmt.Sprintf("decoded claims are %T, signed ones %T", dv.Claims, c)
				return
			}
			if g0, g1 := ObserveGetters(c), ObserveGetters(dv.Claims); g0 != g1 {
				msg = fmt.Sprintf("decoded claims differ from the signed ones:\n  signed:  %s\n  decoded: %s", g0, g1)
				return
			}
			if o0, o1 := extOwn(c), extOwn(dv.Claims); o0 != o1 {
				msg = fmt.Sprintf("the extension's own claims differ: signed %s, decoded %s", o0, o1)
				return
			}
			if verr := dv.Verify(kp.Pub); verr != nil {
				msg = fmt.Sprintf("Verify on the decoded Evidence fails: %v", verr)
				return
			}
		}
	})
	return msg, class
}

func TestC03_SignRoundTrip(t *testing.T) {
	st := NewStats("C03", "TestC03_SignRoundTrip", "rapid: valid claims-sets of both profiles (all optional subsets, hash sizes, 1..4 components) x 7 algorithms (ES256/384/512, EdDSA, PS256/384/512) x deterministic keys, through ValidateAndSign and Sign, on a fresh Evidence or one that already signed / decoded (another algorithm's token) / failed to sign or decode; other claims-sets are encoded between signing and checking: independent parse (tag 18, 4-array, protected {1:alg}, payload byte-identical to ValidateAndEncodeClaimsToCBOR, signature length), independent verification with empty external AAD, library decode-and-validate gives identical getters, Verify succeeds on the signing and the decoded Evidence, claims equal the decoding of the split-out payload. Non-trivial = other than the canned builder sets under ES256; distinct = (alg, key, profile, class vector)")
	st.Require = []string{"ES256", "ES384", "ES512", "EdDSA", "PS256", "PS384", "PS512", "P1", "P2", "Sign", "ValidateAndSign", "prior=fresh", "prior=decoded", "prior=signed", "alg-and-curve-differ", "extension-profile", "style=ext-p2-mixedcase-uri"}
	defer st.Flush(t)
	rapid.Check(t, func(t *rapid.T) {
		p := drawProf(t)
		if rapid.IntRange(0, 9).Draw(t, "extension-profile") == 0 {
			// "every valid claims-set": also those of registered profiles
			// DERIVED from the built-in ones (own codec through the helpers,
			// inherited codec, OID name, a URI that is not all lower case ...)
			if msg, cls := c03Extension(t); msg != "" {
				t.Fatalf("C03 violated (claims of a registered derived profile): %s", msg)
			} else {
				st.Case("extension|"+cls, "extension-profile", "style="+strings.SplitN(cls, "|", 2)[0])
			}
			return
		}
		m := GenValid(t, p, false)
		c, _ := m.BuildLiteral()
		if genBool.Draw(t, "viaSetters") {
			m = GenValid(t, p, true)
			var err error
			if genBool.Draw(t, "sethistory") {
				// on an object that held ANOTHER valid value of every claim
				// before (e.g. components first, then the no-measurements form)
				c, err = m.BuildSettersAfter(GenValid(t, p, true))
			} else {
				c, err = m.BuildSetters()
			}
			if err != nil {
				t.Fatalf("valid set cannot be built through setters: %v", err)
			}
			if genBool.Draw(t, "refused") {
				// setter calls that are REFUSED come before signing: the
				// claims-set is still the valid one
				for k := rapid.IntRange(1, 3).Draw(t, "refused.n"); k > 0; k-- {
					o := drawSetterOp(t, p)
					if o.modelAccepts(p) {
						continue
					}
					if rerr, applicable := o.apply(c); applicable && rerr == nil {
						t.Fatalf("C03: setter %s accepted an invalid value", o)
					}
				}
				if len(m.Comps) > 0 {
					bad := []psatoken.ISwComponent{libComp(drawComp(t, true, "refused.sw")), libComp(drawComp(t, false, "refused.bad"))}
					if genBool.Draw(t, "refused.first") {
						bad = bad[1:]
					}
					if rerr := c.SetSoftwareComponents(bad); rerr == nil {
						t.Fatalf("C03: a component list with a malformed entry was accepted")
					}
				}
			}
		}
		alg := rapid.SampledFrom(icose.AllAlgs).Draw(t, "alg")
		kp := keyFor(alg, rapid.IntRange(0, 5).Draw(t, "key"))
		if _, isRSA := kp.Pub.(*rsa.PublicKey); isRSA && rapid.IntRange(0, 2).Draw(t, "oddrsa") == 0 {
			// an RSA key whose modulus length is not a multiple of 8 bits
			kp = oddRSAKey(alg, kp.Idx)
		}
		mixed := false
		if (alg == icose.ES256 || alg == icose.ES384 || alg == icose.ES512) && rapid.IntRange(0, 3).Draw(t, "othercurve") == 0 {
			// go-cose signs with any of the three curves under any ECDSA algorithm
			curveAlg := rapid.SampledFrom([]int64{icose.ES256, icose.ES384, icose.ES512}).Draw(t, "curve")
			kp = keyForCurve(alg, curveAlg, kp.Idx)
			mixed = curveAlg != alg
		}
		validating := genBool.Draw(t, "validating")
		prior := rapid.SampledFrom([]string{"fresh", "fresh", "signed", "vsigned", "decoded", "failed-sign", "failed-decode"}).Draw(t, "prior")
		var prep func(*psatoken.Evidence)
		if prior != "fresh" {
			// the earlier use of the Evidence involves another key, usually of another algorithm
			okp := keyFor(rapid.SampledFrom([]int64{icose.EdDSA, icose.ES256, icose.ES384, icose.PS256}).Draw(t, "prior.alg"), 4)
			prep = func(ev *psatoken.Evidence) { c08Prior(t, ev, prior, okp) }
		}
		if msg := c03Check(m, c, kp, validating, prep); msg != "" {
			t.Fatalf("C03 violated (%s, validating=%v, Evidence previously: %s): %s\n [%s]", kp.Name(), validating, prior, msg, m.ClassVector())
		}
		op := "Sign"
		if validating {
			op = "ValidateAndSign"
		}
		key := ""
		if alg != icose.ES256 || !m.IsCanned() {
			key = kp.Name() + "|" + m.ClassVector()
		}
		cl := []string{icose.AlgName(alg), p.String(), op, "prior=" + prior}
		if mixed {
			cl = append(cl, "alg-and-curve-differ")
		}
		st.Case(key, cl...)
		if key != "" && st.WantSample() {
			st.Sample(map[string]any{"key": kp.Name(), "op": op, "claims": m.ClassVector()})
		}
	})
}
