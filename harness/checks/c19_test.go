package checks

import (
	"bytes"
	"errors"
	"fmt"
	"io"
	"strings"
	"testing"
	"time"

	cose "github.com/veraison/go-cose"
	"github.com/veraison/psatoken"
	"pgregory.net/rapid"

	"verifharness/icbor"
	"verifharness/icose"
)

// C19 — an Evidence never verifies for claims other than the ones last signed
// or decoded (stateful, with injected signer faults).

type faultySigner struct {
	alg  cose.Algorithm
	mode string // "error", "empty", "junk"
	n    int
}

func (s *faultySigner) Algorithm() cose.Algorithm { return s.alg }
func (s *faultySigner) Sign(_ io.Reader, content []byte) ([]byte, error) {
	switch s.mode {
	case "error":
		return nil, errors.New("injected signer failure")
	case "empty":
		return []byte{}, nil
	case "nil":
		return nil, nil
	default: // junk of the right length
		b := make([]byte, s.n)
		for i := range b {
			b[i] = byte(i*7 + len(content))
		}
		return b, nil
	}
}

// slowSigner answers correctly, but late.
type slowSigner struct {
	inner cose.Signer
	delay time.Duration
}

func (s *slowSigner) Algorithm() cose.Algorithm { return s.inner.Algorithm() }
func (s *slowSigner) Sign(r io.Reader, content []byte) ([]byte, error) {
	time.Sleep(s.delay)
	return s.inner.Sign(r, content)
}

// envelope state of the model
type c19Env struct {
	kind string // "none", "tok", "maybe"
	tok  []byte
	key  int // index into the key pool of the one key that verifies tok; -1 = no key
	// undecodable: tok's payload is the encoding of claims this process
	// cannot decode (see c19Machine.opaque)
	undecodable bool
	// canonical: tok's payload is, byte for byte, what the library's encoder
	// emits for these (valid) claims (C03/C09): the attached claims must
	// re-encode to exactly the covered payload
	canonical bool
}

var c19Pool = []keyPair{}

func c19Keys() []keyPair {
	if len(c19Pool) == 0 {
		c19Pool = []keyPair{keyFor(icose.EdDSA, 0), keyFor(icose.EdDSA, 1), keyFor(icose.ES256, 0), keyFor(icose.PS256, 0), keyFor(icose.ES384, 0), keyFor(icose.ES512, 0), oddRSAKey(icose.PS384, 0),
			// an ECDSA algorithm over ANOTHER algorithm's usual curve (go-cose signs and verifies any pairing)
			keyForCurve(icose.ES256, icose.ES384, 0), keyForCurve(icose.ES512, icose.ES256, 1)}
	}
	return c19Pool
}

type c19Machine struct {
	ev                                                       *psatoken.Evidence
	env                                                      c19Env
	attached                                                 psatoken.IClaims // object identity expected in ev.Claims after SetClaims; nil if unknown/decoded
	replacedSince                                            bool
	trace                                                    []string
	sawFailThenVerify, sawDecodeAfterSign, sawFault, sawSign bool
	lastFailed                                               bool
	// opaque: the attached claims encode but this process cannot decode
	// their encoding again (a profile that was never registered here -
	// attester-only use -, or free text that is not valid UTF-8); the binding
	// clause is then evaluated on the payload BYTES
	opaque, sawOpaque, sawExt bool
	goodSigns                 int
}

func (mc *c19Machine) log(f string, a ...any) {
	mc.trace = append(mc.trace, fmt.Sprintf(f, a...))
	if c19Stall != nil {
		c19Stall.Beat("done: "+f, a...)
	}
}

// c19Stall: "a failed attempt does not prevent a later successful one" - an
// operation that never returns after a failed one prevents it (stall_test.go)
var c19Stall *stallGuard

func (mc *c19Machine) fail(t *rapid.T, f string, a ...any) {
	t.Fatalf("C19 violated: %s\n  history: %s", fmt.Sprintf(f, a...), strings.Join(mc.trace, " ; "))
}

// verifyAll runs Verify with every key of the pool (plus nil) and applies the
// invariants of the current envelope state.
func (mc *c19Machine) verifyAll(t *rapid.T) {
	otherTrafficEvery(3) // unrelated encodes / decodes happen between the operation and its verification
	keys := c19Keys()
	// things that are not a key at all (empty key sets, sets of unusable
	// keys, malformed key objects): in NO state of the Evidence is that a
	// verification that succeeds (whether it errors or panics is not judged)
	for i, k := range malformedKeys() {
		ok := func() (verified bool) {
			defer func() { _ = recover() }()
			return mc.ev.Verify(k) == nil
		}()
		if ok {
			mc.fail(t, "Verify succeeds with malformed key object #%d (%T) although no signature can have been checked with it (envelope state: %s)", i, k, mc.env.kind)
		}
	}
	for i, k := range keys {
		err := mc.ev.Verify(k.Pub)
		switch mc.env.kind {
		case "none":
			if err == nil {
				mc.fail(t, "Verify(%s) succeeds although the last signing attempt failed / nothing was signed or decoded", k.Name())
			}
		case "tok":
			if i == mc.env.key && err != nil {
				mc.fail(t, "Verify(%s) fails on the token this Evidence last produced/decoded with that key: %v", k.Name(), err)
			}
			if i != mc.env.key && err == nil {
				mc.fail(t, "Verify(%s) succeeds but the last token was made with %d", k.Name(), mc.env.key)
			}
		case "maybe":
			if i != mc.env.key && err == nil {
				mc.fail(t, "Verify(%s) succeeds with a key that never signed anything this Evidence held", k.Name())
			}
		}
		if err == nil && !mc.replacedSince {
			// binding: attached claims are nil or the decoding of the payload
			// the verified signature covers
			if mc.ev.Claims != nil {
				parts, ok := icose.Split(mc.env.tok)
				if !ok {
					mc.fail(t, "Verify succeeded but the model's token does not split (harness bug?)")
				}
				if !icose.Verify(k.Alg, k.Pub, parts.Protected, parts.Payload, parts.Signature) {
					mc.fail(t, "library Verify(%s) succeeds but the independent verifier rejects the token the Evidence should hold: it verified something else", k.Name())
				}
				if mc.opaque {
					enc, eerr := psatoken.EncodeClaimsToCBOR(mc.ev.Claims)
					if eerr != nil || !bytes.Equal(enc, parts.Payload) {
						mc.fail(t, "Verify(%s) succeeds but the covered payload is not the encoding of the attached claims (%v):\n   payload  %x\n   encoding %x", k.Name(), eerr, parts.Payload, enc)
					}
					continue
				}
				want, derr := psatoken.DecodeClaimsFromCBOR(parts.Payload)
				if derr != nil {
					mc.fail(t, "Verify succeeds with claims attached, but the covered payload does not decode as claims (%v)", derr)
				}
				if g0, g1 := ObserveGetters(mc.ev.Claims), ObserveGetters(want); g0 != g1 {
					mc.fail(t, "Verify(%s) succeeds but the attached claims are not the decoding of the signed payload:\n   attached: %s\n   payload:  %s", k.Name(), g0, g1)
				}
				if o0, o1 := extOwn(mc.ev.Claims), extOwn(want); o0 != o1 {
					mc.fail(t, "Verify(%s) succeeds but the extension's own claims held by the attached claims-set (%s) are not in the signed payload (%s)", k.Name(), o0, o1)
				}
				if mc.env.canonical {
					// independent of the library's getters: the attached claims
					// re-encode to the covered bytes
					if re, rerr := psatoken.EncodeClaimsToCBOR(mc.ev.Claims); rerr != nil || !bytes.Equal(re, parts.Payload) {
						mc.fail(t, "Verify(%s) succeeds but the attached claims do not re-encode to the payload the signature covers (%v):\n   payload  %x\n   attached %x", k.Name(), rerr, parts.Payload, re)
					}
				}
			}
		}
	}
	if mc.ev.Verify(nil) == nil {
		mc.fail(t, "Verify(nil) succeeds")
	}
	if mc.ev.Claims != nil {
		if msg := evidenceIDsAgree(mc.ev); msg != "" {
			mc.fail(t, "%s", msg)
		}
	}
	if mc.lastFailed {
		mc.sawFailThenVerify = true
	}
}

// evidenceIDsAgree: what the Evidence's own accessors expose of the attached
// claims (the instance id used to look up the verification key, the
// implementation id) is what the claims' getters give - and a nil pointer
// when the getter does not give a value.
func evidenceIDsAgree(ev *psatoken.Evidence) string {
	inst, ierr := ev.Claims.GetInstID()
	if p := ev.GetInstanceID(); (p == nil) != (ierr != nil) {
		return fmt.Sprintf("Evidence.GetInstanceID() = %v although the attached claims' GetInstID() gives (%x, %v)", p, inst, ierr)
	} else if p != nil && !bytes.Equal(*p, inst) {
		return fmt.Sprintf("Evidence.GetInstanceID() = %x, the attached claims hold %x", *p, inst)
	}
	impl, merr := ev.Claims.GetImplID()
	if p := ev.GetImplementationID(); (p == nil) != (merr != nil) {
		return fmt.Sprintf("Evidence.GetImplementationID() = %v although the attached claims' GetImplID() gives (%x, %v)", p, impl, merr)
	} else if p != nil && !bytes.Equal(*p, impl) {
		return fmt.Sprintf("Evidence.GetImplementationID() = %x, the attached claims hold %x", *p, impl)
	}
	return ""
}

func c19Run(t *rapid.T, st *Stats) {
	mc := &c19Machine{ev: &psatoken.Evidence{}, env: c19Env{kind: "none", key: -1}}
	keys := c19Keys()
	if c19Stall != nil {
		c19Stall.Begin("fresh Evidence (the entries below are the operations that RETURNED; the one that does not is on the parked goroutine's stack)")
	}
	// precondition of the property: claims are attached
	m0 := GenValid(t, drawProf(t), false)
	c0, _ := m0.BuildLiteral()
	if err := mc.ev.SetClaims(c0); err != nil {
		t.Fatalf("SetClaims(valid) failed: %v", err)
	}
	mc.attached = c0
	mc.replacedSince = true
	mc.log("SetClaims(valid)")

	doSign := func(t *rapid.T, validating bool) {
		if mc.ev.Claims == nil {
			t.Skip("no claims attached")
		}
		kind := rapid.SampledFrom([]string{"good", "good", "good", "error", "empty", "nil", "junk", "unsupported-alg", "reserved-alg"}).Draw(t, "signer")
		ki := rapid.IntRange(0, len(keys)-1).Draw(t, "key")
		k := keys[ki]
		var s cose.Signer
		switch kind {
		case "good":
			s = k.Signer()
		case "error", "empty", "nil", "junk":
			s = &faultySigner{alg: cose.Algorithm(k.Alg), mode: kind, n: icose.SigLen(k.Alg)}
		case "unsupported-alg":
			s = &faultySigner{alg: cose.Algorithm(-65000), mode: "junk", n: 64}
		default:
			s = &faultySigner{alg: cose.Algorithm(0), mode: "junk", n: 64}
		}
		claimsBefore := mc.ev.Claims
		wasValid := claimsBefore.Validate() == nil
		_, encErr := psatoken.EncodeClaimsToCBOR(claimsBefore)
		var tok []byte
		var err error
		name := "Sign"
		if validating {
			name = "ValidateAndSign"
			tok, err = mc.ev.ValidateAndSign(s)
		} else {
			tok, err = mc.ev.Sign(s)
		}
		mc.log("%s(%s,%s)=%v", name, kind, k.Name(), err != nil)
		mc.sawSign = true
		if kind != "good" {
			mc.sawFault = true
		}
		if mc.ev.Claims != claimsBefore {
			mc.fail(t, "%s replaced the attached claims", name)
		}
		if err != nil {
			if len(tok) != 0 {
				mc.fail(t, "%s failed but returned %d bytes", name, len(tok))
			}
			mayFail := kind != "good" || encErr != nil || (validating && !wasValid)
			if !mayFail {
				mc.fail(t, "%s with a good signer failed: %v (a failed attempt must not prevent a later successful one)", name, err)
			}
			mc.env = c19Env{kind: "none", key: -1}
			mc.lastFailed = true
			mc.verifyAll(t)
			return
		}
		mc.lastFailed = false
		switch kind {
		case "error", "empty", "nil":
			mc.fail(t, "%s with a %s signer returned a token", name, kind)
		}
		if validating && !wasValid {
			mc.fail(t, "ValidateAndSign signed an invalid claims-set")
		}
		if len(tok) == 0 {
			mc.fail(t, "%s succeeded but returned no token", name)
		}
		mc.replacedSince = false
		if kind == "good" {
			mc.env = c19Env{kind: "tok", tok: tok, key: ki, undecodable: mc.opaque, canonical: true}
			mc.goodSigns++
			// the returned token decodes and verifies independently of this Evidence
			parts, ok := icose.Split(tok)
			if !ok || !icose.Verify(k.Alg, k.Pub, parts.Protected, parts.Payload, parts.Signature) {
				mc.fail(t, "token returned by %s is not a COSE_Sign1 that the independent verifier accepts", name)
			}
			if enc, eerr := psatoken.EncodeClaimsToCBOR(claimsBefore); eerr != nil || !bytes.Equal(enc, parts.Payload) {
				mc.fail(t, "the payload of the token returned by %s is not the encoding of the attached claims (%v):\n   payload  %x\n   encoding %x", name, eerr, parts.Payload, enc)
			}
			if !mc.opaque {
				d, derr := psatoken.DecodeEvidenceFromCOSE(tok)
				if derr != nil {
					mc.fail(t, "token returned by %s does not decode: %v", name, derr)
				}
				if verr := d.Verify(k.Pub); verr != nil {
					mc.fail(t, "token returned by %s does not verify independently: %v", name, verr)
				}
				if g0, g1 := ObserveGetters(claimsBefore), ObserveGetters(d.Claims); g0 != g1 {
					mc.fail(t, "the token returned by %s decodes to other claims than the attached ones:\n   attached: %s\n   decoded:  %s", name, g0, g1)
				}
				if o0, o1 := extOwn(claimsBefore), extOwn(d.Claims); o0 != o1 {
					mc.fail(t, "the token returned by %s lacks / changes the extension's own claims: attached %s, decoded %s", name, o0, o1)
				}
			}
		} else {
			mc.env = c19Env{kind: "tok", tok: tok, key: -1, undecodable: mc.opaque} // junk signature: no key verifies
		}
		mc.verifyAll(t)
	}

	t.Repeat(map[string]func(*rapid.T){
		"SetClaims": func(t *rapid.T) {
			m := GenAny(t, drawProf(t))
			if genBool.Draw(t, "forceValid") {
				m = GenValid(t, m.Prof, false)
			}
			c, ok := m.BuildLiteral()
			if !ok {
				t.Skip("unrepresentable")
			}
			before := mc.ev.Claims
			err := mc.ev.SetClaims(c)
			mc.log("SetClaims(valid=%v)", m.Valid())
			if (err == nil) != m.Valid() {
				mc.fail(t, "SetClaims: err=%v but model valid=%v", err, m.Valid())
			}
			if err != nil {
				if mc.ev.Claims != before {
					mc.fail(t, "failed SetClaims changed the attached claims")
				}
				return
			}
			if mc.ev.Claims != c {
				mc.fail(t, "SetClaims did not attach the claims")
			}
			mc.attached = c
			mc.replacedSince = true
			mc.opaque = false
		},
		"SetClaimsSpecial": func(t *rapid.T) {
			// valid claims of extension profiles (registered: own codec,
			// OID-named with inherited codec, extension of an extension;
			// NOT registered in this process: attester-only use), or built-in
			// claims whose free text is not valid UTF-8
			var c psatoken.IClaims
			opaque := false
			what := rapid.SampledFrom([]string{"ext-p2", "inherit-p2-oid", "nested-p2", "nested-p2", "shadow-p2", "nonutf8"}).Draw(t, "special")
			if what == "nonutf8" {
				m := GenValid(t, drawProf(t), true)
				var err error
				if c, err = m.BuildSetters(); err != nil {
					t.Fatalf("VERIF-INFRA: %v", err)
				}
				bad := rapid.SampledFrom(nonUTF8Texts).Draw(t, "nonutf8.text")
				if scs, gerr := c.GetSoftwareComponents(); gerr == nil && len(scs) > 0 && genBool.Draw(t, "nonutf8.comp") {
					_ = scs[0].SetMeasurementDesc(bad)
				} else if err := c.SetVSI("https://v.example/" + bad); err != nil {
					t.Skip("setter refuses the text")
				}
				opaque = true
			} else {
				es := extStyleByLabel(what)
				m := GenValid(t, es.Base, true)
				var own []*int64
				for i := range es.OwnKeys {
					v := int64(1000 + i)
					if genBool.Draw(t, fmt.Sprintf("own%d", i)) {
						own = append(own, &v)
					} else {
						own = append(own, nil)
					}
				}
				var err error
				if c, err = es.build(m, own...); err != nil {
					t.Fatalf("VERIF-INFRA: %v", err)
				}
				opaque = what == "shadow-p2" // never registered in this process
				mc.sawExt = true
			}
			err := mc.ev.SetClaims(c)
			mc.log("SetClaimsSpecial(%s)", what)
			if err != nil {
				mc.fail(t, "SetClaims of valid %s claims failed: %v", what, err)
			}
			mc.attached = c
			mc.replacedSince = true
			mc.opaque = opaque
			if opaque {
				mc.sawOpaque = true
			}
		},
		"Sign":            func(t *rapid.T) { doSign(t, false) },
		"ValidateAndSign": func(t *rapid.T) { doSign(t, true) },
		"UnmarshalCOSE": func(t *rapid.T) {
			kind := rapid.SampledFrom([]string{"valid", "valid", "valid-other-header-spelling", "valid-other-header-spelling", "invalid-claims", "invalid-claims", "other-profile", "tampered-signature", "payload-not-claims", "payload-bad-claim", "payload-bad-claim", "garbage", "truncated", "own-last-token", "last-token-other-payload", "last-token-other-payload"}).Draw(t, "token")
			ki := rapid.IntRange(0, len(keys)-1).Draw(t, "key")
			k := keys[ki]
			var tok []byte
			layer := "ok" // expected outcome: ok | claims | cose
			keyIdx := ki
			canonical := false
			switch kind {
			case "valid-other-header-spelling":
				// correctly signed by an encoder that spells the protected
				// header differently (algorithm with a longer head, further
				// parameters before / after it, a long map head): the signature
				// covers THOSE bytes
				m := GenValid(t, drawProf(t), false)
				algN := icbor.I(k.Alg)
				var pm *icbor.Node
				switch rapid.IntRange(0, 4).Draw(t, "spelling") {
				case 0:
					pm = icbor.Map(icbor.P(icbor.U(1), algN.WithHead(2)))
				case 1:
					pm = icbor.Map(icbor.P(icbor.I(-65537), icbor.Tstr("x")), icbor.P(icbor.U(1), algN))
				case 2:
					pm = icbor.Map(icbor.P(icbor.U(1), algN), icbor.P(icbor.U(4), icbor.Bstr([]byte("kid-1")))).WithHead(2)
				case 3:
					pm = icbor.Map(icbor.P(icbor.U(1).WithHead(8), algN))
				default:
					pm = icbor.Map(icbor.P(icbor.U(3), icbor.U(60)), icbor.P(icbor.U(1), algN))
				}
				prot := icbor.Encode(pm)
				pay := m.WireBytes()
				sg, serr := icose.Sign(k.Alg, k.Priv, prot, pay)
				if serr != nil {
					t.Fatalf("VERIF-INFRA: %v", serr)
				}
				tok = icbor.Encode(icose.Envelope(prot, icbor.Map(), pay, sg))
				if _, derr := psatoken.DecodeEvidenceFromCOSE(tok); derr != nil {
					t.Skip("this spelling of the protected header is not accepted")
				}
			case "valid", "other-profile", "tampered-signature":
				m := GenValid(t, drawProf(t), false)
				var err error
				canonical = true // a valid model's wire form is the library's own encoding
				tok, err = icose.SignedToken(k.Alg, k.Priv, m.WireBytes())
				if err != nil {
					t.Fatalf("VERIF-INFRA: %v", err)
				}
				if kind == "tampered-signature" {
					tok = append([]byte{}, tok...)
					tok[len(tok)-1] ^= 0x01
					keyIdx = -1
				}
			case "invalid-claims":
				// correctly signed, decodes, but the claims break the profile's
				// rules (e.g. both the component list and the no-measurements
				// flag): the Evidence then holds invalid claims, which Sign
				// (unlike ValidateAndSign) is willing to sign
				var m *MClaims
				for try := 0; try < 4; try++ {
					m = GenAny(t, drawProf(t))
					if !m.Valid() {
						break
					}
				}
				if rapid.IntRange(0, 2).Draw(t, "both") == 0 {
					m = GenValid(t, P1, false)
					if len(m.Comps) == 0 {
						m.Comps = drawValidComps(t, "sw")
						m.CompsNil = false
					}
					m.NoMeas = u64p(rapid.SampledFrom([]uint64{1, 0, 2}).Draw(t, "flag"))
				}
				pl := m.WireBytes()
				if _, derr := psatoken.DecodeClaimsFromCBOR(pl); derr != nil {
					t.Skip("claims do not decode")
				}
				var err error
				if tok, err = icose.SignedToken(k.Alg, k.Priv, pl); err != nil {
					t.Fatalf("VERIF-INFRA: %v", err)
				}
			case "payload-not-claims":
				pl := rapid.SampledFrom([][]byte{{0x01}, {0x80}, {0x61, 0x61}, {0xf6}, {0xa0, 0x00}}).Draw(t, "payload")
				tok, _ = icose.SignedToken(k.Alg, k.Priv, pl)
				layer = "claims"
			case "payload-bad-claim":
				// a correctly signed envelope whose payload IS a claims map of a
				// registered profile, with one claim of the wrong CBOR type (or
				// an unknown profile): the COSE layer succeeds, the claims
				// layer fails after having started to fill a claims object
				p := drawProf(t)
				m := GenValid(t, p, false)
				root := m.WireNode()
				ts := targetsOf(p, root)
				w := ts[rapid.IntRange(0, len(ts)-1).Draw(t, "target")]
				if _, ok := applyWireMut(p, root, m, w, "wrongtype", rapid.IntRange(0, 63).Draw(t, "pick")); !ok {
					t.Skip("mutation does not apply")
				}
				pl := icbor.Encode(root)
				if _, derr := psatoken.DecodeClaimsFromCBOR(pl); derr == nil {
					t.Skip("payload still decodes")
				}
				tok, _ = icose.SignedToken(k.Alg, k.Priv, pl)
				layer = "claims"
			case "garbage":
				tok = drawBytes(t, rapid.IntRange(0, 40).Draw(t, "len"), "garbage")
				if _, ok := icose.Split(tok); ok {
					tok = []byte{0x00}
				}
				layer = "cose"
			case "truncated":
				full, _ := icose.SignedToken(k.Alg, k.Priv, baseValid(P2, 0).WireBytes())
				tok = full[:rapid.IntRange(0, len(full)-1).Draw(t, "cut")]
				layer = "cose"
			case "last-token-other-payload":
				// the token this Evidence holds (and has just been verified
				// with every key), re-assembled around OTHER claims: protected
				// header and signature are the genuine ones, the payload is not
				// what they cover - no key verifies it
				if mc.env.kind != "tok" {
					t.Skip("no token yet")
				}
				parts, ok := icose.Split(mc.env.tok)
				if !ok {
					t.Skip("held token has another shape")
				}
				m := GenValid(t, drawProf(t), false)
				pay := m.WireBytes()
				if bytes.Equal(pay, parts.Payload) {
					t.Skip("same payload")
				}
				canonical = true
				tok = icbor.Encode(icose.Envelope(parts.Protected, icbor.Map(), pay, parts.Signature))
				keyIdx = -1
			case "own-last-token":
				if mc.env.kind != "tok" {
					t.Skip("no token yet")
				}
				tok = mc.env.tok
				keyIdx = mc.env.key
				if mc.env.undecodable {
					layer = "claims"
				}
			}
			prevEnv := mc.env
			if mc.sawSign {
				mc.sawDecodeAfterSign = true
			}
			err := mc.ev.UnmarshalCOSE(tok)
			mc.log("UnmarshalCOSE(%s,%s)=%v", kind, k.Name(), err != nil)
			switch layer {
			case "ok":
				if err != nil {
					mc.fail(t, "UnmarshalCOSE of a well-formed %s token failed: %v", kind, err)
				}
				mc.env = c19Env{kind: "tok", tok: tok, key: keyIdx, canonical: canonical}
				mc.replacedSince = false
				mc.lastFailed = false
				mc.opaque = false
				if mc.ev.Claims == nil {
					mc.fail(t, "UnmarshalCOSE succeeded but attached no claims")
				}
			case "claims":
				if err == nil {
					mc.fail(t, "UnmarshalCOSE accepted a payload that is not a claims map (%s)", kind)
				}
				// the Evidence may have taken on the envelope: Verify may go
				// either way, and then only nil claims are acceptable
				mc.env = c19Env{kind: "maybe", tok: tok, key: keyIdx}
				mc.replacedSince = false
				mc.lastFailed = true
			default:
				if err == nil {
					mc.fail(t, "UnmarshalCOSE accepted %s bytes %x", kind, tok)
				}
				// the property does not say whether the old envelope survives
				if prevEnv.kind != "none" {
					mc.env = c19Env{kind: "maybe", tok: prevEnv.tok, key: prevEnv.key}
				}
				mc.lastFailed = true
			}
			mc.verifyAll(t)
		},
		"Verify": func(t *rapid.T) {
			mc.log("Verify*")
			mc.verifyAll(t)
		},
		"TwoSigns": func(t *rapid.T) {
			if mc.ev.Claims == nil || mc.ev.Claims.Validate() != nil {
				t.Skip("no valid claims attached")
			}
			k1 := keys[rapid.IntRange(0, len(keys)-1).Draw(t, "key1")]
			k2 := keys[rapid.IntRange(0, len(keys)-1).Draw(t, "key2")]
			t1, err1 := mc.ev.ValidateAndSign(k1.Signer())
			t2, err2 := mc.ev.Sign(k2.Signer())
			mc.log("TwoSigns(%s,%s)", k1.Name(), k2.Name())
			if err1 != nil || err2 != nil {
				mc.fail(t, "signing twice in a row failed: %v / %v", err1, err2)
			}
			for i, tk := range [][]byte{t1, t2} {
				k := []keyPair{k1, k2}[i]
				if parts, ok := icose.Split(tk); !ok || !icose.Verify(k.Alg, k.Pub, parts.Protected, parts.Payload, parts.Signature) {
					mc.fail(t, "token #%d of two consecutive signs is not accepted by the independent verifier", i+1)
				}
				if mc.opaque {
					continue
				}
				d, err := psatoken.DecodeEvidenceFromCOSE(tk)
				if err != nil || d.Verify(k.Pub) != nil {
					mc.fail(t, "token #%d of two consecutive signs is not independently valid (%v)", i+1, err)
				}
			}
			ki2 := -1
			for i := range keys {
				if keys[i].Name() == k2.Name() {
					ki2 = i
				}
			}
			mc.env = c19Env{kind: "tok", tok: t2, key: ki2, undecodable: mc.opaque}
			mc.replacedSince = false
			mc.lastFailed = false
			mc.sawSign = true
			mc.verifyAll(t)
		},
	})

	cls := []string{}
	if mc.sawFailThenVerify {
		cls = append(cls, "fail-then-verify")
	}
	if mc.sawDecodeAfterSign {
		cls = append(cls, "decode-after-sign")
	}
	if mc.sawFault {
		cls = append(cls, "signer-fault")
	}
	if mc.goodSigns > 0 {
		cls = append(cls, "good-sign")
	}
	if mc.sawOpaque {
		cls = append(cls, "claims-not-decodable-here")
	}
	if mc.sawExt {
		cls = append(cls, "extension-claims")
	}
	key := ""
	if mc.sawFailThenVerify || mc.sawDecodeAfterSign {
		key = strings.Join(mc.trace, ";")
	}
	st.Case(key, cls...)
	if key != "" && st.WantSample() {
		st.Sample(truncate(strings.Join(mc.trace, " ; "), 500))
	}
}

func TestC19_EvidenceHistories(t *testing.T) {
	st := NewStats("C19", "TestC19_EvidenceHistories", "rapid state machine on one Evidence (avg 30 steps): SetClaims(valid|invalid; valid claims of registered extension profiles incl. an extension of an extension and an OID-named one, of an extension profile NOT registered in this process, and claims with non-UTF-8 free text - the latter two encode but cannot be decoded here, the binding clause is then evaluated on the payload bytes), Sign / ValidateAndSign with good signers (EdDSA, ES256, ES384, PS256 keys) and injected signer faults (error, empty signature, nil signature, junk bytes, unsupported algorithm, reserved algorithm 0), UnmarshalCOSE(valid | tampered-signature | payload-not-claims | correctly signed claims map with one wrong-typed claim | garbage | truncated | own last token | the held (and verified) token re-assembled around other claims under its genuine protected header and signature), Verify with every pool key and nil, two consecutive signs. Reference model of the envelope state {none, tok(T,k), maybe(T,k)} and of claim replacement; binding clause evaluated with the independent splitter/verifier at every successful Verify. Non-trivial = history has a failed operation followed by Verify, or a decode after a sign; distinct = history")
	st.Require = []string{"fail-then-verify", "decode-after-sign", "signer-fault", "good-sign", "claims-not-decodable-here", "extension-claims"}
	defer st.Flush(t)
	registerMu.Lock()
	defer registerMu.Unlock()
	restore := psatoken.VerifCheckpointProfiles()
	defer restore()
	for _, es := range extStyles {
		if es.Label == "shadow-p2" {
			continue // stays unregistered: the attester-only case
		}
		if err := psatoken.RegisterProfile(es.Impl); err != nil {
			t.Fatalf("VERIF-INFRA: %v", err)
		}
	}
	// deterministic prelude: a signer that takes 5.5 s to answer (a remote /
	// hardware signer). If the library gives up on it (error, no token), the
	// Evidence must not become verifiable when the answer arrives later.
	if shard, _ := shardInfo(); shard == 0 {
		kp := keyFor(icose.EdDSA, 0)
		lit, _ := baseValid(P2, 1).BuildLiteral()
		ev := &psatoken.Evidence{}
		if err := ev.SetClaims(lit); err != nil {
			t.Fatalf("VERIF-INFRA: %v", err)
		}
		tok, err := ev.ValidateAndSign(&slowSigner{inner: kp.Signer(), delay: 5500 * time.Millisecond})
		if err == nil {
			if d, derr := psatoken.DecodeEvidenceFromCOSE(tok); derr != nil || d.Verify(kp.Pub) != nil || ev.Verify(kp.Pub) != nil {
				t.Fatalf("C19 violated: signing with a slow signer returned a token that does not decode / verify (%v)", derr)
			}
			st.Case("prelude|slow-signer|signed", "slow-signer")
		} else {
			if len(tok) != 0 {
				t.Fatalf("C19 violated: a failed signing attempt (slow signer) returned %d bytes", len(tok))
			}
			for i := 0; i < 4; i++ {
				if ev.Verify(kp.Pub) == nil {
					t.Fatalf("C19 violated: signing with a slow signer FAILED (%v) and returned no token, yet %d ms later the Evidence verifies (the abandoned signer completed the envelope)", err, i*700)
				}
				time.Sleep(700 * time.Millisecond)
			}
			st.Case("prelude|slow-signer|refused", "slow-signer")
		}
	}
	c19Stall = watchStalls("C19", "TestC19_EvidenceHistories")
	defer c19Stall.Stop()
	rapid.Check(t, func(t *rapid.T) { c19Run(t, st) })
}

var _ = icbor.Encode
