package checks

// Fingerprint: a canonical rendering of the object graph reachable from a
// value — exported and unexported fields, the pointers / slices / interfaces
// behind them (nil vs empty distinguished, maps sorted, cycles cut). Reads
// only; unexported fields are read through reflect.NewAt on their address.

import (
	"fmt"
	"reflect"
	"sort"
	"strings"
	"unsafe"
)

type fpState struct {
	sb      strings.Builder
	visited map[uintptr]int
	depth   int
	// skipType: fully-qualified type names not descended into (rendered as
	// opaque); used for state no caller can observe directly.
	skip map[string]bool
	// exportedOnly: unexported struct fields are not rendered (state no
	// caller can reach directly)
	exportedOnly bool
}

// FingerprintExported renders only what a caller can reach through exported
// fields (pointers, slices and interfaces behind them included).
func FingerprintExported(v any, skipTypes ...string) string {
	st := &fpState{visited: map[uintptr]int{}, skip: map[string]bool{}, exportedOnly: true}
	for _, s := range skipTypes {
		st.skip[s] = true
	}
	st.walk(reflect.ValueOf(v))
	return st.sb.String()
}

func Fingerprint(v any, skipTypes ...string) string {
	st := &fpState{visited: map[uintptr]int{}, skip: map[string]bool{}}
	for _, s := range skipTypes {
		st.skip[s] = true
	}
	st.walk(reflect.ValueOf(v))
	return st.sb.String()
}

func readable(v reflect.Value) reflect.Value {
	if v.CanInterface() || !v.CanAddr() {
		return v
	}
	return reflect.NewAt(v.Type(), unsafe.Pointer(v.UnsafeAddr())).Elem()
}

func (s *fpState) walk(v reflect.Value) {
	if !v.IsValid() {
		s.sb.WriteString("<invalid>")
		return
	}
	s.depth++
	defer func() { s.depth-- }()
	if s.depth > 64 {
		s.sb.WriteString("<deep>")
		return
	}
	t := v.Type()
	if s.skip[t.String()] {
		s.sb.WriteString("<" + t.String() + ">")
		return
	}
	switch v.Kind() {
	case reflect.Pointer:
		if v.IsNil() {
			s.sb.WriteString("nil")
			return
		}
		addr := v.Pointer()
		if id, ok := s.visited[addr]; ok && v.Elem().Kind() == reflect.Struct {
			fmt.Fprintf(&s.sb, "&#%d", id)
			return
		}
		s.visited[addr] = len(s.visited)
		s.sb.WriteString("&")
		s.walk(v.Elem())
	case reflect.Interface:
		if v.IsNil() {
			s.sb.WriteString("nil-iface")
			return
		}
		fmt.Fprintf(&s.sb, "(%s)", v.Elem().Type())
		s.walk(v.Elem())
	case reflect.Struct:
		s.sb.WriteString(t.String() + "{")
		for i := 0; i < v.NumField(); i++ {
			f := v.Field(i)
			if s.exportedOnly && !t.Field(i).IsExported() {
				continue
			}
			if !f.CanInterface() {
				if !f.CanAddr() {
					// copy into an addressable value to read unexported fields
					c := reflect.New(t).Elem()
					c.Set(v)
					f = c.Field(i)
				}
				f = readable(f)
			}
			s.sb.WriteString(t.Field(i).Name + ":")
			s.walk(f)
			s.sb.WriteString(";")
		}
		s.sb.WriteString("}")
	case reflect.Slice:
		if v.IsNil() {
			s.sb.WriteString("nil-slice")
			return
		}
		if t.Elem().Kind() == reflect.Uint8 {
			b := make([]byte, v.Len())
			reflect.Copy(reflect.ValueOf(b), v)
			fmt.Fprintf(&s.sb, "h'%x'", b)
			return
		}
		s.sb.WriteString("[")
		for i := 0; i < v.Len(); i++ {
			s.walk(v.Index(i))
			s.sb.WriteString(",")
		}
		s.sb.WriteString("]")
	case reflect.Array:
		s.sb.WriteString("[")
		for i := 0; i < v.Len(); i++ {
			s.walk(v.Index(i))
			s.sb.WriteString(",")
		}
		s.sb.WriteString("]")
	case reflect.Map:
		if v.IsNil() {
			s.sb.WriteString("nil-map")
			return
		}
		type kv struct {
			k string
			v reflect.Value
		}
		var es []kv
		it := v.MapRange()
		for it.Next() {
			sub := &fpState{visited: map[uintptr]int{}, skip: s.skip}
			sub.walk(it.Key())
			es = append(es, kv{sub.sb.String(), it.Value()})
		}
		sort.Slice(es, func(i, j int) bool { return es[i].k < es[j].k })
		s.sb.WriteString("map{")
		for _, e := range es {
			s.sb.WriteString(e.k + "=>")
			s.walk(e.v)
			s.sb.WriteString(",")
		}
		s.sb.WriteString("}")
	case reflect.String:
		fmt.Fprintf(&s.sb, "%q", v.String())
	case reflect.Bool:
		fmt.Fprintf(&s.sb, "%v", v.Bool())
	case reflect.Int, reflect.Int8, reflect.Int16, reflect.Int32, reflect.Int64:
		fmt.Fprintf(&s.sb, "%d", v.Int())
	case reflect.Uint, reflect.Uint8, reflect.Uint16, reflect.Uint32, reflect.Uint64, reflect.Uintptr:
		fmt.Fprintf(&s.sb, "%d", v.Uint())
	case reflect.Float32, reflect.Float64:
		fmt.Fprintf(&s.sb, "%v", v.Float())
	case reflect.Func, reflect.Chan, reflect.UnsafePointer:
		if v.IsNil() {
			s.sb.WriteString("nil-" + v.Kind().String())
		} else {
			s.sb.WriteString(v.Kind().String())
		}
	default:
		fmt.Fprintf(&s.sb, "<%s>", v.Kind())
	}
}

// firstDiff shows where two fingerprints part.
func firstDiff(a, b string) string {
	n := len(a)
	if len(b) < n {
		n = len(b)
	}
	i := 0
	for i < n && a[i] == b[i] {
		i++
	}
	from := i - 60
	if from < 0 {
		from = 0
	}
	end := func(s string) string {
		e := i + 80
		if e > len(s) {
			e = len(s)
		}
		return s[from:e]
	}
	return fmt.Sprintf("...%s  vs  ...%s", end(a), end(b))
}
