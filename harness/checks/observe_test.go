package checks

// Observational snapshots of library objects: the tuple of everything a
// caller can see through the public API.

import (
	"errors"
	"fmt"
	"strings"

	"github.com/veraison/psatoken"
)

func classify(err error) ECls {
	switch {
	case err == nil:
		return EOK
	case errors.Is(err, psatoken.ErrMissingOptional):
		return EMissOpt
	case errors.Is(err, psatoken.ErrMissingMandatory):
		return EMissMand
	case errors.Is(err, psatoken.ErrWrongSyntax):
		return ESyntax
	case errors.Is(err, psatoken.ErrWrongProfile):
		return EProfile
	case errors.Is(err, psatoken.ErrNotInProfile):
		return ENotInProfile
	}
	return EOther
}

// classSet returns every sentinel class the error satisfies.
func classSet(err error) map[ECls]bool {
	r := map[ECls]bool{}
	if err == nil {
		return r
	}
	if errors.Is(err, psatoken.ErrMissingOptional) {
		r[EMissOpt] = true
	}
	if errors.Is(err, psatoken.ErrMissingMandatory) {
		r[EMissMand] = true
	}
	if errors.Is(err, psatoken.ErrWrongSyntax) {
		r[ESyntax] = true
	}
	if errors.Is(err, psatoken.ErrWrongProfile) {
		r[EProfile] = true
	}
	if errors.Is(err, psatoken.ErrNotInProfile) {
		r[ENotInProfile] = true
	}
	return r
}

func errStr(err error) string {
	k := classify(err)
	if k == EOther {
		return "!other:" + err.Error()
	}
	return "!" + k.String()
}

func obsComp(c psatoken.ISwComponent) string {
	if c == nil {
		return "{nil}"
	}
	opt := func(s string, err error) string {
		if err != nil {
			if classify(err) == EMissOpt {
				return "-"
			}
			return errStr(err)
		}
		return fmt.Sprintf("%q", s)
	}
	byt := func(b []byte, err error) string {
		if err != nil {
			return errStr(err)
		}
		return hexs(b)
	}
	return fmt.Sprintf("{t:%s v:%s ver:%s s:%s d:%s}",
		opt(c.GetMeasurementType()), byt(c.GetMeasurementValue()), opt(c.GetVersion()),
		byt(c.GetSignerID()), opt(c.GetMeasurementDesc()))
}

// GetterObs is the result of one getter: class + rendered value.
type GetterObs struct {
	Cls ECls
	Val string // rendered value when Cls == EOK, error text class otherwise
}

func observeGetter(c psatoken.IClaims, k Claim) GetterObs {
	ren := func(v string, err error) GetterObs {
		if err != nil {
			return GetterObs{classify(err), errStr(err)}
		}
		return GetterObs{EOK, v}
	}
	switch k {
	case CProfile:
		v, err := c.GetProfile()
		return ren(fmt.Sprintf("%q", v), err)
	case CClientID:
		v, err := c.GetClientID()
		return ren(fmt.Sprint(v), err)
	case CLifecycle:
		v, err := c.GetSecurityLifeCycle()
		return ren(fmt.Sprint(v), err)
	case CImplID:
		v, err := c.GetImplID()
		return ren(hexs(v), err)
	case CBootSeed:
		v, err := c.GetBootSeed()
		return ren(hexs(v), err)
	case CCertRef:
		v, err := c.GetCertificationReference()
		return ren(fmt.Sprintf("%q", v), err)
	case CSwComps:
		v, err := c.GetSoftwareComponents()
		if err != nil {
			return ren("", err)
		}
		if len(v) == 0 {
			return GetterObs{EOK, "[]"}
		}
		var parts []string
		for _, sc := range v {
			parts = append(parts, obsComp(sc))
		}
		// the list the getter returned is the CALLER's: it re-orders it in
		// place after looking at it (sorting for display, filtering) - which
		// is nothing to the claims-set; the next read shows
		for i, j := 0, len(v)-1; i < j; i, j = i+1, j-1 {
			v[i], v[j] = v[j], v[i]
		}
		return GetterObs{EOK, "[" + strings.Join(parts, " ") + "]"}
	case CNonce:
		v, err := c.GetNonce()
		return ren(hexs(v), err)
	case CInstID:
		v, err := c.GetInstID()
		return ren(hexs(v), err)
	case CVSI:
		v, err := c.GetVSI()
		return ren(fmt.Sprintf("%q", v), err)
	}
	panic("bad claim")
}

// ObserveGetters renders the results of all ten getters (and the component
// getters of every returned component).
func ObserveGetters(c psatoken.IClaims) string {
	var sb strings.Builder
	for k := Claim(0); k < nClaims; k++ {
		o := observeGetter(c, k)
		fmt.Fprintf(&sb, "%s=%s;", k, o.Val)
	}
	return sb.String()
}

// Obs is the full observable state of a claims-set.
type Obs struct {
	Type    string
	Getters string
	Valid   string
	CBOR    string
	JSON    string
}

func Observe(c psatoken.IClaims) Obs {
	o := Obs{Type: fmt.Sprintf("%T", c), Getters: ObserveGetters(c)}
	if err := c.Validate(); err != nil {
		o.Valid = errStr(err)
	} else {
		o.Valid = "ok"
	}
	if b, err := psatoken.EncodeClaimsToCBOR(c); err != nil {
		o.CBOR = "!err"
	} else {
		o.CBOR = hexs(b)
	}
	if b, err := psatoken.EncodeClaimsToJSON(c); err != nil {
		o.JSON = "!err"
	} else {
		o.JSON = string(b)
	}
	return o
}

func (o Obs) Diff(p Obs) string {
	var d []string
	if o.Type != p.Type {
		d = append(d, fmt.Sprintf("type %s vs %s", o.Type, p.Type))
	}
	if o.Getters != p.Getters {
		d = append(d, fmt.Sprintf("getters\n   %s\n   %s", o.Getters, p.Getters))
	}
	if o.Valid != p.Valid {
		d = append(d, fmt.Sprintf("validity %s vs %s", o.Valid, p.Valid))
	}
	if o.CBOR != p.CBOR {
		d = append(d, fmt.Sprintf("cbor %s vs %s", o.CBOR, p.CBOR))
	}
	if o.JSON != p.JSON {
		d = append(d, fmt.Sprintf("json %s vs %s", o.JSON, p.JSON))
	}
	return strings.Join(d, "; ")
}

// checkGettersAgainstModel compares all getters of c with the model's
// expectation; returns "" if they agree.
func checkGettersAgainstModel(c psatoken.IClaims, m *MClaims, exactClass bool) string {
	for k := Claim(0); k < nClaims; k++ {
		want, alt := m.Expect(k)
		got := observeGetter(c, k)
		if want == EOK {
			if got.Cls != EOK {
				return fmt.Sprintf("getter %s: got %s, model says it succeeds with %s", k, got.Val, m.ExpectValue(k))
			}
			if wv := m.ExpectValue(k); got.Val != wv {
				return fmt.Sprintf("getter %s: got %s, want %s", k, got.Val, wv)
			}
			continue
		}
		if got.Cls == EOK {
			return fmt.Sprintf("getter %s: succeeded with %s, model says %s", k, got.Val, want)
		}
		if exactClass && got.Cls != want && (alt < 0 || got.Cls != alt) {
			// component errors may carry the class of any offending field
			if k == CSwComps {
				ok := false
				for _, sc := range m.Comps {
					if compClasses(sc)[got.Cls] {
						ok = true
					}
				}
				if ok {
					continue
				}
			}
			return fmt.Sprintf("getter %s: error class %s (%s), model says %s", k, got.Cls, got.Val, want)
		}
	}
	return ""
}
