//go:build !race

package checks

const raceEnabled = false
