package checks

// rapid generators for model values. Construction, not rejection: every draw
// produces a usable case; validity is decided afterwards by the model rules.

import (
	"strings"

	"pgregory.net/rapid"
)

var (
	genBool   = rapid.Bool()
	genByte   = rapid.Byte()
	genInt32  = rapid.Int32()
	genUint16 = rapid.Uint16()
)

func drawBytes(t *rapid.T, n int, label string) []byte {
	// One draw for a fill pattern plus a few individually drawn bytes keeps
	// the number of draws (and shrink work) small while still varying content.
	b := make([]byte, n)
	seed := rapid.Uint32().Draw(t, label+".fill")
	x := seed | 1
	for i := range b {
		x ^= x << 13
		x ^= x >> 17
		x ^= x << 5
		b[i] = byte(x)
	}
	if seed%4 == 0 {
		for i := range b {
			b[i] = byte(seed >> 8)
		}
	}
	if seed%8 == 5 && n >= 5 {
		// bytes that LOOK like CBOR / COSE structure when scanned for: a map
		// key of one of the profiles followed by a well-formed value head
		// (e.g. eat_profile followed by a text string), envelope heads,
		// break / null / empty-map codes, 0x00 or 0xff at either end
		fr := byteFragments[int(seed>>3)%len(byteFragments)]
		if len(fr) > n {
			fr = fr[:n]
		}
		at := 0
		if n > len(fr) {
			at = int(seed>>11) % (n - len(fr) + 1)
		}
		copy(b[at:], fr)
	}
	if seed%16 == 3 && n > 0 {
		// binary values that happen to be TEXT: only hex digits (lower / upper
		// / mixed), only decimal digits, base64 / base64url alphabet, printable
		// ASCII - what a lenient setter might "helpfully" decode
		alphabets := []string{"0123456789abcdef", "0123456789ABCDEF", "0123456789abcdefABCDEF", "0123456789", "ABCDEFGHIJKLMNOPQRSTUVWXYZabcdefghijklmnopqrstuvwxyz0123456789+/", "ABCDEFGHIJKLMNOPQRSTUVWXYZabcdefghijklmnopqrstuvwxyz0123456789-_", " !#$%&()*+,-./:;<=>?@[]^_{|}~abcXYZ019"}
		al := alphabets[int(seed>>4)%len(alphabets)]
		y := seed>>8 | 1
		for i := range b {
			y ^= y << 13
			y ^= y >> 17
			y ^= y << 5
			b[i] = al[int(y>>3)%len(al)]
		}
		if (seed>>7)%4 == 0 && n >= 4 {
			b[n-1], b[n-2] = '=', '=' // base64 padding
		}
	}
	if seed%16 == 9 && n > 0 {
		b[n-1] = []byte{0x00, 0xff, 0x00, 0x80}[(seed>>4)%4]
		if (seed>>6)%2 == 0 {
			b[0] = b[n-1]
		}
	}
	return b
}

var byteFragments = [][]byte{
	append([]byte{0x19, 0x01, 0x09, 0x78, 0x18}, "http://arm.com/psa/2.0.0"...),
	{0x19, 0x01, 0x09, 0x61, 0x41},
	{0x19, 0x01, 0x09, 0x60},
	append([]byte{0x19, 0x01, 0x09, 0x72}, "PSA_IOT_PROFILE_1"...),
	append([]byte{0x3a, 0x00, 0x01, 0x24, 0xf7, 0x72}, "PSA_IOT_PROFILE_1"...),
	{0x3a, 0x00, 0x01, 0x24, 0xf9, 0x19, 0x30, 0x00},
	{0x19, 0x09, 0x5b, 0x19, 0x60, 0x00},
	{0x0a, 0x58, 0x20},
	{0xd2, 0x84, 0x43, 0xa1, 0x01, 0x26, 0xa0},
	{0xff, 0xff, 0xf6, 0xa0, 0xbf},
	{0xd9, 0x02, 0x59, 0xa0},
	[]byte(`"psa-nonce":"AA=="`),
	[]byte(`,"eat-profile":"x"}`),
}

var interestingTexts = []string{
	"a", "BL", "PRoT", "1.2.3", "sha-256", "héllo wörld", "日本語", "a\"b\\c", "\x00", "  ",
	"<script>&amp;</script>", "\n\t\r", " ", "\u007f", "🙂", "é", "\ufeffbom", "null", "0",
	"https://psa-verifier.org?a=1&b=<2>", `\u0026`, `a\u003cb\u003e`, `\`, `\\u0026amp;`, "</script>", "\u2028\u2029", `"`, `\"`, "\x7f\x1f", `{"psa-profile":"x"}`,
	"https://psa-verifier.org", "very long text very long text very long text very long text very long text",
	// texts that equal member names, keys and profile names
	"eat-profile", "psa-profile", "psa-client-id", "psa-verification-service-indicator", "x-profile", "timestamp", "PSA_IOT_PROFILE_1", "http://arm.com/psa/2.0.0", "265", "-75000",
	// the hash algorithm names of the IANA registry the PSA specifications
	// point at for the measurement description, and other spellings of them
	"md2", "md5", "sha-1", "sha-224", "sha-256", "sha-384", "sha-512", "shake128", "shake256", "SHA256", "Sha-512", "SHA_384", "sha256", "SHA-1",
	// punctuation that matters to somebody's regular expression or format string
	"[.text, .rodata, ]", "https://x/{v1,}", ",}", ", ]", "a,\n}", "100%", "%w", "%s%d%v", "1.4.0+rc%2", "%!s(MISSING)", "$1", "\\1", "a=b&c=d", "+1-2=3",
	// URL-shaped texts that net/url refuses to parse, and other texts with a
	// scheme separator
	"coaps://[fe80::1%eth0]:5684/verify", "http://a b/", "http://x:notaport/", "https://v.example/%", "100% trusted", "://x", ":x", "http://[::1", "https://v.example/\t", "mailto:a@b", "\ufffd", "a\ufffdb",
}

func drawText(t *rapid.T, label string, allowEmpty bool) string {
	if rapid.IntRange(0, 39).Draw(t, label+".long") == 0 {
		// lengths around the CBOR head-width boundaries
		n := rapid.SampledFrom([]int{23, 24, 25, 255, 256, 257}).Draw(t, label+".len")
		return strings.Repeat("t", n)
	}
	switch rapid.IntRange(0, 3).Draw(t, label+".kind") {
	case 0:
		return rapid.SampledFrom(interestingTexts).Draw(t, label)
	case 1:
		min := 1
		if allowEmpty {
			min = 0
		}
		return rapid.StringN(min, 12, -1).Draw(t, label)
	case 2:
		if allowEmpty {
			return ""
		}
		return "x"
	default:
		return rapid.StringMatching(`[a-zA-Z0-9 ._/-]{1,16}`).Draw(t, label)
	}
}

func drawHashLen(t *rapid.T, label string) int {
	return rapid.SampledFrom([]int{32, 32, 48, 64}).Draw(t, label)
}

func drawBadLen(t *rapid.T, label string, good func(int) bool, near []int) int {
	if rapid.IntRange(0, 15).Draw(t, label+".wrap") == 0 {
		// a length whose low 8 bits are a good length
		for k := 0; k <= 80; k++ {
			if good(k) && !good(256+k) {
				return 256 + k
			}
		}
	}
	if genBool.Draw(t, label+".near") {
		return rapid.SampledFrom(near).Draw(t, label)
	}
	n := rapid.IntRange(0, 80).Draw(t, label)
	for good(n) {
		n = (n + 1) % 81
	}
	return n
}

var validLifecycles = []uint16{0x0000, 0x00ff, 0x1000, 0x10ff, 0x2000, 0x20ff, 0x3000, 0x30ff, 0x4000, 0x40ff, 0x5000, 0x50ff, 0x6000, 0x60ff}
var invalidLifecycles = []uint16{0x0100, 0x0fff, 0x1100, 0x1fff, 0x2100, 0x2fff, 0x3100, 0x3fff, 0x4100, 0x4fff, 0x5100, 0x5fff, 0x6100, 0x6fff, 0x7000, 0x8000, 0xffff, 0x0800, 0x3001 + 0x0100}

func drawValidLifecycle(t *rapid.T) uint16 {
	if genBool.Draw(t, "lc.boundary") {
		return rapid.SampledFrom(validLifecycles).Draw(t, "lc")
	}
	hi := rapid.Uint16Range(0, 6).Draw(t, "lc.hi")
	lo := rapid.Uint16Range(0, 255).Draw(t, "lc.lo")
	return hi<<12 | lo
}

func drawInvalidLifecycle(t *rapid.T) uint16 {
	if genBool.Draw(t, "lc.boundary") {
		return rapid.SampledFrom(invalidLifecycles).Draw(t, "lc")
	}
	v := genUint16.Draw(t, "lc")
	for lifecycleState(v) >= 0 {
		v += 0x0100
	}
	return v
}

const digits13 = "1234567890123"

var certAlphabet = []byte{'0', '9', '-', ' ', '\n', 'a', 0x00, '/', ':'}

func drawDigits(t *rapid.T, n int, label string) string {
	b := make([]byte, n)
	seed := rapid.Uint64().Draw(t, label)
	for i := range b {
		b[i] = '0' + byte(seed%10)
		seed = seed/10 + uint64(i)*7919
	}
	return string(b)
}

func drawValidCertRef(t *rapid.T, p Prof) string {
	s := drawDigits(t, 13, "cert.ean13")
	if p == P2 || genBool.Draw(t, "cert.plus5") {
		s += "-" + drawDigits(t, 5, "cert.ext")
	}
	return s
}

// multiByteDigitVariants: strings of the SAME BYTE LENGTH as base in which
// runs of ASCII digits are replaced by non-ASCII decimal digits (Arabic-Indic,
// 2 bytes each; fullwidth, 3 bytes each): invalid, but they pass any check
// made of len() plus a Unicode-aware digit test.
func multiByteDigitVariants(base string) []string {
	var r []string
	isD := func(b byte) bool { return b >= '0' && b <= '9' }
	for i := 0; i+1 < len(base); i++ {
		if isD(base[i]) && isD(base[i+1]) {
			r = append(r, base[:i]+"٣"+base[i+2:])
		}
		if i+2 < len(base) && isD(base[i]) && isD(base[i+1]) && isD(base[i+2]) {
			r = append(r, base[:i]+"１"+base[i+3:])
		}
	}
	// as many replacements as fit
	all := []byte{}
	for i := 0; i < len(base); {
		if i+1 < len(base) && isD(base[i]) && isD(base[i+1]) {
			all = append(all, "٣"...)
			i += 2
		} else {
			all = append(all, base[i])
			i++
		}
	}
	return append(r, string(all))
}

// drawInvalidCertRef: a single edit of a valid reference (or a far value).
func drawInvalidCertRef(t *rapid.T, p Prof) string {
	for try := 0; ; try++ {
		base := drawDigits(t, 13, "cert.ean13")
		if genBool.Draw(t, "cert.plus5") {
			base += "-" + drawDigits(t, 5, "cert.ext")
		}
		var s string
		switch rapid.IntRange(0, 8).Draw(t, "cert.edit") {
		case 8: // parts of the format repeated / combined
			e13, e5 := drawDigits(t, 13, "cert.r13"), drawDigits(t, 5, "cert.r5")
			s = rapid.SampledFrom([]string{e13 + "-" + e5 + "-" + e5, e13 + "-" + e5 + "-" + e5 + "-" + e5, e13 + e13, e13 + "-" + e13, e13 + "-" + e5 + e5, e13 + "--" + e5, e13 + "-" + e5 + "-", "-" + e13 + "-" + e5, e13 + " " + e5, e13 + "-" + e5 + " " + e13 + "-" + e5, e13 + "-" + e5 + "," + e13, e5 + "-" + e13}).Draw(t, "cert.repeat")
		case 6: // right length and alphabet, dash somewhere else
			d := drawDigits(t, 18, "cert.d18")
			i := rapid.IntRange(0, 18).Draw(t, "cert.dash")
			s = d[:i] + "-" + d[i:]
		case 7: // two edits
			b := []byte(base)
			for k := 0; k < 2; k++ {
				i := rapid.IntRange(0, len(b)-1).Draw(t, "cert.pos")
				b[i] = rapid.SampledFrom(certAlphabet).Draw(t, "cert.ch")
			}
			s = string(b)
		case 5: // same byte length, non-ASCII digits
			vs := multiByteDigitVariants(base)
			s = vs[rapid.IntRange(0, len(vs)-1).Draw(t, "cert.mb")]
		case 0: // delete
			i := rapid.IntRange(0, len(base)-1).Draw(t, "cert.pos")
			s = base[:i] + base[i+1:]
		case 1: // substitute
			i := rapid.IntRange(0, len(base)-1).Draw(t, "cert.pos")
			ch := rapid.SampledFrom(certAlphabet).Draw(t, "cert.ch")
			s = base[:i] + string(ch) + base[i+1:]
		case 2: // insert
			i := rapid.IntRange(0, len(base)).Draw(t, "cert.pos")
			ch := rapid.SampledFrom(certAlphabet).Draw(t, "cert.ch")
			s = base[:i] + string(ch) + base[i:]
		case 3: // non-ASCII digit
			i := rapid.IntRange(0, len(base)-1).Draw(t, "cert.pos")
			s = base[:i] + "٣" + base[i+1:]
		default:
			s = rapid.SampledFrom([]string{"", "-", "1234567890123-", "-12345", "1234567890123-1234", "1234567890123-123456", "abc", "1234567890123\n", "\n1234567890123-12345", "1234567890123-12345\n"}).Draw(t, "cert.far")
			if p == P2 && genBool.Draw(t, "cert.p1form") {
				s = base[:13] // EAN-13 alone is not valid for profile 2
			}
		}
		if !certRefOK(p, s) {
			return s
		}
		if try > 8 {
			return "x"
		}
	}
}

func drawComp(t *rapid.T, valid bool, label string) *MComp {
	c := &MComp{}
	if genBool.Draw(t, label+".hasType") {
		c.Type = sp(drawText(t, label+".type", true))
	}
	if genBool.Draw(t, label+".hasVer") {
		c.Version = sp(drawText(t, label+".ver", true))
	}
	if genBool.Draw(t, label+".hasDesc") {
		c.Desc = sp(drawText(t, label+".desc", true))
	}
	c.Value = bp(drawBytes(t, drawHashLen(t, label+".vlen"), label+".value"))
	c.Signer = bp(drawBytes(t, drawHashLen(t, label+".slen"), label+".signer"))
	if !valid {
		which := rapid.IntRange(0, 7).Draw(t, label+".defect")
		switch which {
		case 6:
			// both mandatory fields absent
			c.Value, c.Signer = nil, nil
		case 7:
			// a component without any field at all
			*c = MComp{}
		case 0:
			c.Value = nil
		case 1:
			c.Signer = nil
		case 2:
			c.Value = bp(drawBytes(t, drawBadLen(t, label+".badv", isHashLen, []int{0, 31, 33, 47, 49, 63, 65, 16, 20, 28, 24, 56, 96, 128}), label+".value"))
		case 3:
			c.Signer = bp(drawBytes(t, drawBadLen(t, label+".bads", isHashLen, []int{0, 31, 33, 47, 49, 63, 65, 16, 20, 28, 24, 56, 96, 128}), label+".signer"))
		case 4:
			c.Value = nil
			c.Signer = bp(drawBytes(t, 31, label+".signer"))
		default:
			c.Value = bp(drawBytes(t, 65, label+".value"))
			c.Signer = nil
		}
	}
	return c
}

func drawValidComps(t *rapid.T, label string) []*MComp {
	if rapid.IntRange(0, 29).Draw(t, label+".many") == 0 {
		// a long list around the CBOR head-width boundaries: one drawn
		// component replicated with a varying byte
		n := rapid.SampledFrom([]int{23, 24, 25, 24, 23, 255, 256}).Draw(t, label+".n.big")
		proto := drawComp(t, true, label)
		cs := make([]*MComp, n)
		for i := range cs {
			c := proto.Clone()
			(*c.Value)[0] = byte(i)
			(*c.Value)[1] = byte(i >> 8)
			cs[i] = c
		}
		return cs
	}
	n := rapid.SampledFrom([]int{1, 1, 2, 2, 3, 4}).Draw(t, label+".n")
	cs := make([]*MComp, n)
	for i := range cs {
		cs[i] = drawComp(t, true, label)
	}
	if rapid.IntRange(0, 5).Draw(t, label+".twin") == 0 {
		// two components that are EQUAL field by field (distinct objects),
		// next to each other: the same image in two slots
		i := rapid.IntRange(0, n-1).Draw(t, label+".twin.of")
		cs = append(cs[:i+1], append([]*MComp{cs[i].Clone()}, cs[i+1:]...)...)
	}
	return cs
}

// GenValid draws a valid claims-set of profile p. setterBuildable restricts
// the value to what NewClaims+setters can produce (P1 flag value 1).
func GenValid(t *rapid.T, p Prof, setterBuildable bool) *MClaims {
	m := &MClaims{Prof: p}
	if p == P2 || genBool.Draw(t, "profile.explicit") {
		m.Profile = sp(p.Name())
	}
	cid := rapid.OneOf(rapid.SampledFrom([]int32{0, 1, -1, 2147483647, -2147483648, 23, 24, -24, -25, 255, 256, 65535, 65536}), genInt32).Draw(t, "clientid")
	m.ClientID = &cid
	m.Lifecycle = u16p(drawValidLifecycle(t))
	m.ImplID = bp(drawBytes(t, 32, "implid"))
	if p == P1 {
		m.BootSeed = bp(drawBytes(t, 32, "bootseed"))
	} else if genBool.Draw(t, "bootseed.present") {
		n := rapid.SampledFrom([]int{8, 9, 16, 31, 32, 32}).Draw(t, "bootseed.len")
		m.BootSeed = bp(drawBytes(t, n, "bootseed"))
	}
	if genBool.Draw(t, "cert.present") {
		m.CertRef = sp(drawValidCertRef(t, p))
	}
	if p == P1 && rapid.IntRange(0, 3).Draw(t, "sw.nomeas") == 0 {
		v := uint64(1)
		if !setterBuildable {
			v = rapid.SampledFrom([]uint64{1, 1, 1, 0, 2, 255, 65536, 1<<53 + 1, 1<<63 - 1, 1<<64 - 1}).Draw(t, "nomeas.val")
		}
		m.NoMeas = &v
		if !setterBuildable && genBool.Draw(t, "sw.nilcontainer") {
			m.CompsNil = true
		}
	} else {
		m.Comps = drawValidComps(t, "sw")
	}
	ns := [][]byte{drawBytes(t, drawHashLen(t, "nonce.len"), "nonce")}
	m.Nonces = &ns
	inst := drawBytes(t, 33, "instid")
	inst[0] = 0x01
	m.InstID = &inst
	if genBool.Draw(t, "vsi.present") {
		m.VSI = sp(drawText(t, "vsi", false))
	}
	return m
}

// deviate makes claim c of m invalid (or absent-when-mandatory) in a drawn way.
func deviate(t *rapid.T, m *MClaims, c Claim, literalOnly bool) {
	p := m.Prof
	switch c {
	case CProfile:
		if p == P1 {
			m.Profile = sp(rapid.SampledFrom([]string{P2Name, "", "PSA_IOT_PROFILE_2", "psa_iot_profile_1", "http://example.com/x", "PSA_IOT_PROFILE_1 ", " PSA_IOT_PROFILE_1", "PSA_IOT_PROFILE_1\x00",
				// long wrong names (messages that echo them get long)
				"a missing optional claim", "not in profile", "claim not in profile", "missing mandatory claim", "wrong syntax", "%!w(<nil>)",
				"PSA_IOT_PROFILE_1" + strings.Repeat("_X", 150), strings.Repeat("é", 200), "http://example.com/" + strings.Repeat("a", 1000)}).Draw(t, "profile.bad"))
		} else {
			if genBool.Draw(t, "profile.absent") {
				m.Profile = nil
			} else {
				m.Profile = sp(rapid.SampledFrom([]string{"http://example.com/other", "http://arm.com/psa/2.0.1", "1.2.3.4", "http://arm.com/psa/2.0.0/", "HTTP://arm.com/psa/2.0.0", "Http://arm.com/psa/2.0.0", "http://arm.com/psa/2.0.0#", "http://arm.com/psa/2.0.0?", "http://ARM.com/psa/2.0.0", "http://arm.com:80/psa/2.0.0", "http://arm.com/psa/2.0.0 ", "http://arm.com/psa/2%2E0.0",
					"urn:missing optional", "urn:x:not in profile", "http://example.com/missing%20optional",
					"http://arm.com/psa/2.0.0/" + strings.Repeat("x", 300), "http://example.com/" + strings.Repeat("é", 200), "urn:" + strings.Repeat("a", 1000)}).Draw(t, "profile.bad"))
			}
		}
	case CClientID:
		m.ClientID = nil
	case CLifecycle:
		if rapid.IntRange(0, 3).Draw(t, "lc.absent") == 0 {
			m.Lifecycle = nil
		} else {
			m.Lifecycle = u16p(drawInvalidLifecycle(t))
		}
	case CImplID:
		if rapid.IntRange(0, 3).Draw(t, "impl.absent") == 0 {
			m.ImplID = nil
		} else {
			m.ImplID = bp(drawBytes(t, drawBadLen(t, "impl.len", func(n int) bool { return n == 32 }, []int{0, 1, 31, 33, 64}), "implid"))
		}
	case CBootSeed:
		if p == P1 && rapid.IntRange(0, 3).Draw(t, "boot.absent") == 0 {
			m.BootSeed = nil
		} else {
			near := []int{0, 7, 33, 64}
			if p == P1 {
				near = []int{0, 8, 31, 33}
			}
			m.BootSeed = bp(drawBytes(t, drawBadLen(t, "boot.len", func(n int) bool { return bootSeedOK(p, n) }, near), "bootseed"))
		}
	case CCertRef:
		m.CertRef = sp(drawInvalidCertRef(t, p))
	case CSwComps:
		kind := rapid.IntRange(0, 5).Draw(t, "sw.defect")
		switch {
		case kind == 5: // null entries: alone, before / after / between well-formed components
			good := drawValidComps(t, "sw.null")
			switch rapid.IntRange(0, 3).Draw(t, "sw.nullshape") {
			case 0:
				m.Comps = []*MComp{{NilEntry: true}}
			case 1:
				m.Comps = append([]*MComp{{NilEntry: true}}, good...)
			case 2:
				m.Comps = append(good, &MComp{NilEntry: true})
			default:
				m.Comps = append(append([]*MComp{good[0]}, &MComp{NilEntry: true}), good[1:]...)
			}
			m.CompsNil = false
			if p != P1 || genBool.Draw(t, "sw.null.noflag") {
				m.NoMeas = nil
			} else if m.NoMeas == nil {
				m.NoMeas = u64p(1)
			}
		case kind == 0: // nothing at all
			m.Comps = nil
			m.NoMeas = nil
			m.CompsNil = genBool.Draw(t, "sw.nilcontainer")
		case kind == 1 && p == P1: // both list and flag
			if len(m.Comps) == 0 {
				m.Comps = drawValidComps(t, "sw")
				m.CompsNil = false
			}
			m.NoMeas = u64p(rapid.SampledFrom([]uint64{1, 0, 2}).Draw(t, "nomeas.val"))
			if genBool.Draw(t, "sw.flag+badcomp") {
				// ... and one entry of that list is malformed as well
				i := rapid.IntRange(0, len(m.Comps)-1).Draw(t, "sw.badidx2")
				m.Comps[i] = drawComp(t, false, "sw.bad2")
			}
		default: // a bad component at a random index
			if len(m.Comps) == 0 {
				m.Comps = drawValidComps(t, "sw")
				m.CompsNil = false
				m.NoMeas = nil
			}
			i := rapid.IntRange(0, len(m.Comps)-1).Draw(t, "sw.badidx")
			m.Comps[i] = drawComp(t, false, "sw.bad")
		}
	case CNonce:
		kind := rapid.IntRange(0, 4).Draw(t, "nonce.defect")
		switch {
		case kind == 0:
			m.Nonces = nil
		case kind == 1 && p == P2 && !literalOnly:
			ns := [][]byte{}
			m.Nonces = &ns
		case kind == 2 && p == P2:
			ns := [][]byte{drawBytes(t, drawHashLen(t, "nonce.len"), "nonce"), drawBytes(t, drawHashLen(t, "nonce.len2"), "nonce2")}
			switch rapid.IntRange(0, 3).Draw(t, "nonce.nullentry") {
			case 0:
				ns[1] = nil // [n, null]
			case 1:
				ns = [][]byte{ns[0], nil, ns[1]} // [n, null, n2]
			}
			m.Nonces = &ns
		default:
			ns := [][]byte{drawBytes(t, drawBadLen(t, "nonce.badlen", isHashLen, []int{0, 8, 31, 33, 47, 49, 63, 65}), "nonce")}
			m.Nonces = &ns
		}
	case CInstID:
		kind := rapid.IntRange(0, 3).Draw(t, "inst.defect")
		switch kind {
		case 0:
			m.InstID = nil
		case 1:
			b := drawBytes(t, 33, "instid")
			b[0] = rapid.SampledFrom([]byte{0, 2, 3, 255}).Draw(t, "inst.type")
			m.InstID = &b
		default:
			b := drawBytes(t, drawBadLen(t, "inst.len", func(n int) bool { return n == 33 }, []int{0, 1, 32, 34, 17, 25}), "instid")
			if len(b) > 0 {
				b[0] = 1
			}
			m.InstID = &b
		}
	case CVSI:
		m.VSI = sp("")
	}
}

// GenAny draws a claims-set with 0, 1, 2 or more deviating claims (each count
// with substantial probability).
func GenAny(t *rapid.T, p Prof) *MClaims {
	m := GenValid(t, p, false)
	nDev := rapid.SampledFrom([]int{0, 1, 1, 1, 2, 2, 2, 3, 4}).Draw(t, "ndev")
	if nDev == 0 {
		return m
	}
	perm := rapid.Permutation([]Claim{CProfile, CClientID, CLifecycle, CImplID, CBootSeed, CCertRef, CSwComps, CNonce, CInstID, CVSI}).Draw(t, "devclaims")
	for _, c := range perm[:nDev] {
		deviate(t, m, c, false)
	}
	return m
}

func drawProf(t *rapid.T) Prof {
	if genBool.Draw(t, "profile2") {
		return P2
	}
	return P1
}
