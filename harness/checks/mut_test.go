package checks

// Structure-aware mutation of CBOR and JSON documents (used by C05, C06, C18
// and the fuzz seed corpora). Every choice is either enumerated or drawn from
// rapid by the caller; nothing here is random.

import (
	"bytes"
	"encoding/json"
	"fmt"
	"strconv"
	"strings"

	"verifharness/icbor"
)

// ---------------------------------------------------------------------------
// CBOR
// ---------------------------------------------------------------------------

// cslot is one replaceable position in a CBOR tree.
type cslot struct {
	parent *icbor.Node // nil for the root
	idx    int         // index into Items / Pairs
	side   int         // for map parents: 0 = key, 1 = value
	path   string
}

func collectSlots(n *icbor.Node, path string, out *[]cslot) {
	switch n.Kind {
	case icbor.KArray, icbor.KTag:
		for i, it := range n.Items {
			p := fmt.Sprintf("%s[%d]", path, i)
			*out = append(*out, cslot{n, i, 0, p})
			collectSlots(it, p, out)
		}
	case icbor.KMap:
		for i, pr := range n.Pairs {
			kd := icbor.Diag(pr[0])
			*out = append(*out, cslot{n, i, 0, fmt.Sprintf("%s{key %s}", path, kd)})
			p := fmt.Sprintf("%s{%s}", path, kd)
			*out = append(*out, cslot{n, i, 1, p})
			collectSlots(pr[1], p, out)
		}
	}
}

// cborSlots lists every position below root (root itself is slot -1, handled
// by the callers through mutateRoot).
func cborSlots(root *icbor.Node) []cslot {
	var out []cslot
	collectSlots(root, "", &out)
	return out
}

func (s cslot) get() *icbor.Node {
	if s.parent.Kind == icbor.KMap {
		return s.parent.Pairs[s.idx][s.side]
	}
	return s.parent.Items[s.idx]
}

func (s cslot) set(n *icbor.Node) {
	if s.parent.Kind == icbor.KMap {
		s.parent.Pairs[s.idx][s.side] = n
		return
	}
	s.parent.Items[s.idx] = n
}

func smallUints(n int) *icbor.Node {
	it := make([]*icbor.Node, n)
	for i := range it {
		it[i] = icbor.U(uint64(i % 24))
	}
	return icbor.Arr(it...)
}

// cborSwapPool: items of every type, used for type-swap mutations.
func cborSwapPool() []*icbor.Node {
	return []*icbor.Node{
		icbor.U(0), icbor.U(1 << 32), icbor.U(1<<64 - 1), icbor.I(-1), icbor.NintArg(1<<64 - 1),
		icbor.Bstr(nil), icbor.Bstr(make([]byte, 32)), icbor.Bstr([]byte{0xa0}), icbor.Bstr([]byte{0xf6}),
		icbor.Tstr(""), icbor.Tstr("x"), icbor.Tstr(P2Name), icbor.Tstr(P1Name),
		icbor.Arr(), icbor.Arr(icbor.Null()), icbor.Arr(icbor.Arr(icbor.Arr())), smallUints(32), smallUints(33),
		icbor.Arr(icbor.Bstr(make([]byte, 32))), icbor.Arr(icbor.Bstr(make([]byte, 32)), icbor.Bstr(make([]byte, 32))),
		icbor.Map(), icbor.Map(icbor.P(icbor.U(1), icbor.Null())), icbor.Map(icbor.P(icbor.Tstr("k"), icbor.U(1))),
		icbor.Map(icbor.P(icbor.U(2), icbor.Bstr(make([]byte, 32))), icbor.P(icbor.U(5), icbor.Bstr(make([]byte, 32)))),
		icbor.Bool(true), icbor.Bool(false), icbor.Null(), icbor.Undef(), icbor.Simple(0), icbor.Simple(255),
		icbor.F64(1.5), icbor.F32(1), icbor.F16bits(0x7e00), icbor.F64(1e300),
		icbor.Tag(1, icbor.U(0)), icbor.Tag(2, icbor.Bstr([]byte{1})), icbor.Tag(24, icbor.Bstr([]byte{0xa0})), icbor.Tag(55799, icbor.Map()),
	}
}

const nStructMut = 14

var structMutNames = [nStructMut]string{"null", "undefined", "empty", "duplicate", "delete", "nest-array", "nest-map", "tag", "indefinite", "long-head", "bstr-wrap", "double", "swap-with-sibling", "tag18"}

// applyStructMut applies structural mutation kind k at slot s. Returns false
// if the mutation does not apply there.
func applyStructMut(s cslot, k int) bool {
	n := s.get()
	switch k {
	case 0:
		s.set(icbor.Null())
	case 1:
		s.set(icbor.Undef())
	case 2:
		switch n.Kind {
		case icbor.KBytes:
			s.set(icbor.Bstr(nil))
		case icbor.KText:
			s.set(icbor.Tstr(""))
		case icbor.KArray:
			s.set(icbor.Arr())
		case icbor.KMap:
			s.set(icbor.Map())
		case icbor.KUint, icbor.KNint:
			s.set(icbor.U(0))
		default:
			return false
		}
	case 3: // duplicate the entry / item
		p := s.parent
		switch p.Kind {
		case icbor.KMap:
			p.Pairs = append(p.Pairs, [2]*icbor.Node{p.Pairs[s.idx][0].Clone(), p.Pairs[s.idx][1].Clone()})
		case icbor.KArray:
			p.Items = append(p.Items, p.Items[s.idx].Clone())
		default:
			return false
		}
	case 4: // delete
		p := s.parent
		switch p.Kind {
		case icbor.KMap:
			p.Pairs = append(append([][2]*icbor.Node{}, p.Pairs[:s.idx]...), p.Pairs[s.idx+1:]...)
		case icbor.KArray:
			p.Items = append(append([]*icbor.Node{}, p.Items[:s.idx]...), p.Items[s.idx+1:]...)
		default:
			return false
		}
	case 5:
		s.set(icbor.Arr(n))
	case 6:
		s.set(icbor.Map(icbor.P(icbor.U(0), n)))
	case 7:
		s.set(icbor.Tag(uint64([]int{0, 1, 2, 24, 37, 55799}[len(s.path)%6]), n))
	case 8:
		switch n.Kind {
		case icbor.KBytes, icbor.KText:
			s.set(n.WithIndef(1))
		case icbor.KArray, icbor.KMap:
			s.set(n.WithIndef())
		default:
			return false
		}
	case 9:
		if n.Kind == icbor.KSimple || n.Kind == icbor.KFloat {
			return false
		}
		s.set(n.WithHead(8))
	case 10:
		s.set(icbor.Bstr(icbor.Encode(n)))
	case 11: // array of the item twice
		s.set(icbor.Arr(n, n.Clone()))
	case 12:
		p := s.parent
		switch p.Kind {
		case icbor.KMap:
			j := (s.idx + 1) % len(p.Pairs)
			if j == s.idx {
				return false
			}
			p.Pairs[s.idx][s.side], p.Pairs[j][s.side] = p.Pairs[j][s.side], p.Pairs[s.idx][s.side]
		case icbor.KArray:
			j := (s.idx + 1) % len(p.Items)
			if j == s.idx {
				return false
			}
			p.Items[s.idx], p.Items[j] = p.Items[j], p.Items[s.idx]
		default:
			return false
		}
	case 13:
		s.set(icbor.Tag(18, n))
	default:
		return false
	}
	return true
}

// ---------------------------------------------------------------------------
// JSON (ordered AST so that duplicate members can be expressed)
// ---------------------------------------------------------------------------

type jn struct {
	kind  byte // 'n' null, 't' true, 'f' false, '0' number (raw), 's' string, 'a' array, 'o' object, 'r' raw text
	raw   string
	items []*jn
	keys  []string
	vals  []*jn
}

func jNull() *jn            { return &jn{kind: 'n'} }
func jNum(raw string) *jn   { return &jn{kind: '0', raw: raw} }
func jStr(s string) *jn     { return &jn{kind: 's', raw: s} }
func jArr(items ...*jn) *jn { return &jn{kind: 'a', items: items} }
func jRaw(s string) *jn     { return &jn{kind: 'r', raw: s} }
func jObj(kv ...any) *jn {
	o := &jn{kind: 'o'}
	for i := 0; i+1 < len(kv); i += 2 {
		o.keys = append(o.keys, kv[i].(string))
		o.vals = append(o.vals, kv[i+1].(*jn))
	}
	return o
}

func (n *jn) clone() *jn {
	c := *n
	c.items = nil
	for _, it := range n.items {
		c.items = append(c.items, it.clone())
	}
	c.keys = append([]string(nil), n.keys...)
	c.vals = nil
	for _, v := range n.vals {
		c.vals = append(c.vals, v.clone())
	}
	return &c
}

func (n *jn) render(sb *strings.Builder) {
	switch n.kind {
	case 'n':
		sb.WriteString("null")
	case 't':
		sb.WriteString("true")
	case 'f':
		sb.WriteString("false")
	case '0', 'r':
		sb.WriteString(n.raw)
	case 's':
		b, _ := json.Marshal(n.raw)
		sb.Write(b)
	case 'a':
		sb.WriteByte('[')
		for i, it := range n.items {
			if i > 0 {
				sb.WriteByte(',')
			}
			it.render(sb)
		}
		sb.WriteByte(']')
	case 'o':
		sb.WriteByte('{')
		for i, k := range n.keys {
			if i > 0 {
				sb.WriteByte(',')
			}
			b, _ := json.Marshal(k)
			sb.Write(b)
			sb.WriteByte(':')
			n.vals[i].render(sb)
		}
		sb.WriteByte('}')
	}
}

func (n *jn) String() string {
	var sb strings.Builder
	n.render(&sb)
	return sb.String()
}

func parseJN(doc []byte) (*jn, error) {
	dec := json.NewDecoder(bytes.NewReader(doc))
	dec.UseNumber()
	n, err := parseJNValue(dec)
	if err != nil {
		return nil, err
	}
	return n, nil
}

func parseJNValue(dec *json.Decoder) (*jn, error) {
	tok, err := dec.Token()
	if err != nil {
		return nil, err
	}
	switch v := tok.(type) {
	case nil:
		return jNull(), nil
	case bool:
		if v {
			return &jn{kind: 't'}, nil
		}
		return &jn{kind: 'f'}, nil
	case json.Number:
		return jNum(v.String()), nil
	case string:
		return jStr(v), nil
	case json.Delim:
		switch v {
		case '[':
			a := jArr()
			for dec.More() {
				it, err := parseJNValue(dec)
				if err != nil {
					return nil, err
				}
				a.items = append(a.items, it)
			}
			_, err := dec.Token()
			return a, err
		case '{':
			o := jObj()
			for dec.More() {
				kt, err := dec.Token()
				if err != nil {
					return nil, err
				}
				val, err := parseJNValue(dec)
				if err != nil {
					return nil, err
				}
				o.keys = append(o.keys, kt.(string))
				o.vals = append(o.vals, val)
			}
			_, err := dec.Token()
			return o, err
		}
	}
	return nil, fmt.Errorf("unexpected token %v", tok)
}

type jslot struct {
	parent *jn
	idx    int
	path   string
}

func collectJSlots(n *jn, path string, out *[]jslot) {
	switch n.kind {
	case 'a':
		for i, it := range n.items {
			p := path + "[" + strconv.Itoa(i) + "]"
			*out = append(*out, jslot{n, i, p})
			collectJSlots(it, p, out)
		}
	case 'o':
		for i, v := range n.vals {
			p := path + "." + n.keys[i]
			*out = append(*out, jslot{n, i, p})
			collectJSlots(v, p, out)
		}
	}
}

func jsonSlots(root *jn) []jslot {
	var out []jslot
	collectJSlots(root, "", &out)
	return out
}

func (s jslot) get() *jn {
	if s.parent.kind == 'o' {
		return s.parent.vals[s.idx]
	}
	return s.parent.items[s.idx]
}

func (s jslot) set(n *jn) {
	if s.parent.kind == 'o' {
		s.parent.vals[s.idx] = n
		return
	}
	s.parent.items[s.idx] = n
}

func jsonSwapPool() []*jn {
	b32 := "AAAAAAAAAAAAAAAAAAAAAAAAAAAAAAAAAAAAAAAAAAA="
	return []*jn{
		jNull(), &jn{kind: 't'}, &jn{kind: 'f'}, jNum("0"), jNum("-1"), jNum("1.5"), jNum("1e400"), jNum("-0"), jNum("4294967296"),
		jNum("99999999999999999999999999"), jNum("65536"), jNum("2147483648"),
		jStr(""), jStr("x"), jStr(b32), jStr("!!!not base64!!!"), jStr(P1Name), jStr(P2Name), jStr("\u0000"),
		jArr(), jArr(jNull()), jArr(jArr(jArr())), jArr(jStr(b32)), jArr(jStr(b32), jStr(b32)), jArr(jObj()),
		jObj(), jObj("a", jNull()), jObj("measurement-value", jStr(b32), "signer-id", jStr(b32)), jObj("", jObj("", jObj())),
		jRaw(strings.Repeat("[", 300) + strings.Repeat("]", 300)), jRaw(strings.Repeat(`{"a":`, 200) + "1" + strings.Repeat("}", 200)),
	}
}

const nJStructMut = 9

var jStructMutNames = [nJStructMut]string{"null", "empty", "duplicate", "delete", "nest-array", "nest-object", "rename-empty", "duplicate-first", "stringify"}

func applyJStructMut(s jslot, k int) bool {
	n := s.get()
	p := s.parent
	switch k {
	case 0:
		s.set(jNull())
	case 1:
		switch n.kind {
		case 's':
			s.set(jStr(""))
		case 'a':
			s.set(jArr())
		case 'o':
			s.set(jObj())
		case '0':
			s.set(jNum("0"))
		default:
			return false
		}
	case 2: // duplicate after
		if p.kind == 'o' {
			p.keys = append(p.keys, p.keys[s.idx])
			p.vals = append(p.vals, n.clone())
		} else {
			p.items = append(p.items, n.clone())
		}
	case 3:
		if p.kind == 'o' {
			p.keys = append(append([]string{}, p.keys[:s.idx]...), p.keys[s.idx+1:]...)
			p.vals = append(append([]*jn{}, p.vals[:s.idx]...), p.vals[s.idx+1:]...)
		} else {
			p.items = append(append([]*jn{}, p.items[:s.idx]...), p.items[s.idx+1:]...)
		}
	case 4:
		s.set(jArr(n))
	case 5:
		s.set(jObj("x", n))
	case 6:
		if p.kind != 'o' {
			return false
		}
		p.keys[s.idx] = ""
	case 7: // duplicate member placed first with a different value
		if p.kind != 'o' {
			return false
		}
		p.keys = append([]string{p.keys[s.idx]}, p.keys...)
		p.vals = append([]*jn{jNum("1")}, p.vals...)
	case 8:
		s.set(jStr(n.String()))
	default:
		return false
	}
	return true
}
