package checks

// C16 — the profile registry is append-only; every claims instance is
// independent. Stateful: histories of register / re-register / NewClaims /
// decode / mutate-one-instance operations against a model register, every
// history starting from the pristine register (checkpoint hook).

import (
	"fmt"
	"reflect"
	"strings"
	"testing"

	"github.com/veraison/eat"
	"github.com/veraison/psatoken"
	"pgregory.net/rapid"

	"verifharness/icbor"
	"verifharness/icose"
)

var c16DynNames = []string{
	"http://example.com/verif/dyn/0", "http://example.com/verif/dyn/1", "http://example.com/verif/dyn/2",
	"http://example.com/verif/dyn/3", "http://example.com/verif/dyn/4", "http://example.com/verif/dyn/5",
	"http://example.com/verif/dyn/6", "http://example.com/verif/dyn/7",
}

// names that are NEVER registered but look like registrable ones (other
// letter case in path / host / scheme, a trailing slash, a prefix, a longer
// name, an escape, surrounding blanks): registering the name they resemble
// changes nothing for them
var c16LookAlikes = []string{
	"http://example.com/verif/DYN/0", "http://example.com/Verif/dyn/1", "HTTP://example.com/verif/dyn/2", "http://EXAMPLE.COM/verif/dyn/3",
	"http://example.com/verif/dyn/4/", "http://example.com/verif/dyn/", "http://example.com/verif/dyn/55", "http://example.com/verif/dyn/%36",
	" http://example.com/verif/dyn/7", "http://example.com:80/verif/dyn/0", "http://example.com/verif/dyn/1#", "PSA_IOT_profile_1", "http://ARM.com/psa/2.0.0", "http://arm.com/PSA/2.0.0",
}

var c16Universe = append(append([]string{P1Name, P2Name, "", "http://example.com/verif/never-registered"}, c16DynNames...), c16LookAlikes...)

// the fixed probe tokens: both bodies plus every profile key/member set to
// the probed name, so that any registered shape can decode them.
func c16Body() (*MClaims, *MClaims) {
	b2 := baseValid(P2, 0)
	b1 := baseValid(P1, 0)
	b1.BootSeed = b2.BootSeed
	return b1, b2
}

func c16CBORToken(name string) []byte {
	b1, b2 := c16Body()
	ps := append(bodyPairs(b1), bodyPairs(b2)...)
	ps = append(ps, icbor.P(icbor.I(-75000), icbor.Tstr(name)), icbor.P(icbor.U(265), icbor.Tstr(name)))
	return icbor.Encode(icbor.Map(ps...))
}

func c16JSONDoc(name string) []byte {
	_, b2 := c16Body()
	b2.CertRef = nil
	o := modelJN(b2)
	for _, k := range []string{"psa-profile", "eat-profile", "x-profile"} {
		o.keys = append(o.keys, k)
		o.vals = append(o.vals, jStr(name))
	}
	return []byte(o.String())
}

// outcome class of one lookup
func c16Outcome(c psatoken.IClaims, err error) string {
	if err != nil {
		return "error"
	}
	p, perr := c.GetProfile()
	v := "valid"
	if c.Validate() != nil {
		v = "invalid"
	}
	return fmt.Sprintf("%T/%q/%v/%s", c, p, perr == nil, v)
}

type c16Probe struct{ New, CBOR, JSON string }

// funcProfile: the usual parameterised IProfile implementation - a struct with
// a constructor func field (hence NOT a comparable type).
type funcProfile struct {
	name string
	mk   func() psatoken.IClaims
	tags []string
}

func (f funcProfile) GetName() string             { return f.name }
func (f funcProfile) GetClaims() psatoken.IClaims { return f.mk() }

// c16Profile: the IProfile value handed to RegisterProfile: the comparable
// dynProfile, the uncomparable funcProfile, or a pointer to either.
func c16Profile(name, shape string, kind int) psatoken.IProfile {
	d := dynProfile{name, shape}
	switch kind % 4 {
	case 1:
		return funcProfile{name: name, mk: d.GetClaims, tags: []string{shape}}
	case 2:
		return &d
	case 3:
		return &funcProfile{name: name, mk: d.GetClaims}
	}
	return d
}

// c16Register calls RegisterProfile; a panic is reported as such.
func c16Register(p psatoken.IProfile) (err error, panicked string) {
	defer func() {
		if r := recover(); r != nil {
			panicked = fmt.Sprint(r)
		}
	}()
	return psatoken.RegisterProfile(p), ""
}

// bystander documents: they declare a BUILT-IN profile cleanly and also carry
// members / keys that other (registered or not) profiles use - with values
// that declare nothing (numbers, booleans, arrays, objects). Their outcome
// must be the same under every register content.
func c16Bystanders() map[string]string {
	r := map[string]string{}
	b1, b2 := c16Body()
	b2.CertRef = nil
	for _, extra := range []string{"null", "5", "true", "[]", "{}", "[\"http://example.com/verif/dyn/0\"]", "1.5"} {
		for _, member := range []string{"x-profile", "timestamp", "vendor", "profile", "profile-label"} {
			o := modelJN(b2)
			o.keys, o.vals = append(o.keys, "eat-profile", member), append(o.vals, jStr(P2Name), jRaw(extra))
			c, err := psatoken.DecodeClaimsFromJSON([]byte(o.String()))
			r["json/P2+"+member+"="+extra] = c16Outcome(c, err)
			o = modelJN(b1)
			o.keys, o.vals = append(append([]string{member}, o.keys...), "psa-profile"), append(append([]*jn{jRaw(extra)}, o.vals...), jStr(P1Name))
			c, err = psatoken.DecodeClaimsFromJSON([]byte(o.String()))
			r["json/P1+"+member+"="+extra] = c16Outcome(c, err)
		}
	}
	// a document that relies on the DEFAULT profile and spells absent
	// members as null (null declares nothing, under any register content)
	for _, member := range []string{"x-profile", "eat-profile", "psa-profile", "timestamp", "vendor"} {
		o := modelJN(b1)
		o.keys, o.vals = append(o.keys, member), append(o.vals, jNull())
		c, err := psatoken.DecodeClaimsFromJSON([]byte(o.String()))
		r["json/default-profile+"+member+"=null"] = c16Outcome(c, err)
		o = modelJN(b1)
		o.keys, o.vals = append([]string{member, "x-profile"}, o.keys...), append([]*jn{jNull(), jNull()}, o.vals...)
		c, err = psatoken.DecodeClaimsFromJSON([]byte(o.String()))
		r["json/default-profile+x-profile=null+"+member+"=null"] = c16Outcome(c, err)
	}
	for _, extra := range []*icbor.Node{icbor.U(5), icbor.Bool(true), icbor.Arr(), icbor.Tstr("http://example.com/verif/dyn/0")} {
		ps := append(bodyPairs(b2), icbor.P(icbor.U(265), icbor.Tstr(P2Name)), icbor.P(icbor.I(-75100), extra), icbor.P(icbor.I(-75000), extra))
		c, err := psatoken.DecodeClaimsFromCBOR(icbor.Encode(icbor.Map(ps...)))
		r["cbor/P2+"+icbor.Diag(extra)] = c16Outcome(c, err)
	}
	return r
}

func c16ProbeName(name string, jsonReps int) (c16Probe, string) {
	var p c16Probe
	c, err := psatoken.NewClaims(name)
	p.New = c16Outcome(c, err)
	c, err = psatoken.DecodeClaimsFromCBOR(c16CBORToken(name))
	p.CBOR = c16Outcome(c, err)
	// the same token with the label 265 in a longer (well-formed) spelling: if
	// the decoder takes that spelling at all, it declares the same profile
	{
		b1, b2 := c16Body()
		for _, w := range []int{4, 8} {
			ps := append(bodyPairs(b1), bodyPairs(b2)...)
			ps = append(ps, icbor.P(icbor.I(-75000), icbor.Tstr(name)), icbor.P(icbor.U(265).WithHead(w), icbor.Tstr(name)))
			c, err = psatoken.DecodeClaimsFromCBOR(icbor.Encode(icbor.Map(ps...)))
			if o := c16Outcome(c, err); err == nil && o != p.CBOR {
				return p, fmt.Sprintf("a CBOR token declaring %q under the label 265 written with a %d-byte argument decodes as %s, the same token with the shortest spelling of the label as %s", name, w, o, p.CBOR)
			}
		}
	}
	doc := c16JSONDoc(name)
	for i := 0; i < jsonReps; i++ {
		c, err = psatoken.DecodeClaimsFromJSON(doc)
		o := c16Outcome(c, err)
		if i > 0 && o != p.JSON {
			return p, fmt.Sprintf("JSON dispatch of the same document gives different outcomes on repeated calls: %s then %s", p.JSON, o)
		}
		p.JSON = o
	}
	return p, ""
}

type c16Inst struct {
	obj  psatoken.IClaims
	name string
	src  string
	fp   string
}

type c16Machine struct {
	reg                                 map[string]string // dyn name -> shape
	regKind                             map[string]int    // dyn name -> kind of IProfile value registered
	pristine                            map[string]c16Probe
	bystanders                          map[string]string
	insts                               []*c16Inst
	trace                               []string
	failedReg, mutated, readAfterMutate bool
	nested, faulty                      bool
	ev                                  *psatoken.Evidence // re-used for every COSE decode of the history
}

func (mc *c16Machine) log(f string, a ...any) { mc.trace = append(mc.trace, fmt.Sprintf(f, a...)) }
func (mc *c16Machine) fail(t *rapid.T, f string, a ...any) {
	t.Fatalf("C16 violated: %s\n  history: %s", fmt.Sprintf(f, a...), strings.Join(mc.trace, " ; "))
}

// expectProbe: what the battery must show for name under the model register.
func (mc *c16Machine) expectProbe(name string) (c16Probe, bool) {
	shape, ok := mc.reg[name]
	if !ok {
		return mc.pristine[name], true
	}
	ty := shapeType(shape)
	valid := fmt.Sprintf("%s/%q/true/valid", ty, name)
	fresh := fmt.Sprintf("%s/%q/true/invalid", ty, name) // a new instance has no claims yet
	return c16Probe{New: fresh, CBOR: valid, JSON: valid}, true
}

func (mc *c16Machine) checkName(t *rapid.T, name string, reps int) {
	got, msg := c16ProbeName(name, reps)
	if msg != "" {
		mc.fail(t, "%s (profile %q)", msg, name)
	}
	want, _ := mc.expectProbe(name)
	if got != want {
		what := "a profile that was never (successfully) registered, or a built-in one"
		if _, ok := mc.reg[name]; ok {
			what = "a registered " + mc.reg[name] + " profile"
		}
		mc.fail(t, "lookups for %q (%s) changed/are wrong:\n   NewClaims: %s (want %s)\n   CBOR:      %s (want %s)\n   JSON:      %s (want %s)", name, what, got.New, want.New, got.CBOR, want.CBOR, got.JSON, want.JSON)
	}
}

func (mc *c16Machine) checkAll(t *rapid.T) {
	for _, n := range c16Universe {
		mc.checkName(t, n, 2)
	}
	mc.checkConflicts(t, 6)
	now := c16Bystanders()
	for k, want := range mc.bystanders {
		if now[k] != want {
			mc.fail(t, "a document that declares a built-in profile (%s) decodes differently after profiles were registered: %s, on the pristine register %s", k, now[k], want)
		}
	}
}

// checkConflicts: a JSON document whose profile members name TWO different
// registered profiles must be rejected on every call, whatever order the
// register is iterated in.
func (mc *c16Machine) checkConflicts(t *rapid.T, reps int) {
	type pair struct{ a, va, b, vb string }
	docs := []pair{{"psa-profile", P1Name, "eat-profile", P2Name}}
	for _, n := range c16DynNames {
		switch mc.reg[n] {
		case "ext-p2", "two-embedded-p2", "label-then-p2", "both-keys-p2", "iface-on-p2":
			docs = append(docs, pair{"eat-profile", n, "psa-profile", P1Name})
		case "ext-p1", "iface-on-p1":
			docs = append(docs, pair{"psa-profile", n, "eat-profile", P2Name})
		case "own-tag":
			docs = append(docs, pair{"x-profile", n, "psa-profile", P1Name}, pair{"x-profile", n, "eat-profile", P2Name})
		}
	}
	_, b2 := c16Body()
	b2.CertRef = nil
	// a profile member that is present but names nothing registered, under
	// ONE member only (the others absent): always an error, never the default
	for _, tag := range []string{"psa-profile", "eat-profile"} {
		for _, name := range []string{"http://example.com/verif/never-registered", "PSA_IOT_PROFILE_9"} {
			o := modelJN(b2)
			o.keys = append(o.keys, tag)
			o.vals = append(o.vals, jStr(name))
			doc := []byte(o.String())
			for i := 0; i < reps; i++ {
				if c, err := psatoken.DecodeClaimsFromJSON(doc); err == nil {
					mc.fail(t, "a JSON document whose %s names the unregistered profile %q was decoded as %T on call %d instead of being rejected", tag, name, c, i+1)
				}
			}
		}
	}
	// a registered NAME under the member of ANOTHER profile declares nothing
	// that is registered: rejected, whatever else is in the register
	type lone struct{ member, val string }
	lones := []lone{{"psa-profile", P2Name}, {"eat-profile", P1Name}}
	hasOwnTag := false
	for _, sh := range mc.reg {
		hasOwnTag = hasOwnTag || sh == "own-tag"
	}
	if hasOwnTag {
		// (without such a profile "x-profile" is just an unknown member)
		lones = append(lones, lone{"x-profile", P2Name}, lone{"x-profile", P1Name})
	}
	for _, n := range c16DynNames {
		switch mc.reg[n] {
		case "ext-p2", "two-embedded-p2", "label-then-p2", "both-keys-p2", "iface-on-p2":
			lones = append(lones, lone{"psa-profile", n})
			if hasOwnTag {
				lones = append(lones, lone{"x-profile", n})
			}
		case "ext-p1", "iface-on-p1":
			lones = append(lones, lone{"eat-profile", n})
			if hasOwnTag {
				lones = append(lones, lone{"x-profile", n})
			}
		case "own-tag":
			lones = append(lones, lone{"eat-profile", n}, lone{"psa-profile", n})
		}
	}
	for _, l := range lones {
		o := modelJN(b2)
		o.keys, o.vals = append(o.keys, l.member), append(o.vals, jStr(l.val))
		doc := []byte(o.String())
		for i := 0; i < 2; i++ {
			if c, err := psatoken.DecodeClaimsFromJSON(doc); err == nil {
				mc.fail(t, "a JSON document carrying the registered name %q under %s, the profile member of OTHER profiles, was decoded as %T on call %d instead of being rejected", l.val, l.member, c, i+1)
			}
		}
	}
	// members that differ from a profile member only in the CASE of their
	// letters, carrying another value: whatever the decoder makes of them, it
	// makes the same of them on every call
	{
		names := []string{P1Name, P2Name, "http://example.com/verif/never-registered"}
		for _, n := range c16DynNames {
			if mc.reg[n] != "" {
				names = append(names, n)
				break
			}
		}
		creps := reps
		if creps > 12 {
			creps = 12
		}
		for _, mv := range [][2]string{{"eat-profile", "Eat-Profile"}, {"psa-profile", "PSA-PROFILE"}} {
			for i, va := range names {
				vb := names[(i+1)%len(names)]
				for _, variantFirst := range []bool{false, true} {
					o := modelJN(b2)
					if variantFirst {
						o.keys, o.vals = append([]string{mv[1]}, append(o.keys, mv[0])...), append([]*jn{jStr(vb)}, append(o.vals, jStr(va))...)
					} else {
						o.keys, o.vals = append(o.keys, mv[0], mv[1]), append(o.vals, jStr(va), jStr(vb))
					}
					doc := []byte(o.String())
					first := ""
					for k := 0; k < creps; k++ {
						c, err := psatoken.DecodeClaimsFromJSON(doc)
						oc := c16Outcome(c, err)
						if k == 0 {
							first = oc
						} else if oc != first {
							mc.fail(t, "JSON dispatch of one document (members %q=%q and %q=%q) gives different outcomes on repeated calls: %s on the first, %s on call %d", mv[0], va, mv[1], vb, first, oc, k+1)
						}
					}
				}
			}
		}
	}
	for _, d := range docs {
		o := modelJN(b2)
		o.keys = append(o.keys, d.a, d.b)
		o.vals = append(o.vals, jStr(d.va), jStr(d.vb))
		doc := []byte(o.String())
		for i := 0; i < reps; i++ {
			if c, err := psatoken.DecodeClaimsFromJSON(doc); err == nil {
				mc.fail(t, "a JSON document declaring two different registered profiles (%s=%q and %s=%q) was decoded as %T on call %d instead of being rejected", d.a, d.va, d.b, d.vb, c, i+1)
			}
		}
	}
}

func (mc *c16Machine) checkInstances(t *rapid.T) {
	for i, in := range mc.insts {
		if fp := visibleFP(in.obj); fp != in.fp {
			mc.fail(t, "instance #%d (%s of %q) changed although it was not touched - it shares state with another instance: %s", i, in.src, in.name, firstDiff(in.fp, fp))
		}
	}
}

// referenceFP: the fingerprint a fresh instance from (src, name) must have.
func (mc *c16Machine) addInstance(t *rapid.T, obj psatoken.IClaims, name, src string, refs map[string]string) {
	fp := visibleFP(obj)
	key := src + "|" + name
	if ref, ok := refs[key]; ok {
		if fp != ref {
			mc.fail(t, "%s for %q does not return a fresh instance: it differs from the first one obtained the same way (state leaked from an earlier, since-mutated instance): %s", src, name, firstDiff(ref, fp))
		}
	} else {
		refs[key] = fp
	}
	// pointer identity: no two live instances may be the same object
	for j, other := range mc.insts {
		if reflect.ValueOf(other.obj).Pointer() == reflect.ValueOf(obj).Pointer() {
			mc.fail(t, "%s for %q returned the very same object as instance #%d", src, name, j)
		}
	}
	mc.insts = append(mc.insts, &c16Inst{obj, name, src, fp})
}

// scribbleInPlace writes through every pointer / slice reachable from the
// exported fields of the claims object (and uses the public mutators).
func scribbleInPlace(c psatoken.IClaims, salt byte) {
	var walk func(v reflect.Value, depth int)
	walk = func(v reflect.Value, depth int) {
		if depth > 4 || !v.IsValid() {
			return
		}
		switch v.Kind() {
		case reflect.Pointer:
			if !v.IsNil() {
				walk(v.Elem(), depth+1)
			}
		case reflect.Struct:
			for i := 0; i < v.NumField(); i++ {
				if v.Type().Field(i).IsExported() {
					walk(v.Field(i), depth+1)
				}
			}
		case reflect.String:
			if v.CanSet() && v.Type().Name() == "string" && depth > 1 {
				// only strings behind a pointer (claims values), not CanonicalProfile
			}
		case reflect.Slice:
			if v.Type().Elem().Kind() == reflect.Uint8 {
				for i := 0; i < v.Len(); i++ {
					b := v.Index(i)
					if b.CanSet() {
						b.SetUint(b.Uint() ^ uint64(0x5a+salt))
					}
				}
			}
		}
	}
	rv := reflect.ValueOf(c)
	walk(rv, 0)
	// pointees of *string / *int32 / *uint16 / *uint fields
	el := rv.Elem()
	var fields func(v reflect.Value)
	fields = func(v reflect.Value) {
		for i := 0; i < v.NumField(); i++ {
			f := v.Field(i)
			sf := v.Type().Field(i)
			if !sf.IsExported() {
				continue
			}
			if sf.Anonymous && f.Kind() == reflect.Struct {
				fields(f)
				continue
			}
			if f.Kind() != reflect.Pointer || f.IsNil() {
				continue
			}
			e := f.Elem()
			switch e.Kind() {
			case reflect.String:
				if e.CanSet() {
					e.SetString(e.String() + "~" + string(rune('a'+salt%26)))
				}
			case reflect.Int32, reflect.Int64:
				e.SetInt(e.Int() ^ int64(1+salt))
			case reflect.Uint16, reflect.Uint, reflect.Uint64:
				e.SetUint(e.Uint() ^ uint64(1+salt%7))
			}
			if p, ok := f.Interface().(*eat.Profile); ok {
				_ = p.Set(fmt.Sprintf("http://example.com/scribbled/%d", salt))
			}
		}
	}
	fields(el)
	// public mutators
	_ = c.SetClientID(int32(salt) - 1000)
	_ = c.SetVSI(fmt.Sprintf("scribbled-%d", salt))
	n := make([]byte, 48)
	n[0] = salt
	_ = c.SetNonce(n)
	if scs, err := c.GetSoftwareComponents(); err == nil {
		for _, sc := range scs {
			if sc != nil {
				_ = sc.SetMeasurementDesc(fmt.Sprintf("scribbled-%d", salt))
				v := make([]byte, 64)
				v[1] = salt
				_ = sc.SetSignerID(v)
			}
		}
	}
	if cont := anySwContainer(c); cont != nil && !reflect.ValueOf(cont).IsNil() {
		mv := make([]byte, 32)
		mv[2] = salt
		_ = cont.Add(&psatoken.SwComponent{MeasurementValue: bp(mv), SignerID: bp(append([]byte{}, mv...))})
	}
	if oc, ok := c.(*OwnTagClaims); ok {
		oc.P2Claims.CanonicalProfile += "~"
	}
}

func c16Run(t *rapid.T, st *Stats) {
	restore := psatoken.VerifCheckpointProfiles()
	defer restore()
	mc := &c16Machine{reg: map[string]string{}, regKind: map[string]int{}, pristine: map[string]c16Probe{}}
	for _, n := range c16Universe {
		p, msg := c16ProbeName(n, 2)
		if msg != "" {
			t.Fatalf("C16 violated on the pristine register: %s", msg)
		}
		mc.pristine[n] = p
	}
	mc.bystanders = c16Bystanders()
	// sanity of the pristine register (the harness's own expectations)
	if mc.pristine[c16DynNames[0]].New != "error" || !strings.HasPrefix(mc.pristine[P2Name].CBOR, "*psatoken.P2Claims") {
		t.Fatalf("VERIF-INFRA: unexpected pristine battery: %+v", mc.pristine)
	}
	refs := map[string]string{}
	steps := rapid.IntRange(1, 30).Draw(t, "steps")
	salt := byte(0)
	for i := 0; i < steps; i++ {
		switch rapid.SampledFrom([]string{"register-new", "register-new", "register-nested", "register-faulty-factory", "register-existing", "register-bad-shape", "new", "new", "decode", "decode", "mutate", "mutate", "probe"}).Draw(t, "op") {
		case "register-new":
			var free []string
			for _, n := range c16DynNames {
				if _, ok := mc.reg[n]; !ok {
					free = append(free, n)
				}
			}
			if len(free) == 0 {
				continue
			}
			name := rapid.SampledFrom(free).Draw(t, "name")
			shape := rapid.SampledFrom([]string{"ext-p2", "ext-p1", "own-tag", "two-embedded-p2", "label-then-p2", "both-keys-p2", "iface-on-p2", "iface-on-p1", "iface-on-p1"}).Draw(t, "shape")
			kind := rapid.IntRange(0, 3).Draw(t, "profile.kind")
			mc.log("Register(%s as %s, %T)", name[len(name)-5:], shape, c16Profile(name, shape, kind))
			if err, pmsg := c16Register(c16Profile(name, shape, kind)); err != nil || pmsg != "" {
				mc.fail(t, "registering a new profile %q (%s) fails: %v %s", name, shape, err, pmsg)
			}
			mc.reg[name] = shape
			mc.regKind[name] = kind
			mc.checkAll(t)
		case "register-nested":
			// a profile whose factory registers another (new) profile on its
			// first call: both registrations report success, both stay
			var free []string
			for _, n := range c16DynNames {
				if _, ok := mc.reg[n]; !ok {
					free = append(free, n)
				}
			}
			if len(free) < 2 {
				continue
			}
			perm := rapid.Permutation(free).Draw(t, "names")
			outer, inner := perm[0], perm[1]
			so := rapid.SampledFrom([]string{"ext-p2", "ext-p1", "own-tag", "two-embedded-p2"}).Draw(t, "shape.outer")
			si := rapid.SampledFrom([]string{"ext-p2", "ext-p1", "own-tag"}).Draw(t, "shape.inner")
			done, ierr := false, error(nil)
			mc.log("Register(%s as %s, whose factory registers %s as %s)", outer[len(outer)-5:], so, inner[len(inner)-5:], si)
			err, pmsg := c16Register(nestingProfile{outer: dynProfile{outer, so}, inner: dynProfile{inner, si}, done: &done, innerErr: &ierr})
			if err != nil || pmsg != "" || ierr != nil || !done {
				mc.fail(t, "nested registration fails: outer %v %s, inner %v (factory called: %v)", err, pmsg, ierr, done)
			}
			mc.reg[outer], mc.reg[inner] = so, si
			mc.regKind[outer], mc.regKind[inner] = 0, 0
			mc.nested = true
			mc.checkAll(t)
		case "register-faulty-factory":
			// a registration that fails by UNWINDING (the factory panics, or
			// returns nil and the library trips over it): recovered by the
			// caller, it must leave every lookup as it was, and the name free
			name := rapid.SampledFrom(c16DynNames).Draw(t, "name")
			mode := rapid.SampledFrom([]string{"panic", "nil"}).Draw(t, "mode")
			mc.log("Register(%s with a factory that %ss)", name[len(name)-5:], mode)
			err, pmsg := c16Register(faultyFactoryProfile{name, mode})
			if err == nil && pmsg == "" {
				if _, already := mc.reg[name]; !already {
					mc.fail(t, "registering a profile whose factory %ss succeeded", mode)
				}
			}
			mc.failedReg = true
			mc.faulty = true
			mc.checkAll(t)
		case "register-existing":
			pool := []string{P1Name, P2Name, ""}
			for n := range mc.reg {
				pool = append(pool, n)
			}
			sortStrings(pool)
			name := rapid.SampledFrom(pool).Draw(t, "name")
			shape := rapid.SampledFrom([]string{"ext-p2", "ext-p1", "own-tag", "two-embedded-p2", "label-then-p2", "both-keys-p2", "iface-on-p2", "iface-on-p1", "iface-on-p1"}).Draw(t, "shape")
			// the same kind of IProfile value as the first registration of
			// that name used (same Go type), or another one
			kind := rapid.IntRange(0, 3).Draw(t, "profile.kind")
			if k, ok := mc.regKind[name]; ok && genBool.Draw(t, "samekind") {
				kind = k
			}
			mc.log("Register(EXISTING %q as %s, %T)", name, shape, c16Profile(name, shape, kind))
			if err, pmsg := c16Register(c16Profile(name, shape, kind)); pmsg != "" {
				mc.fail(t, "registering a profile under the existing name %q PANICS instead of returning an error: %s", name, pmsg)
			} else if err == nil {
				mc.fail(t, "registering a profile under the existing name %q succeeded", name)
			}
			mc.failedReg = true
			mc.checkAll(t)
		case "register-bad-shape":
			name := rapid.SampledFrom(c16DynNames).Draw(t, "name")
			shape := rapid.SampledFrom([]string{"no-profile-field", "no-json-tag", "lookalike-keys", "lookalike-names", "profile-cbor-dash", "profile-cbor-empty-key", "iface-on-nothing", "iface-on-nothing"}).Draw(t, "shape")
			mc.log("Register(%s as %s)", name[len(name)-5:], shape)
			if err, pmsg := c16Register(c16Profile(name, shape, rapid.IntRange(0, 3).Draw(t, "profile.kind"))); pmsg != "" {
				mc.fail(t, "registering a profile whose claims type has no identifiable profile field (%s) PANICS: %s", shape, pmsg)
			} else if err == nil {
				mc.fail(t, "registering a profile whose claims type has no identifiable profile field (%s) succeeded", shape)
			}
			mc.failedReg = true
			mc.checkAll(t)
		case "new":
			name := rapid.SampledFrom(c16Universe).Draw(t, "name")
			c, err := psatoken.NewClaims(name)
			mc.log("NewClaims(%q)", name)
			if err != nil {
				continue
			}
			mc.addInstance(t, c, name, "NewClaims", refs)
			if mc.mutated {
				mc.readAfterMutate = true
			}
		case "decode":
			name := rapid.SampledFrom(c16Universe).Draw(t, "name")
			format := rapid.SampledFrom([]string{"cbor", "json", "cbor", "json", "cose"}).Draw(t, "format")
			mc.log("Decode(%s, %q) x32", format, name)
			var first string
			for r := 0; r < 32; r++ {
				var c psatoken.IClaims
				var err error
				if format == "cose" {
					// through ONE Evidence object that the history keeps
					// re-using (the usual decode loop), the holder keeping the
					// claims of the tokens decoded before
					if r > 1 && r < 31 {
						continue
					}
					if mc.ev == nil {
						mc.ev = &psatoken.Evidence{}
					}
					kp := keyFor(icose.EdDSA, 0)
					tok, serr := icose.SignedToken(kp.Alg, kp.Priv, c16CBORToken(name))
					if serr != nil {
						t.Fatalf("VERIF-INFRA: %v", serr)
					}
					if err = mc.ev.UnmarshalCOSE(tok); err == nil {
						c = mc.ev.Claims
					}
				} else if format == "cbor" {
					c, err = psatoken.DecodeClaimsFromCBOR(c16CBORToken(name))
				} else {
					c, err = psatoken.DecodeClaimsFromJSON(c16JSONDoc(name))
				}
				o := c16Outcome(c, err)
				if r == 0 {
					first = o
				} else if o != first {
					mc.fail(t, "decoding the same %s token declaring %q gives %s on one call and %s on another", format, name, first, o)
				}
				if err == nil && (r == 0 || r == 31) {
					mc.addInstance(t, c, name, "Decode-"+format, refs)
					mc.checkInstances(t)
				}
			}
			want, _ := mc.expectProbe(name)
			exp := want.CBOR
			if format == "json" {
				exp = want.JSON
			}
			if first != exp {
				mc.fail(t, "decoding a %s token declaring %q gives %s, expected %s", format, name, first, exp)
			}
			if mc.mutated {
				mc.readAfterMutate = true
			}
		case "mutate":
			if len(mc.insts) == 0 {
				continue
			}
			k := rapid.IntRange(0, len(mc.insts)-1).Draw(t, "inst")
			salt++
			mc.log("Mutate(#%d %s of %q)", k, mc.insts[k].src, mc.insts[k].name)
			scribbleInPlace(mc.insts[k].obj, salt)
			mc.insts[k].fp = visibleFP(mc.insts[k].obj)
			mc.mutated = true
		case "probe":
			mc.log("Probe")
			mc.checkName(t, rapid.SampledFrom(c16Universe).Draw(t, "name"), 8)
			mc.checkConflicts(t, 32)
		}
		mc.checkInstances(t)
	}
	mc.checkAll(t)
	cls := []string{fmt.Sprintf("registered=%d", len(mc.reg))}
	if mc.failedReg {
		cls = append(cls, "failed-registration")
	}
	if mc.nested {
		cls = append(cls, "nested-registration")
	}
	if mc.faulty {
		cls = append(cls, "faulty-factory")
	}
	for _, sh := range mc.reg {
		if sh == "two-embedded-p2" {
			cls = append(cls, "two-embedded-shape")
			break
		}
	}
	if mc.readAfterMutate {
		cls = append(cls, "mutate-then-read")
	}
	key := ""
	if mc.failedReg || mc.readAfterMutate {
		key = strings.Join(mc.trace, ";")
	}
	st.Case(key, cls...)
	if key != "" && st.WantSample() && len(mc.trace) > 4 {
		st.Sample(mc.trace)
	}
}

func sortStrings(s []string) {
	for i := range s {
		for j := i + 1; j < len(s); j++ {
			if s[j] < s[i] {
				s[i], s[j] = s[j], s[i]
			}
		}
	}
}

func TestC16_RegistryHistories(t *testing.T) {
	st := NewStats("C16", "TestC16_RegistryHistories", "rapid state machine, every history starting from the pristine register (checkpoint hook), 1..30 steps over {Register(new name) as extension-of-P2 (shares eat-profile) / extension-of-P1 (shares psa-profile) / own JSON member / ONE claims type that embeds the base through the IClaims interface, on a profile-2 or a profile-1 base (the profile member follows the plugged-in value, not the Go type) and, unregistrable, on nothing; Register(existing name: built-in, the default entry, previously added); Register(claims type without profile field / without json tag); NewClaims(name); Decode CBOR/JSON of a token declaring name, repeated 32x; Mutate(instance k) through every setter, through every exported pointer/slice in place, through returned component objects and the container; Probe}. 0..8 extra profiles. Oracle: model register name->shape; after every registration (successful or not) the complete probe battery (NewClaims, CBOR decode, JSON decode for 12 names: type, reported profile, validity) must equal the model's expectation: unchanged for every name not registered by this step; every created/decoded instance has a deep fingerprint equal to the first one obtained the same way and is never the same object as another; after every step every untouched instance's fingerprint is unchanged; repeated JSON dispatch gives one outcome (also for documents carrying a member that differs from a profile member only in letter case, with another value), a token whose label 265 is written in a longer spelling declares the same profile if it decodes at all, and a document naming two different registered profiles is rejected on each of 32 calls. Non-trivial = history contains a failed registration or a mutate followed by a create/decode; distinct = history")
	st.Require = []string{"failed-registration", "mutate-then-read", "registered=0", "registered=1", "registered=3", "nested-registration", "two-embedded-shape", "faulty-factory"}
	defer st.Flush(t)
	registerMu.Lock()
	defer registerMu.Unlock()
	// deterministic prelude: every claims type without an identifiable profile
	// field, under a new and under an existing name, through every kind of
	// IProfile value: refused, and nothing can be looked up afterwards
	func() {
		restore := psatoken.VerifCheckpointProfiles()
		defer restore()
		for _, shape := range []string{"no-profile-field", "no-json-tag", "lookalike-keys", "lookalike-names", "profile-cbor-dash", "profile-cbor-empty-key"} {
			for kind := 0; kind < 4; kind++ {
				for _, name := range []string{c16DynNames[0], P2Name} {
					err, pmsg := c16Register(c16Profile(name, shape, kind))
					if pmsg != "" || err == nil {
						t.Fatalf("C16 violated: registering a profile whose claims type has no identifiable profile field (%s) under %q: err=%v panic=%q", shape, name, err, pmsg)
					}
				}
				if c, err := psatoken.NewClaims(c16DynNames[0]); err == nil {
					t.Fatalf("C16 violated: after the refused registration of a %s claims type NewClaims(%q) returns %T", shape, c16DynNames[0], c)
				}
				st.Case("prelude|"+shape+"|"+fmt.Sprint(kind), "failed-registration")
			}
		}
	}()
	rapid.Check(t, func(t *rapid.T) { c16Run(t, st) })
}
