package checks

// C17 — the read-side API is safe for concurrent use: no data race (race
// detector) and the same results as a sequential execution.

import (
	"encoding/base64"
	"bytes"
	"crypto/ecdsa"
	"crypto/elliptic"
	"encoding/asn1"
	"encoding/json"
	"fmt"
	"math/big"
	"os"
	"path/filepath"
	"reflect"
	"runtime"
	"strings"
	"sync"
	"testing"
	"time"

	"github.com/veraison/psatoken"
	"github.com/veraison/psatoken/encoding"
	"pgregory.net/rapid"

	"verifharness/icbor"
	"verifharness/icose"
)

type c17Pool struct {
	claims  []psatoken.IClaims   // shared, read-only use
	evs     []*psatoken.Evidence // shared decoded Evidence
	evKeys  []keyPair
	cborBuf [][]byte
	jsonBuf [][]byte
	// JSON documents that declare TWO registered profiles at once / an
	// unregistered one / a profile under the other profile's member
	conflictJSON [][]byte
	coseBuf [][]byte
	coseKey []keyPair
	names   []string
	keys    []keyPair
	shapes  []shape
	extCBOR [][]byte // tokens of the registered extension profile (CBOR dispatch)
	extJSON [][]byte
	bad     [][]byte     // inputs every decoder rejects (after having started)
	synth   reflect.Type // a struct type no codec has seen before this program
	// profile-1 tokens that carry the no-measurements flag (decoded INTO
	// private objects that were built through the setters before)
	nomeasCBOR [][]byte
	nomeasJSON [][]byte
	// tokens in which a key occurs twice (the plain decoders take them), and
	// long valid tokens for the validating decoders to chew on meanwhile
	dupCBOR  [][]byte
	dupCOSE  [][]byte
	longCBOR [][]byte
	// tokens of an extension profile whose decoder decodes a nested token
	nestedCBOR [][]byte
	nestedCOSE [][]byte
	// tokens of an extension profile whose own claim has a slow codec
	slowCBOR [][]byte
	// tokens whose key 265 is not a text string (the OID form of a registered
	// profile, an unregistered OID, an integer, an empty byte string, a map),
	// and inputs that are not a map at all
	oddProfCBOR [][]byte
	// byte-string VALUES that several goroutines pass to the setters of their
	// own private objects (a constant implementation id, a shared signer id):
	// index 0..5 = impl id, boot seed, nonce, instance id, measurement, signer id
	sharedVals [][]byte
}

type c17Spec struct {
	Models []*MClaims
	Algs   []int64
	Synth  int // serial number of the program: makes its synthetic struct type unique
}

func c17SynthType(serial int) reflect.Type {
	var fs []reflect.StructField
	for i := 0; i < 12; i++ {
		fs = append(fs, reflect.StructField{
			Name: fmt.Sprintf("F%d_%d", serial, i),
			Type: reflect.TypeOf((*int64)(nil)),
			Tag:  reflect.StructTag(fmt.Sprintf(`cbor:"%d,keyasint,omitempty" json:"f%d_%d,omitempty"`, i+1, serial, i)),
		})
	}
	return reflect.StructOf(fs)
}

func c17SynthValue(typ reflect.Type, seed int) reflect.Value {
	v := reflect.New(typ)
	for i := 0; i < typ.NumField(); i++ {
		if (seed>>uint(i%8))&1 == 0 {
			x := int64(seed*31 + i)
			v.Elem().Field(i).Set(reflect.ValueOf(&x))
		}
	}
	return v
}

// buildPool is a pure function of the spec (so that the sequential reference
// run works on fresh copies).
func buildPool(sp c17Spec) (*c17Pool, error) {
	p := &c17Pool{names: []string{P1Name, P2Name, ExtP2Name, ExtP1Name, "http://example.com/unknown", ""}}
	p.keys = []keyPair{keyFor(icose.EdDSA, 0), keyFor(icose.EdDSA, 1), keyFor(icose.ES256, 0), keyFor(icose.ES384, 0), keyFor(icose.PS256, 0)}
	// key OBJECTS of unusual make, shared by all goroutines like the others:
	// the ES256 keys' points under a bare *elliptic.CurveParams (what a
	// hand-rolled key parser produces), and under another curve object
	for i := 0; i < 2; i++ {
		if pk, ok := keyFor(icose.ES256, i).Pub.(*ecdsa.PublicKey); ok {
			bare := keyFor(icose.ES256, i)
			bare.Pub = &ecdsa.PublicKey{Curve: pk.Curve.Params(), X: new(big.Int).Set(pk.X), Y: new(big.Int).Set(pk.Y)}
			other := keyFor(icose.ES256, i)
			other.Pub = &ecdsa.PublicKey{Curve: elliptic.P384(), X: new(big.Int).Set(pk.X), Y: new(big.Int).Set(pk.Y)}
			p.keys = append(p.keys, bare, other)
		}
	}
	p.sharedVals = [][]byte{
		bytes.Repeat([]byte{0x11}, 32), bytes.Repeat([]byte{0x22}, 32), bytes.Repeat([]byte{0x33}, 48),
		append([]byte{0x01}, bytes.Repeat([]byte{0x44}, 32)...), bytes.Repeat([]byte{0x55}, 64), bytes.Repeat([]byte{0x66}, 32)}
	for i, m := range sp.Models {
		// shared claims in three construction routes
		switch i % 3 {
		case 0:
			if c, ok := m.BuildLiteral(); ok {
				p.claims = append(p.claims, c)
			}
		case 1:
			if c, err := psatoken.DecodeClaimsFromCBOR(m.WireBytes()); err == nil {
				p.claims = append(p.claims, c)
			}
		default:
			if m.Valid() {
				mm := m.Clone()
				if mm.NoMeas != nil {
					mm.NoMeas = u64p(1)
					mm.CompsNil = false
				}
				if mm.Prof == P1 {
					mm.Profile = sp1(P1Name)
				}
				if c, err := buildExt(mm, nil); err == nil {
					p.claims = append(p.claims, c)
				}
			}
		}
		p.cborBuf = append(p.cborBuf, m.WireBytes())
		if c, ok := m.BuildLiteral(); ok {
			if js, err := psatoken.EncodeClaimsToJSON(c); err == nil {
				p.jsonBuf = append(p.jsonBuf, js)
			}
		}
		if m.Valid() {
			kp := keyFor(sp.Algs[i%len(sp.Algs)], i%2)
			tok, err := icose.SignedToken(kp.Alg, kp.Priv, m.WireBytes())
			if err != nil {
				return nil, err
			}
			p.coseBuf = append(p.coseBuf, tok)
			p.coseKey = append(p.coseKey, kp)
			ev, err := psatoken.DecodeEvidenceFromCOSE(tok)
			if err != nil {
				return nil, fmt.Errorf("own token does not decode: %w", err)
			}
			p.evs = append(p.evs, ev)
			p.evKeys = append(p.evKeys, kp)
		}
	}
	if len(p.claims) == 0 || len(p.evs) == 0 || len(p.jsonBuf) == 0 {
		return nil, fmt.Errorf("pool too small")
	}
	for _, b := range []*MClaims{baseValid(P1, 0), baseValid(P2, 0)} {
		for _, kv := range [][]string{{"psa-profile", P1Name, "eat-profile", P2Name}, {"eat-profile", P2Name, "psa-profile", P1Name}, {"eat-profile", "http://example.com/verif/never-registered"}, {"psa-profile", P2Name}, {"eat-profile", P1Name}} {
			o := modelJN(b)
			for i := 0; i+1 < len(kv); i += 2 {
				o.keys, o.vals = append(o.keys, kv[i]), append(o.vals, jStr(kv[i+1]))
			}
			p.conflictJSON = append(p.conflictJSON, []byte(o.String()))
		}
	}
	// shared claims-sets of particular make (every program has them): a
	// decoded profile-1 token in the no-measurements form (empty container
	// next to the flag), and instances of an extension whose optional group
	// of claims is embedded BY POINTER and absent, with pointer-receiver
	// codec methods - the shared object itself reaches the encoding helpers,
	// and no goroutine has encoded it before the scripts start
	// ... a claims-set decoded (without validation) from a token whose
	// component array has a null entry in the middle; and text forms (base64,
	// base64url) of a token among the shared COSE inputs - a byte slice several
	// goroutines hand to the decoders at once
	for v := 0; v < 2; v++ {
		hm := baseValid([]Prof{P2, P1}[v], 1)
		if len(hm.Comps) >= 2 {
			hm.Comps = []*MComp{hm.Comps[0], {NilEntry: true}, hm.Comps[1]}
			if c, err := psatoken.DecodeClaimsFromCBOR(hm.WireBytes()); err == nil {
				p.claims = append(p.claims, c)
			}
		}
	}
	if len(p.coseBuf) > 0 {
		p.coseBuf = append(p.coseBuf, []byte(base64.StdEncoding.EncodeToString(p.coseBuf[0])), []byte(base64.RawURLEncoding.EncodeToString(p.coseBuf[0])))
		p.coseKey = append(p.coseKey, p.coseKey[0], p.coseKey[0])
	}
	for v := 0; v < 2; v++ {
		nm := baseValid(P1, v)
		nm.Comps, nm.NoMeas = nil, u64p(1)
		if c, err := psatoken.DecodeClaimsFromCBOR(nm.WireBytes()); err == nil {
			p.claims = append(p.claims, c)
		}
		if b, err := baseValid(P2, v).BuildSetters(); err == nil {
			c := newPtrEmbClaims()
			prof, canon := c.Profile, c.CanonicalProfile
			c.P2Claims = *(b.(*psatoken.P2Claims))
			c.Profile, c.CanonicalProfile = prof, canon
			p.claims = append(p.claims, c)
		}
	}
	// shared decoded Evidence of unusual-but-decodable envelopes: no
	// algorithm in the protected header (empty bucket / empty map), the
	// algorithm only in the unprotected header, a key id and other
	// parameters in the unprotected header, extra protected parameters
	for i, m := range sp.Models {
		if !m.Valid() || i >= 4 {
			continue
		}
		kp := keyFor(sp.Algs[i%len(sp.Algs)], i%2)
		pay := m.WireBytes()
		type envl struct {
			prot   []byte
			unprot *icbor.Node
		}
		for _, e := range []envl{
			{[]byte{}, icbor.Map()},
			{[]byte{0xa0}, icbor.Map()},
			{[]byte{}, icbor.Map(icbor.P(icbor.U(1), icbor.I(kp.Alg)))},
			{icose.ProtectedAlg(kp.Alg), icbor.Map(icbor.P(icbor.U(4), icbor.Bstr(make([]byte, 32))), icbor.P(icbor.U(99), icbor.Tstr("x")))},
			{icbor.Encode(icbor.Map(icbor.P(icbor.U(1), icbor.I(kp.Alg)), icbor.P(icbor.U(3), icbor.U(60)))), icbor.Map()},
		} {
			sig, err := icose.Sign(kp.Alg, kp.Priv, e.prot, pay)
			if err != nil {
				return nil, err
			}
			tok := icbor.Encode(icose.Envelope(e.prot, e.unprot, pay, sig))
			if ev, err := psatoken.DecodeEvidenceFromCOSE(tok); err == nil {
				p.evs = append(p.evs, ev)
				p.evKeys = append(p.evKeys, kp)
			}
		}
	}
	// shared decoded Evidence whose ECDSA signature is the ASN.1 DER form of
	// (r, s) (decodes; never verifies)
	for i := 0; i < 3; i++ {
		kp := keyFor(icose.ES256, i)
		pay := baseValid(P2, i).WireBytes()
		prot := icose.ProtectedAlg(kp.Alg)
		if sig, err := icose.Sign(kp.Alg, kp.Priv, prot, pay); err == nil {
			type rs struct{ R, S *big.Int }
			h := len(sig) / 2
			if der, err := asn1.Marshal(rs{new(big.Int).SetBytes(sig[:h]), new(big.Int).SetBytes(sig[h:])}); err == nil {
				if ev, err := psatoken.DecodeEvidenceFromCOSE(icbor.Encode(icose.Envelope(prot, icbor.Map(), pay, der))); err == nil {
					p.evs = append(p.evs, ev)
					p.evKeys = append(p.evKeys, kp)
				}
			}
		}
	}
	for i := 0; i < 3; i++ {
		for _, pr := range []Prof{P1, P2} {
			m := baseValid(pr, i)
			n := m.WireNode()
			d1 := icbor.Map(append(append([][2]*icbor.Node{}, n.Pairs...), icbor.P(icbor.I(-70001), icbor.U(1)), icbor.P(icbor.I(-70001), icbor.U(2)))...)
			d2 := icbor.Map(append(append([][2]*icbor.Node{}, n.Pairs...), n.Pairs[len(n.Pairs)-1])...)
			for _, d := range []*icbor.Node{d1, d2} {
				b := icbor.Encode(d)
				p.dupCBOR = append(p.dupCBOR, b)
				kp := keyFor(icose.EdDSA, 0)
				if tok, err := icose.SignedToken(kp.Alg, kp.Priv, b); err == nil {
					p.dupCOSE = append(p.dupCOSE, tok)
				}
			}
			big := m.Clone()
			for len(big.Comps) < 200 {
				big.Comps = append(big.Comps, big.Comps...)
			}
			if pr == P1 {
				big.NoMeas = nil
			}
			if len(big.Comps) > 0 {
				p.longCBOR = append(p.longCBOR, big.WireBytes())
			}
		}
	}
	for i := 0; i < 2; i++ {
		inner := baseValid(P2, i).WireBytes()
		outer := baseValid(P2, i+1)
		ps := append(bodyPairs(outer), icbor.P(icbor.U(265), icbor.Tstr(NestingP2Name)), icbor.P(icbor.I(-75600), icbor.Bstr(inner)))
		b := icbor.Encode(icbor.Map(ps...))
		p.nestedCBOR = append(p.nestedCBOR, b)
		kp := keyFor(icose.EdDSA, 0)
		if tok, err := icose.SignedToken(kp.Alg, kp.Priv, b); err == nil {
			p.nestedCOSE = append(p.nestedCOSE, tok)
		}
	}
	for i := 0; i < 2; i++ {
		outer := baseValid(P2, i)
		ps := append(bodyPairs(outer), icbor.P(icbor.U(265), icbor.Tstr(SlowP2Name)), icbor.P(icbor.I(-75960), icbor.U(uint64(1700000000+i))))
		p.slowCBOR = append(p.slowCBOR, icbor.Encode(icbor.Map(ps...)))
	}
	for i, v := range []*icbor.Node{icbor.Bstr(oidContent(InhP2OID)), icbor.Bstr(oidContent("1.3.6.1.4.1.4128.100.3")), icbor.U(5), icbor.Bstr(nil), icbor.Map(), icbor.Arr(icbor.Tstr(P2Name)), icbor.Bool(true), icbor.F64(1.5)} {
		ps := append(bodyPairs(baseValid(P2, i%3)), icbor.P(icbor.U(265), v))
		p.oddProfCBOR = append(p.oddProfCBOR, icbor.Encode(icbor.Map(ps...)))
	}
	p.oddProfCBOR = append(p.oddProfCBOR, icbor.Encode(icbor.Arr(icbor.U(1), icbor.U(2))), icbor.Encode(icbor.U(7)), icbor.Encode(icbor.Tstr("claims")), []byte{0xf6})
	for _, flag := range []uint64{1, 1, 5} {
		for v := 0; v < 3; v++ {
			nm := baseValid(P1, v)
			nm.Comps, nm.NoMeas = nil, u64p(flag)
			p.nomeasCBOR = append(p.nomeasCBOR, nm.WireBytes())
			o := modelJN(nm)
			p.nomeasJSON = append(p.nomeasJSON, []byte(o.String()))
		}
	}
	// extension-profile tokens and inputs that fail inside the helpers
	for i, m := range sp.Models {
		if !m.Valid() || m.Prof != P2 {
			continue
		}
		mm := m.Clone()
		ts := int64(i)
		if c, err := buildExt(mm, &ts); err == nil {
			if b, err := psatoken.EncodeClaimsToCBOR(c); err == nil {
				p.extCBOR = append(p.extCBOR, b)
				if n, _, rerr := icbor.Read(b); rerr == nil && len(n.Pairs) > 1 {
					dup := icbor.Map(append(append([][2]*icbor.Node{}, n.Pairs...), n.Pairs[0])...)
					txt := icbor.Map(append(append([][2]*icbor.Node{}, n.Pairs...), icbor.P(icbor.Tstr("k"), icbor.U(1)))...)
					p.bad = append(p.bad, icbor.Encode(dup), icbor.Encode(txt), icbor.Encode(icbor.Tag(6, icbor.Tag(6, n))), b[:len(b)/2])
				}
			}
			if b, err := psatoken.EncodeClaimsToJSON(c); err == nil {
				p.extJSON = append(p.extJSON, b)
			}
		}
	}
	if len(p.extCBOR) == 0 || len(p.bad) == 0 {
		return nil, fmt.Errorf("pool has no extension tokens")
	}
	p.synth = c17SynthType(sp.Synth)
	i7, s := int64(7), "s"
	bs := []byte{1, 2}
	p.shapes = []shape{&ShapeFlat{A: &i7, B: &s, C: &bs, D: 3, E: "e"}, &ShapeOuter2{R: 1, ShapeMid: ShapeMid{ShapeInner: ShapeInner{X: &i7, Y: "y"}}, S: &s}}
	return p, nil
}

func sp1(s string) *string { return &s }

type c17Op struct {
	Kind string
	A, B int
}

var c17Kinds = []string{"dec-nested", "dec-mutate", "ev-verify-all", "ev-verify-all", "claims-read-all", "dec-dup", "dec-dup", "dec-val-long", "dec-val-long", "reuse", "reuse", "ext-dec-cbor", "ext-dec-json", "ext-bad", "ext-bad", "synth", "synth", "new", "dec-cbor", "dec-json", "dec-cose", "validate", "getter", "getters", "enc-cbor", "enc-json", "venc-cbor", "venc-json",
	"ev-json", "ev-verify", "ev-ids", "sign", "vsign", "setters", "setters-shared", "setters-shared", "serialize", "populate", "slow-codec", "dec-odd-profile", "dec-odd-profile", "dec-json-conflict", "dec-json-conflict"}

func idx(n, k int) int { return ((k % n) + n) % n }

// runOp executes one operation against the pool and renders its result.
func runOp(p *c17Pool, o c17Op) string {
	switch o.Kind {
	case "ext-dec-cbor":
		c, err := psatoken.DecodeClaimsFromCBOR(p.extCBOR[idx(len(p.extCBOR), o.A)])
		if err != nil {
			return "err:" + err.Error()
		}
		b, _ := psatoken.EncodeClaimsToCBOR(c)
		return fmt.Sprintf("%T/%s/%v/%x", c, ObserveGetters(c), fmtI64(extTimestamp(c)), b)
	case "ext-dec-json":
		c, err := psatoken.DecodeClaimsFromJSON(p.extJSON[idx(len(p.extJSON), o.A)])
		if err != nil {
			return "err:" + err.Error()
		}
		b, _ := psatoken.EncodeClaimsToJSON(c)
		return fmt.Sprintf("%T/%s/%v/%s", c, ObserveGetters(c), fmtI64(extTimestamp(c)), b)
	case "ext-bad":
		// a decode that fails inside the embedding-aware helpers
		in := p.bad[idx(len(p.bad), o.A)]
		_, err1 := psatoken.DecodeClaimsFromCBOR(in)
		err2 := newExtP2Claims().(*ExtP2Claims).UnmarshalCBOR(in)
		err3 := encoding.PopulateStructFromJSON([]byte(`{"a":1,"a":2,"c":null`), &ShapeFlat{})
		return fmt.Sprintf("%v/%v/%v", err1 != nil, err2 != nil, err3 != nil)
	case "synth":
		// a struct type that no codec has seen before this program
		v := c17SynthValue(p.synth, o.A*16+o.B)
		b1, e1 := encoding.SerializeStructToCBOR(hem, v.Interface())
		b2, e2 := encoding.SerializeStructToJSON(v.Interface())
		d1, d2 := reflect.New(p.synth), reflect.New(p.synth)
		e3 := encoding.PopulateStructFromCBOR(hdm, b1, d1.Interface())
		e4 := encoding.PopulateStructFromJSON(b2, d2.Interface())
		return fmt.Sprintf("%x/%s/%v%v%v%v/%v/%v", b1, b2, e1 != nil, e2 != nil, e3 != nil, e4 != nil, reflect.DeepEqual(d1.Interface(), v.Interface()), reflect.DeepEqual(d2.Interface(), v.Interface()))
	case "new":
		c, err := psatoken.NewClaims(p.names[idx(len(p.names), o.A)])
		if err != nil {
			return "err"
		}
		return fmt.Sprintf("%T", c)
	case "dec-cbor":
		c, err := psatoken.DecodeClaimsFromCBOR(p.cborBuf[idx(len(p.cborBuf), o.A)])
		if err != nil {
			return "err"
		}
		return ObserveGetters(c) + errClass(c.Validate())
	case "dec-json":
		c, err := psatoken.DecodeClaimsFromJSON(p.jsonBuf[idx(len(p.jsonBuf), o.A)])
		if err != nil {
			return "err"
		}
		return ObserveGetters(c) + errClass(c.Validate())
	case "dec-cose":
		i := idx(len(p.coseBuf), o.A)
		ev, err := psatoken.DecodeAndValidateEvidenceFromCOSE(p.coseBuf[i])
		if err != nil {
			return "err"
		}
		return fmt.Sprintf("%s/%v/%v", ObserveGetters(ev.Claims), ev.Verify(p.coseKey[i].Pub) == nil, ev.Verify(p.keys[idx(len(p.keys), o.B)].Pub) == nil)
	case "validate":
		return errClass(p.claims[idx(len(p.claims), o.A)].Validate())
	case "getter":
		return observeGetter(p.claims[idx(len(p.claims), o.A)], Claim(idx(int(nClaims), o.B))).Val
	case "getters":
		return ObserveGetters(p.claims[idx(len(p.claims), o.A)])
	case "enc-cbor":
		b, err := psatoken.EncodeClaimsToCBOR(p.claims[idx(len(p.claims), o.A)])
		return fmt.Sprintf("%x/%v", b, err != nil)
	case "enc-json":
		b, err := psatoken.EncodeClaimsToJSON(p.claims[idx(len(p.claims), o.A)])
		return fmt.Sprintf("%s/%v", b, err != nil)
	case "venc-cbor":
		b, err := psatoken.ValidateAndEncodeClaimsToCBOR(p.claims[idx(len(p.claims), o.A)])
		return fmt.Sprintf("%x/%v", b, err != nil)
	case "venc-json":
		b, err := psatoken.ValidateAndEncodeClaimsToJSON(p.claims[idx(len(p.claims), o.A)])
		return fmt.Sprintf("%s/%v", b, err != nil)
	case "ev-json":
		b, err := p.evs[idx(len(p.evs), o.A)].MarshalJSON()
		return fmt.Sprintf("%s/%v", b, err != nil)
	case "ev-verify":
		i := idx(len(p.evs), o.A)
		k := p.evKeys[i]
		if o.B%3 != 0 {
			k = p.keys[idx(len(p.keys), o.B)]
		}
		return fmt.Sprintf("%s:%v", k.Name(), p.evs[i].Verify(k.Pub) == nil)
	case "ev-ids":
		ev := p.evs[idx(len(p.evs), o.A)]
		r := ""
		if x := ev.GetInstanceID(); x != nil {
			r += hexs(*x)
		}
		if x := ev.GetImplementationID(); x != nil {
			r += "/" + hexs(*x)
		}
		return r
	case "sign", "vsign":
		c := p.claims[idx(len(p.claims), o.A)]
		k := p.keys[idx(len(p.keys), o.B)]
		ev := &psatoken.Evidence{Claims: c} // private Evidence, shared claims
		var tok []byte
		var err error
		if o.Kind == "sign" {
			tok, err = ev.Sign(k.Signer())
		} else {
			tok, err = ev.ValidateAndSign(k.Signer())
		}
		if err != nil {
			return "err"
		}
		parts, ok := icose.Split(tok)
		if !ok {
			return "token does not split"
		}
		want, _ := psatoken.EncodeClaimsToCBOR(c)
		return fmt.Sprintf("payload-equal=%v verifies=%v self-verifies=%v", bytes.Equal(parts.Payload, want),
			icose.Verify(k.Alg, k.Pub, parts.Protected, parts.Payload, parts.Signature), ev.Verify(k.Pub) == nil)
	case "dec-nested":
		// a token of an extension profile whose decoder itself calls the
		// library's dispatching decoder for a nested token
		var c psatoken.IClaims
		var err error
		if o.B%2 == 0 {
			c, err = psatoken.DecodeClaimsFromCBOR(p.nestedCBOR[idx(len(p.nestedCBOR), o.A)])
		} else {
			var ev *psatoken.Evidence
			if ev, err = psatoken.DecodeEvidenceFromCOSE(p.nestedCOSE[idx(len(p.nestedCOSE), o.A)]); err == nil {
				c = ev.Claims
			}
		}
		if err != nil {
			return "err:" + err.Error()
		}
		n, ok := c.(*NestingP2Claims)
		if !ok || n.InnerSet == nil {
			return fmt.Sprintf("%T without nested set", c)
		}
		return ObserveGetters(c) + "//" + ObserveGetters(n.InnerSet)
	case "dec-json-conflict":
		// the JSON dispatcher's refusals (two profiles declared, unregistered
		// name, a name under another profile's member), between other
		// goroutines' ordinary decodes
		c, err := psatoken.DecodeClaimsFromJSON(p.conflictJSON[idx(len(p.conflictJSON), o.A*5+o.B)])
		if err != nil {
			// (the TEXT names the matches in the register's iteration order)
			return "refused"
		}
		return fmt.Sprintf("%T/%s", c, ObserveGetters(c))
	case "dec-odd-profile":
		// the dispatcher's less-travelled branches: key 265 not a text
		// string, input not a map
		in := p.oddProfCBOR[idx(len(p.oddProfCBOR), o.A*3+o.B)]
		c, err := psatoken.DecodeClaimsFromCBOR(in)
		if err != nil {
			return "err:" + err.Error()
		}
		return fmt.Sprintf("%T/%s", c, ObserveGetters(c))
	case "slow-codec":
		// decode a token of the slow-claim extension into a private object
		// and encode that again: while the claim's own codec takes its time
		// the call sits inside the library's struct walker, together with
		// every other goroutine doing the same
		c, err := psatoken.DecodeClaimsFromCBOR(p.slowCBOR[idx(len(p.slowCBOR), o.A)])
		if err != nil {
			return "err:" + err.Error()
		}
		sc, ok := c.(*SlowP2Claims)
		if !ok || sc.Stamp == nil {
			return fmt.Sprintf("%T without its own claim", c)
		}
		b, err := psatoken.EncodeClaimsToCBOR(c)
		if err != nil {
			return "enc-err:" + err.Error()
		}
		js, err := psatoken.EncodeClaimsToJSON(c)
		if err != nil {
			return "json-err:" + err.Error()
		}
		return fmt.Sprintf("%s/%d/%x/%s", ObserveGetters(c), int64(*sc.Stamp), b, js)
	case "dec-mutate":
		// decode a token (the same bytes other goroutines decode at the same
		// moment), then change the PRIVATE result through its setters and
		// read it back: what was decoded belongs to this goroutine alone
		i := idx(len(p.coseBuf), o.A)
		ev, err := psatoken.DecodeEvidenceFromCOSE(p.coseBuf[i])
		if err != nil {
			return "err"
		}
		id := int32(1000*o.A + 37*o.B + 1)
		r := ""
		for k := int32(0); k < 3; k++ {
			if ev.Claims.SetClientID(id+k) != nil {
				return "setter failed"
			}
			runtime.Gosched()
			got, gerr := ev.Claims.GetClientID()
			r += fmt.Sprintf("%d/%v;", got-id, gerr != nil)
		}
		b, _ := psatoken.EncodeClaimsToCBOR(ev.Claims)
		return fmt.Sprintf("%s%x", r, b)
	case "ev-verify-all":
		// every shared Evidence, with its own key and one other: whatever a
		// first use does to an object, some other goroutine's first use of
		// the same object is unordered with it
		var sb strings.Builder
		for i, ev := range p.evs {
			fmt.Fprintf(&sb, "%v%v,", ev.Verify(p.evKeys[i].Pub) == nil, ev.Verify(p.keys[idx(len(p.keys), o.B+i)].Pub) == nil)
		}
		return sb.String()
	case "claims-read-all":
		var sb strings.Builder
		for _, c := range p.claims {
			b, err := psatoken.EncodeClaimsToCBOR(c)
			fmt.Fprintf(&sb, "%s/%x/%v;", errClass(c.Validate()), b, err != nil)
			// ... and through the other doors to the same encoders: the
			// JSON encoder, and the marshal METHODS called directly
			js, jerr := psatoken.EncodeClaimsToJSON(c)
			fmt.Fprintf(&sb, "%s/%v;", js, jerr != nil)
			if m, ok := c.(interface{ MarshalCBOR() ([]byte, error) }); ok {
				b2, err2 := m.MarshalCBOR()
				fmt.Fprintf(&sb, "%x/%v;", b2, err2 != nil)
			}
			if m, ok := c.(json.Marshaler); ok {
				j2, err2 := m.MarshalJSON()
				fmt.Fprintf(&sb, "%s/%v;", j2, err2 != nil)
			}
		}
		return sb.String()
	case "dec-dup":
		// the non-validating decoders on a token in which a key occurs twice
		c, err := psatoken.DecodeClaimsFromCBOR(p.dupCBOR[idx(len(p.dupCBOR), o.A)])
		r := "err"
		if err == nil {
			r = ObserveGetters(c)
		}
		ev := &psatoken.Evidence{}
		if uerr := ev.UnmarshalCOSE(p.dupCOSE[idx(len(p.dupCOSE), o.B)]); uerr != nil {
			return r + "/err"
		}
		return r + "/" + ObserveGetters(ev.Claims)
	case "dec-val-long":
		// the validating decoders on a long valid token
		b := p.longCBOR[idx(len(p.longCBOR), o.A)]
		c, err := psatoken.DecodeAndValidateClaimsFromCBOR(b)
		if err != nil {
			return "err:" + err.Error()
		}
		scs, _ := c.GetSoftwareComponents()
		return fmt.Sprintf("%T/%d", c, len(scs))
	case "reuse":
		// a private object built through the setters (profile 1 with the
		// no-measurements flag asserted through SetSoftwareComponents(nil),
		// or either profile with components), then RE-USED as the
		// destination of a decode, then encoded
		prof := P1
		if o.A%4 == 3 {
			prof = P2
		}
		m := baseValid(prof, idx(3, o.B))
		m.Profile = sp1(prof.Name())
		if prof == P1 && o.A%4 != 2 {
			m.Comps, m.NoMeas = nil, u64p(1)
		}
		c, err := m.BuildSetters()
		if err != nil {
			return "err:" + err.Error()
		}
		var derr error
		switch {
		case prof == P2:
			derr = hdm.Unmarshal(p.cborBuf[idx(len(p.cborBuf), o.B)], c)
		case o.B%2 == 0:
			derr = hdm.Unmarshal(p.nomeasCBOR[idx(len(p.nomeasCBOR), o.A+o.B)], c)
		default:
			derr = json.Unmarshal(p.nomeasJSON[idx(len(p.nomeasJSON), o.A+o.B)], c)
		}
		b, err := psatoken.EncodeClaimsToCBOR(c)
		j, _ := psatoken.EncodeClaimsToJSON(c)
		return fmt.Sprintf("%v/%s/%x/%v/%s", derr != nil, ObserveGetters(c), b, err != nil, j)
	case "setters":
		// private object, built and encoded here
		prof := P1
		if o.A%2 == 1 {
			prof = P2
		}
		m := baseValid(prof, idx(3, o.B))
		m.Profile = sp1(prof.Name())
		c, err := m.BuildSetters()
		if err != nil {
			return "err:" + err.Error()
		}
		b, err := psatoken.ValidateAndEncodeClaimsToCBOR(c)
		return fmt.Sprintf("%x/%v", b, err != nil)
	case "setters-shared":
		// a private object; the byte-string VALUES handed to its setters are
		// the same slices every other goroutine hands to its own objects
		name := P1Name
		if o.A%2 == 1 {
			name = P2Name
		}
		c, err := psatoken.NewClaims(name)
		if err != nil {
			return "err:" + err.Error()
		}
		v := p.sharedVals
		sw := &psatoken.SwComponent{}
		errs := []error{c.SetClientID(int32(o.B)), c.SetSecurityLifeCycle(0x3000), c.SetImplID(v[0]), c.SetBootSeed(v[1]), c.SetNonce(v[2]), c.SetInstID(v[3]),
			sw.SetMeasurementValue(v[4]), sw.SetSignerID(v[5])}
		errs = append(errs, c.SetSoftwareComponents([]psatoken.ISwComponent{sw}))
		b, err := psatoken.ValidateAndEncodeClaimsToCBOR(c)
		return fmt.Sprintf("%x/%v/%v", b, err != nil, errs)
	case "serialize":
		s := p.shapes[idx(len(p.shapes), o.A)]
		b1, e1 := encoding.SerializeStructToCBOR(hem, s)
		b2, e2 := encoding.SerializeStructToJSON(s)
		return fmt.Sprintf("%x/%v/%s/%v", b1, e1 != nil, b2, e2 != nil)
	case "populate":
		s := p.shapes[idx(len(p.shapes), o.A)]
		b1, _ := hem.Marshal(s)
		var dst any = &ShapeFlat{}
		if _, ok := s.(*ShapeOuter2); ok {
			b1, _ = encoding.SerializeStructToCBOR(hem, s)
			dst = &ShapeOuter2{}
		}
		err := encoding.PopulateStructFromCBOR(hdm, b1, dst)
		return fmt.Sprintf("%s/%v", dumpJSON(dst), err != nil)
	}
	return "?"
}

// c17Watchdog: how long a concurrent program may run before its goroutines
// are inspected (a normal program takes a few seconds under the race detector).
const c17Watchdog = 60 * time.Second

func raceLogSize() int64 {
	prefix := os.Getenv("VERIF_RACELOG")
	if prefix == "" {
		return 0
	}
	fi, err := os.Stat(fmt.Sprintf("%s.%d", prefix, os.Getpid()))
	if err != nil {
		return 0
	}
	return fi.Size()
}

var progSerial int

func TestC17_Concurrent(t *testing.T) {
	st := NewStats("C17", "TestC17_Concurrent", "rapid draws a PROGRAM: a pool of shared objects (3..8 claims-sets of both profiles and both extension profiles, valid and invalid, built as literals / decoded / extension instances; decoded Evidence; CBOR, JSON and COSE byte buffers; keys of 4 algorithms) and 16..48 goroutine scripts of 10..60 operations each from {NewClaims, decode CBOR/JSON/COSE(+Verify), Validate, single getter, all getters, encode and validate-and-encode CBOR/JSON on SHARED claims, MarshalJSON / Verify / Get*ID on SHARED Evidence, Sign / ValidateAndSign on a private Evidence holding SHARED claims, setter sequences on private objects (also with byte-string VALUES that all goroutines share: a constant implementation id, signer id ...), embedding-aware serialise / populate, decoding of extension-profile tokens (CBOR and JSON dispatch), decode + re-encode of tokens of an extension whose own claim has a slow codec (3 ms inside the library's struct walker: every script starts with one, so that all goroutines are inside the walkers at once), decodes of tokens whose key 265 is not a text string (OID form of a registered and of an unregistered profile, integer, empty byte string, map ...) and of inputs that are not a map, decodes that FAIL inside the embedding-aware helpers (duplicate key, text key, nested tags, truncation), and serialise+populate of a synthetic struct type that no codec has seen before this program}. The concurrent run comes first (cold per-type / per-process caches), the sequential reference on a fresh pool last. The scripts start together behind a barrier (GOMAXPROCS=16) in a binary built with -race. Oracle: (1) no race-detector report (the detector's log file is inspected after every program), (2) every operation's rendered result equals that of the same script run sequentially on a fresh copy of the pool (for signing: payload equals the encoding, token verifies independently and on the signing Evidence). Non-trivial = at least two goroutines used the same shared object; distinct = program hash. Sampling of schedules, not enumeration")
	st.Require = []string{"shared-claims-contended", "shared-evidence-contended"}
	defer st.Flush(t)
	if !raceEnabled {
		fmt.Println("VERIF-INFRA: TestC17_Concurrent must run in a binary built with -race")
		t.Fatalf("VERIF-INFRA: not a race build")
	}
	reps := 1
	if thorough() {
		reps = 3
	}
	withExtProfiles(func() {
		if err := psatoken.RegisterProfile(nestingP2Profile{}); err != nil {
			t.Fatalf("VERIF-INFRA: %v", err)
		}
		if err := psatoken.RegisterProfile(slowP2Profile{}); err != nil {
			t.Fatalf("VERIF-INFRA: %v", err)
		}
		if err := psatoken.RegisterProfile(inheritProfile{P2}); err != nil {
			t.Fatalf("VERIF-INFRA: %v", err)
		}
		rapid.Check(t, func(t *rapid.T) {
			var sp c17Spec
			nm := rapid.IntRange(3, 8).Draw(t, "nmodels")
			for i := 0; i < nm; i++ {
				p := drawProf(t)
				if i == 0 {
					p = P2 // the pool needs tokens of the extension profile
				}
				if i < 2 || genBool.Draw(t, "valid") {
					sp.Models = append(sp.Models, GenValid(t, p, false))
				} else {
					sp.Models = append(sp.Models, GenAny(t, p))
				}
			}
			sp.Algs = []int64{icose.EdDSA, icose.ES256}
			G := rapid.IntRange(16, 48).Draw(t, "goroutines")
			scripts := make([][]c17Op, G)
			for g := range scripts {
				n := rapid.IntRange(10, 60).Draw(t, "len")
				bias := rapid.SampledFrom(c17Kinds).Draw(t, "bias")
				for i := 0; i < n; i++ {
					k := bias
					if rapid.IntRange(0, 2).Draw(t, "mix") > 0 {
						k = rapid.SampledFrom(c17Kinds).Draw(t, "kind")
					}
					scripts[g] = append(scripts[g], c17Op{k, rapid.IntRange(0, 7).Draw(t, "a"), rapid.IntRange(0, 9).Draw(t, "b")})
				}
				// every goroutine STARTS by decoding the same token (right
				// behind the barrier, so the decodes overlap) and changing
				// its own result
				scripts[g] = append([]c17Op{{"slow-codec", g % 2, 0}, {"dec-json-conflict", g % 2, g % 5}, {"dec-json", g, 0}, {"dec-json-conflict", (g + 1) % 2, (g + 1) % 5}, {"dec-odd-profile", g % 4, g % 3}, {"dec-nested", 0, g % 2}, {"dec-mutate", 0, g % 10}, {"dec-mutate", 0, (g + 3) % 10}, {"dec-mutate", -1, g % 10}, {"dec-mutate", -2, g % 7}}, scripts[g]...)
			}
			progSerial++
			sp.Synth = progSerial*1000 + os.Getpid()%1000
			// The concurrent runs come FIRST (so that whatever the library
			// caches per type or per process is cold when goroutines race for
			// it); the sequential reference on a fresh pool is computed last.
			got := make([][][]string, reps)
			for rep := 0; rep < reps; rep++ {
				if rep > 0 {
					progSerial++
					sp.Synth = progSerial*1000 + os.Getpid()%1000
				}
				pool, err := buildPool(sp)
				if err != nil {
					t.Fatalf("VERIF-INFRA: %v", err)
				}
				before := raceLogSize()
				got[rep] = make([][]string, G)
				var wg sync.WaitGroup
				start := make(chan struct{})
				for g := range scripts {
					g := g
					wg.Add(1)
					go func() {
						defer wg.Done()
						<-start
						for _, o := range scripts[g] {
							got[rep][g] = append(got[rep][g], runOp(pool, o))
						}
					}()
				}
				close(start)
				finished := make(chan struct{})
				go func() { wg.Wait(); close(finished) }()
				select {
				case <-finished:
				case <-time.After(c17Watchdog):
					// not a timing verdict: look at WHAT the goroutines are doing.
					// If every unfinished script is parked on a synchronisation
					// primitive inside the library, nothing can ever wake them.
					buf := make([]byte, 8<<20)
					buf = buf[:runtime.Stack(buf, true)]
					blocked, busy := 0, 0
					for _, g := range strings.Split(string(buf), "\n\n") {
						if !strings.Contains(g, "github.com/veraison/psatoken") || !strings.Contains(g, "TestC17_Concurrent") {
							continue
						}
						head := g[:strings.IndexByte(g+"\n", '\n')]
						switch {
						case strings.Contains(head, "chan send"), strings.Contains(head, "chan receive"), strings.Contains(head, "select"), strings.Contains(head, "semacquire"), strings.Contains(head, "sync.Mutex"), strings.Contains(head, "sync.RWMutex"), strings.Contains(head, "sync.Cond"), strings.Contains(head, "sync.WaitGroup"):
							blocked++
						default:
							busy++
						}
					}
					dump := os.Getenv("VERIF_RACELOG") + ".deadlock." + fmt.Sprint(os.Getpid())
					if !(blocked > 0 && busy == 0) {
						dump = filepath.Join(filepath.Dir(os.Getenv("VERIF_RACELOG")), "inconclusive-goroutines."+fmt.Sprint(os.Getpid()))
					}
					_ = os.WriteFile(dump, buf, 0o644)
					if blocked > 0 && busy == 0 {
						// rapid would re-run (and re-deadlock) the program while
						// shrinking: report and leave; the driver takes the dump
						// (a race.* file) as the replay of the violation
						fmt.Printf("C17 violated: after %v %d goroutines running read-side operations are all parked on a channel / lock INSIDE the library and none is runnable: the operations deadlock when run concurrently (goroutine dump in %s)\n", c17Watchdog, blocked, dump)
						os.Exit(3)
					}
					t.Fatalf("VERIF-INFRA: concurrent program did not finish within %v (%d goroutines blocked in the library, %d busy): inconclusive (dump in %s)", c17Watchdog, blocked, busy, dump)
				}
				if after := raceLogSize(); after != before {
					t.Fatalf("C17 violated: the race detector reported a data race while %d goroutines ran read-side operations (report in %s.%d)", G, os.Getenv("VERIF_RACELOG"), os.Getpid())
				}
			}
			ref, err := buildPool(sp)
			if err != nil {
				t.Fatalf("VERIF-INFRA: %v", err)
			}
			want := make([][]string, G)
			for g, sc := range scripts {
				for _, o := range sc {
					want[g] = append(want[g], runOp(ref, o))
				}
			}
			for rep := 0; rep < reps; rep++ {
				for g := range scripts {
					for i := range scripts[g] {
						gv, wv := got[rep][g][i], want[g][i]
						if scripts[g][i].Kind == "synth" && rep != reps-1 {
							continue // synthetic types differ between repetitions
						}
						if gv != wv {
							t.Fatalf("C17 violated: goroutine %d op %d (%+v) returned a different result when run concurrently:\n  concurrent: %s\n  sequential: %s", g, i, scripts[g][i], truncate(gv, 300), truncate(wv, 300))
						}
					}
				}
			}
			// contention classes
			usersC, usersE := map[int]map[int]bool{}, map[int]map[int]bool{}
			var h strings.Builder
			for g, sc := range scripts {
				for _, o := range sc {
					fmt.Fprintf(&h, "%d:%s/%d/%d;", g, o.Kind, o.A, o.B)
					switch o.Kind {
					case "validate", "getter", "getters", "enc-cbor", "enc-json", "venc-cbor", "venc-json", "sign", "vsign":
						if usersC[o.A%8] == nil {
							usersC[o.A%8] = map[int]bool{}
						}
						usersC[o.A%8][g] = true
					case "ev-verify-all":
						for k := 0; k < 8; k++ {
							if usersE[k] == nil {
								usersE[k] = map[int]bool{}
							}
							usersE[k][g] = true
						}
					case "claims-read-all":
						for k := 0; k < 8; k++ {
							if usersC[k] == nil {
								usersC[k] = map[int]bool{}
							}
							usersC[k][g] = true
						}
					case "ev-json", "ev-verify", "ev-ids":
						if usersE[o.A%8] == nil {
							usersE[o.A%8] = map[int]bool{}
						}
						usersE[o.A%8][g] = true
					}
				}
			}
			var cls []string
			nt := false
			for _, u := range usersC {
				if len(u) >= 2 {
					cls = append(cls, "shared-claims-contended")
					nt = true
					break
				}
			}
			for _, u := range usersE {
				if len(u) >= 2 {
					cls = append(cls, "shared-evidence-contended")
					nt = true
					break
				}
			}
			key := ""
			if nt {
				key = h.String()
			}
			st.Case(key, cls...)
			if st.WantSample() {
				st.Sample(map[string]any{"goroutines": G, "shared_models": nm, "first_script": fmt.Sprint(scripts[0])})
			}
		})
	})
}
