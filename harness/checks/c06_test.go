package checks

// C06 — decoding terminates with memory proportional to the input size.
//
// The measuring is done in a dedicated worker process (this test binary
// re-executed with VERIF_WORKER=c06): a single goroutine that decodes framed
// inputs and reports, per input, the runtime.MemStats.TotalAlloc delta and the
// elapsed time. An unrecoverable out-of-memory in the worker is attributed to
// the input that was in flight.

import (
	"github.com/veraison/psatoken"
	"bufio"
	"encoding/binary"
	"encoding/json"
	"fmt"
	"io"
	"os"
	"os/exec"
	"runtime"
	"strconv"
	"strings"
	"syscall"
	"testing"
	"time"

	"pgregory.net/rapid"

	"verifharness/icbor"
)

const (
	c06Fixed   = 1 << 20 // 1 MiB
	c06PerByte = 1 << 10 // 1 KiB per input byte
	c06MaxWall = 5 * time.Second
	c06MaxLen  = 64 << 10
	c06Rlimit  = 4 << 30
)

// Inputs of up to c06SpareMax bytes are measured twice: as an exact-size
// slice and as the first n bytes of a c06SpareCap-byte buffer (family name +
// c06SpareSuffix), the way a caller that reads into a pooled buffer hands a
// token over. The bound is in terms of the input LENGTH either way.
const (
	c06SpareSuffix = "+spare-capacity"
	c06SpareCap    = 4 << 20
	c06SpareMax    = 4096
)

func c06Bound(n int) uint64 { return c06Fixed + c06PerByte*uint64(n) }

// ---- worker side ----

// frame: 1 byte family index, 2 bytes entry index (0xffff = every entry of
// the family), 4 bytes length, data.
var c06Families = []string{"cose", "cbor", "json", "enc-cbor", "enc-json"}

func runWorker(kind string) int {
	switch kind {
	case "c06":
		return c06Worker()
	case "c05cold":
		return c05ColdWorker()
	default:
		return 2
	}
}

func c06Worker() int {
	if os.Getenv("VERIF_C06_NORLIMIT") == "" {
		lim := syscall.Rlimit{Cur: c06Rlimit, Max: c06Rlimit}
		_ = syscall.Setrlimit(syscall.RLIMIT_AS, &lim)
	}
	// the worker's profile register also holds profiles a user registered -
	// among them two with very long (legitimate) URIs: what a decoder
	// allocates is bounded in terms of the INPUT, whatever is registered
	for i := 0; i < 2; i++ {
		name := fmt.Sprintf("http://example.com/verif/%s/%d", strings.Repeat("long-profile-name/", 60), i)
		if err := psatoken.RegisterProfile(dynProfile{name, []string{"ext-p2", "own-tag"}[i]}); err != nil {
			fmt.Fprintln(os.Stderr, "VERIF-INFRA: cannot register a long-named profile:", err)
			return 2
		}
	}
	in := bufio.NewReaderSize(os.Stdin, 1<<17)
	out := bufio.NewWriter(os.Stdout)
	var m0, m1 runtime.MemStats
	hdr := make([]byte, 7)
	spareBuf := make([]byte, c06SpareCap)
	for {
		if _, err := io.ReadFull(in, hdr); err != nil {
			return 0
		}
		fam := c06Families[int(hdr[0]&0x3f)%len(c06Families)]
		ei := int(binary.BigEndian.Uint16(hdr[1:3]))
		n := int(binary.BigEndian.Uint32(hdr[3:7]))
		data := make([]byte, n)
		if hdr[0]&0x40 != 0 {
			// soak request: k(4) lenA(4) A B - see c06Soak
			if _, err := io.ReadFull(in, data); err != nil {
				return 0
			}
			fmt.Fprintln(out, c06WorkerSoak(fam, ei, data))
			out.Flush()
			continue
		}
		if hdr[0]&0x80 != 0 && n <= len(spareBuf) {
			// the input as a caller with a read buffer hands it over: the
			// first n bytes of a much larger slice (len n, cap 4 MiB)
			data = spareBuf[:n]
		}
		if _, err := io.ReadFull(in, data); err != nil {
			return 0
		}
		eps := entriesOf(fam)
		if ei != 0xffff {
			eps = eps[ei%len(eps) : ei%len(eps)+1]
		}
		panics := 0
		runtime.ReadMemStats(&m0)
		t0 := time.Now()
		for _, e := range eps {
			if _, _, pm := runEntryNoPanic(e, data, false); pm != "" {
				panics++
			}
		}
		el := time.Since(t0)
		runtime.ReadMemStats(&m1)
		fmt.Fprintf(out, "R %d %d %d %d\n", m1.TotalAlloc-m0.TotalAlloc, el.Nanoseconds(), panics, len(eps))
		out.Flush()
	}
}

// c06WorkerSoak decodes A and B alternately k times through every entry point
// of the family, measuring EVERY call; it answers at the first call over the
// bound (or over the wall limit), else after the last iteration.
// reply: S <alloc> <wall_ns> <iteration> <entry index> <which: 0=A 1=B> <max alloc of any call> <calls>
const c06Counter = "@COUNT@@"

func c06WorkerSoak(fam string, ei int, req []byte) string {
	if len(req) < 8 {
		return "S 0 0 0 0 0 0 0"
	}
	// a verifier confined to one core: per-processor caches (sync.Pool) then
	// see the whole history instead of a random half of it
	runtime.GOMAXPROCS(1)
	k := int(binary.BigEndian.Uint32(req[0:4]))
	la := int(binary.BigEndian.Uint32(req[4:8]))
	if la > len(req)-8 {
		la = len(req) - 8
	}
	docs := [2][]byte{append([]byte{}, req[8:8+la]...), append([]byte{}, req[8+la:]...)}
	// a history of DIFFERENT inputs: every occurrence of the 8-byte counter
	// marker in A is replaced by the iteration number (8 decimal digits)
	var marks []int
	for i := 0; i+len(c06Counter) <= len(docs[0]); i++ {
		if string(docs[0][i:i+len(c06Counter)]) == c06Counter {
			marks = append(marks, i)
		}
	}
	eps := entriesOf(fam)
	base := 0
	if ei != 0xffff {
		base = ei % len(eps)
		eps = eps[base : base+1]
	}
	var m0, m1 runtime.MemStats
	var maxAlloc uint64
	calls := 0
	for it := 0; it < k; it++ {
		for _, at := range marks {
			copy(docs[0][at:], fmt.Sprintf("%08d", it))
		}
		for w, d := range docs {
			if w == 1 && len(d) == 0 {
				continue
			}
			runtime.ReadMemStats(&m0)
			for i, e := range eps {
				t0 := time.Now()
				_, _, _ = runEntryNoPanic(e, d, false)
				el := time.Since(t0)
				runtime.ReadMemStats(&m1)
				a := m1.TotalAlloc - m0.TotalAlloc
				m0 = m1
				calls++
				if a > maxAlloc {
					maxAlloc = a
				}
				if a > c06Bound(len(d)) || el > c06MaxWall {
					return fmt.Sprintf("S %d %d %d %d %d %d %d", a, el.Nanoseconds(), it, base+i, w, maxAlloc, calls)
				}
			}
		}
	}
	return fmt.Sprintf("S 0 0 %d 0 0 %d %d", k, maxAlloc, calls)
}

// ---- parent side ----

type c06Proc struct {
	cmd   *exec.Cmd
	stdin io.WriteCloser
	out   *bufio.Reader
	errb  *strings.Builder
}

func c06Start() (*c06Proc, error) {
	cmd := exec.Command(os.Args[0])
	cmd.Env = append(os.Environ(), "VERIF_WORKER=c06", "GOMAXPROCS=2")
	stdin, err := cmd.StdinPipe()
	if err != nil {
		return nil, err
	}
	stdout, err := cmd.StdoutPipe()
	if err != nil {
		return nil, err
	}
	eb := &strings.Builder{}
	cmd.Stderr = &capWriter{sb: eb, max: 1 << 14}
	if err := cmd.Start(); err != nil {
		return nil, err
	}
	return &c06Proc{cmd, stdin, bufio.NewReader(stdout), eb}, nil
}

type capWriter struct {
	sb  *strings.Builder
	max int
}

func (w *capWriter) Write(p []byte) (int, error) {
	if w.sb.Len() < w.max {
		k := w.max - w.sb.Len()
		if k > len(p) {
			k = len(p)
		}
		w.sb.Write(p[:k])
	}
	return len(p), nil
}

func (p *c06Proc) stop() {
	if p == nil {
		return
	}
	_ = p.stdin.Close()
	done := make(chan struct{})
	go func() { _ = p.cmd.Wait(); close(done) }()
	select {
	case <-done:
	case <-time.After(3 * time.Second):
		_ = p.cmd.Process.Kill()
		<-done
	}
}

type c06Res struct {
	Alloc    uint64
	Wall     time.Duration
	Panics   int
	Entries  int
	Died     bool   // worker exited while this input was in flight
	OOM      bool   // ... with a Go out-of-memory fatal error
	Stderr   string // first part of the worker's stderr when it died
	TimedOut bool
}

func famIndex(f string) int {
	for i, x := range c06Families {
		if x == f {
			return i
		}
	}
	return 0
}

// measure sends one input; entry < 0 = all entry points of the family.
func (p *c06Proc) measure(fam string, entry int, data []byte) c06Res {
	hdr := make([]byte, 7)
	hdr[0] = byte(famIndex(strings.TrimSuffix(fam, c06SpareSuffix)))
	if strings.HasSuffix(fam, c06SpareSuffix) {
		hdr[0] |= 0x80
	}
	if entry < 0 {
		binary.BigEndian.PutUint16(hdr[1:3], 0xffff)
	} else {
		binary.BigEndian.PutUint16(hdr[1:3], uint16(entry))
	}
	binary.BigEndian.PutUint32(hdr[3:7], uint32(len(data)))
	type rd struct {
		line string
		err  error
	}
	ch := make(chan rd, 1)
	go func() {
		_, _ = p.stdin.Write(hdr)
		_, _ = p.stdin.Write(data)
		l, err := p.out.ReadString('\n')
		ch <- rd{l, err}
	}()
	var r rd
	select {
	case r = <-ch:
	case <-time.After(2 * c06MaxWall):
		_ = p.cmd.Process.Kill()
		<-ch
		_ = p.cmd.Wait()
		return c06Res{Died: true, TimedOut: true, Wall: 2 * c06MaxWall}
	}
	if r.err != nil {
		_ = p.cmd.Wait()
		es := p.errb.String()
		oom := strings.Contains(es, "out of memory") || strings.Contains(es, "cannot allocate memory") || strings.Contains(es, "makeslice: len out of range") && strings.Contains(es, "fatal error") ||
			// unbounded recursion ends the same way: the runtime gives up, nothing can recover
			strings.Contains(es, "stack overflow") || strings.Contains(es, "goroutine stack exceeds")
		return c06Res{Died: true, OOM: oom, Stderr: truncate(es, 1500)}
	}
	var res c06Res
	var ns int64
	if _, err := fmt.Sscanf(r.line, "R %d %d %d %d", &res.Alloc, &ns, &res.Panics, &res.Entries); err != nil {
		return c06Res{Died: true, Stderr: "unparsable worker reply: " + r.line}
	}
	res.Wall = time.Duration(ns)
	return res
}

type c06In struct {
	Family string `json:"family"`
	Entry  string `json:"entry_point,omitempty"` // empty = some entry point of the family (the batch was over the bound)
	Data   hx     `json:"input_hex"`
	Desc   string `json:"desc,omitempty"`
}

// c06Judge measures one input with a pool worker and returns a violation
// message (or ""), restarting the worker if it died. infra != "" means the
// harness itself is in trouble.
type c06Step struct {
	Family string `json:"family"`
	Data   hx     `json:"input_hex"`
}

type c06Pool struct {
	p      *c06Proc
	recent []c06Step // what the current worker has been fed most recently
	// seq is set when a violation only shows after earlier inputs
	seq []c06Step
}

func (pl *c06Pool) remember(fam string, data []byte) {
	pl.recent = append(pl.recent, c06Step{fam, append([]byte{}, data...)})
	if len(pl.recent) > 6 {
		pl.recent = pl.recent[len(pl.recent)-6:]
	}
}

// replaySequence feeds steps to a fresh worker; true if the last one hangs or
// kills it.
func c06SequenceHangs(steps []c06Step) (bool, string) {
	p, err := c06Start()
	if err != nil {
		return false, ""
	}
	defer p.stop()
	for i, s := range steps {
		r := p.measure(s.Family, -1, s.Data)
		if r.Died {
			if i == len(steps)-1 && (r.TimedOut || r.OOM) {
				return true, fmt.Sprintf("timedOut=%v oom=%v", r.TimedOut, r.OOM)
			}
			return false, ""
		}
	}
	return false, ""
}

var c06SeqKind = registerKind("c06seq", func(steps []c06Step) string {
	if hangs, how := c06SequenceHangs(steps); hangs {
		return fmt.Sprintf("after %d earlier (returning) decode calls, decoding the last input does not return / kills the process (%s)", len(steps)-1, how)
	}
	return ""
})

func (pl *c06Pool) get() (*c06Proc, error) {
	if pl.p == nil {
		p, err := c06Start()
		if err != nil {
			return nil, err
		}
		pl.p = p
	}
	return pl.p, nil
}

func (pl *c06Pool) drop() {
	if pl.p != nil {
		pl.p.stop()
		pl.p = nil
	}
}

func (pl *c06Pool) judge(fam string, data []byte) (violation string, entry string, infra string, res c06Res) {
	p, err := pl.get()
	if err != nil {
		return "", "", "cannot start worker: " + err.Error(), res
	}
	before := append([]c06Step{}, pl.recent...)
	res = p.measure(fam, -1, data)
	pl.remember(fam, data)
	eps := entriesOf(strings.TrimSuffix(fam, c06SpareSuffix))
	if !res.Died && res.Alloc <= c06Bound(len(data)) && res.Wall <= c06MaxWall {
		return "", "", "", res
	}
	if res.Died {
		pl.drop()
		pl.recent = nil
	}
	// attribute to single entry points, each in a fresh measurement
	for i, e := range eps {
		p, err := pl.get()
		if err != nil {
			return "", "", "cannot start worker: " + err.Error(), res
		}
		r := p.measure(fam, i, data)
		if r.Died {
			pl.drop()
			if r.OOM {
				return fmt.Sprintf("decoding a %d-byte input kills the process with an unrecoverable out-of-memory / stack-overflow error (address-space limit %d MiB):\n%s", len(data), c06Rlimit>>20, firstLines(r.Stderr, 6)), e.Name, "", r
			}
			if r.TimedOut {
				// confirm in three fresh workers
				slow := 0
				for k := 0; k < 3; k++ {
					p2, err := c06Start()
					if err != nil {
						return "", "", "cannot start worker: " + err.Error(), r
					}
					r2 := p2.measure(fam, i, data)
					if r2.TimedOut || r2.Wall > c06MaxWall {
						slow++
					}
					if r2.Died {
						_ = p2.cmd.Process.Kill()
					}
					p2.stop()
				}
				if slow == 3 {
					return fmt.Sprintf("decoding a %d-byte input does not return within %v (4 measurements in fresh processes)", len(data), c06MaxWall), e.Name, "", r
				}
				continue
			}
			return "", "", "worker died for a reason other than memory while decoding via " + e.Name + ": " + firstLines(r.Stderr, 8), r
		}
		if r.Alloc > c06Bound(len(data)) {
			return fmt.Sprintf("decoding a %d-byte input allocated %d bytes; bound is 1 MiB + 1 KiB/byte = %d", len(data), r.Alloc, c06Bound(len(data))), e.Name, "", r
		}
		if r.Wall > c06MaxWall {
			slow := 1
			for k := 0; k < 3; k++ {
				p2, err := c06Start()
				if err != nil {
					return "", "", "cannot start worker: " + err.Error(), r
				}
				r2 := p2.measure(fam, i, data)
				if r2.TimedOut || r2.Wall > c06MaxWall {
					slow++
				}
				p2.stop()
			}
			if slow == 4 {
				return fmt.Sprintf("decoding a %d-byte input took %v (> %v in 4 measurements, 3 of them in fresh processes)", len(data), r.Wall, c06MaxWall), e.Name, "", r
			}
		}
	}
	if res.Died && !res.OOM && !res.TimedOut {
		return "", "", "worker died on the batch but on no single entry point: " + firstLines(res.Stderr, 8), res
	}
	if res.Died {
		// alone, in a fresh process, the input is fine: does it hang / die
		// only after the inputs the worker had been given before?
		steps := append(before, c06Step{fam, append([]byte{}, data...)})
		for attempt := 0; attempt < 2; attempt++ {
			if hangs, how := c06SequenceHangs(steps); hangs {
				pl.seq = steps
				return fmt.Sprintf("decoding a %d-byte input does not return / kills the process (%s) when it follows %d earlier decode calls that all returned: state left behind by an earlier call", len(data), how, len(steps)-1), "(sequence)", "", res
			} else if attempt == 1 {
				return "", "", "worker timed out on a batch, but neither a single entry point nor the replayed sequence reproduces it", res
			}
		}
	}
	// the batch as a whole exceeded the per-call bound but no single entry
	// point did: fine.
	return "", "", "", res
}

func firstLines(s string, n int) string {
	ls := strings.Split(s, "\n")
	if len(ls) > n {
		ls = ls[:n]
	}
	return strings.Join(ls, "\n")
}

var c06Kind = registerKind("c06", func(in c06In) string {
	pl := &c06Pool{}
	defer pl.drop()
	v, _, infra, _ := pl.judge(in.Family, in.Data)
	if infra != "" {
		return "VERIF-INFRA: " + infra
	}
	return v
})

// ---- generators ----

func beUint(v uint64, w int) []byte {
	b := make([]byte, w)
	for i := w - 1; i >= 0; i-- {
		b[i] = byte(v)
		v >>= 8
	}
	return b
}

type c06Bomb struct {
	desc string
	raw  []byte
}

// headerBombs: a head of major type 2..6 declaring far more than follows.
func headerBombs() []c06Bomb {
	type al struct {
		ai  int
		val uint64
	}
	lens := []al{{24, 0x80}, {24, 0xff}, {25, 1 << 8}, {25, 1<<16 - 1}, {26, 1 << 16}, {26, 1 << 24}, {26, 1 << 31}, {26, 1<<32 - 1}, {27, 1 << 32}, {27, 1 << 63}, {27, 1<<64 - 1}}
	var r []c06Bomb
	for major := 2; major <= 6; major++ {
		for _, l := range lens {
			w := 1 << (l.ai - 24)
			for follow := 0; follow <= 16; follow++ {
				raw := append([]byte{byte(major<<5 | l.ai)}, beUint(l.val, w)...)
				for i := 0; i < follow; i++ {
					raw = append(raw, 0x00)
				}
				r = append(r, c06Bomb{fmt.Sprintf("major%d/ai%d/declared=%d/following=%d", major, l.ai, l.val, follow), raw})
			}
		}
	}
	return r
}

// placements embeds raw bytes at every structural position of a valid token.
type c06Placed struct {
	fam  string
	desc string
	data []byte
}

func placeCBOR(raw []byte, desc string) []c06Placed {
	var r []c06Placed
	r = append(r, c06Placed{"cbor", "top/" + desc, raw}, c06Placed{"enc-cbor", "top/" + desc, raw}, c06Placed{"cose", "top/" + desc, raw})
	for _, p := range []Prof{P1, P2} {
		m := baseValid(p, 1)
		for _, c := range []Claim{CImplID, CNonce, CSwComps, CVSI, CProfile} {
			ps := m.WirePairs()
			for i := range ps {
				if k, _ := ps[i][0].Int(); k == wireKey(p, c) {
					ps[i][1] = icbor.Raw(raw)
				}
			}
			tok := icbor.Encode(icbor.Map(ps...))
			d := fmt.Sprintf("%s/%s/%s", p, c, desc)
			r = append(r, c06Placed{"cbor", d, tok}, c06Placed{"enc-cbor", d, tok})
			r = append(r, c06Placed{"cose", "payload/" + d, icbor.Encode(c05Envelope(tok))})
		}
		// inside a component
		ps := m.WirePairs()
		for i := range ps {
			if k, _ := ps[i][0].Int(); k == wireKey(p, CSwComps) {
				ps[i][1] = icbor.Arr(icbor.Map(icbor.P(icbor.U(2), icbor.Raw(raw)), icbor.P(icbor.U(5), icbor.Bstr(make([]byte, 32)))))
			}
		}
		tok := icbor.Encode(icbor.Map(ps...))
		r = append(r, c06Placed{"cbor", fmt.Sprintf("%s/component.value/%s", p, desc), tok})
		// as an extra unknown key's value and as a key
		ps = append(m.WirePairs(), icbor.P(icbor.U(9999), icbor.Raw(raw)))
		r = append(r, c06Placed{"cbor", fmt.Sprintf("%s/unknown-key-value/%s", p, desc), icbor.Encode(icbor.Map(ps...))})
		r = append(r, c06Placed{"enc-cbor", fmt.Sprintf("%s/unknown-key-value/%s", p, desc), icbor.Encode(icbor.Map(ps...))})
	}
	// COSE envelope positions
	good := c05Envelope(baseValid(P2, 0).WireBytes())
	for i, name := range []string{"protected", "unprotected", "payload", "signature"} {
		e := good.Clone()
		e.Items[0].Items[i] = icbor.Raw(raw)
		r = append(r, c06Placed{"cose", name + "/" + desc, icbor.Encode(e)})
	}
	e := good.Clone()
	e.Items[0] = icbor.Raw(raw)
	r = append(r, c06Placed{"cose", "tag18-content/" + desc, icbor.Encode(e)})
	// protected header bstr whose content is the bomb; unprotected map holding it
	e = good.Clone()
	e.Items[0].Items[0] = icbor.Bstr(raw)
	r = append(r, c06Placed{"cose", "protected-content/" + desc, icbor.Encode(e)})
	e = good.Clone()
	e.Items[0].Items[1] = icbor.Map(icbor.P(icbor.U(4), icbor.Raw(raw)))
	r = append(r, c06Placed{"cose", "unprotected-value/" + desc, icbor.Encode(e)})
	return r
}

// wrapAroundLengths: heads whose declared length, converted to a signed or
// narrower integer or added to an offset, wraps around (2^64-k, 2^63+-k,
// 2^32-k, 2^31+-k), as value / key / element of definite and
// INDEFINITE-length containers with a few bytes and a break after them.
func wrapAroundLengths() []c06Placed {
	var lens []struct {
		ai  int
		val uint64
	}
	add := func(ai int, v uint64) {
		lens = append(lens, struct {
			ai  int
			val uint64
		}{ai, v})
	}
	for k := uint64(1); k <= 16; k++ {
		add(27, -k) // 2^64 - k
	}
	for _, k := range []uint64{24, 25, 32, 33, 64, 255, 256, 4096} {
		add(27, -k)
	}
	for _, v := range []uint64{1<<63 - 1, 1 << 63, 1<<63 + 1, 1<<63 + 9, 1<<32 - 1, 1 << 32, 1<<32 + 1, 1<<31 - 1, 1 << 31} {
		add(27, v)
	}
	for _, v := range []uint64{1<<32 - 1, 1<<32 - 2, 1<<32 - 9, 1<<31 - 1, 1 << 31, 1<<31 + 1} {
		add(26, v)
	}
	var r []c06Placed
	for major := 2; major <= 5; major++ {
		for _, l := range lens {
			head := append([]byte{byte(major<<5 | l.ai)}, beUint(l.val, 1<<(l.ai-24))...)
			desc := fmt.Sprintf("major%d/declared=%d", major, l.val)
			forms := map[string][]byte{
				"indef-map-value":  append(append([]byte{0xbf, 0x00}, head...), 0xff),
				"indef-map-value+": append(append([]byte{0xbf, 0x00}, head...), 0x00, 0x00, 0x00, 0x00, 0x00, 0x00, 0x00, 0x00, 0xff),
				"indef-map-key":    append(append([]byte{0xbf}, head...), 0x00, 0xff),
				"indef-map-2nd":    append(append([]byte{0xbf, 0x00, 0x00, 0x01}, head...), 0xff),
				"indef-array":      append(append([]byte{0x9f}, head...), 0xff),
				"map-value":        append([]byte{0xa1, 0x00}, head...),
				"map-2nd-value":    append(append([]byte{0xa2, 0x00, 0x00, 0x01}, head...), 0x00, 0x00),
				"tagged-indef-map": append(append([]byte{0xc6, 0xbf, 0x01}, head...), 0xff),
				"indef-bstr-chunk": append(append([]byte{0x5f}, head...), 0xff),
			}
			for name, b := range forms {
				d := name + "/" + desc
				r = append(r, c06Placed{"enc-cbor", d, b}, c06Placed{"cbor", d, b})
				if major == 2 && l.ai == 27 {
					r = append(r, c06Placed{"cose", "payload/" + d, icbor.Encode(c05Envelope(b))})
				}
			}
		}
	}
	return r
}

// promisedEntries: a map (or array) head that ANNOUNCES many entries - or is
// of indefinite length - followed by only a few real ones, whose labels are of
// every kind (integer known / unknown to the destination, negative, text, byte
// string, float, simple, array, tagged): the announced count must not turn
// into that many iterations, allocations or re-reads, whatever the decoder
// does with an entry it has no use for.
func promisedEntries() []c06Placed {
	labels := [][]byte{{0x00}, {0x01}, {0x18, 0x63}, {0x19, 0x01, 0x09}, {0x3a, 0x00, 0x01, 0x24, 0xf7}, {0x20}, {0x61, 0x61}, {0x60}, {0x65, 'b', 'u', 'i', 'l', 'd'},
		{0x41, 0x01}, {0x40}, {0xf9, 0x3c, 0x00}, {0xf4}, {0xf6}, {0xf7}, {0xe0}, {0x80}, {0x81, 0x00}, {0xa0}, {0xc1, 0x00}, {0xd8, 0x18, 0x41, 0x00}}
	values := [][]byte{{0x00}, {0x61, 0x78}, {0x41, 0x00}, {0xf6}, {0x80}, {0xa0}}
	counts := []struct {
		ai  int
		val uint64
	}{{24, 0xff}, {25, 1<<16 - 1}, {26, 1 << 24}, {26, 1<<32 - 1}, {27, 1 << 32}, {27, 1<<63 - 1}, {27, 1<<64 - 1}}
	var r []c06Placed
	for li, l := range labels {
		for vi, v := range values {
			if vi > 1 && li%3 != 0 {
				continue
			}
			entry := append(append([]byte{}, l...), v...)
			for n := 1; n <= 3; n++ {
				var body []byte
				for i := 0; i < n; i++ {
					body = append(body, entry...)
					if i == 0 && n > 1 {
						body = append(body, 0x02, 0x03) // a known-looking entry in between
					}
				}
				desc := fmt.Sprintf("label=%x/value=%x/x%d", l, v, n)
				for _, c := range counts {
					head := append([]byte{byte(5<<5 | c.ai)}, beUint(c.val, 1<<(c.ai-24))...)
					doc := append(append([]byte{}, head...), body...)
					r = append(r, c06Placed{"enc-cbor", fmt.Sprintf("map-announcing-%d/%s", c.val, desc), doc}, c06Placed{"cbor", fmt.Sprintf("map-announcing-%d/%s", c.val, desc), doc})
				}
				for _, form := range []struct {
					name string
					doc  []byte
				}{
					{"indefinite-map", append(append([]byte{0xbf}, body...), 0xff)},
					{"indefinite-map-no-break", append([]byte{0xbf}, body...)},
					{"tagged-indefinite-map", append(append([]byte{0xc6, 0xbf}, body...), 0xff)},
					{"exact-map", append([]byte{byte(0xa0 + len(body)*0 + n + map[bool]int{true: 1}[n > 1])}, body...)},
				} {
					r = append(r, c06Placed{"enc-cbor", form.name + "/" + desc, form.doc}, c06Placed{"cbor", form.name + "/" + desc, form.doc})
				}
			}
		}
	}
	// ... and the same inside a claims token (a component map, an unknown
	// key's value) and as COSE payload / header
	for _, l := range [][]byte{{0x61, 0x61}, {0x18, 0x63}, {0xf4}, {0x41, 0x01}} {
		for _, c := range counts {
			head := append([]byte{byte(5<<5 | c.ai)}, beUint(c.val, 1<<(c.ai-24))...)
			raw := append(append(append([]byte{}, head...), l...), 0x00)
			r = append(r, placeCBORLight(raw, fmt.Sprintf("map-announcing-%d/label=%x", c.val, l))...)
		}
		raw := append(append([]byte{0xbf}, l...), 0x00, 0xff)
		r = append(r, placeCBORLight(raw, fmt.Sprintf("indefinite-map/label=%x", l))...)
	}
	return r
}

// memberPairDocs: claims documents in which two top-level members are changed
// at once - one to null / an empty container, one to a value of a wrong type
// (a decode that fails in one member after another one was reset must still
// terminate).
func memberPairDocs() []c06Placed {
	var r []c06Placed
	for _, base := range c05JSONBases() {
		root, err := parseJN(base.doc)
		if err != nil || root.kind != 'o' || !(strings.HasPrefix(base.name, "p1") || strings.HasPrefix(base.name, "p2")) {
			continue
		}
		for i := range root.keys {
			for j := range root.keys {
				if i == j {
					continue
				}
				for ai, a := range []*jn{jNull(), jArr(), jRaw("{}")} {
					for bi, b := range []*jn{jStr("x"), jNum("1099511627776"), jRaw("true")} {
						c := root.clone()
						c.vals[i], c.vals[j] = a.clone(), b.clone()
						r = append(r, c06Placed{"json", fmt.Sprintf("%s/%s=#%d,%s=#%d", base.name, root.keys[i], ai, root.keys[j], bi), []byte(c.String())})
					}
				}
			}
		}
	}
	for _, base := range c05CBORBases() {
		if !(strings.HasPrefix(base.name, "p1") || strings.HasPrefix(base.name, "p2")) {
			continue
		}
		n := len(base.node.Pairs)
		for i := 0; i < n; i++ {
			for j := 0; j < n; j++ {
				if i == j {
					continue
				}
				for ai, a := range []*icbor.Node{icbor.Null(), icbor.Arr()} {
					for bi, b := range []*icbor.Node{icbor.Tstr("x"), icbor.U(1 << 40)} {
						c := base.node.Clone()
						c.Pairs[i][1], c.Pairs[j][1] = a.Clone(), b.Clone()
						r = append(r, c06Placed{"cbor", fmt.Sprintf("%s/pair%d=#%d,%d=#%d", base.name, i, ai, j, bi), icbor.Encode(c)})
					}
				}
			}
		}
	}
	return r
}

// jsonNumberBombs: numbers whose spelling is short but whose exact integer /
// decimal expansion is huge (exponents up to 10^9), very long digit strings,
// in every numeric member of the claims documents and of a helper shape, and
// in a text / array position.
func jsonNumberBombs() []c06Placed {
	nums := []string{"1e400", "1e2000000", "1E+2000000", "1.0e2000000", "1.5e4000000", "-1e2000000", "1e99999999", "1e999999999", "1e-2000000", "0e999999999", "12288e-0", "1.2288e4",
		"1" + strings.Repeat("0", 60000), "0." + strings.Repeat("0", 60000) + "1", strings.Repeat("9", 30000) + "e-29990", "1e2147483647", "1e2147483648", "1e-2147483649", "1e18446744073709551616"}
	var r []c06Placed
	for _, base := range c05JSONBases() {
		root, err := parseJN(base.doc)
		if err != nil {
			continue
		}
		fams := []string{"json"}
		if base.name == "ShapeFlat" {
			fams = []string{"enc-json"}
		}
		for si, sl := range jsonSlots(root) {
			k := sl.get().kind
			if k != '0' && !(k == 's' && si%3 == 0) {
				continue
			}
			for ni, n := range nums {
				c := root.clone()
				jsonSlots(c)[si].set(jNum(n))
				for _, f := range fams {
					r = append(r, c06Placed{f, fmt.Sprintf("%s/%s=number#%d", base.name, sl.path, ni), []byte(c.String())})
				}
			}
		}
	}
	return r
}

// jsonNearSyntaxDocs: what JSON does NOT have but hand-written or generated
// files often carry - line and block comments (terminated or running into the
// end of the input), a byte order mark, trailing commas, single quotes, shell
// comments, NaN / Infinity, concatenated documents - before, inside and after
// the claims documents, and alone.
func jsonNearSyntaxDocs() []c06Placed {
	frags := []string{"//", "// x", "//\n", "// x\n", "/*", "/* x", "/* x */", "/**/", "/*/", "/", "#", "# x\n", "<!--", "<!-- x -->", "--", ";", "\ufeff", "\xef\xbb\xbf",
		",", ",,", "'a'", "NaN", "Infinity", "-Infinity", "undefined", "\\", "\\u", "\x00", "{}", "[]", "null", "\r", "\t\n ", "/*" + strings.Repeat("*", 5000), strings.Repeat("/", 5000), strings.Repeat("//", 2500), "//" + strings.Repeat(" ", 5000)}
	var r []c06Placed
	for _, f := range frags {
		r = append(r, c06Placed{"json", fmt.Sprintf("near-syntax/alone/%q", truncate(f, 12)), []byte(f)})
		r = append(r, c06Placed{"enc-json", fmt.Sprintf("near-syntax/alone/%q", truncate(f, 12)), []byte(f)})
	}
	for _, base := range c05JSONBases() {
		fam := "json"
		if base.name == "ShapeFlat" {
			fam = "enc-json"
		}
		doc := string(base.doc)
		first := strings.IndexByte(doc, ',')
		for _, f := range frags {
			variants := []string{f + doc, doc + f, doc + " " + f, f + "\n" + doc}
			if first > 0 {
				variants = append(variants, doc[:first]+f+doc[first:], doc[:first+1]+f+doc[first+1:])
			}
			if i := strings.LastIndexByte(doc, '}'); i > 0 {
				variants = append(variants, doc[:i]+f+doc[i:])
			}
			for vi, v := range variants {
				r = append(r, c06Placed{fam, fmt.Sprintf("near-syntax/%s/%q/#%d", base.name, truncate(f, 12), vi), []byte(v)})
			}
		}
	}
	return r
}

// jsonNumbersAsNames: numbers in places where JSON has NAMES or where a reader
// might take a value for a size / position: every array of the documents
// respelt as an object keyed by position ({"0": .., "1": ..}) with huge,
// negative, fractional and exponent positions; every object given members
// whose names are such numbers; string values that are such numbers.
func jsonNumbersAsNames() []c06Placed {
	nums := []string{"0", "1", "4000000", "900000000000", "4294967295", "4294967296", "2147483648", "18446744073709551615", "18446744073709551616", "9223372036854775807", "-1", "1e9", "1E9", "0x7fffffff", "007", strings.Repeat("9", 400)}
	var r []c06Placed
	for _, base := range c05JSONBases() {
		root, err := parseJN(base.doc)
		if err != nil {
			continue
		}
		fam := "json"
		if base.name == "ShapeFlat" {
			fam = "enc-json"
		}
		for si, sl := range jsonSlots(root) {
			cur := sl.get()
			for ni, n := range nums {
				var repl *jn
				switch cur.kind {
				case 'a':
					// the list as an object keyed by position: the first
					// element at 0 and one at the huge position
					o := &jn{kind: 'o'}
					for i, it := range cur.items {
						o.keys, o.vals = append(o.keys, fmt.Sprint(i)), append(o.vals, it)
					}
					var last *jn = jNull()
					if len(cur.items) > 0 {
						last = cur.items[0]
					}
					o.keys, o.vals = append(o.keys, n), append(o.vals, last)
					repl = o
				case 'o':
					o := &jn{kind: 'o', keys: append([]string{}, cur.keys...), vals: append([]*jn{}, cur.vals...)}
					o.keys, o.vals = append(o.keys, n), append(o.vals, jNum("1"))
					repl = o
				case 's':
					if si%4 != 0 {
						continue
					}
					repl = jStr(n)
				default:
					continue
				}
				c := root.clone()
				jsonSlots(c)[si].set(repl)
				r = append(r, c06Placed{fam, fmt.Sprintf("numbers-as-names/%s/%s#%d", base.name, sl.path, ni), []byte(c.String())})
			}
		}
	}
	return r
}

// manyMemberErrorDocs: documents of up to 60 KB with thousands of members
// (JSON) / entries (CBOR) that take an ERROR path of the dispatching decoders:
// an unregistered profile, profile members naming two profiles, a profile of
// a wrong type, a mandatory claim of a wrong type at the very end.
func manyMemberErrorDocs() []c06Placed {
	var r []c06Placed
	for _, n := range []int{1000, 3000, 6000} {
		var sb strings.Builder
		for i := 0; i < n; i++ {
			fmt.Fprintf(&sb, `"k%d":1,`, i)
		}
		members := sb.String()
		for name, tail := range map[string]string{
			"unregistered-eat-profile": `"eat-profile":"http://example.com/none"`,
			"unregistered-psa-profile": `"psa-profile":"PSA_IOT_PROFILE_9"`,
			"two-profiles":             `"eat-profile":"http://arm.com/psa/2.0.0","psa-profile":"PSA_IOT_PROFILE_1"`,
			"profile-wrong-type":       `"eat-profile":[1,2,3]`,
			"claim-wrong-type":         `"eat-profile":"http://arm.com/psa/2.0.0","psa-client-id":"x"`,
			"p1-claim-wrong-type":      `"psa-client-id":"x"`,
		} {
			r = append(r, c06Placed{"json", fmt.Sprintf("%d members, %s last", n, name), []byte("{" + members + tail + "}")})
			r = append(r, c06Placed{"json", fmt.Sprintf("%d members, %s first", n, name), []byte("{" + tail + "," + members[:len(members)-1] + "}")})
		}
		// CBOR: n unknown integer keys plus an unregistered / wrong-typed profile
		ps := make([][2]*icbor.Node, 0, n+2)
		for i := 0; i < n; i++ {
			ps = append(ps, icbor.P(icbor.U(uint64(100000+i)), icbor.U(1)))
		}
		for name, tail := range map[string][2]*icbor.Node{
			"unregistered-profile": icbor.P(icbor.U(265), icbor.Tstr("http://example.com/none")),
			"profile-wrong-type":   icbor.P(icbor.U(265), icbor.Arr(icbor.U(1))),
			"claim-wrong-type":     icbor.P(icbor.I(-75001), icbor.Tstr("x")),
		} {
			doc := icbor.Encode(icbor.Map(append(append([][2]*icbor.Node{}, ps...), tail)...))
			r = append(r, c06Placed{"cbor", fmt.Sprintf("%d entries, %s", n, name), doc}, c06Placed{"enc-cbor", fmt.Sprintf("%d entries, %s", n, name), doc})
			r = append(r, c06Placed{"cose", fmt.Sprintf("payload: %d entries, %s", n, name), icbor.Encode(c05Envelope(doc))})
		}
	}
	return r
}

func nestings() []c06Placed {
	var r []c06Placed
	rep := func(unit []byte, d int, tail []byte) []byte {
		b := make([]byte, 0, len(unit)*d+len(tail))
		for i := 0; i < d; i++ {
			b = append(b, unit...)
		}
		return append(b, tail...)
	}
	for _, d := range []int{8, 16, 31, 32, 33, 64, 100, 1000, 10000, 20000, 32000} {
		for name, unit := range map[string][]byte{"array": {0x81}, "map": {0xa1, 0x00}, "tag": {0xc0}, "tag24": {0xd8, 0x18}, "indef-array": {0x9f}, "indef-map": {0xbf, 0x00}, "map-key": {0xa1}} {
			if len(unit)*d+1 > c06MaxLen {
				continue
			}
			raw := rep(unit, d, []byte{0x00})
			for _, pl := range placeCBORLight(raw, fmt.Sprintf("nest/%s/depth=%d", name, d)) {
				r = append(r, pl)
			}
		}
	}
	for _, d := range []int{8, 100, 1000, 9999, 10000, 10001, 30000} {
		for name, mk := range map[string]func(int) string{
			"array":      func(d int) string { return strings.Repeat("[", d) + strings.Repeat("]", d) },
			"object":     func(d int) string { return strings.Repeat(`{"a":`, d) + "1" + strings.Repeat("}", d) },
			"array-open": func(d int) string { return strings.Repeat("[", d) },
			"in-claim": func(d int) string {
				return `{"psa-software-components":` + strings.Repeat("[", d) + strings.Repeat("]", d) + `}`
			},
			"in-unknown":    func(d int) string { return `{"x":` + strings.Repeat(`{"a":`, d) + "1" + strings.Repeat("}", d) + `}` },
			"object-in-arr": func(d int) string { return strings.Repeat(`[{"a":`, d/2) + "1" + strings.Repeat("}]", d/2) },
		} {
			doc := mk(d)
			if len(doc) > c06MaxLen {
				continue
			}
			r = append(r, c06Placed{"json", fmt.Sprintf("nest/%s/depth=%d", name, d), []byte(doc)}, c06Placed{"enc-json", fmt.Sprintf("nest/%s/depth=%d", name, d), []byte(doc)})
		}
	}
	// nesting hidden inside byte strings (invisible to the CBOR decoder's own
	// depth limit): bstr in bstr, and tag 24 "encoded CBOR data item" layers,
	// with a map or a complete valid token innermost
	for _, innerName := range []string{"empty-map", "claims"} {
		for _, layer := range []string{"bstr", "tag24-bstr", "tag24-bstr-in-map"} {
			for _, maxLen := range []int{200, 4000, 65000} {
				inner := []byte{0xa0}
				if innerName == "claims" {
					inner = baseValid(P2, 0).WireBytes()
				}
				depth := 0
				for {
					var next []byte
					switch layer {
					case "bstr":
						next = icbor.Encode(icbor.Bstr(inner))
					case "tag24-bstr":
						next = icbor.Encode(icbor.Tag(24, icbor.Bstr(inner)))
					default:
						next = icbor.Encode(icbor.Map(icbor.P(icbor.U(9999), icbor.Tag(24, icbor.Bstr(inner)))))
					}
					if len(next) > maxLen {
						break
					}
					inner = next
					depth++
				}
				d := fmt.Sprintf("nest/%s(%s)/depth=%d", layer, innerName, depth)
				r = append(r, c06Placed{"cbor", d, inner}, c06Placed{"enc-cbor", d, inner}, c06Placed{"cose", "payload/" + d, icbor.Encode(c05Envelope(inner))})
			}
		}
	}
	r = append(r, c06Placed{"json", "nest/array-open/depth=65536", []byte(strings.Repeat("[", 65536))}, c06Placed{"enc-json", "nest/array-open/depth=65536", []byte(strings.Repeat("[", 65536))})
	return r
}

// placeCBORLight: top level, one claim value, COSE payload.
func placeCBORLight(raw []byte, desc string) []c06Placed {
	r := []c06Placed{{"cbor", "top/" + desc, raw}, {"enc-cbor", "top/" + desc, raw}, {"cose", "top/" + desc, raw}}
	ps := baseValid(P2, 1).WirePairs()
	ps = append(ps, icbor.P(icbor.U(9999), icbor.Raw(raw)))
	tok := icbor.Encode(icbor.Map(ps...))
	if len(tok) <= c06MaxLen-200 {
		r = append(r, c06Placed{"cbor", "unknown-key-value/" + desc, tok}, c06Placed{"enc-cbor", "unknown-key-value/" + desc, tok},
			c06Placed{"cose", "payload/unknown-key-value/" + desc, icbor.Encode(c05Envelope(tok))})
	}
	return r
}

func bigOnes() []c06Placed {
	var r []c06Placed
	// long strings in claims
	for _, n := range []int{4096, 60000} {
		big := make([]byte, n)
		for _, p := range []Prof{P1, P2} {
			m := baseValid(p, 1)
			m.ImplID = bp(big)
			r = append(r, c06Placed{"cbor", fmt.Sprintf("%s/impl-id=%d bytes", p, n), m.WireBytes()}, c06Placed{"enc-cbor", fmt.Sprintf("%s/impl-id=%d bytes", p, n), m.WireBytes()})
			m = baseValid(p, 1)
			m.VSI = sp(strings.Repeat("v", n))
			r = append(r, c06Placed{"cbor", fmt.Sprintf("%s/vsi=%d chars", p, n), m.WireBytes()})
			r = append(r, c06Placed{"cose", fmt.Sprintf("%s/payload vsi=%d chars", p, n), icbor.Encode(c05Envelope(m.WireBytes()))})
			if c, ok := m.BuildLiteral(); ok {
				if js, err := json.Marshal(c); err == nil && len(js) <= c06MaxLen {
					r = append(r, c06Placed{"json", fmt.Sprintf("%s/vsi=%d chars", p, n), js}, c06Placed{"enc-json", fmt.Sprintf("%s/vsi=%d chars", p, n), js})
				}
			}
		}
	}
	// long PROFILE values that name nothing registered (4 KB, 60 KB; URIs and
	// plain text), under key 265 / eat-profile / psa-profile
	for _, n := range []int{4096, 60000} {
		for _, prefix := range []string{"http://example.com/verif/", "PSA_IOT_PROFILE_", "http://arm.com/psa/2.0.0/"} {
			name := prefix + strings.Repeat("x", n-len(prefix))
			m := baseValid(P2, 1)
			ps := append(bodyPairs(m), icbor.P(icbor.U(265), icbor.Tstr(name)))
			tok := icbor.Encode(icbor.Map(ps...))
			d := fmt.Sprintf("unregistered profile of %d chars (%s...)", n, prefix)
			r = append(r, c06Placed{"cbor", d, tok}, c06Placed{"cose", "payload/" + d, icbor.Encode(c05Envelope(tok))})
			for _, member := range []string{"eat-profile", "psa-profile", "x-profile"} {
				o := modelJN(m)
				o.keys, o.vals = append(o.keys, member), append(o.vals, jStr(name))
				if doc := []byte(o.String()); len(doc) <= c06MaxLen {
					r = append(r, c06Placed{"json", member + "/" + d, doc})
				}
			}
		}
	}
	// many-key maps
	for _, n := range []int{1000, 10000, 16000, 24000} {
		var ps [][2]*icbor.Node
		for i := 0; i < n; i++ {
			ps = append(ps, icbor.P(icbor.U(uint64(100000+i)), icbor.U(0)))
		}
		tok := icbor.Encode(icbor.Map(append(baseValid(P2, 0).WirePairs(), ps...)...))
		if len(tok) <= c06MaxLen {
			r = append(r, c06Placed{"cbor", fmt.Sprintf("many-keys/%d", n), tok}, c06Placed{"enc-cbor", fmt.Sprintf("many-keys/%d", n), tok})
		}
		// same key repeated
		var dps [][2]*icbor.Node
		for i := 0; i < n; i++ {
			dps = append(dps, icbor.P(icbor.U(2400), icbor.Tstr("x")))
		}
		tok = icbor.Encode(icbor.Map(append(baseValid(P2, 0).WirePairs(), dps...)...))
		if len(tok) <= c06MaxLen {
			r = append(r, c06Placed{"cbor", fmt.Sprintf("dup-keys/%d", n), tok}, c06Placed{"enc-cbor", fmt.Sprintf("dup-keys/%d", n), tok})
		}
		var sb strings.Builder
		sb.WriteString(`{"eat-profile":"` + P2Name + `"`)
		for i := 0; i < n/2; i++ {
			fmt.Fprintf(&sb, `,"k%d":0`, i)
		}
		sb.WriteString("}")
		if sb.Len() <= c06MaxLen {
			r = append(r, c06Placed{"json", fmt.Sprintf("many-members/%d", n/2), []byte(sb.String())}, c06Placed{"enc-json", fmt.Sprintf("many-members/%d", n/2), []byte(sb.String())})
		}
		// many DISTINCT names, each used twice (first all of them, then all again)
		sb.Reset()
		sb.WriteString(`{"eat-profile":"` + P2Name + `"`)
		for rep := 0; rep < 2; rep++ {
			for i := 0; i < n/4; i++ {
				fmt.Fprintf(&sb, `,"k%d":%d`, i, rep)
			}
		}
		sb.WriteString("}")
		if sb.Len() <= c06MaxLen {
			r = append(r, c06Placed{"json", fmt.Sprintf("distinct-members-twice/%d", n/4), []byte(sb.String())}, c06Placed{"enc-json", fmt.Sprintf("distinct-members-twice/%d", n/4), []byte(sb.String())})
		}
		sb.Reset()
		sb.WriteString(`{"eat-profile":"` + P2Name + `"`)
		for i := 0; i < n/2; i++ {
			sb.WriteString(`,"a":0`)
		}
		sb.WriteString("}")
		if sb.Len() <= c06MaxLen {
			r = append(r, c06Placed{"json", fmt.Sprintf("dup-members/%d", n/2), []byte(sb.String())}, c06Placed{"enc-json", fmt.Sprintf("dup-members/%d", n/2), []byte(sb.String())})
		}
	}
	// long component lists
	var comps []*icbor.Node
	for i := 0; i < 700; i++ {
		comps = append(comps, compNode(baseValid(P2, 0).Comps[0]))
	}
	ps := baseValid(P2, 0).WirePairs()
	for i := range ps {
		if k, _ := ps[i][0].Int(); k == 2399 {
			ps[i][1] = icbor.Arr(comps...)
		}
	}
	r = append(r, c06Placed{"cbor", "components/700", icbor.Encode(icbor.Map(ps...))}, c06Placed{"enc-cbor", "components/700", icbor.Encode(icbor.Map(ps...))})
	nulls := make([]*icbor.Node, 60000)
	for i := range nulls {
		nulls[i] = icbor.Null()
	}
	for i := range ps {
		if k, _ := ps[i][0].Int(); k == 2399 {
			ps[i][1] = icbor.Arr(nulls...)
		}
	}
	r = append(r, c06Placed{"cbor", "components/60000 nulls", icbor.Encode(icbor.Map(ps...))})
	return r
}

// tagWrapped: every short input that starts with a tag head, and valid
// documents wrapped in tags of every head width (termination of the
// hand-written tag skipping in the claims and populate decoders).
func tagWrapped() []c06Placed {
	var r []c06Placed
	for h := 0xc0; h <= 0xdb; h++ {
		r = append(r, c06Placed{"cbor", fmt.Sprintf("tiny/%02x", h), []byte{byte(h)}}, c06Placed{"enc-cbor", fmt.Sprintf("tiny/%02x", h), []byte{byte(h)}})
		for b := 0; b < 256; b++ {
			d := []byte{byte(h), byte(b)}
			r = append(r, c06Placed{"cbor", fmt.Sprintf("tiny/%x", d), d}, c06Placed{"enc-cbor", fmt.Sprintf("tiny/%x", d), d}, c06Placed{"cose", fmt.Sprintf("tiny/%x", d), d})
		}
	}
	var tags []uint64
	for tg := uint64(0); tg <= 31; tg++ {
		tags = append(tags, tg)
	}
	tags = append(tags, 0xa0, 0xbf, 0xff, 0x100, 0x1a0, 55799, 0x10000, 0xa0a0a0a0, 1<<32, 1<<64-1)
	for _, tg := range tags {
		for _, p := range []Prof{P1, P2} {
			root := baseValid(p, 1).WireNode()
			for depth := 1; depth <= 3; depth++ {
				var n *icbor.Node = root
				for i := 0; i < depth; i++ {
					n = icbor.Tag(tg, n)
				}
				b := icbor.Encode(n)
				d := fmt.Sprintf("%s/tag%d x%d(claims)", p, tg, depth)
				r = append(r, c06Placed{"cbor", d, b}, c06Placed{"enc-cbor", d, b}, c06Placed{"cose", "payload/" + d, icbor.Encode(c05Envelope(b))})
			}
			// tagged non-maps and a tag in front of nothing
			for name, in := range map[string]*icbor.Node{"null": icbor.Null(), "array": icbor.Arr(root), "int": icbor.U(0xa0), "empty-map": icbor.Map()} {
				b := icbor.Encode(icbor.Tag(tg, in))
				d := fmt.Sprintf("%s/tag%d(%s)", p, tg, name)
				r = append(r, c06Placed{"cbor", d, b}, c06Placed{"enc-cbor", d, b}, c06Placed{"cose", "payload/" + d, icbor.Encode(c05Envelope(b))})
			}
		}
		env := c05Envelope(baseValid(P2, 0).WireBytes())
		r = append(r, c06Placed{"cose", fmt.Sprintf("tag%d(envelope)", tg), icbor.Encode(icbor.Tag(tg, env))})
	}
	return r
}

func conflictDocs() []c06Placed {
	var r []c06Placed
	body := modelJN(baseValid(P2, 0))
	mk := func(kv ...string) []byte {
		o := body.clone()
		for i := 0; i+1 < len(kv); i += 2 {
			o.keys = append(o.keys, kv[i])
			o.vals = append(o.vals, jStr(kv[i+1]))
		}
		return []byte(o.String())
	}
	r = append(r,
		c06Placed{"json", "json/two matching profiles", mk("psa-profile", P1Name, "eat-profile", P2Name)},
		c06Placed{"json", "json/unknown profile", mk("eat-profile", "http://example.com/unknown")},
		c06Placed{"json", "json/profile of wrong type", []byte(`{"eat-profile":5}`)},
		c06Placed{"json", "json/not an object", []byte(`[1,2]`)},
		c06Placed{"enc-json", "json/duplicate member", []byte(`{"a":1,"a":2,"c":"AQI=","d":3}`)},
		c06Placed{"cbor", "cbor/unknown profile", icbor.Encode(icbor.Map(icbor.P(icbor.U(265), icbor.Tstr("http://example.com/unknown"))))},
		c06Placed{"cbor", "cbor/profile of wrong type", icbor.Encode(icbor.Map(icbor.P(icbor.U(265), icbor.U(5))))},
		c06Placed{"enc-cbor", "cbor/duplicate key", []byte{0xa2, 0x01, 0x00, 0x01, 0x00}},
		c06Placed{"cose", "cose/mac0", []byte{0xd1, 0x84, 0x40, 0xa0, 0x40, 0x40}},
	)
	return r
}

func c06NonTrivial(fam string, data []byte) bool {
	if len(data) >= 4096 {
		return true
	}
	if strings.Contains(fam, "json") {
		depth, max := 0, 0
		for _, b := range data {
			if b == '[' || b == '{' {
				depth++
				if depth > max {
					max = depth
				}
			} else if b == ']' || b == '}' {
				depth--
			}
		}
		return max >= 8
	}
	_, fl, err := icbor.Read(data)
	if err == icbor.ErrTruncated || err == icbor.ErrDepth {
		return true // declares more than it carries / nests deeper than the reader follows
	}
	return fl.MaxDepth >= 8
}

func c06RunOne(t interface{ Fatalf(string, ...any) }, st *Stats, pl *c06Pool, fam, desc string, data []byte, class string) (violation string, in c06In) {
	if len(data) > c06MaxLen {
		st.Class("skipped-too-long")
		return "", in
	}
	v, entry, infra, res := pl.judge(fam, data)
	if infra != "" {
		fmt.Printf("VERIF-INFRA: C06 %s\n", infra)
		t.Fatalf("VERIF-INFRA: %s", infra)
	}
	key := ""
	if c06NonTrivial(fam, data) {
		key = fam + "|" + string(data)
	}
	st.Case(key, class, "family="+fam)
	st.mu.Lock()
	if n := len(entriesOf(fam)); n > 1 {
		st.Evals += int64(n - 1)
	}
	if a, _ := st.Extra["max_alloc_bytes"].(uint64); res.Alloc > a && !res.Died {
		st.Extra["max_alloc_bytes"] = res.Alloc
		st.Extra["max_alloc_input"] = fmt.Sprintf("%s: %s (%d bytes, all %d entry points of the family together)", fam, desc, len(data), res.Entries)
	}
	if w, _ := st.Extra["max_wall_ms"].(int64); res.Wall.Milliseconds() > w {
		st.Extra["max_wall_ms"] = res.Wall.Milliseconds()
		st.Extra["max_wall_input"] = fmt.Sprintf("%s: %s (%d bytes)", fam, desc, len(data))
	}
	st.mu.Unlock()
	if key != "" && st.WantSample() && class != "vector" {
		st.Sample(map[string]any{"family": fam, "desc": desc, "len": len(data), "alloc_all_entry_points": res.Alloc, "input_hex_prefix": truncate(hexs(data), 64)})
	}
	if v != "" {
		return v, c06In{Family: fam, Entry: entry, Data: data, Desc: desc}
	}
	if len(data) <= c06SpareMax {
		v, entry, infra, _ := pl.judge(fam+c06SpareSuffix, data)
		if infra != "" {
			fmt.Printf("VERIF-INFRA: C06 %s\n", infra)
			t.Fatalf("VERIF-INFRA: %s", infra)
		}
		st.Class("spare-capacity-slice")
		st.mu.Lock()
		st.Evals += int64(len(entriesOf(fam)))
		st.mu.Unlock()
		if v != "" {
			return v, c06In{Family: fam + c06SpareSuffix, Entry: entry, Data: data, Desc: desc + fmt.Sprintf(" [input handed over as buf[:%d] of a %d-byte buffer]", len(data), c06SpareCap)}
		}
	}
	return "", in
}

// c06Report reports a violation with the right replay kind.
func c06Report(t testing.TB, pl *c06Pool, v string, in c06In) {
	if in.Entry == "(sequence)" && pl.seq != nil {
		reportCase(t, "C06", "c06seq", pl.seq, v+"\n  "+in.Desc)
		return
	}
	reportCase(t, "C06", "c06", in, v+"\n  via "+in.Entry+"; "+in.Desc)
}

func TestC06_Bombs(t *testing.T) {
	st := NewStats("C06", "TestC06_Bombs", "enumeration, measured in an address-space-limited single-goroutine worker process (TotalAlloc delta and wall time per input): header bombs = every major type 2..6 x additional-info 24..27 x declared length in {0x80,0xff,2^8,2^16-1,2^16,2^24,2^31,2^32-1,2^32,2^63,2^64-1} x 0..16 following bytes, placed at top level and at every structural position of a valid token of both profiles (5 claim values, a component field, an unknown key's value, COSE payload / protected / unprotected / signature / tag content / protected-header content / unprotected-header value); declared lengths that wrap around when converted or added (2^64-k for k=1..16 and others, 2^63+-k, 2^32-k, 2^31+-k) as value / key / element of definite and indefinite-length containers; claims documents with two members changed at once (one null / empty, one of a wrong type); documents with thousands of members that take an error path of the dispatching decoders (unregistered / double / wrong-typed profile, wrong-typed claim); JSON numbers with exponents up to 10^9 and 60000-digit spellings in every numeric member; what JSON does not have (line / block comments terminated or running into the end of the input, byte order marks, trailing commas, NaN ...) before, inside and after the claims documents and alone; every JSON array respelt as an object keyed by (huge / negative / exponent) positions and objects with such numbers as member names; nesting of arrays, maps, tags, indefinite containers to depth 8..32000 and JSON arrays/objects to depth 8..65536 (closed and unclosed, top level and inside claims); 4 KiB..60 KiB strings, 1000..16000-key maps (distinct and duplicate keys), 700-component and 60000-null component lists; every 1- and 2-byte input that starts with a tag head and valid documents wrapped 1..3 deep in 42 tag numbers of every head width (termination of the hand-written tag skipping). Every input goes to every entry point of its family (COSE, claims CBOR incl. per-type unmarshal and extension types, claims JSON, populate helpers). Violation: a call allocates more than 1 MiB + 1 KiB per input byte, or takes > 5 s (re-measured in 3 fresh processes), or the worker dies with an out-of-memory fatal error. Non-trivial = declares more data than it carries, or nests >= 8 deep, or >= 4 KiB; distinct = family + input")
	st.Exhaustive = true
	st.Require = []string{"bomb", "wrap-around", "promised-entries", "member-pair", "json-number", "many-members-error-path", "json-near-syntax", "json-numbers-as-names", "nesting", "big", "tag-wrapped", "error-path", "family=cbor", "family=cose", "family=json", "family=enc-cbor", "family=enc-json"}
	defer st.Flush(t)
	pl := &c06Pool{}
	defer pl.drop()
	shard, shards := shardInfo()
	idx := 0
	run := func(p c06Placed, class string) {
		idx++
		if idx%shards != shard {
			return
		}
		if v, in := c06RunOne(t, st, pl, p.fam, p.desc, p.data, class); v != "" {
			c06Report(t, pl, v, in)
		}
	}
	for _, b := range headerBombs() {
		for _, p := range placeCBOR(b.raw, b.desc) {
			run(p, "bomb")
		}
	}
	for _, p := range wrapAroundLengths() {
		run(p, "wrap-around")
	}
	for _, p := range promisedEntries() {
		run(p, "promised-entries")
	}
	for _, p := range memberPairDocs() {
		run(p, "member-pair")
	}
	for _, p := range jsonNumberBombs() {
		run(p, "json-number")
	}
	for _, p := range manyMemberErrorDocs() {
		run(p, "many-members-error-path")
	}
	for _, p := range jsonNearSyntaxDocs() {
		run(p, "json-near-syntax")
	}
	for _, p := range jsonNumbersAsNames() {
		run(p, "json-numbers-as-names")
	}
	for _, p := range nestings() {
		run(p, "nesting")
	}
	for _, p := range bigOnes() {
		run(p, "big")
	}
	for _, p := range tagWrapped() {
		run(p, "tag-wrapped")
	}
	// documents on the decoders' error paths, each followed by ordinary ones
	// (a call that fails must not leave anything behind that blocks later calls)
	good := c05JSONBases()[0].doc
	goodC := baseValid(P2, 1).WireBytes()
	for _, cd := range conflictDocs() {
		run(cd, "error-path")
		run(c06Placed{"json", "ordinary document after " + cd.desc, good}, "error-path")
		run(c06Placed{"cbor", "ordinary token after " + cd.desc, goodC}, "error-path")
	}
	cv, ev, jv := c05Vectors()
	for _, v := range cv {
		run(c06Placed{"cbor", "vector", v}, "vector")
		run(c06Placed{"enc-cbor", "vector", v}, "vector")
	}
	for _, v := range ev {
		run(c06Placed{"cose", "vector", v}, "vector")
	}
	for _, v := range jv {
		run(c06Placed{"json", "vector", v}, "vector")
		run(c06Placed{"enc-json", "vector", v}, "vector")
	}
}

func TestC06_Mutants(t *testing.T) {
	st := NewStats("C06", "TestC06_Mutants", "rapid, same worker and bounds: (a) a random CBOR head (any major type, any additional info, random argument bytes) followed by 0..40 random/structured bytes, spliced at a random node of a generated token or envelope; (b) C05's structural mutants with a lying length head injected; (c) JSON documents with random nesting prefixes and long runs. Non-trivial and distinct as in TestC06_Bombs")
	st.Require = []string{"family=cbor", "family=cose", "family=json"}
	defer st.Flush(t)
	pl := &c06Pool{}
	defer pl.drop()
	rapid.Check(t, func(t *rapid.T) {
		var fam, desc string
		var data []byte
		switch rapid.IntRange(0, 3).Draw(t, "kind") {
		case 0, 1:
			head := []byte{genByte.Draw(t, "head")}
			head = append(head, rapid.SliceOfN(genByte, 0, 8).Draw(t, "arg")...)
			if genBool.Draw(t, "bigarg") {
				ai := rapid.IntRange(24, 27).Draw(t, "ai")
				major := rapid.IntRange(2, 6).Draw(t, "major")
				head = append([]byte{byte(major<<5 | ai)}, beUint(rapid.Uint64().Draw(t, "declared")|1<<uint(rapid.IntRange(0, 63).Draw(t, "hibit")), 1<<(ai-24))...)
			}
			tail := rapid.SliceOfN(rapid.SampledFrom(cborAlphabet), 0, 40).Draw(t, "tail")
			raw := append(head, tail...)
			m := GenAny(t, drawProf(t))
			root := m.WireNode()
			slots := cborSlots(root)
			s := slots[rapid.IntRange(0, len(slots)-1).Draw(t, "slot")]
			s.set(icbor.Raw(raw))
			data = icbor.Encode(root)
			fam = rapid.SampledFrom([]string{"cbor", "enc-cbor", "cose"}).Draw(t, "fam")
			desc = fmt.Sprintf("head %x at %s", head, s.path)
			if fam == "cose" {
				if genBool.Draw(t, "aspayload") {
					data = icbor.Encode(c05Envelope(data))
				} else {
					env := c05Envelope(m.WireBytes())
					es := cborSlots(env)
					e := es[rapid.IntRange(0, len(es)-1).Draw(t, "eslot")]
					e.set(icbor.Raw(raw))
					data = icbor.Encode(env)
					desc = fmt.Sprintf("head %x at envelope%s", head, e.path)
				}
			}
		case 2:
			m := GenAny(t, drawProf(t))
			n, _ := drawCBORMutant(t, m.WireNode(), rapid.IntRange(1, 3).Draw(t, "nmut"))
			data = byteEdits(t, icbor.Encode(n))
			fam = rapid.SampledFrom([]string{"cbor", "enc-cbor"}).Draw(t, "fam")
			desc = "structural mutant"
		default:
			d := rapid.IntRange(1, 12000).Draw(t, "depth")
			open := rapid.SampledFrom([]string{"[", `{"a":`, `[{"psa-nonce":`, `{"psa-software-components":[`}).Draw(t, "open")
			doc := strings.Repeat(open, d)
			if len(doc) > c06MaxLen {
				doc = doc[:c06MaxLen]
			}
			if genBool.Draw(t, "wrap") {
				doc = `{"eat-profile":"` + P2Name + `","x":` + doc
			}
			if len(doc) > c06MaxLen {
				doc = doc[:c06MaxLen]
			}
			data = []byte(doc)
			fam = rapid.SampledFrom([]string{"json", "enc-json"}).Draw(t, "fam")
			desc = fmt.Sprintf("json nesting %q x %d", open, d)
		}
		if v, in := c06RunOne(t, st, pl, fam, desc, data, "mutant"); v != "" {
			t.Fatalf("C06 violated: %s\n  via %s; %s\n  input: %s", v, in.Entry, in.Desc, truncate(hexs(data), 400))
		}
	})
}

// FuzzC06 keeps the allocation oracle inside the fuzz target: the decode runs
// in this process under a soft memory limit; an over-allocation shows up as a
// TotalAlloc delta (single fuzz worker goroutine per process).
func FuzzC06_Alloc(f *testing.F) {
	for _, b := range headerBombs() {
		if strings.HasSuffix(b.desc, "following=0") || strings.HasSuffix(b.desc, "following=3") {
			f.Add(b.raw, byte(1))
			f.Add(b.raw, byte(3))
		}
	}
	cv, ev, jv := c05Vectors()
	for _, v := range cv {
		f.Add(v, byte(1))
		f.Add(v, byte(3))
	}
	for _, v := range ev {
		f.Add(v, byte(0))
	}
	for _, v := range jv {
		f.Add(v, byte(2))
		f.Add(v, byte(4))
	}
	f.Fuzz(func(t *testing.T, data []byte, famSel byte) {
		if len(data) > c06MaxLen {
			return
		}
		fam := c06Families[int(famSel)%len(c06Families)]
		var m0, m1 runtime.MemStats
		for _, e := range entriesOf(fam) {
			runtime.ReadMemStats(&m0)
			_, _, _ = runEntryNoPanic(e, data, false)
			runtime.ReadMemStats(&m1)
			// other goroutines of the fuzz worker allocate little; allow 4x slack
			if d := m1.TotalAlloc - m0.TotalAlloc; d > 4*c06Bound(len(data)) {
				t.Fatalf("C06 violated: %s allocated %d bytes for a %d-byte input (bound %d)\n  input: %x", e.Name, d, len(data), c06Bound(len(data)), data)
			}
		}
	})
}

var _ = strconv.Itoa

// ---- histories: what a call allocates must not depend on what was decoded before ----

type c06SoakIn struct {
	Family string `json:"family"`
	Entry  int    `json:"entry"` // index into the family's entry points; -1 = all of them, in turn, every iteration
	EName  string `json:"entry_point,omitempty"`
	K      int    `json:"iterations"`
	A      hx     `json:"input_a_hex"`
	B      hx     `json:"input_b_hex"`
	Desc   string `json:"desc,omitempty"`
	// Counter: A contains the counter marker - every iteration decodes a
	// DIFFERENT input (recorded for the reader; the worker finds the marker)
	Counter bool `json:"a_differs_per_iteration,omitempty"`
}

type c06SoakRes struct {
	Alloc    uint64
	Wall     time.Duration
	Iter     int
	Entry    int
	Which    int
	MaxAlloc uint64
	Calls    int
	Died     bool
	TimedOut bool
	Stderr   string
}

// c06Soak runs one soak in a FRESH worker (so that the history is exactly the
// one described by the request).
func c06Soak(in c06SoakIn, limit time.Duration) c06SoakRes {
	p, err := c06Start()
	if err != nil {
		return c06SoakRes{Died: true, Stderr: "cannot start worker: " + err.Error()}
	}
	defer p.stop()
	body := make([]byte, 8, 8+len(in.A)+len(in.B))
	binary.BigEndian.PutUint32(body[0:4], uint32(in.K))
	binary.BigEndian.PutUint32(body[4:8], uint32(len(in.A)))
	body = append(append(body, in.A...), in.B...)
	hdr := make([]byte, 7)
	hdr[0] = byte(famIndex(in.Family)) | 0x40
	if in.Entry < 0 {
		binary.BigEndian.PutUint16(hdr[1:3], 0xffff)
	} else {
		binary.BigEndian.PutUint16(hdr[1:3], uint16(in.Entry))
	}
	binary.BigEndian.PutUint32(hdr[3:7], uint32(len(body)))
	type rd struct {
		line string
		err  error
	}
	ch := make(chan rd, 1)
	go func() {
		_, _ = p.stdin.Write(hdr)
		_, _ = p.stdin.Write(body)
		l, err := p.out.ReadString('\n')
		ch <- rd{l, err}
	}()
	var r rd
	select {
	case r = <-ch:
	case <-time.After(limit):
		_ = p.cmd.Process.Kill()
		<-ch
		_ = p.cmd.Wait()
		return c06SoakRes{Died: true, TimedOut: true}
	}
	if r.err != nil {
		_ = p.cmd.Wait()
		return c06SoakRes{Died: true, Stderr: truncate(p.errb.String(), 1500)}
	}
	var res c06SoakRes
	var ns int64
	if _, err := fmt.Sscanf(r.line, "S %d %d %d %d %d %d %d", &res.Alloc, &ns, &res.Iter, &res.Entry, &res.Which, &res.MaxAlloc, &res.Calls); err != nil {
		return c06SoakRes{Died: true, Stderr: "unparsable worker reply: " + r.line}
	}
	res.Wall = time.Duration(ns)
	return res
}

// c06SoakVerdict: "" or the violation text; infra != "" = inconclusive.
func c06SoakVerdict(in c06SoakIn) (violation, infra string, res c06SoakRes) {
	res = c06Soak(in, 4*time.Minute)
	if res.Died {
		es := res.Stderr
		if strings.Contains(es, "out of memory") || strings.Contains(es, "cannot allocate memory") || strings.Contains(es, "stack overflow") || strings.Contains(es, "goroutine stack exceeds") {
			return fmt.Sprintf("decoding the same %d-byte / %d-byte inputs again and again kills the process with an unrecoverable out-of-memory / stack-overflow error (address-space limit %d MiB):\n%s", len(in.A), len(in.B), c06Rlimit>>20, firstLines(es, 6)), "", res
		}
		if res.TimedOut {
			return "", "soak did not finish within its time limit (no single call was over its bound before that)", res
		}
		return "", "soak worker died: " + firstLines(es, 8), res
	}
	if res.Alloc == 0 && res.Wall == 0 {
		return "", "", res
	}
	eps := entriesOf(in.Family)
	doc := in.A
	if res.Which == 1 {
		doc = in.B
	}
	name := "?"
	if res.Entry < len(eps) {
		name = eps[res.Entry].Name
	}
	if res.Alloc > c06Bound(len(doc)) {
		what := "decodes the same two inputs alternately"
		if in.Counter {
			what = "decodes a small input that differs in one counter value each time"
		}
		return fmt.Sprintf("call number %d of a process that "+what+" (iteration %d, %s) allocated %d bytes for a %d-byte input; bound is 1 MiB + 1 KiB/byte = %d - what a call allocates grows with what was decoded BEFORE, not with its input", res.Calls, res.Iter, name, res.Alloc, len(doc), c06Bound(len(doc))), "", res
	}
	// a slow call: only a verdict if it is slow again in a second fresh history
	res2 := c06Soak(in, 4*time.Minute)
	if !res2.Died && res2.Wall > c06MaxWall {
		return fmt.Sprintf("call number %d of a process that decodes the same two inputs alternately (iteration %d, %s) took %v for a %d-byte input (> %v, again in a second fresh process)", res.Calls, res.Iter, name, res.Wall, len(doc), c06MaxWall), "", res
	}
	return "", "", res
}

var c06SoakKind = registerKind("c06soak", func(in c06SoakIn) string {
	v, infra, _ := c06SoakVerdict(in)
	if infra != "" {
		return "VERIF-INFRA: " + infra
	}
	return v
})

// soakDocs: (A, B) pairs per family. A is a legitimate document with many
// entries the profile does not know (vendor claims, newer firmware), or one
// on an error path; B a small ordinary one.
func soakSizes() []int {
	if thorough() {
		return []int{230, 3000}
	}
	return []int{230}
}

func soakDocs() []c06SoakIn {
	var r []c06SoakIn
	unknownPairs := func(n int, first uint64) [][2]*icbor.Node {
		var ps [][2]*icbor.Node
		for i := 0; i < n; i++ {
			ps = append(ps, icbor.P(icbor.U(first+uint64(i)), icbor.U(0)))
		}
		return ps
	}
	for _, p := range []Prof{P1, P2} {
		small := baseValid(p, 1).WireBytes()
		for _, n := range soakSizes() {
			first := uint64(24)
			if n > 230 {
				first = 100000
			}
			tok := icbor.Encode(icbor.Map(append(baseValid(p, 1).WirePairs(), unknownPairs(n, first)...)...))
			d := fmt.Sprintf("%s token + %d unknown integer labels / small %s token", p, n, p)
			r = append(r, c06SoakIn{Family: "cbor", A: tok, B: small, Desc: d}, c06SoakIn{Family: "enc-cbor", A: tok, B: small, Desc: d},
				c06SoakIn{Family: "cose", A: icbor.Encode(c05Envelope(tok)), B: icbor.Encode(c05Envelope(small)), Desc: "signed: " + d})
			// unknown TEXT labels
			var tps [][2]*icbor.Node
			for i := 0; i < n; i++ {
				tps = append(tps, icbor.P(icbor.Tstr(fmt.Sprintf("vendor-%d", i)), icbor.U(0)))
			}
			tok = icbor.Encode(icbor.Map(append(baseValid(p, 1).WirePairs(), tps...)...))
			d = fmt.Sprintf("%s token + %d unknown text labels / small %s token", p, n, p)
			r = append(r, c06SoakIn{Family: "cbor", A: tok, B: small, Desc: d}, c06SoakIn{Family: "enc-cbor", A: tok, B: small, Desc: d})
		}
		// the error path: the same many-entry token with one claim of a wrong type
		m := baseValid(p, 1)
		ps := append(m.WirePairs(), unknownPairs(230, 24)...)
		ps = append(ps, icbor.P(icbor.U(99999), icbor.Tstr("x")))
		for i := range ps {
			if k, _ := ps[i][0].Int(); k == 2394 || k == -75001 {
				ps[i][1] = icbor.Tstr("not a number")
			}
		}
		bad := icbor.Encode(icbor.Map(ps...))
		r = append(r, c06SoakIn{Family: "cbor", A: bad, B: small, Desc: fmt.Sprintf("%s token + 230 unknown labels, client id of a wrong type (every decode fails) / small token", p)},
			c06SoakIn{Family: "enc-cbor", A: bad, B: small, Desc: fmt.Sprintf("%s token + 230 unknown labels, client id of a wrong type / small token", p)})
		// JSON
		base := modelJN(baseValid(p, 1))
		smallJ := []byte(base.String())
		for _, n := range soakSizes() {
			o := base.clone()
			for i := 0; i < n; i++ {
				o.keys, o.vals = append(o.keys, fmt.Sprintf("vendor-%d", i)), append(o.vals, jStr("v"))
			}
			d := fmt.Sprintf("%s JSON claims + %d unknown members / small %s document", p, n, p)
			r = append(r, c06SoakIn{Family: "json", A: []byte(o.String()), B: smallJ, Desc: d}, c06SoakIn{Family: "enc-json", A: []byte(o.String()), B: smallJ, Desc: d})
		}
		o := base.clone()
		for i := 0; i < 230; i++ {
			o.keys, o.vals = append(o.keys, fmt.Sprintf("vendor-%d", i)), append(o.vals, jStr("v"))
		}
		o.keys, o.vals = append(o.keys, "psa-client-id"), append(o.vals, jStr("not a number"))
		r = append(r, c06SoakIn{Family: "json", A: []byte(o.String()), B: smallJ, Desc: fmt.Sprintf("%s JSON claims + 230 unknown members, a second client id of a wrong type / small document", p)})
	}
	// unregistered profile names, a different one would need a different input:
	// the same one again and again must not accumulate either
	m := baseValid(P2, 1)
	tok := icbor.Encode(icbor.Map(append(bodyPairs(m), icbor.P(icbor.U(265), icbor.Tstr("http://example.com/verif/not-registered/"+strings.Repeat("x", 900))))...))
	r = append(r, c06SoakIn{Family: "cbor", A: tok, B: baseValid(P2, 1).WireBytes(), Desc: "token of an unregistered 940-character profile / small P2 token"})
	// histories of DIFFERENT small inputs (the counter marker becomes the
	// iteration number): what is remembered per distinct value adds up
	for _, p := range []Prof{P1, P2} {
		small := baseValid(p, 1).WireBytes()
		smallJ := []byte(modelJN(baseValid(p, 1)).String())
		body := bodyPairs(baseValid(p, 1))
		for _, name := range []string{"http://example.com/verif/unregistered/" + c06Counter, "PSA_IOT_PROFILE_" + c06Counter} {
			for _, key := range []int64{265, -75000} {
				if (key == 265) != (p == P2) {
					continue
				}
				tok := icbor.Encode(icbor.Map(append(append([][2]*icbor.Node{}, body...), icbor.P(icbor.I(key), icbor.Tstr(name)))...))
				d := fmt.Sprintf("%s claims declaring (label %d) a different unregistered profile each time (%s) / small %s token", p, key, name, p)
				r = append(r, c06SoakIn{Family: "cbor", A: tok, B: small, Desc: d, Counter: true}, c06SoakIn{Family: "cose", A: icbor.Encode(c05Envelope(tok)), B: icbor.Encode(c05Envelope(small)), Desc: "signed: " + d, Counter: true})
			}
			for _, member := range []string{"eat-profile", "psa-profile"} {
				if (member == "eat-profile") != (p == P2) {
					continue
				}
				r = append(r, c06SoakIn{Family: "json", A: []byte(`{"` + member + `":"` + name + `"}`), B: smallJ, Counter: true,
					Desc: fmt.Sprintf("a JSON object declaring (%s) a different unregistered profile each time (%s) / small %s document", member, name, p)})
			}
		}
		// valid tokens that differ in one value / one unknown label each time
		m := baseValid(p, 1)
		m.VSI = sp("https://verifier.example/" + c06Counter)
		r = append(r, c06SoakIn{Family: "cbor", A: m.WireBytes(), B: small, Counter: true, Desc: fmt.Sprintf("valid %s token with a different verification-service indicator each time / small token", p)},
			c06SoakIn{Family: "enc-cbor", A: m.WireBytes(), B: small, Counter: true, Desc: fmt.Sprintf("valid %s token with a different verification-service indicator each time / small token", p)})
		if c, ok := m.BuildLiteral(); ok {
			if js, err := json.Marshal(c); err == nil {
				r = append(r, c06SoakIn{Family: "json", A: js, B: smallJ, Counter: true, Desc: fmt.Sprintf("valid %s JSON claims with a different verification-service indicator each time / small document", p)},
					c06SoakIn{Family: "enc-json", A: js, B: smallJ, Counter: true, Desc: fmt.Sprintf("valid %s JSON claims with a different verification-service indicator each time / small document", p)})
			}
		}
		tok := icbor.Encode(icbor.Map(append(baseValid(p, 1).WirePairs(), icbor.P(icbor.Tstr("vendor-"+c06Counter), icbor.U(1)))...))
		r = append(r, c06SoakIn{Family: "cbor", A: tok, B: small, Counter: true, Desc: fmt.Sprintf("valid %s token with a different unknown text label each time / small token", p)},
			c06SoakIn{Family: "enc-cbor", A: tok, B: small, Counter: true, Desc: fmt.Sprintf("valid %s token with a different unknown text label each time / small token", p)})
		o := modelJN(baseValid(p, 1))
		o.keys, o.vals = append(o.keys, "vendor-"+c06Counter), append(o.vals, jStr("v"))
		r = append(r, c06SoakIn{Family: "json", A: []byte(o.String()), B: smallJ, Counter: true, Desc: fmt.Sprintf("valid %s JSON claims with a different unknown member each time / small document", p)},
			c06SoakIn{Family: "enc-json", A: []byte(o.String()), B: smallJ, Counter: true, Desc: fmt.Sprintf("valid %s JSON claims with a different unknown member each time / small document", p)})
	}
	for i := range r {
		r[i].Entry = -1
	}
	return r
}

func TestC06_Soak(t *testing.T) {
	st := NewStats("C06", "TestC06_Soak", "histories, measured in a FRESH single-core (GOMAXPROCS=1) worker process per history: two inputs A and B (A = a valid token / signed token / JSON claims-set of either profile carrying 230 (thorough: also 3000) entries the profile does not know under integer or text labels, or the same with one claim of a wrong type so that every decode of it fails, or a token of an unregistered profile with a 940-character name; B = a small ordinary document) are decoded alternately k times (quick 1600, thorough 12000; a quarter of that for the 3000-entry inputs) by ONE entry point of the family - one history per entry point (claims decoders, per-type unmarshalers, extension types that go through the populate helpers, populate helpers directly) - and, k/4 times, through ALL entry points of the family in turn (a mixed workload, where calls that fail sit between calls that succeed); EVERY single call is measured (TotalAlloc delta, wall time). Also histories of DIFFERENT inputs (12 x as many iterations): A carries a counter that changes with every iteration - in the name of an unregistered profile it declares (labels 265 / -75000, members eat-profile / psa-profile; URI, PSA_IOT_PROFILE_n and bare forms), in the verification-service indicator of a valid token, in an unknown text label / member name. Violation: any call of the history allocates more than 1 MiB + 1 KiB per byte of ITS input or takes > 5 s (confirmed in a second fresh history) or the process dies with an out-of-memory error - i.e. what a call allocates depends on what the process decoded before. Non-trivial = every history (k >= 2, many unknown entries); distinct = family + both inputs")
	st.Require = []string{"family=cbor", "family=cose", "family=json", "family=enc-cbor", "family=enc-json"}
	defer st.Flush(t)
	k := 1600
	if thorough() {
		k = 12000
	}
	shard, shards := shardInfo()
	idx := 0
	for _, doc := range soakDocs() {
		if len(doc.A) > c06MaxLen {
			st.Class("skipped-too-long")
			continue
		}
		eps := entriesOf(doc.Family)
		// one history through all entry points in turn (a mixed workload), then
		// one history per entry point (a process that does one thing)
		for e := -1; e < len(eps); e++ {
			idx++
			if idx%shards != shard {
				continue
			}
			if doc.Counter && e >= 0 && !strings.HasPrefix(eps[e].Name, "Decode") && !strings.HasPrefix(eps[e].Name, "PopulateStruct") && !strings.Contains(eps[e].Name, "Ext") {
				continue // different-input histories: the dispatching decoders, the extension types and the populate helpers
			}
			in := doc
			if doc.Counter {
				in.B = nil
			}
			in.Entry = e
			in.K = k
			class := "soak-one-entry-point"
			if e < 0 {
				in.K = k / 4
				class = "soak-all-entry-points"
			} else {
				in.EName = eps[e].Name
			}
			if len(in.A) > 8192 {
				in.K /= 4
			}
			if in.Counter {
				// small inputs, and what such a history leaves behind per call is small: many more calls
				in.K *= 12
				class += "/different-input-each-time"
			}
			v, infra, res := c06SoakVerdict(in)
			if infra != "" {
				fmt.Printf("VERIF-INFRA: C06 %s (%s)\n", infra, in.Desc)
				t.Fatalf("VERIF-INFRA: %s", infra)
			}
			st.Case(fmt.Sprintf("%s|soak|%d|%s|%s", in.Family, e, in.A, in.B), class, "family="+in.Family)
			st.mu.Lock()
			st.Evals += int64(res.Calls - 1)
			if a, _ := st.Extra["max_alloc_single_call_bytes"].(uint64); res.MaxAlloc > a {
				st.Extra["max_alloc_single_call_bytes"] = res.MaxAlloc
				st.Extra["max_alloc_single_call_history"] = fmt.Sprintf("%s %s: %s (%d / %d bytes, %d calls)", in.Family, in.EName, in.Desc, len(in.A), len(in.B), res.Calls)
			}
			st.mu.Unlock()
			if st.WantSample() {
				st.Sample(map[string]any{"family": in.Family, "entry_point": in.EName, "desc": in.Desc, "iterations": in.K, "calls_measured": res.Calls, "max_alloc_of_one_call": res.MaxAlloc, "len_a": len(in.A), "len_b": len(in.B)})
			}
			if v != "" {
				reportCase(t, "C06", "c06soak", in, v+"\n  "+in.EName+"; "+in.Desc)
			}
		}
	}
}
