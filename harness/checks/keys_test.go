package checks

import (
	"crypto"
	"crypto/ecdsa"
	"crypto/rsa"
	"crypto/x509"
	"embed"
	"encoding/pem"
	"fmt"
	"io"
	"sync"

	cose "github.com/veraison/go-cose"

	"verifharness/icose"
)

//go:embed keys/*.pem
var keyFS embed.FS

type keyPair struct {
	Alg      int64
	Idx      int
	Priv     crypto.Signer
	Pub      crypto.PublicKey
	curveAlg int64 // != 0: the key's curve is that of another ECDSA algorithm
}

func (k keyPair) Name() string {
	if k.curveAlg != 0 {
		return fmt.Sprintf("%s-over-%s-curve#%d", icose.AlgName(k.Alg), icose.AlgName(k.curveAlg), k.Idx)
	}
	return fmt.Sprintf("%s#%d", icose.AlgName(k.Alg), k.Idx)
}

var (
	keyMu    sync.Mutex
	keyCache = map[string]keyPair{}
	rsaKeys  []*rsa.PrivateKey
	rsa1024  *rsa.PrivateKey
)

func loadRSA(name string) *rsa.PrivateKey {
	b, err := keyFS.ReadFile("keys/" + name)
	if err != nil {
		panic("VERIF-INFRA: " + err.Error())
	}
	blk, _ := pem.Decode(b)
	k, err := x509.ParsePKCS1PrivateKey(blk.Bytes)
	if err != nil {
		panic("VERIF-INFRA: " + err.Error())
	}
	return k
}

// keyFor returns the idx-th deterministic key for alg (idx is taken modulo 3
// for RSA, where only three embedded 2048-bit keys exist).
func keyFor(alg int64, idx int) keyPair {
	keyMu.Lock()
	defer keyMu.Unlock()
	switch alg {
	case icose.PS256, icose.PS384, icose.PS512:
		idx = ((idx % 3) + 3) % 3
	}
	id := fmt.Sprintf("%d/%d", alg, idx)
	if k, ok := keyCache[id]; ok {
		return k
	}
	var kp keyPair
	switch alg {
	case icose.ES256, icose.ES384, icose.ES512:
		p := icose.ECDSAKey(icose.CurveFor(alg), []byte(id))
		kp = keyPair{Alg: alg, Idx: idx, Priv: p, Pub: &p.PublicKey}
	case icose.EdDSA:
		p := icose.Ed25519Key([]byte(id))
		kp = keyPair{Alg: alg, Idx: idx, Priv: p, Pub: p.Public()}
	default:
		if rsaKeys == nil {
			rsaKeys = []*rsa.PrivateKey{loadRSA("rsa0.pem"), loadRSA("rsa1.pem"), loadRSA("rsa2.pem")}
		}
		p := rsaKeys[idx]
		kp = keyPair{Alg: alg, Idx: idx, Priv: p, Pub: &p.PublicKey}
	}
	keyCache[id] = kp
	return kp
}

// oddRSAKey: RSA keys whose modulus length is NOT a multiple of 8 bits (2052,
// 2060, 3076): go-cose accepts any RSA key of at least 2048 bits for PS256/384/512.
func oddRSAKey(alg int64, i int) keyPair {
	keyMu.Lock()
	defer keyMu.Unlock()
	names := []string{"rsa2052.pem", "rsa2060.pem", "rsa3076.pem"}
	i = ((i % len(names)) + len(names)) % len(names)
	id := fmt.Sprintf("%d/odd%d", alg, i)
	if k, ok := keyCache[id]; ok {
		return k
	}
	p := loadRSA(names[i])
	kp := keyPair{Alg: alg, Idx: 100 + i, Priv: p, Pub: &p.PublicKey}
	keyCache[id] = kp
	return kp
}

// keyForCurve: an ECDSA key pair whose curve is that of curveAlg, to be used
// with algorithm alg (go-cose allows e.g. ES256 over a P-384 key).
func keyForCurve(alg, curveAlg int64, idx int) keyPair {
	if curveAlg == alg {
		return keyFor(alg, idx)
	}
	keyMu.Lock()
	defer keyMu.Unlock()
	id := fmt.Sprintf("%d@%d/%d", alg, curveAlg, idx)
	if k, ok := keyCache[id]; ok {
		return k
	}
	p := icose.ECDSAKey(icose.CurveFor(curveAlg), []byte(id))
	kp := keyPair{Alg: alg, Idx: idx, Priv: p, Pub: &p.PublicKey, curveAlg: curveAlg}
	keyCache[id] = kp
	return kp
}

// SigLen: the signature length COSE prescribes for this key/algorithm pair.
func (k keyPair) SigLen() int {
	if pub, ok := k.Pub.(*ecdsa.PublicKey); ok {
		return 2 * ((pub.Curve.Params().BitSize + 7) / 8)
	}
	if pub, ok := k.Pub.(*rsa.PublicKey); ok {
		return (pub.N.BitLen() + 7) / 8
	}
	return icose.SigLen(k.Alg)
}

func rsa1024Key() *rsa.PrivateKey {
	keyMu.Lock()
	defer keyMu.Unlock()
	if rsa1024 == nil {
		rsa1024 = loadRSA("rsa1024.pem")
	}
	return rsa1024
}

func (k keyPair) Signer() cose.Signer {
	s, err := cose.NewSigner(cose.Algorithm(k.Alg), k.Priv)
	if err != nil {
		panic("VERIF-INFRA: cose.NewSigner: " + err.Error())
	}
	return s
}

// hsmSigner: a cose.Signer written around a crypto.Signer handle (an HSM / KMS
// key, or simply the private key): by embedding the handle it also exposes
// Public(), which go-cose's own signers do not.
type hsmSigner struct {
	crypto.Signer
	inner cose.Signer
}

func (h hsmSigner) Algorithm() cose.Algorithm { return h.inner.Algorithm() }
func (h hsmSigner) Sign(r io.Reader, content []byte) ([]byte, error) {
	return h.inner.Sign(r, content)
}

// HSMSigner signs exactly like Signer().
func (k keyPair) HSMSigner() cose.Signer { return hsmSigner{Signer: k.Priv, inner: k.Signer()} }

// AnySigner: one of the two makes, chosen by the key's index.
func (k keyPair) AnySigner() cose.Signer {
	if k.Idx%2 == 1 {
		return k.HSMSigner()
	}
	return k.Signer()
}

// fastAlgs are cheap enough for tens of thousands of signatures per run.
var fastAlgs = []int64{icose.EdDSA, icose.ES256}
