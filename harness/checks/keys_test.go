package checks

import (
	"crypto"
	"crypto/rsa"
	"crypto/x509"
	"embed"
	"encoding/pem"
	"fmt"
	"sync"

	cose "github.com/veraison/go-cose"

	"verifharness/icose"
)

//go:embed keys/*.pem
var keyFS embed.FS

type keyPair struct {
	Alg  int64
	Idx  int
	Priv crypto.Signer
	Pub  crypto.PublicKey
}

func (k keyPair) Name() string { return fmt.Sprintf("%s#%d", icose.AlgName(k.Alg), k.Idx) }

var (
	keyMu    sync.Mutex
	keyCache = map[string]keyPair{}
	rsaKeys  []*rsa.PrivateKey
	rsa1024  *rsa.PrivateKey
)

func loadRSA(name string) *rsa.PrivateKey {
	b, err := keyFS.ReadFile("keys/" + name)
	if err != nil {
		panic("VERIF-INFRA: " + err.Error())
	}
	blk, _ := pem.Decode(b)
	k, err := x509.ParsePKCS1PrivateKey(blk.Bytes)
	if err != nil {
		panic("VERIF-INFRA: " + err.Error())
	}
	return k
}

// keyFor returns the idx-th deterministic key for alg (idx is taken modulo 3
// for RSA, where only three embedded 2048-bit keys exist).
func keyFor(alg int64, idx int) keyPair {
	keyMu.Lock()
	defer keyMu.Unlock()
	switch alg {
	case icose.PS256, icose.PS384, icose.PS512:
		idx = ((idx % 3) + 3) % 3
	}
	id := fmt.Sprintf("%d/%d", alg, idx)
	if k, ok := keyCache[id]; ok {
		return k
	}
	var kp keyPair
	switch alg {
	case icose.ES256, icose.ES384, icose.ES512:
		p := icose.ECDSAKey(icose.CurveFor(alg), []byte(id))
		kp = keyPair{alg, idx, p, &p.PublicKey}
	case icose.EdDSA:
		p := icose.Ed25519Key([]byte(id))
		kp = keyPair{alg, idx, p, p.Public()}
	default:
		if rsaKeys == nil {
			rsaKeys = []*rsa.PrivateKey{loadRSA("rsa0.pem"), loadRSA("rsa1.pem"), loadRSA("rsa2.pem")}
		}
		p := rsaKeys[idx]
		kp = keyPair{alg, idx, p, &p.PublicKey}
	}
	keyCache[id] = kp
	return kp
}

func rsa1024Key() *rsa.PrivateKey {
	keyMu.Lock()
	defer keyMu.Unlock()
	if rsa1024 == nil {
		rsa1024 = loadRSA("rsa1024.pem")
	}
	return rsa1024
}

func (k keyPair) Signer() cose.Signer {
	s, err := cose.NewSigner(cose.Algorithm(k.Alg), k.Priv)
	if err != nil {
		panic("VERIF-INFRA: cose.NewSigner: " + err.Error())
	}
	return s
}

// fastAlgs are cheap enough for tens of thousands of signatures per run.
var fastAlgs = []int64{icose.EdDSA, icose.ES256}
