package checks

import (
	"sync"
	"bytes"
	"fmt"
	"reflect"
	"testing"
	"time"

	"github.com/veraison/psatoken"
	"pgregory.net/rapid"

	"verifharness/icbor"
	"verifharness/icose"
)

// C09 — CBOR encode/decode is the identity on claims and stable on bytes.
// C10 — emitted CBOR is exactly the profile's wire format.

// c10CheckWire parses emitted bytes with the independent reader and compares
// them with the model's expected wire map.
func c10CheckWire(out []byte, m *MClaims) string {
	n, fl, err := icbor.Read(out)
	if err == icbor.ErrTrailing {
		return "bytes follow the claims map"
	}
	if err != nil {
		return "emitted CBOR is not well-formed: " + err.Error()
	}
	if n.Kind != icbor.KMap {
		return "emitted item is a " + n.Kind.String() + ", not a map"
	}
	if fl.HasIndef {
		return "emitted CBOR uses indefinite-length items"
	}
	if fl.HasDupKeys {
		return "emitted map has duplicate keys"
	}
	if fl.HasTag {
		return "emitted CBOR contains a tag"
	}
	want := m.WirePairs()
	wantKeys := map[int64]*icbor.Node{}
	for _, p := range want {
		k, _ := p[0].Int()
		wantKeys[k] = p[1]
	}
	seen := map[int64]bool{}
	for _, p := range n.Pairs {
		k, ok := p[0].Int()
		if !ok {
			return "non-integer key " + icbor.Diag(p[0])
		}
		seen[k] = true
		w, ok := wantKeys[k]
		if !ok {
			return fmt.Sprintf("unexpected key %d (value %s); the claims that are set call for keys %v", k, truncate(icbor.Diag(p[1]), 80), keysOf(wantKeys))
		}
		if !icbor.Equal(w, p[1]) {
			return fmt.Sprintf("key %d: emitted %s, profile format requires %s", k, truncate(icbor.Diag(p[1]), 200), truncate(icbor.Diag(w), 200))
		}
	}
	for k := range wantKeys {
		if !seen[k] {
			return fmt.Sprintf("key %d (a claim that is set) is missing from the emitted map", k)
		}
	}
	return ""
}

func keysOf(m map[int64]*icbor.Node) []int64 {
	var r []int64
	for k := range m {
		r = append(r, k)
	}
	for i := range r {
		for j := i + 1; j < len(r); j++ {
			if r[j] < r[i] {
				r[i], r[j] = r[j], r[i]
			}
		}
	}
	return r
}

// permutedToken: the model's wire map with permuted keys and extra unknown keys.
func permutedToken(t *rapid.T, m *MClaims) []byte {
	ps := m.WirePairs()
	nExtra := rapid.IntRange(0, 2).Draw(t, "extra.n")
	for i := 0; i < nExtra; i++ {
		k := rapid.SampledFrom([]int64{0, 1, 7, 11, 255, 257, 264, 266, 2393, 2401, -1, -74999, -75011, -75100, 1 << 40}).Draw(t, "extra.key")
		dup := false
		for _, p := range ps {
			if v, _ := p[0].Int(); v == k {
				dup = true
			}
		}
		if dup {
			continue
		}
		v := rapid.SampledFrom([]*icbor.Node{icbor.U(1), icbor.Tstr("x"), icbor.Bstr([]byte{1, 2}), icbor.Arr(icbor.U(1)), icbor.Map(icbor.P(icbor.U(1), icbor.U(2))), icbor.Null(), icbor.F64(1.5)}).Draw(t, "extra.val")
		ps = append(ps, icbor.P(icbor.I(k), v))
	}
	ps = rapid.Permutation(ps).Draw(t, "keyorder")
	return icbor.Encode(icbor.Map(ps...))
}

// permutedTokenCompExtras: permutedToken plus unknown keys inside component
// maps (which a conformant decoder ignores and an encoder must not re-emit).
func permutedTokenCompExtras(t *rapid.T, m *MClaims) []byte {
	n, _, err := icbor.Read(permutedToken(t, m))
	if err != nil {
		panic("VERIF-INFRA: " + err.Error())
	}
	if cs := n.MapGet(wireKey(m.Prof, CSwComps)); cs != nil && cs.Kind == icbor.KArray {
		for _, cm := range cs.Items {
			if cm.Kind != icbor.KMap || rapid.IntRange(0, 2).Draw(t, "comp.extra") != 0 {
				continue
			}
			k := rapid.SampledFrom([]*icbor.Node{icbor.U(3), icbor.U(7), icbor.U(0), icbor.I(-1), icbor.Tstr("x"), icbor.U(1 << 33)}).Draw(t, "comp.extra.key")
			v := rapid.SampledFrom([]*icbor.Node{icbor.U(1), icbor.Tstr("zzz"), icbor.Bstr([]byte{9}), icbor.Arr(), icbor.Null()}).Draw(t, "comp.extra.val")
			pos := rapid.IntRange(0, len(cm.Pairs)).Draw(t, "comp.extra.pos")
			cm.Pairs = append(cm.Pairs[:pos], append([][2]*icbor.Node{icbor.P(k, v)}, cm.Pairs[pos:]...)...)
		}
	}
	return icbor.Encode(n)
}

func isBeyondBuilders(m *MClaims) bool { return !m.IsCanned() }

func TestC10_WireFormat(t *testing.T) {
	st := NewStats("C10", "TestC10_WireFormat", "rapid: valid claims-sets of both profiles built (a) through NewClaims+setters (optionally on an object on which every claim had already been set to another valid value of possibly different length), (b) as struct literals, (c) by decoding independently encoded tokens with permuted key order, extra unknown keys at top level and inside component maps (incl. the P1 no-measurements form), optionally followed by an in-place update of one decoded component through the object the getter returns, (d) by decoding JSON written by the harness (absent optional claims optionally spelt as null members, unknown members, 64-bit flag values, rotated member order), (e) through setters followed by REFUSED setter calls (invalid values, component lists with a malformed later entry), (g) as instances of the seven extension styles (incl. the profile-1 no-measurements form), (h) for ANY claims-set (valid or not; as literal, decoded, or built through the setters and then changed by editing a listed component through its exported fields): whatever the validating encoder emits satisfies the structural invariants; (i) components of another ISwComponent implementation, if the setter takes them; (f) through setters with the SAME component object listed at several positions (in one call or one by one through the container's Add); the bytes of ValidateAndEncodeClaimsToCBOR are parsed by the independent reader and compared key by key with the model's wire map (definite lengths, no duplicates/tags/trailing bytes, exact key set, exact values, bare-bstr nonce, never list+flag). Non-trivial = not the canned builder shape; distinct = class vector + route")
	st.Require = []string{"route=setters", "route=literal", "route=decoded", "route=decoded+touched", "route=setters-twice", "route=json-decoded", "route=shared-component", "route=setters+refused", "route=extension", "extension-nomeas", "route=any-literal", "any-refused", "P1", "P2", "nomeas", "route=iface-wrapper", "route=concurrent-encoders", "edited-after-set"}
	defer st.Flush(t)
	rapid.Check(t, func(t *rapid.T) {
		p := drawProf(t)
		route := rapid.SampledFrom([]string{"setters", "literal", "decoded", "setters", "decoded", "json-decoded", "shared-component", "extension", "foreign-component", "any-literal", "iface-wrapper", "concurrent-encoders"}).Draw(t, "route")
		if route == "any-literal" {
			// ANY claims-set (valid or not, as struct literal or decoded):
			// whenever the validating encoder emits bytes at all, they are a
			// structurally conforming map of the profile
			m := GenAny(t, p)
			if p == P1 && rapid.IntRange(0, 3).Draw(t, "flag+list") == 0 {
				// the no-measurements flag next to a list, some of whose
				// entries are malformed
				m = GenValid(t, P1, false)
				m.NoMeas = u64p(rapid.SampledFrom([]uint64{1, 1, 0, 5}).Draw(t, "flag"))
				m.Comps, m.CompsNil = nil, false
				for i := rapid.IntRange(1, 3).Draw(t, "fl.n"); i > 0; i-- {
					m.Comps = append(m.Comps, drawComp(t, genBool.Draw(t, "fl.valid"), "fl"))
				}
			}
			var c psatoken.IClaims
			if rapid.IntRange(0, 3).Draw(t, "edited-after-set") == 0 {
				// a VALID set built through the setters, one of whose listed
				// components is then changed through its exported fields (the
				// caller re-uses the object for the next measurement): whatever
				// the claims-set has become, what is emitted conforms
				mv := GenValid(t, p, false)
				cv, berr := mv.BuildSetters()
				scs, gerr := cv.GetSoftwareComponents()
				if berr != nil || gerr != nil || len(scs) == 0 {
					st.Case("", "edited-nothing-to-edit")
					return
				}
				sc, ok := scs[rapid.IntRange(0, len(scs)-1).Draw(t, "edit.idx")].(*psatoken.SwComponent)
				if !ok {
					st.Case("", "edited-nothing-to-edit")
					return
				}
				if genBool.Draw(t, "edit.validate-first") {
					_ = cv.Validate()
				}
				var nb *[]byte
				if genBool.Draw(t, "edit.short") {
					b := drawBytes(t, rapid.SampledFrom([]int{0, 1, 31, 33}).Draw(t, "edit.len"), "edit.bytes")
					nb = &b
				}
				switch rapid.IntRange(0, 2).Draw(t, "edit.what") {
				case 0:
					sc.SignerID = nb
				case 1:
					sc.MeasurementValue = nb
				default:
					*sc = psatoken.SwComponent{MeasurementValue: sc.MeasurementValue}
				}
				out, err := psatoken.ValidateAndEncodeClaimsToCBOR(cv)
				if err != nil {
					st.Case("any|edited|refused|"+mv.ClassVector(), "route=any-literal", "any-refused", "edited-after-set", p.String())
					return
				}
				if msg := c10Structural(out, p); msg != "" {
					t.Fatalf("C10 violated (a listed component changed through its exported fields after SetSoftwareComponents; whatever is emitted): %s\n emitted: %x\n [%s]", msg, out, mv.ClassVector())
				}
				st.Case("any|edited|emitted|"+mv.ClassVector(), "route=any-literal", "edited-after-set", p.String())
				return
			}
			if genBool.Draw(t, "decoded") {
				var derr error
				if c, derr = psatoken.DecodeClaimsFromCBOR(permutedToken(t, m)); derr != nil {
					st.Case("", "any-undecodable")
					return
				}
			} else if lit, ok := m.BuildLiteral(); ok {
				c = lit
			} else {
				st.Case("", "unrepresentable")
				return
			}
			out, err := psatoken.ValidateAndEncodeClaimsToCBOR(c)
			if err != nil {
				st.Case("any|refused|"+m.ClassVector(), "route=any-literal", "any-refused", p.String())
				return
			}
			if msg := c10Structural(out, p); msg != "" {
				t.Fatalf("C10 violated (whatever is emitted): %s\n emitted: %x\n [%s]", msg, out, m.ClassVector())
			}
			st.Case("any|emitted|"+m.ClassVector(), "route=any-literal", p.String())
			return
		}
		if route == "iface-wrapper" {
			// an add-on that embeds the base claims through the INTERFACE: one
			// outer Go type on top of claims-sets of BOTH profiles (and of a
			// nil base) in one process; the emitted map is the base profile's
			// wire map plus the add-on's own claim
			m := GenValid(t, p, false)
			if len(m.Comps) == 0 {
				// (hiding an EMPTY container next to the no-measurements flag
				// is the business of the codec methods of the type that owns
				// the field - the add-on has none for it: nil container)
				m.CompsNil = true
			}
			c, ok := m.BuildLiteral()
			if !ok {
				st.Case("", "unrepresentable")
				return
			}
			w := &IfaceWrapClaims{IClaims: c}
			if genBool.Draw(t, "stamp") {
				v := rapid.Int64Range(0, 1<<40).Draw(t, "stamp.v")
				w.Stamp = &v
			}
			out, err := psatoken.ValidateAndEncodeClaimsToCBOR(w)
			if err != nil {
				t.Fatalf("C10: a valid claims-set under an interface-embedding add-on does not encode: %v [%s]", err, m.ClassVector())
			}
			n, _, rerr := icbor.Read(out)
			if rerr != nil || n.Kind != icbor.KMap {
				t.Fatalf("C10 violated (interface-embedding add-on): emitted CBOR is not one map (%v): %x", rerr, out)
			}
			var base [][2]*icbor.Node
			var stamp *icbor.Node
			for _, pr := range n.Pairs {
				if k, isInt := pr[0].Int(); isInt && k == -75700 {
					stamp = pr[1]
					continue
				}
				base = append(base, pr)
			}
			if (stamp == nil) != (w.Stamp == nil) {
				t.Fatalf("C10 violated (interface-embedding add-on): own claim present=%v, set=%v\n emitted: %x", stamp != nil, w.Stamp != nil, out)
			} else if stamp != nil {
				if v, isInt := stamp.Int(); !isInt || v != *w.Stamp {
					t.Fatalf("C10 violated (interface-embedding add-on): own claim is %s, want %d", icbor.Diag(stamp), *w.Stamp)
				}
			}
			if msg := c10CheckWire(icbor.Encode(icbor.Map(base...)), m); msg != "" {
				t.Fatalf("C10 violated (%s claims under an add-on that embeds them through the IClaims interface): %s\n emitted: %x\n [%s]", p, msg, out, m.ClassVector())
			}
			st.Case("iface-wrapper|"+m.ClassVector(), "route=iface-wrapper", p.String())
			return
		}
		if route == "concurrent-encoders" {
			// one claims-set (decoded; profile 1 in the no-measurements form
			// half of the time) encoded by several goroutines at once through
			// every door to the encoders: whatever each of them gets is the
			// profile's wire format (and the same bytes as alone)
			m := GenValid(t, p, false)
			if p == P1 && genBool.Draw(t, "conc.nomeas") {
				m.Comps, m.CompsNil, m.NoMeas = nil, false, u64p(1)
			}
			c, derr := psatoken.DecodeClaimsFromCBOR(m.WireBytes())
			if derr != nil {
				t.Fatalf("conformant token does not decode: %v", derr)
			}
			type res struct {
				cbor [][]byte
				err  error
			}
			const G, N = 4, 24
			results := make([]res, G)
			var wg sync.WaitGroup
			start := make(chan struct{})
			for g := 0; g < G; g++ {
				wg.Add(1)
				go func(g int) {
					defer wg.Done()
					<-start
					for i := 0; i < N; i++ {
						var b []byte
						var err error
						switch (g + i) % 4 {
						case 0:
							b, err = psatoken.ValidateAndEncodeClaimsToCBOR(c)
						case 1:
							if mm, ok := c.(interface{ MarshalCBOR() ([]byte, error) }); ok {
								b, err = mm.MarshalCBOR()
							} else {
								b, err = psatoken.EncodeClaimsToCBOR(c)
							}
						case 2:
							_, err = psatoken.EncodeClaimsToJSON(c)
							if err == nil {
								b, err = psatoken.EncodeClaimsToCBOR(c)
							}
						default:
							b, err = psatoken.EncodeClaimsToCBOR(c)
						}
						if err != nil {
							results[g].err = err
							return
						}
						results[g].cbor = append(results[g].cbor, b)
					}
				}(g)
			}
			close(start)
			wg.Wait()
			for g := range results {
				if results[g].err != nil {
					t.Fatalf("C10: encoding a valid claims-set fails while other goroutines encode it too: %v", results[g].err)
				}
				for _, b := range results[g].cbor {
					if msg := c10CheckWire(b, m); msg != "" {
						t.Fatalf("C10 violated (claims-set encoded by %d goroutines at once): %s\n emitted: %x\n [%s]", G, msg, b, m.ClassVector())
					}
				}
			}
			cls := []string{"route=concurrent-encoders", p.String()}
			if m.NoMeas != nil {
				cls = append(cls, "nomeas")
			}
			st.Case("concurrent|"+m.ClassVector(), cls...)
			return
		}
		if route == "foreign-component" {
			// components of ANOTHER ISwComponent implementation handed to the
			// setter: refused, or stored with exactly the fields that are set
			m := GenValid(t, p, true)
			c, err := m.BuildSetters()
			if err != nil {
				t.Fatalf("VERIF-INFRA: %v", err)
			}
			var mc []*MComp
			var list []psatoken.ISwComponent
			for i := rapid.IntRange(1, 3).Draw(t, "foreign.n"); i > 0; i-- {
				x := drawComp(t, true, "foreign")
				mc = append(mc, x)
				list = append(list, &foreignComp{SwComponent: *libComp(x)})
			}
			if serr := c.SetSoftwareComponents(list); serr != nil {
				st.Case("", "foreign-refused")
				return
			}
			m.Comps, m.CompsNil, m.NoMeas = mc, false, nil
			out, err := psatoken.ValidateAndEncodeClaimsToCBOR(c)
			if err != nil {
				st.Case("", "foreign-not-encodable")
				return
			}
			if msg := c10CheckWire(out, m); msg != "" {
				t.Fatalf("C10 violated (foreign components accepted by the setter): %s\n emitted: %x\n [%s]", msg, out, m.ClassVector())
			}
			st.Case("foreign|"+m.ClassVector(), "route=foreign-component", p.String())
			return
		}
		if route == "extension" {
			// an instance of one of the extension styles (own codec through
			// the embedding-aware helpers, or inherited): the emitted map is
			// the base profile's plus the profile claim and the own claims
			es := extStyles[rapid.IntRange(0, len(extStyles)-1).Draw(t, "style")]
			m := GenValid(t, es.Base, true)
			if es.Base == P1 {
				m.Profile = sp(P1Name)
			}
			var own []*int64
			present := drawOwnPresent(t, len(es.OwnKeys), "own")
			for i := range es.OwnKeys {
				if present[i] {
					v := rapid.Int64Range(0, 1<<40).Draw(t, fmt.Sprintf("own%d.val", i))
					if extRuleBroken(&v) {
						v = 14
					}
					own = append(own, &v)
				} else {
					own = append(own, nil)
				}
			}
			c, err := es.build(m, own...)
			if err != nil {
				t.Fatalf("VERIF-INFRA: %v", err)
			}
			out, err := psatoken.ValidateAndEncodeClaimsToCBOR(c)
			if err != nil {
				t.Fatalf("C10: valid %s claims do not encode: %v [%s]", es.Label, err, m.ClassVector())
			}
			if msg := es.checkWire(out, m, own...); msg != "" {
				t.Fatalf("C10 violated (extension style %s): %s\n emitted: %x\n [%s]", es.Label, msg, out, m.ClassVector())
			}
			cls := []string{"route=extension", es.Base.String()}
			if m.NoMeas != nil {
				cls = append(cls, "nomeas", "extension-nomeas")
			}
			st.Case("extension|"+es.Label+"|"+m.ClassVector(), cls...)
			return
		}
		m := GenValid(t, p, route == "setters" || route == "shared-component")
		var c psatoken.IClaims
		var err error
		switch route {
		case "setters":
			if genBool.Draw(t, "sethistory") {
				// every claim was set before, to another valid value
				prev := GenValid(t, p, true)
				c, err = m.BuildSettersAfter(prev)
				route = "setters-twice"
			} else {
				c, err = m.BuildSetters()
			}
			if err != nil {
				t.Fatalf("valid set cannot be built through setters: %v [%s]", err, m.ClassVector())
			}
			if rapid.IntRange(0, 3).Draw(t, "bystander") == 0 {
				// ANOTHER claims-set built through the same setters is re-used
				// as decode target of a token with other values (flag 23 ...)
				// before the subject is encoded: the subject's encoding is
				// still exactly its own claims (checked against the model below)
				if msg := c11Bystander(t, p, c); msg != "" {
					t.Fatalf("C10 violated: %s", msg)
				}
			}
			if genBool.Draw(t, "refused") {
				// setter calls that are REFUSED (invalid values; component
				// lists whose first entries are fine and a later one is not)
				// come between building and encoding: the emitted map is
				// still exactly the claims that were set successfully
				for k := rapid.IntRange(1, 3).Draw(t, "refused.n"); k > 0; k-- {
					o := drawSetterOp(t, p)
					if o.modelAccepts(p) {
						continue
					}
					if rerr, applicable := o.apply(c); applicable && rerr == nil {
						t.Fatalf("C10: setter %s accepted an invalid value", o)
					}
				}
				if len(m.Comps) > 0 {
					var list []psatoken.ISwComponent
					for i := rapid.IntRange(1, len(m.Comps)).Draw(t, "refused.valid"); i > 0; i-- {
						list = append(list, libComp(drawComp(t, true, "refused.sw")))
					}
					list = append(list, libComp(drawComp(t, false, "refused.bad")))
					if rerr := c.SetSoftwareComponents(list); rerr == nil {
						t.Fatalf("C10: a component list with a malformed last entry was accepted")
					}
				}
				route += "+refused"
			}
		case "literal":
			c, _ = m.BuildLiteral()
		case "shared-component":
			// the caller lists the SAME component object more than once (two
			// firmware slots holding the same image): the emitted list has
			// one entry per listed position
			if c, err = m.BuildSetters(); err != nil {
				t.Fatalf("valid set cannot be built through setters: %v [%s]", err, m.ClassVector())
			}
			scs, gerr := c.GetSoftwareComponents()
			if gerr != nil || len(scs) == 0 {
				route = "setters"
				break
			}
			list := append([]psatoken.ISwComponent{}, scs...)
			mc := append([]*MComp{}, m.Comps...)
			for k := rapid.IntRange(1, 3).Draw(t, "shared.n"); k > 0; k-- {
				i := rapid.IntRange(0, len(list)-1).Draw(t, "shared.src")
				at := rapid.IntRange(0, len(list)).Draw(t, "shared.at")
				list = append(list[:at], append([]psatoken.ISwComponent{list[i]}, list[at:]...)...)
				src := mc[i]
				mc = append(mc[:at], append([]*MComp{src}, mc[at:]...)...)
			}
			if genBool.Draw(t, "shared.viaAdd") {
				// one by one through the container's Add
				if err := c.SetSoftwareComponents(list[:1]); err != nil {
					t.Fatalf("C10: valid component list refused: %v", err)
				}
				type adder interface {
					Add(...psatoken.ISwComponent) error
				}
				var cont any
				switch cc := c.(type) {
				case *psatoken.P1Claims:
					cont = cc.SwComponents
				case *psatoken.P2Claims:
					cont = cc.SwComponents
				}
				a, ok := cont.(adder)
				if !ok {
					t.Fatalf("VERIF-INFRA: component container %T has no Add", cont)
				}
				for _, x := range list[1:] {
					if err := a.Add(x); err != nil {
						t.Fatalf("C10: adding a valid component refused: %v", err)
					}
				}
			} else if err := c.SetSoftwareComponents(list); err != nil {
				t.Fatalf("C10: valid component list refused: %v", err)
			}
			m.Comps = mc
		case "json-decoded":
			// a claims-set obtained by decoding JSON (the harness's own
			// writer): absent optional claims optionally spelt as null
			// members, unknown members, 64-bit flag values
			o := modelJN(m)
			if m.Profile != nil {
				if p == P1 {
					o.keys, o.vals = append(o.keys, "psa-profile"), append(o.vals, jStr(*m.Profile))
				} else {
					o.keys, o.vals = append(o.keys, "eat-profile"), append(o.vals, jStr(*m.Profile))
				}
			}
			has := map[string]bool{}
			for _, k := range o.keys {
				has[k] = true
			}
			optional := []string{"psa-boot-seed", "psa-verification-service-indicator", "psa-certification-reference"}
			if p == P1 {
				optional = []string{"psa-boot-seed", "psa-verification-service-indicator", "psa-hwver", "psa-profile", "psa-software-components", "psa-no-software-measurements"}
			}
			for _, k := range optional {
				if !has[k] && rapid.IntRange(0, 2).Draw(t, "null."+k) == 0 {
					o.keys, o.vals = append(o.keys, k), append(o.vals, jNull())
				}
			}
			if rapid.IntRange(0, 3).Draw(t, "unknown.member") == 0 {
				o.keys, o.vals = append(o.keys, "x-vendor"), append(o.vals, rapid.SampledFrom([]*jn{jNull(), jNum("9007199254740993"), jStr("x"), jArr()}).Draw(t, "unknown.val"))
			}
			// rotate the member order
			if n := len(o.keys); n > 1 {
				r := rapid.IntRange(0, n-1).Draw(t, "rot")
				o.keys = append(append([]string{}, o.keys[r:]...), o.keys[:r]...)
				o.vals = append(append([]*jn{}, o.vals[r:]...), o.vals[:r]...)
			}
			doc := []byte(o.String())
			c, err = psatoken.DecodeAndValidateClaimsFromJSON(doc)
			if err != nil {
				// whether null members are tolerated is C12's business
				st.Case("", "json-not-accepted")
				return
			}
		default:
			tok := permutedTokenCompExtras(t, m)
			c, err = psatoken.DecodeAndValidateClaimsFromCBOR(tok)
			if err != nil {
				t.Fatalf("conformant token rejected: %v\n token: %x [%s]", err, tok, m.ClassVector())
			}
			// optionally update a decoded component in place through the
			// objects the getter hands out (the encoding must follow)
			if len(m.Comps) > 0 && rapid.IntRange(0, 2).Draw(t, "touch") == 0 {
				scs, gerr := c.GetSoftwareComponents()
				if gerr != nil || len(scs) != len(m.Comps) {
					t.Fatalf("C10: decoded token does not return its %d components: %v", len(m.Comps), gerr)
				}
				i := rapid.IntRange(0, len(scs)-1).Draw(t, "touch.idx")
				switch rapid.IntRange(0, 3).Draw(t, "touch.field") {
				case 0:
					v := drawText(t, "touch.desc", true)
					_ = scs[i].SetMeasurementDesc(v)
					m.Comps[i].Desc = sp(v)
				case 1:
					v := drawText(t, "touch.ver", true)
					_ = scs[i].SetVersion(v)
					m.Comps[i].Version = sp(v)
				case 2:
					v := drawBytes(t, drawHashLen(t, "touch.vlen"), "touch.value")
					if err := scs[i].SetMeasurementValue(append([]byte{}, v...)); err != nil {
						t.Fatalf("C10: valid measurement value refused: %v", err)
					}
					m.Comps[i].Value = bp(v)
				default:
					v := drawText(t, "touch.type", true)
					_ = scs[i].SetMeasurementType(v)
					m.Comps[i].Type = sp(v)
				}
				route = "decoded+touched"
			}
		}
		out, err := psatoken.ValidateAndEncodeClaimsToCBOR(c)
		if err != nil {
			t.Fatalf("valid set does not encode: %v [%s]", err, m.ClassVector())
		}
		outSnap := string(out)
		interfere()
		if string(out) != outSnap {
			t.Fatalf("C10 violated (%s route): the emitted bytes changed while other claims-sets were being encoded", route)
		}
		if msg := c10CheckWire(out, m); msg != "" {
			t.Fatalf("C10 violated (%s route): %s\n emitted: %x\n [%s]", route, msg, out, m.ClassVector())
		}
		// the COSE payload is that same map: exactly the claims that are set,
		// through the validating and the plain signer
		if rapid.IntRange(0, 3).Draw(t, "cose") == 0 {
			kp := keyFor(icose.EdDSA, 2)
			for _, validating := range []bool{true, false} {
				ev := &psatoken.Evidence{}
				if serr := ev.SetClaims(c); serr != nil {
					t.Fatalf("C10: SetClaims of a valid set failed: %v", serr)
				}
				var tok []byte
				var serr error
				if validating {
					tok, serr = ev.ValidateAndSign(kp.Signer())
				} else {
					tok, serr = ev.Sign(kp.Signer())
				}
				parts, ok := icose.Split(tok)
				if serr != nil || !ok {
					t.Fatalf("C10: signing a valid set failed: %v", serr)
				}
				if msg := c10CheckWire(parts.Payload, m); msg != "" {
					t.Fatalf("C10 violated (%s route, COSE payload, validating=%v): %s\n payload: %x\n [%s]", route, validating, msg, parts.Payload, m.ClassVector())
				}
			}
		}
		cls := []string{"route=" + route, p.String()}
		if m.NoMeas != nil {
			cls = append(cls, "nomeas")
		}
		key := ""
		if isBeyondBuilders(m) {
			key = route + "|" + m.ClassVector()
		}
		st.Case(key, cls...)
		if key != "" && st.WantSample() {
			st.Sample(map[string]string{"route": route, "claims": m.ClassVector(), "emitted": hexs(out)})
		}
	})
}

// c10Structural: the invariants every emitted claims map of profile p has,
// whatever the claims-set: one definite map, integer keys of the profile only,
// no duplicates, profile 1 never both the list and the flag, components are
// maps over keys 1,2,4,5,6 with byte-string 2 and 5, no null anywhere.
func c10Structural(out []byte, p Prof) string {
	n, fl, err := icbor.Read(out)
	if err != nil || n.Kind != icbor.KMap || fl.HasIndef || fl.HasDupKeys || fl.HasTag {
		return fmt.Sprintf("not one definite, untagged map without duplicate keys (%v)", err)
	}
	known := map[int64]bool{}
	for c := Claim(0); c < nClaims; c++ {
		known[wireKey(p, c)] = true
	}
	if p == P1 {
		known[-75007] = true
	}
	has := map[int64]*icbor.Node{}
	for _, pr := range n.Pairs {
		k, ok := pr[0].Int()
		if !ok || !known[k] {
			return "key " + icbor.Diag(pr[0]) + " is not a claim of the profile"
		}
		if pr[1].Kind == icbor.KSimple {
			return fmt.Sprintf("key %d carries a simple value (%s): absent claims are omitted", k, icbor.Diag(pr[1]))
		}
		has[k] = pr[1]
	}
	if p == P1 && has[-75006] != nil && has[-75007] != nil {
		return "both the component list (-75006) and the no-measurements flag (-75007) are emitted"
	}
	if l := has[wireKey(p, CSwComps)]; l != nil {
		if l.Kind != icbor.KArray {
			return "the component list is not an array"
		}
		for i, cm := range l.Items {
			if cm.Kind != icbor.KMap {
				return fmt.Sprintf("component %d is not a map", i)
			}
			got := map[int64]*icbor.Node{}
			for _, pr := range cm.Pairs {
				k, _ := pr[0].Int()
				if k != 1 && k != 2 && k != 4 && k != 5 && k != 6 {
					return fmt.Sprintf("component %d has key %s", i, icbor.Diag(pr[0]))
				}
				got[k] = pr[1]
			}
			for _, k := range []int64{2, 5} {
				if got[k] == nil || got[k].Kind != icbor.KBytes {
					return fmt.Sprintf("component %d: key %d is absent or not a byte string", i, k)
				}
			}
		}
	}
	return ""
}

// ---- C09 ----

func c09RoundTrip(c psatoken.IClaims, valid bool, decode func([]byte) (psatoken.IClaims, error)) string {
	enc, err := psatoken.EncodeClaimsToCBOR(c)
	if err != nil {
		if valid {
			return "valid claims-set does not encode: " + err.Error()
		}
		return "" // invalid set: an encoder error is an allowed outcome
	}
	encSnap := string(enc)
	interfere() // the bytes are used after other encodings have happened
	if string(enc) != encSnap {
		return "the bytes returned by EncodeClaimsToCBOR changed while other claims-sets were being encoded"
	}
	d, err := decode(enc)
	if err != nil {
		if valid {
			return fmt.Sprintf("encoding of a valid set does not decode: %v (bytes %x)", err, enc)
		}
		// the statement allows exactly two outcomes for a decodable-but-invalid
		// set: the encoder reports an error, or it emits bytes that decode
		// to the same getter results - bytes that do not decode are neither
		return fmt.Sprintf("a claims-set that decoded without error re-encodes WITHOUT error to bytes that no longer decode: %v (bytes %x)", err, enc)
	}
	g0, g1 := ObserveGetters(c), ObserveGetters(d)
	if g0 != g1 {
		return fmt.Sprintf("getter results differ after encode->decode:\n  before: %s\n  after:  %s\n  bytes: %x", g0, g1, enc)
	}
	if fmt.Sprintf("%T", c) != fmt.Sprintf("%T", d) {
		return fmt.Sprintf("type changed %T -> %T", c, d)
	}
	enc2, err := psatoken.EncodeClaimsToCBOR(d)
	if err != nil {
		return "re-encoding the decoded set fails: " + err.Error()
	}
	if valid && !bytes.Equal(enc, enc2) {
		return fmt.Sprintf("encoding is not byte-stable: %x then %x", enc, enc2)
	}
	if !valid && !bytes.Equal(enc, enc2) {
		// must still decode to the same getter results
		d2, err := decode(enc2)
		if err == nil && ObserveGetters(d2) != g0 {
			return "second-generation encoding decodes to different getter results"
		}
	}
	return ""
}

func fmtI64(p *int64) string {
	if p == nil {
		return "absent"
	}
	return fmt.Sprint(*p)
}

func TestC09_RoundTrip(t *testing.T) {
	st := NewStats("C09", "TestC09_RoundTrip", "rapid: (valid) claims-sets of both profiles, and of registered extension profiles of six styles (own codec through the helpers on either base profile, inherited codec without profile claim, inherited codec and OID name, own claim whose Go field name shadows a base field, extension of an extension; own claims absent / zero / non-zero; wire map checked by the independent reader), via setters/literals -> EncodeClaimsToCBOR -> DecodeClaimsFromCBOR: identical getter results and byte-identical re-encoding; (invalid-but-decodable) model-generated invalid tokens encoded by the independent encoder, decoded, re-encoded: encoder error or same getter results. Non-trivial = beyond the canned builder sets (48/64-byte hashes, >=2 components, optional component text, non-ASCII text, negative client id, no-measurements after a decode, invalid-but-decodable); distinct = class vector + route")
	st.Require = []string{"valid", "invalid-decoded", "P1", "P2", "nomeas-decoded", "extension", "style=ext-p2", "style=ext-p1", "style=inherit-p1", "style=inherit-p2-oid", "style=shadow-p2", "style=nested-p2", "style=lookalike-key-p2", "ext-own-claim-values", "ext-null-claim-decoded", "ext-without-components", "ext-rich-types", "foreign-container", "style=wide-p2", "style=wide-p2-24-entries", "style=wide-p2-23-entries"}
	defer st.Flush(t)
	registerMu.Lock()
	defer registerMu.Unlock()
	restore := psatoken.VerifCheckpointProfiles()
	defer restore()
	registerExtStyles()
	if err := psatoken.RegisterProfile(nonceP2Profile{}); err != nil {
		t.Fatalf("VERIF-INFRA: %v", err)
	}
	if err := psatoken.RegisterProfile(noSwP2Profile{}); err != nil {
		t.Fatalf("VERIF-INFRA: %v", err)
	}
	if err := psatoken.RegisterProfile(richP2Profile{}); err != nil {
		t.Fatalf("VERIF-INFRA: %v", err)
	}
	if err := psatoken.RegisterProfile(freeFormProfile{}); err != nil {
		t.Fatalf("VERIF-INFRA: %v", err)
	}
	rapid.Check(t, func(t *rapid.T) {
		p := drawProf(t)
		styleLabel := ""
		kind := rapid.SampledFrom([]string{"valid-setters", "valid-literal", "valid-decoded", "any-decoded", "any-decoded", "extension", "dup-profile-key", "ext-own-claim-values", "ext-null-claim", "ext-without-components", "ext-rich-types", "foreign-container"}).Draw(t, "kind")
		var m *MClaims
		var c psatoken.IClaims
		var err error
		valid := true
		decode := psatoken.DecodeClaimsFromCBOR
		switch kind {
		case "foreign-container":
			// a valid claims-set of a built-in profile whose component
			// container is ANOTHER instantiation of the library's generic
			// container (a vendor's component type embedding the stock one)
			m = GenValid(t, p, false)
			if len(m.Comps) == 0 {
				m.Comps, m.NoMeas, m.CompsNil = []*MComp{drawComp(t, true, "foreign.c")}, nil, false
			}
			lit, ok := m.BuildLiteral()
			if !ok {
				t.Fatalf("VERIF-INFRA: valid model not representable")
			}
			fc := &psatoken.SwComponents[*foreignComp]{}
			for _, x := range m.Comps {
				if aerr := fc.Add(&foreignComp{SwComponent: *libComp(x)}); aerr != nil {
					t.Fatalf("VERIF-INFRA: %v", aerr)
				}
			}
			switch x := lit.(type) {
			case *psatoken.P1Claims:
				x.SwComponents = fc
			case *psatoken.P2Claims:
				x.SwComponents = fc
			}
			if verr := lit.Validate(); verr != nil {
				t.Fatalf("VERIF-INFRA: claims with a foreign container do not validate: %v", verr)
			}
			c = lit
			styleLabel = "foreign-container"
		case "ext-rich-types":
			// a valid claims-set of an extension with a time claim, a
			// free-form value and a free-form map (nested maps with integer
			// and text labels, arrays, byte strings): through the codec it
			// comes back byte-identical
			m = GenValid(t, P2, true)
			p = P2
			b, berr := m.BuildSetters()
			if berr != nil {
				t.Fatalf("VERIF-INFRA: %v", berr)
			}
			n := richP2Profile{}.GetClaims().(*RichP2Claims)
			prof, canon := n.Profile, n.CanonicalProfile
			n.P2Claims = *(b.(*psatoken.P2Claims))
			n.Profile, n.CanonicalProfile = prof, canon
			if genBool.Draw(t, "iat") {
				ts := time.Unix(rapid.Int64Range(0, 1<<33).Draw(t, "iat.s"), 0).UTC()
				n.IssuedAt = &ts
			}
			standalone := genBool.Draw(t, "standalone")
			frees := []any{nil, uint64(7), "text", []byte{1, 2, 3}, []any{uint64(1), "two", []byte{3}}, map[any]any{uint64(1): "int label"}, map[any]any{"t": uint64(2)}, map[any]any{int64(-1): map[any]any{uint64(5): []any{}}}, true}
			// (maps with ONE entry per level: Go map order would make the
			// encoding of larger free-form maps vary by itself)
			n.Free = frees[rapid.IntRange(0, len(frees)-1).Draw(t, "free")]
			switch rapid.IntRange(0, 3).Draw(t, "submods") {
			case 1:
				n.Submods = map[string]any{"a": uint64(1)}
			case 2:
				n.Submods = map[string]any{"sub": map[any]any{uint64(265): []any{[]byte{9, 9}, "x"}}}
			case 3:
				n.Submods = map[string]any{"two": []any{map[any]any{int64(-75000): "p"}, map[any]any{uint64(1): uint64(1)}}}
			}
			if verr := n.Validate(); verr != nil {
				t.Fatalf("VERIF-INFRA: %v", verr)
			}
			c = n
			styleLabel = "rich-types"
			if standalone {
				// the same claims on a stand-alone claims type that the
				// library's OWN codec modes handle by reflection
				f := freeFormProfile{}.GetClaims().(*FreeFormClaims)
				f.IssuedAt, f.Submods, f.Free = n.IssuedAt, n.Submods, n.Free
				if verr := f.Validate(); verr != nil {
					t.Fatalf("VERIF-INFRA: stand-alone claims do not validate: %v", verr)
				}
				c = f
				styleLabel = "rich-types-standalone"
			}
			inner := decode
			want0, _ := psatoken.EncodeClaimsToCBOR(c)
			decode = func(b []byte) (psatoken.IClaims, error) {
				d, err := inner(b)
				if err == nil {
					if fmt.Sprintf("%T", d) != fmt.Sprintf("%T", c) {
						return nil, fmt.Errorf("decodes as %T", d)
					}
					if re, rerr := psatoken.EncodeClaimsToCBOR(d); rerr != nil || !bytes.Equal(re, want0) {
						return nil, fmt.Errorf("the extension's own claims changed in the round trip (%v): %x then %x", rerr, want0, re)
					}
				}
				return d, err
			}
		case "ext-without-components":
			// a derived profile that does not allow software components (nil
			// container, getter says "not in profile"): a VALID claims-set
			m = GenValid(t, P2, true)
			p = P2
			b, berr := m.BuildSetters()
			if berr != nil {
				t.Fatalf("VERIF-INFRA: %v", berr)
			}
			n := noSwP2Profile{}.GetClaims().(*NoSwP2Claims)
			prof, canon := n.Profile, n.CanonicalProfile
			n.P2Claims = *(b.(*psatoken.P2Claims))
			n.Profile, n.CanonicalProfile, n.SwComponents = prof, canon, nil
			if verr := n.Validate(); verr != nil {
				t.Fatalf("VERIF-INFRA: claims of the derived profile without components do not validate: %v", verr)
			}
			c = n
			styleLabel = "no-sw-components"
		case "ext-null-claim":
			// a token of a registered extension profile (own codec through the
			// helpers) in which one claim - mandatory, optional or own - is
			// CBOR null / undefined: if it decodes, it is not valid, and
			// re-encoding it fails or round-trips
			es := extStyleByLabel(rapid.SampledFrom([]string{"ext-p2", "shadow-p2", "nested-p2", "lookalike-key-p2"}).Draw(t, "style"))
			m = GenValid(t, P2, false)
			p = P2
			one := int64(1)
			w := es.wire(m, &one, &one)
			keys := keysOf(w)
			k := keys[rapid.IntRange(0, len(keys)-1).Draw(t, "nullkey")]
			if k == 265 {
				k = keys[(rapid.IntRange(0, len(keys)-1).Draw(t, "nullkey2"))]
			}
			if k != 265 {
				w[k] = rapid.SampledFrom([]*icbor.Node{icbor.Null(), icbor.Undef()}).Draw(t, "nullform")
			}
			var ps [][2]*icbor.Node
			for _, kk := range keys {
				ps = append(ps, icbor.P(icbor.I(kk), w[kk]))
			}
			if c, err = psatoken.DecodeClaimsFromCBOR(icbor.Encode(icbor.Map(ps...))); err != nil {
				st.Case("", "undecodable")
				return
			}
			valid = false
			styleLabel = es.Label + "/null"
		case "ext-own-claim-values":
			// a token of an extension profile whose own optional claim (a
			// nonce type that checks its length when ENCODED, not when
			// decoded) carries a conforming or a non-conforming value: if
			// the token decodes, re-encoding fails or reproduces that claim
			m = GenValid(t, P2, false)
			p = P2
			ps := bodyPairs(m)
			ps = append(ps, icbor.P(icbor.U(265), icbor.Tstr(NonceP2Name)))
			var own *icbor.Node
			switch rapid.IntRange(0, 5).Draw(t, "own") {
			case 0:
				own = icbor.Bstr(drawBytes(t, 32, "own32"))
			case 1:
				own = icbor.Bstr(drawBytes(t, rapid.SampledFrom([]int{0, 1, 2, 7, 65, 100}).Draw(t, "ownlen"), "ownbad"))
			case 2:
				own = icbor.Arr(icbor.Bstr(drawBytes(t, 8, "a")), icbor.Bstr(drawBytes(t, 2, "b")))
			case 3:
				own = icbor.Arr()
			case 4:
				own = icbor.Arr(icbor.Bstr(drawBytes(t, 8, "a")), icbor.Bstr(drawBytes(t, 64, "b")))
			default:
				own = icbor.Bstr(drawBytes(t, 8, "own8"))
			}
			ps = append(ps, icbor.P(icbor.I(-75400), own))
			tok := icbor.Encode(icbor.Map(ps...))
			d0, derr := psatoken.DecodeClaimsFromCBOR(tok)
			if derr != nil {
				st.Case("", "undecodable")
				return
			}
			n0, ok := d0.(*NonceP2Claims)
			if !ok {
				t.Fatalf("C09 violated: token declaring %q decodes as %T", NonceP2Name, d0)
			}
			enc, eerr := psatoken.EncodeClaimsToCBOR(d0)
			if eerr == nil {
				d1, derr := psatoken.DecodeClaimsFromCBOR(enc)
				if derr == nil {
					n1, _ := d1.(*NonceP2Claims)
					if n1 == nil || !reflect.DeepEqual(n0.Extra, n1.Extra) || ObserveGetters(d0) != ObserveGetters(d1) {
						t.Fatalf("C09 violated: a decoded extension claims-set (own claim %s) re-encodes without error to bytes that decode to something else:\n  token      %x\n  re-encoded %x", icbor.Diag(own), tok, enc)
					}
				}
			}
			st.Case("ext-own|"+icbor.Diag(own)+"|"+m.ClassVector(), "P2", "extension", "ext-own-claim-values")
			return
		case "dup-profile-key":
			// a token carrying key 265 twice (a registered name each time, or
			// an unregistered one): IF it decodes, whatever it decodes to must
			// survive a re-encoding
			m = GenValid(t, P2, false)
			p = P2
			names := []string{P2Name, ExtP2Name, "http://example.com/unknown"}
			n1 := rapid.SampledFrom(names).Draw(t, "name1")
			n2 := rapid.SampledFrom(names).Draw(t, "name2")
			ps := bodyPairs(m)
			i1 := rapid.IntRange(0, len(ps)).Draw(t, "pos1")
			ps = append(ps[:i1], append([][2]*icbor.Node{icbor.P(icbor.U(265), icbor.Tstr(n1))}, ps[i1:]...)...)
			i2 := rapid.IntRange(0, len(ps)).Draw(t, "pos2")
			ps = append(ps[:i2], append([][2]*icbor.Node{icbor.P(icbor.U(265), icbor.Tstr(n2))}, ps[i2:]...)...)
			if c, err = psatoken.DecodeClaimsFromCBOR(icbor.Encode(icbor.Map(ps...))); err != nil {
				st.Case("", "undecodable")
				return
			}
			valid = false // no claim about validity: only "never decodes to something else"
		case "extension":
			// a registered extension profile of one of six styles (own codec
			// through the helpers / inherited codec / OID-named / shadowing
			// field name / extension of an extension), own claims absent,
			// zero, or non-zero
			es := extStyles[rapid.IntRange(0, len(extStyles)-1).Draw(t, "style")]
			styleLabel = es.Label
			p = es.Base
			m = GenValid(t, p, true)
			if p == P1 {
				m.Profile = sp(P1Name)
			}
			var own []*int64
			for i := range es.OwnKeys {
				var ts *int64
				switch rapid.IntRange(0, 3).Draw(t, fmt.Sprintf("own%d", i)) {
				case 0:
				case 1:
					ts = new(int64)
				default:
					v := rapid.Int64Range(0, 1<<53).Draw(t, fmt.Sprintf("own%d.val", i))
					ts = &v
					if extRuleBroken(ts) {
						v = 14
					}
				}
				own = append(own, ts)
			}
			if es.Label == "wide-p2" && genBool.Draw(t, "wide.exact") {
				// steer the number of entries of the token onto the boundary
				// of the one-byte map head (23 | 24 entries) and next to it
				target := rapid.SampledFrom([]int{22, 23, 24, 24, 25, 26}).Draw(t, "wide.entries")
				base := len(es.wire(m))
				for i := range own {
					if i < target-base {
						if own[i] == nil {
							own[i] = new(int64)
						}
					} else {
						own[i] = nil
					}
				}
				if n := len(es.wire(m, own...)); n == target {
					styleLabel = fmt.Sprintf("wide-p2-%d-entries", n)
				}
			}
			if c, err = es.build(m, own...); err != nil {
				t.Fatalf("VERIF-INFRA: %v", err)
			}
			if msg := es.roundTrips(c, m, "cbor", own...); msg != "" {
				t.Fatalf("C09 violated (extension): %s\n [%s]", msg, m.ClassVector())
			}
			orig := extOwn(c)
			decode = func(b []byte) (psatoken.IClaims, error) {
				d, err := es.decodeCBOR(b)
				if err == nil && extOwn(d) != orig {
					return nil, fmt.Errorf("the extension's own claims changed in the round trip: %s -> %s (bytes %x)", orig, extOwn(d), b)
				}
				return d, err
			}
		case "valid-setters":
			m = GenValid(t, p, true)
			if c, err = m.BuildSetters(); err != nil {
				t.Fatalf("valid set cannot be built through setters: %v", err)
			}
		case "valid-literal":
			m = GenValid(t, p, false)
			c, _ = m.BuildLiteral()
		case "valid-decoded":
			m = GenValid(t, p, false)
			if c, err = psatoken.DecodeClaimsFromCBOR(permutedToken(t, m)); err != nil {
				t.Fatalf("conformant token does not decode: %v", err)
			}
		default:
			m = GenAny(t, p)
			if len(m.Comps) > 0 && rapid.IntRange(0, 5).Draw(t, "nilentry") == 0 {
				// a null entry in the component list (decodes, is not valid)
				m.Comps[rapid.IntRange(0, len(m.Comps)-1).Draw(t, "nilidx")] = &MComp{NilEntry: true}
			}
			valid = m.Valid()
			tok := permutedToken(t, m)
			if c, err = psatoken.DecodeClaimsFromCBOR(tok); err != nil {
				st.Case("", "undecodable")
				return
			}
		}
		if msg := c09RoundTrip(c, valid, decode); msg != "" {
			t.Fatalf("C09 violated (%s): %s\n [%s]", kind, msg, m.ClassVector())
		}
		cls := []string{p.String()}
		if kind == "extension" {
			cls = append(cls, "extension", "style="+styleLabel)
		}
		if kind == "ext-null-claim" {
			cls = append(cls, "extension", "ext-null-claim-decoded")
		}
		if kind == "ext-without-components" {
			cls = append(cls, "extension", "ext-without-components")
		}
		if kind == "ext-rich-types" {
			cls = append(cls, "extension", "ext-rich-types")
		}
		if kind == "dup-profile-key" {
			cls = append(cls, "dup-profile-key-decoded")
		}
		if kind == "foreign-container" {
			cls = append(cls, "foreign-container")
		}
		if valid {
			cls = append(cls, "valid")
		} else {
			cls = append(cls, "invalid-decoded")
		}
		if m.NoMeas != nil && kind != "valid-setters" && kind != "valid-literal" {
			cls = append(cls, "nomeas-decoded")
		}
		key := ""
		if isBeyondBuilders(m) {
			key = kind + styleLabel + "|" + m.ClassVector()
		}
		st.Case(key, cls...)
		if key != "" && st.WantSample() {
			st.Sample(map[string]string{"kind": kind, "claims": m.ClassVector()})
		}
	})
}
