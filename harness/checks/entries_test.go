package checks

// The decoding entry points named by C05 / C06, behind one uniform signature,
// plus the "exercise whatever came back" battery of C05.

import (
	"crypto"
	"encoding/json"
	"fmt"
	"runtime/debug"
	"strings"

	"github.com/veraison/psatoken"
	"github.com/veraison/psatoken/encoding"

	"verifharness/icose"
)

type entryPoint struct {
	Name   string
	Family string // "cose" | "cbor" | "json" | "enc-cbor" | "enc-json"
	// Run decodes data and returns whatever the entry point returned without
	// error (nil if it returned an error).
	Run func(data []byte) (any, error)
}

// reusedEvidence returns an Evidence that already holds a decoded token.
func reusedEvidence() *psatoken.Evidence {
	ev := &psatoken.Evidence{}
	if good, err := goodEnvelopeOnce(); err == nil {
		_ = ev.UnmarshalCOSE(good)
	}
	return ev
}

func nilIfErr[T any](v T, err error) (any, error) {
	if err != nil {
		return nil, err
	}
	return v, nil
}

func freshEncShapes() []any {
	return []any{&ShapeFlat{}, &ShapeOuter1{}, &ShapeOuter2{}, &ShapeOuterI{ShapeEmb: &ShapeInner{}}, &ShapeOuterI{}}
}

var entryPoints = buildEntryPoints()

func buildEntryPoints() []entryPoint {
	eps := []entryPoint{
		{"DecodeEvidenceFromCOSE", "cose", func(b []byte) (any, error) { return nilIfErr(psatoken.DecodeEvidenceFromCOSE(b)) }},
		{"DecodeAndValidateEvidenceFromCOSE", "cose", func(b []byte) (any, error) {
			return nilIfErr(psatoken.DecodeAndValidateEvidenceFromCOSE(b))
		}},
		{"Evidence.UnmarshalCOSE(fresh)", "cose", func(b []byte) (any, error) {
			ev := &psatoken.Evidence{}
			return nilIfErr(ev, ev.UnmarshalCOSE(b))
		}},
		{"Evidence.UnmarshalCOSE(reused)", "cose", func(b []byte) (any, error) {
			ev := reusedEvidence()
			return nilIfErr(ev, ev.UnmarshalCOSE(b))
		}},
		{"DecodeClaimsFromCBOR", "cbor", func(b []byte) (any, error) { return nilIfErr(psatoken.DecodeClaimsFromCBOR(b)) }},
		{"DecodeAndValidateClaimsFromCBOR", "cbor", func(b []byte) (any, error) {
			return nilIfErr(psatoken.DecodeAndValidateClaimsFromCBOR(b))
		}},
		{"P1Claims.UnmarshalCBOR", "cbor", func(b []byte) (any, error) {
			c, _ := psatoken.NewClaims(P1Name)
			return nilIfErr(c, c.(*psatoken.P1Claims).UnmarshalCBOR(b))
		}},
		{"P2Claims.UnmarshalCBOR", "cbor", func(b []byte) (any, error) {
			c, _ := psatoken.NewClaims(P2Name)
			return nilIfErr(c, c.(*psatoken.P2Claims).UnmarshalCBOR(b))
		}},
		{"cbor.Unmarshal(*P1Claims zero)", "cbor", func(b []byte) (any, error) {
			c := &psatoken.P1Claims{}
			return nilIfErr(psatoken.IClaims(c), hdm.Unmarshal(b, c))
		}},
		{"cbor.Unmarshal(*P2Claims zero)", "cbor", func(b []byte) (any, error) {
			c := &psatoken.P2Claims{}
			return nilIfErr(psatoken.IClaims(c), hdm.Unmarshal(b, c))
		}},
		{"cbor.Unmarshal(*SwComponent)", "cbor", func(b []byte) (any, error) {
			c := &psatoken.SwComponent{}
			return nilIfErr(c, hdm.Unmarshal(b, c))
		}},
		{"SwComponents.UnmarshalCBOR", "cbor", func(b []byte) (any, error) {
			c := &swContainer{}
			return nilIfErr(c, c.UnmarshalCBOR(b))
		}},
		{"ExtP2Claims.UnmarshalCBOR", "cbor", func(b []byte) (any, error) {
			c := newExtP2Claims()
			return nilIfErr(c, c.(*ExtP2Claims).UnmarshalCBOR(b))
		}},
		{"ExtP1Claims.UnmarshalCBOR", "cbor", func(b []byte) (any, error) {
			c := newExtP1Claims()
			return nilIfErr(c, c.(*ExtP1Claims).UnmarshalCBOR(b))
		}},
		// claims-sets of the built-in types whose component container is
		// ANOTHER instantiation of the library's generic container (what a
		// derived profile with its own component type uses)
		{"P2Claims{SwComponents[*foreignComp]}.UnmarshalCBOR", "cbor", func(b []byte) (any, error) {
			c := &psatoken.P2Claims{SwComponents: &psatoken.SwComponents[*foreignComp]{}, CanonicalProfile: P2Name}
			return nilIfErr(psatoken.IClaims(c), c.UnmarshalCBOR(b))
		}},
		{"P1Claims{SwComponents[*foreignComp]}.UnmarshalCBOR", "cbor", func(b []byte) (any, error) {
			c := &psatoken.P1Claims{SwComponents: &psatoken.SwComponents[*foreignComp]{}, CanonicalProfile: P1Name}
			return nilIfErr(psatoken.IClaims(c), c.UnmarshalCBOR(b))
		}},
		{"SwComponents[*foreignComp].UnmarshalCBOR", "cbor", func(b []byte) (any, error) {
			c := &psatoken.SwComponents[*foreignComp]{}
			return nilIfErr(c, c.UnmarshalCBOR(b))
		}},
		{"P2Claims{SwComponents[*foreignComp]}.UnmarshalJSON", "json", func(b []byte) (any, error) {
			c := &psatoken.P2Claims{SwComponents: &psatoken.SwComponents[*foreignComp]{}, CanonicalProfile: P2Name}
			return nilIfErr(psatoken.IClaims(c), c.UnmarshalJSON(b))
		}},
		{"P1Claims{SwComponents[*foreignComp]}.UnmarshalJSON", "json", func(b []byte) (any, error) {
			c := &psatoken.P1Claims{SwComponents: &psatoken.SwComponents[*foreignComp]{}, CanonicalProfile: P1Name}
			return nilIfErr(psatoken.IClaims(c), c.UnmarshalJSON(b))
		}},
		{"SwComponents[*foreignComp].UnmarshalJSON", "json", func(b []byte) (any, error) {
			c := &psatoken.SwComponents[*foreignComp]{}
			return nilIfErr(c, c.UnmarshalJSON(b))
		}},
		{"DecodeClaimsFromJSON", "json", func(b []byte) (any, error) { return nilIfErr(psatoken.DecodeClaimsFromJSON(b)) }},
		{"DecodeAndValidateClaimsFromJSON", "json", func(b []byte) (any, error) {
			return nilIfErr(psatoken.DecodeAndValidateClaimsFromJSON(b))
		}},
		{"DecodeJSONClaims(deprecated)", "json", func(b []byte) (any, error) { return nilIfErr(psatoken.DecodeJSONClaims(b)) }},
		{"P1Claims.UnmarshalJSON", "json", func(b []byte) (any, error) {
			c, _ := psatoken.NewClaims(P1Name)
			return nilIfErr(c, c.(*psatoken.P1Claims).UnmarshalJSON(b))
		}},
		{"P2Claims.UnmarshalJSON", "json", func(b []byte) (any, error) {
			c, _ := psatoken.NewClaims(P2Name)
			return nilIfErr(c, c.(*psatoken.P2Claims).UnmarshalJSON(b))
		}},
		{"json.Unmarshal(*P1Claims zero)", "json", func(b []byte) (any, error) {
			c := &psatoken.P1Claims{}
			return nilIfErr(psatoken.IClaims(c), json.Unmarshal(b, c))
		}},
		{"json.Unmarshal(*P2Claims zero)", "json", func(b []byte) (any, error) {
			c := &psatoken.P2Claims{}
			return nilIfErr(psatoken.IClaims(c), json.Unmarshal(b, c))
		}},
		{"json.Unmarshal(*SwComponent)", "json", func(b []byte) (any, error) {
			c := &psatoken.SwComponent{}
			return nilIfErr(c, json.Unmarshal(b, c))
		}},
		{"SwComponents.UnmarshalJSON", "json", func(b []byte) (any, error) {
			c := &swContainer{}
			return nilIfErr(c, c.UnmarshalJSON(b))
		}},
		{"ExtP2Claims.UnmarshalJSON", "json", func(b []byte) (any, error) {
			c := newExtP2Claims()
			return nilIfErr(c, c.(*ExtP2Claims).UnmarshalJSON(b))
		}},
		{"ExtP1Claims.UnmarshalJSON", "json", func(b []byte) (any, error) {
			c := newExtP1Claims()
			return nilIfErr(c, c.(*ExtP1Claims).UnmarshalJSON(b))
		}},
	}
	for i := range freshEncShapes() {
		i := i
		name := fmt.Sprintf("%T", freshEncShapes()[i])
		if i == 4 {
			name += "(nil iface)"
		}
		eps = append(eps,
			entryPoint{"PopulateStructFromCBOR(" + name + ")", "enc-cbor", func(b []byte) (any, error) {
				d := freshEncShapes()[i]
				return nilIfErr(d, encoding.PopulateStructFromCBOR(hdm, b, d))
			}},
			entryPoint{"PopulateStructFromJSON(" + name + ")", "enc-json", func(b []byte) (any, error) {
				d := freshEncShapes()[i]
				return nilIfErr(d, encoding.PopulateStructFromJSON(b, d))
			}})
	}
	return eps
}

func entriesOf(families ...string) []entryPoint {
	var r []entryPoint
	for _, e := range entryPoints {
		for _, f := range families {
			if e.Family == f {
				r = append(r, e)
			}
		}
	}
	return r
}

func entryByName(name string) (entryPoint, bool) {
	for _, e := range entryPoints {
		if e.Name == name {
			return e, true
		}
	}
	return entryPoint{}, false
}

// ---- exercising a result ----

var verifyKeys []crypto.PublicKey

func allVerifyKeys() []crypto.PublicKey {
	if verifyKeys == nil {
		ks := []crypto.PublicKey{nil, "not a key", 42, struct{}{}}
		for _, a := range []int64{icose.ES256, icose.ES384, icose.ES512, icose.EdDSA, icose.PS256} {
			ks = append(ks, keyFor(a, 0).Pub)
		}
		ks = append(ks, &rsa1024Key().PublicKey)
		verifyKeys = ks
	}
	return verifyKeys
}

func exerciseComponent(sc psatoken.ISwComponent) {
	if sc == nil {
		return
	}
	if p, ok := sc.(*psatoken.SwComponent); ok && p == nil {
		return // a typed nil handed back to the caller: nothing to call on it
	}
	_ = sc.Validate()
	_, _ = sc.GetMeasurementType()
	_, _ = sc.GetMeasurementValue()
	_, _ = sc.GetVersion()
	_, _ = sc.GetSignerID()
	_, _ = sc.GetMeasurementDesc()
}

func exerciseClaims(c psatoken.IClaims) {
	_ = c.Validate()
	_, _ = c.GetProfile()
	_, _ = c.GetClientID()
	_, _ = c.GetSecurityLifeCycle()
	_, _ = c.GetImplID()
	_, _ = c.GetBootSeed()
	_, _ = c.GetCertificationReference()
	if scs, err := c.GetSoftwareComponents(); err == nil {
		for _, sc := range scs {
			exerciseComponent(sc)
		}
	}
	_, _ = c.GetNonce()
	_, _ = c.GetInstID()
	_, _ = c.GetVSI()
	_, _ = psatoken.EncodeClaimsToCBOR(c)
	_, _ = psatoken.EncodeClaimsToJSON(c)
	_, _ = psatoken.ValidateAndEncodeClaimsToCBOR(c)
	_, _ = psatoken.ValidateAndEncodeClaimsToJSON(c)
	ev := &psatoken.Evidence{}
	_ = ev.SetClaims(c)
	ev2 := &psatoken.Evidence{Claims: c}
	_, _ = ev2.MarshalJSON()
	_ = ev2.GetInstanceID()
	_ = ev2.GetImplementationID()
}

func exerciseResult(v any) {
	switch r := v.(type) {
	case nil:
	case *psatoken.Evidence:
		if r == nil {
			return
		}
		if r.Claims != nil {
			exerciseClaims(r.Claims)
			_, _ = r.MarshalJSON()
			_ = r.GetInstanceID()
			_ = r.GetImplementationID()
		}
		for _, k := range allVerifyKeys() {
			_ = r.Verify(k)
		}
	case psatoken.IClaims:
		exerciseClaims(r)
	case *psatoken.SwComponent:
		exerciseComponent(r)
		_, _ = hem.Marshal(r)
		_, _ = json.Marshal(r)
	case *swContainer:
		_ = r.Validate()
		if vs, err := r.Values(); err == nil {
			for _, sc := range vs {
				exerciseComponent(sc)
			}
		}
		_ = r.IsEmpty()
		_, _ = r.MarshalCBOR()
		_, _ = r.MarshalJSON()
	case psatoken.ISwComponents:
		_ = r.Validate()
		if vs, err := r.Values(); err == nil {
			for _, sc := range vs {
				exerciseComponent(sc)
			}
		}
		_ = r.IsEmpty()
		if m, ok := v.(interface{ MarshalCBOR() ([]byte, error) }); ok {
			_, _ = m.MarshalCBOR()
		}
		if m, ok := v.(json.Marshaler); ok {
			_, _ = m.MarshalJSON()
		}
	default:
		_, _ = encoding.SerializeStructToCBOR(hem, v)
		_, _ = encoding.SerializeStructToJSON(v)
	}
}

// runEntryNoPanic runs one entry point (and, if exercise, the result battery)
// and converts a panic into a message.
func runEntryNoPanic(e entryPoint, data []byte, exercise bool) (res any, err error, panicMsg string) {
	stage := "decoding"
	defer func() {
		if r := recover(); r != nil {
			st := string(debug.Stack())
			// keep the frames below the panic, drop harness noise
			lines := strings.Split(st, "\n")
			var keep []string
			for _, l := range lines {
				if strings.Contains(l, "psatoken") || strings.Contains(l, "fxamacker") || strings.Contains(l, "go-cose") || strings.Contains(l, "veraison/eat") {
					keep = append(keep, strings.TrimSpace(l))
				}
				if len(keep) >= 8 {
					break
				}
			}
			panicMsg = fmt.Sprintf("panic while %s via %s: %v\n    %s", stage, e.Name, r, strings.Join(keep, "\n    "))
		}
	}()
	res, err = e.Run(data)
	if err != nil {
		// an error is there to be read: producing its text is part of
		// "returns an error" (and must neither panic nor run away)
		stage = "formatting the error returned"
		_ = err.Error()
		stage = "decoding"
	}
	if err == nil && exercise {
		stage = "using the successfully decoded result"
		exerciseResult(res)
	}
	return res, err, ""
}
