package checks

import (
	"bytes"
	"encoding/json"
	"fmt"
	"reflect"
	"testing"
	"unicode/utf8"

	"github.com/veraison/psatoken"
	"pgregory.net/rapid"

	"verifharness/icose"
)

// C12 — JSON round-trips and is equivalent to the CBOR form.

func hasSpecialText(m *MClaims) bool {
	special := func(p *string) bool {
		if p == nil {
			return false
		}
		for _, r := range *p {
			if r > 0x7e || r < 0x20 || r == '"' || r == '\\' || r == '<' || r == '>' || r == '&' {
				return true
			}
		}
		return false
	}
	if special(m.VSI) {
		return true
	}
	for _, c := range m.Comps {
		if special(c.Type) || special(c.Version) || special(c.Desc) {
			return true
		}
	}
	return false
}

func c12Check(m *MClaims, c psatoken.IClaims) string {
	// (a) JSON round trip through the dispatching decoder
	js, err := psatoken.EncodeClaimsToJSON(c)
	if err != nil {
		return "valid set does not encode to JSON: " + err.Error()
	}
	jsSnap := string(js)
	interfere()
	if string(js) != jsSnap {
		return "the bytes returned by EncodeClaimsToJSON changed while other claims-sets were being encoded"
	}
	if !utf8.Valid(js) {
		return "emitted JSON is not valid UTF-8"
	}
	d, err := psatoken.DecodeClaimsFromJSON(js)
	if err != nil {
		return fmt.Sprintf("the library's own JSON does not decode: %v\n  json: %s", err, js)
	}
	if g0, g1 := ObserveGetters(c), ObserveGetters(d); g0 != g1 {
		return fmt.Sprintf("getter results differ after JSON round trip:\n  before: %s\n  after:  %s\n  json: %s", g0, g1, js)
	}
	if fmt.Sprintf("%T", c) != fmt.Sprintf("%T", d) {
		return fmt.Sprintf("JSON dispatch changed the type %T -> %T", c, d)
	}
	if _, err := psatoken.DecodeAndValidateClaimsFromJSON(js); err != nil {
		return "the library's own JSON of a valid set fails decode-and-validate: " + err.Error()
	}
	// (b) CBOR -> claims -> JSON -> claims -> CBOR
	cbor0, err := psatoken.EncodeClaimsToCBOR(c)
	if err != nil {
		return "valid set does not encode to CBOR: " + err.Error()
	}
	c1, err := psatoken.DecodeClaimsFromCBOR(cbor0)
	if err != nil {
		return "CBOR of a valid set does not decode: " + err.Error()
	}
	js1, err := psatoken.EncodeClaimsToJSON(c1)
	if err != nil {
		return "decoded set does not encode to JSON: " + err.Error()
	}
	c2, err := psatoken.DecodeClaimsFromJSON(js1)
	if err != nil {
		return fmt.Sprintf("CBOR->claims->JSON does not decode: %v\n  json: %s", err, js1)
	}
	cbor1, err := psatoken.EncodeClaimsToCBOR(c2)
	if err != nil {
		return "JSON-decoded set does not encode to CBOR: " + err.Error()
	}
	if !bytes.Equal(cbor0, cbor1) {
		return fmt.Sprintf("CBOR->claims->JSON->claims->CBOR changed the bytes:\n  %x\n  %x\n  json: %s", cbor0, cbor1, js1)
	}
	// (c) document shape: documented member names, base64, omitted optionals
	var doc map[string]any
	if err := json.Unmarshal(js, &doc); err != nil {
		return "emitted JSON does not parse as an object: " + err.Error()
	}
	want := m.ExpectJSON()
	// integers beyond 2^53 do not survive float64: compare that member exactly
	if m.NoMeas != nil && *m.NoMeas > 1<<53 {
		dec := json.NewDecoder(bytes.NewReader(js))
		dec.UseNumber()
		var exact map[string]any
		if err := dec.Decode(&exact); err != nil {
			return "emitted JSON does not parse: " + err.Error()
		}
		if got := fmt.Sprint(exact["psa-no-software-measurements"]); got != fmt.Sprint(*m.NoMeas) {
			return fmt.Sprintf("JSON member psa-no-software-measurements is %s, want %d", got, *m.NoMeas)
		}
		delete(doc, "psa-no-software-measurements")
		delete(want, "psa-no-software-measurements")
	}
	if !reflect.DeepEqual(doc, want) {
		for _, k := range sortedKeys(want) {
			if _, ok := doc[k]; !ok {
				return fmt.Sprintf("JSON member %q missing; document: %s", k, js)
			}
			if !reflect.DeepEqual(doc[k], want[k]) {
				return fmt.Sprintf("JSON member %q is %v, want %v", k, doc[k], want[k])
			}
		}
		for _, k := range sortedKeys(doc) {
			if _, ok := want[k]; !ok {
				return fmt.Sprintf("unexpected JSON member %q: %v (absent optional claims must be omitted); document: %s", k, doc[k], js)
			}
		}
		return "JSON document differs from the expected one"
	}
	// Evidence.MarshalJSON
	ev := &psatoken.Evidence{}
	if err := ev.SetClaims(c); err != nil {
		return "SetClaims of a valid set failed: " + err.Error()
	}
	ejs, err := ev.MarshalJSON()
	if err != nil || !bytes.Equal(ejs, js) {
		return fmt.Sprintf("Evidence.MarshalJSON differs from EncodeClaimsToJSON: %s / %v", ejs, err)
	}
	// ... also on an Evidence with a past: it signed (or decoded) OTHER claims
	// before these were attached; and after these were signed
	for _, past := range []string{"signed-other", "decoded-other", "signed-these"} {
		ev2 := &psatoken.Evidence{}
		other, _ := baseValid(m.Prof, 2).BuildLiteral()
		kp := keyFor(icose.EdDSA, 1)
		switch past {
		case "signed-other":
			_ = ev2.SetClaims(other)
			_, _ = ev2.ValidateAndSign(kp.Signer())
		case "decoded-other":
			if tok, serr := icose.SignedToken(kp.Alg, kp.Priv, baseValid(m.Prof, 2).WireBytes()); serr == nil {
				_ = ev2.UnmarshalCOSE(tok)
			}
		}
		if err := ev2.SetClaims(c); err != nil {
			return "SetClaims of a valid set failed on a used Evidence: " + err.Error()
		}
		if past == "signed-these" {
			_, _ = ev2.ValidateAndSign(kp.Signer())
		}
		ejs2, err := ev2.MarshalJSON()
		if err != nil || !bytes.Equal(ejs2, js) {
			return fmt.Sprintf("Evidence.MarshalJSON on an Evidence with a past (%s) is not the JSON encoding of the claims attached now:\n  got  %s (%v)\n  want %s", past, ejs2, err, js)
		}
	}
	return ""
}

// c12LateProfile registers a new extension profile (for the duration of the
// case) on the base profile of m, realises m as claims of that profile and
// sends them through JSON and back.
func c12LateProfile(t *rapid.T, m *MClaims) string {
	shape := "ext-p2"
	if m.Prof == P1 {
		shape = "ext-p1"
	} else if rapid.Bool().Draw(t, "late.own-tag") {
		shape = "own-tag"
	}
	name := fmt.Sprintf("http://example.com/verif/late/%d", rapid.IntRange(0, 1<<30).Draw(t, "late.n"))
	restore := psatoken.VerifCheckpointProfiles()
	defer restore()
	// something was decoded before the registration
	if _, err := psatoken.DecodeClaimsFromJSON([]byte(`{"psa-client-id": 1}`)); err != nil {
		return "a profile-less document does not decode: " + err.Error()
	}
	pr := dynProfile{name, shape}
	if err := psatoken.RegisterProfile(pr); err != nil {
		return fmt.Sprintf("registering the new profile %q fails: %v", name, err)
	}
	c := pr.GetClaims()
	mm := m.Clone()
	mm.Profile = sp(name)
	if err := mm.applySetters(c); err != nil {
		return "valid values refused by the setters of the derived profile: " + err.Error()
	}
	if err := c.Validate(); err != nil {
		return "" // the derived profile's own rule; not what is looked at here
	}
	js, err := psatoken.EncodeClaimsToJSON(c)
	if err != nil {
		return "claims of the new profile do not encode to JSON: " + err.Error()
	}
	d, err := psatoken.DecodeClaimsFromJSON(js)
	if err != nil {
		return fmt.Sprintf("the library's own JSON for the profile %q does not decode: %v\n  json: %s", name, err, js)
	}
	if fmt.Sprintf("%T", c) != fmt.Sprintf("%T", d) {
		return fmt.Sprintf("JSON dispatch changed the type %T -> %T", c, d)
	}
	if g0, g1 := ObserveGetters(c), ObserveGetters(d); g0 != g1 {
		return fmt.Sprintf("getter results differ after JSON round trip:\n  before: %s\n  after:  %s\n  json: %s", g0, g1, js)
	}
	b0, e0 := psatoken.EncodeClaimsToCBOR(c)
	b1, e1 := psatoken.EncodeClaimsToCBOR(d)
	if (e0 == nil) != (e1 == nil) || !bytes.Equal(b0, b1) {
		return fmt.Sprintf("claims -> JSON -> claims changed the CBOR encoding:\n  %x (%v)\n  %x (%v)", b0, e0, b1, e1)
	}
	return ""
}

func TestC12_JSON(t *testing.T) {
	st := NewStats("C12", "TestC12_JSON", "rapid: valid claims-sets of both profiles (setters / literals / decoded from CBOR; P1 with and without explicit profile; non-ASCII, control, quote, <>& text; negative client ids): JSON round trip through the dispatching decoder gives identical getters; CBOR->claims->JSON->claims->CBOR reproduces the bytes; the emitted document parsed generically equals the model's expected object (documented names, std base64, absent optionals omitted); Evidence.MarshalJSON agrees. Seven extension styles and seven profiles whose names are prefixes / extensions of the built-in names are registered throughout. Non-trivial = special text, or P1 without explicit profile, or no-measurements, or >=2 components; distinct = class vector + text hash")
	st.Require = []string{"P1", "P2", "p1-implicit-profile", "special-text", "nomeas", "neg-clientid", "late-registered-profile"}
	defer st.Flush(t)
	// the register also holds other profiles, among them ones whose NAMES
	// extend (or are extended by) the built-in names and that use the same
	// profile member: the built-in profiles' own JSON still comes back
	registerMu.Lock()
	defer registerMu.Unlock()
	restore := psatoken.VerifCheckpointProfiles()
	defer restore()
	registerExtStyles()
	for _, pr := range []psatoken.IProfile{
		dynProfile{P2Name + "/vendor-x", "ext-p2"}, dynProfile{P2Name + "0", "ext-p2"}, dynProfile{"http://arm.com/psa/2.0", "ext-p2"}, dynProfile{"http://arm.com/psa", "own-tag"},
		dynProfile{P1Name + "_X", "ext-p1"}, dynProfile{"PSA_IOT_PROFILE_", "ext-p1"}, dynProfile{"PSA", "ext-p1"},
	} {
		if err := psatoken.RegisterProfile(pr); err != nil {
			t.Fatalf("VERIF-INFRA: %v", err)
		}
	}
	rapid.Check(t, func(t *rapid.T) {
		p := drawProf(t)
		route := rapid.SampledFrom([]string{"setters", "literal", "decoded"}).Draw(t, "route")
		m := GenValid(t, p, route == "setters")
		var c psatoken.IClaims
		var err error
		switch route {
		case "setters":
			if c, err = m.BuildSetters(); err != nil {
				t.Fatalf("valid set cannot be built through setters: %v", err)
			}
		case "literal":
			c, _ = m.BuildLiteral()
		default:
			if c, err = psatoken.DecodeClaimsFromCBOR(m.WireBytes()); err != nil {
				t.Fatalf("conformant token does not decode: %v", err)
			}
		}
		if msg := c12Check(m, c); msg != "" {
			t.Fatalf("C12 violated (%s route): %s\n [%s]", route, msg, m.ClassVector())
		}
		cls := []string{p.String()}
		// a profile registered at RUN TIME, after documents were already
		// decoded (a plug-in, a configuration step): the library's own JSON of
		// its claims-sets comes back through the dispatching decoder as well
		if rapid.IntRange(0, 11).Draw(t, "late-registration") == 0 {
			cls = append(cls, "late-registered-profile")
			if msg := c12LateProfile(t, m); msg != "" {
				t.Fatalf("C12 violated (profile registered after earlier decodes): %s\n [%s]", msg, m.ClassVector())
			}
		}
		nt := false
		if p == P1 && m.Profile == nil {
			cls = append(cls, "p1-implicit-profile")
			nt = true
		}
		if hasSpecialText(m) {
			cls = append(cls, "special-text")
			nt = true
		}
		if m.NoMeas != nil {
			cls = append(cls, "nomeas")
			nt = true
		}
		if *m.ClientID < 0 {
			cls = append(cls, "neg-clientid")
		}
		if len(m.Comps) >= 2 {
			nt = true
		}
		key := ""
		if nt {
			txt := ""
			if m.VSI != nil {
				txt = *m.VSI
			}
			for _, c := range m.Comps {
				for _, s := range []*string{c.Type, c.Version, c.Desc} {
					if s != nil {
						txt += "|" + *s
					}
				}
			}
			key = route + "|" + m.ClassVector() + "|" + txt
		}
		st.Case(key, cls...)
		if key != "" && st.WantSample() {
			js, _ := psatoken.EncodeClaimsToJSON(c)
			st.Sample(map[string]string{"claims": m.ClassVector(), "json": truncate(string(js), 500)})
		}
	})
}
