package checks

import (
	"crypto/ecdsa"
	"crypto/elliptic"
	"fmt"
	"io"
	"math/big"
	"testing"

	cose "github.com/veraison/go-cose"
	"github.com/veraison/psatoken"
	"pgregory.net/rapid"

	"verifharness/icose"
)

// C03 — signatures of every SHAPE. An ECDSA signature is a pair of numbers
// written in two fixed-size halves; which bytes they have (leading zero
// octets, s above or below n/2, s or n-s very small) is up to chance, and
// the rare shapes (two leading zero octets: one signing in 65 536) never
// come up in a run. shapedSigner makes them come up: it is an honest
// cose.Signer whose key pair is fixed only when it signs - it picks the
// nonce k and the s it wants and solves s = (z + r*d)/k for the private key
// d. The public key d*G is then THE matching key of that signature: every
// conforming verifier accepts (r, s) for it, so must the library, on the
// signing Evidence and on the decoded token.
type shapedSigner struct {
	alg   int64
	curve elliptic.Curve
	k     *big.Int
	wantS func(n *big.Int) *big.Int
	pub   *ecdsa.PublicKey
	sig   []byte
	calls int
}

func (s *shapedSigner) Algorithm() cose.Algorithm { return cose.Algorithm(s.alg) }

// hashToInt as FIPS 186-4 / crypto/ecdsa: the leftmost bits of the digest
func hashToInt(hash []byte, c elliptic.Curve) *big.Int {
	orderBits := c.Params().N.BitLen()
	orderBytes := (orderBits + 7) / 8
	if len(hash) > orderBytes {
		hash = hash[:orderBytes]
	}
	ret := new(big.Int).SetBytes(hash)
	if excess := len(hash)*8 - orderBits; excess > 0 {
		ret.Rsh(ret, uint(excess))
	}
	return ret
}

func (s *shapedSigner) Sign(_ io.Reader, content []byte) ([]byte, error) {
	s.calls++
	n := s.curve.Params().N
	size := (s.curve.Params().BitSize + 7) / 8
	z := hashToInt(icose.Digest(s.alg, content), s.curve)
	k := new(big.Int).Set(s.k)
	for {
		k.Mod(k, n)
		if k.Sign() == 0 {
			k.SetInt64(1)
		}
		x, _ := s.curve.ScalarBaseMult(k.Bytes())
		r := new(big.Int).Mod(x, n)
		want := s.wantS(n)
		// d = (s*k - z) / r mod n
		d := new(big.Int).Mul(want, k)
		d.Sub(d, z)
		d.Mod(d, n)
		if r.Sign() == 0 || d.Sign() == 0 {
			k.Add(k, big.NewInt(1))
			continue
		}
		d.Mul(d, new(big.Int).ModInverse(r, n))
		d.Mod(d, n)
		if d.Sign() == 0 {
			k.Add(k, big.NewInt(1))
			continue
		}
		qx, qy := s.curve.ScalarBaseMult(d.Bytes())
		s.pub = &ecdsa.PublicKey{Curve: s.curve, X: qx, Y: qy}
		sig := make([]byte, 2*size)
		r.FillBytes(sig[:size])
		want.FillBytes(sig[size:])
		s.sig = append([]byte{}, sig...)
		return sig, nil
	}
}

// sShapes: name -> the wanted s, given the group order n, the octet size of a
// half and some drawn bytes.
var sShapeNames = []string{"low", "high", "one", "n-minus-1", "half", "half-plus-1",
	"short-by-1", "short-by-2", "short-by-3", "short-by-8", "one-octet",
	"complement-short-by-1", "complement-short-by-2", "complement-short-by-2", "complement-short-by-3", "complement-short-by-8", "complement-one-octet"}

func sShape(name string, size int, rnd []byte) func(n *big.Int) *big.Int {
	short := func(j int) *big.Int {
		// a number of exactly size-j octets (top octet non-zero), at least 1
		l := size - j
		if l < 1 {
			l = 1
		}
		b := make([]byte, l)
		copy(b, rnd)
		if b[0] == 0 {
			b[0] = 1
		}
		return new(big.Int).SetBytes(b)
	}
	return func(n *big.Int) *big.Int {
		half := new(big.Int).Rsh(n, 1)
		var v *big.Int
		switch name {
		case "low":
			v = new(big.Int).Mod(new(big.Int).SetBytes(rnd), half)
		case "high":
			v = new(big.Int).Sub(n, new(big.Int).Mod(new(big.Int).SetBytes(rnd), half))
		case "one":
			v = big.NewInt(1)
		case "n-minus-1":
			v = new(big.Int).Sub(n, big.NewInt(1))
		case "half":
			v = half
		case "half-plus-1":
			v = new(big.Int).Add(half, big.NewInt(1))
		case "short-by-1":
			v = short(1)
		case "short-by-2":
			v = short(2)
		case "short-by-3":
			v = short(3)
		case "short-by-8":
			v = short(8)
		case "one-octet":
			v = short(size - 1)
		case "complement-short-by-1":
			v = new(big.Int).Sub(n, short(1))
		case "complement-short-by-2":
			v = new(big.Int).Sub(n, short(2))
		case "complement-short-by-3":
			v = new(big.Int).Sub(n, short(3))
		case "complement-short-by-8":
			v = new(big.Int).Sub(n, short(8))
		default:
			v = new(big.Int).Sub(n, short(size-1))
		}
		v.Mod(v, n)
		if v.Sign() == 0 {
			v.SetInt64(1)
		}
		return v
	}
}

func TestC03_SignatureShapes(t *testing.T) {
	st := NewStats("C03", "TestC03_SignatureShapes", "rapid: valid claims-sets x ES256/ES384/ES512 over P-256/P-384/P-521 x an honest signer whose signature has a CHOSEN shape (s low / high / 1 / n-1 / around n/2 / shorter than the half by 1, 2, 3, 8 octets or a single octet / n minus such a short number; r as it comes or with a leading zero octet). The signer fixes its key pair when it signs (d solved from the chosen nonce and s), so the public key d*G is the matching key: crypto/ecdsa and the independent COSE verifier accept the signature, and so must Verify on the signing Evidence and on the decoded token, whose payload is the validated encoding. Non-trivial = every case; distinct = (alg, curve, shape, r-shape, op, class vector)")
	st.Require = []string{"ES256", "ES384", "ES512", "complement-short-by-2", "short-by-2", "high", "low", "r-leading-zero"}
	defer st.Flush(t)
	rapid.Check(t, func(t *rapid.T) {
		p := drawProf(t)
		m := GenValid(t, p, false)
		c, _ := m.BuildLiteral()
		alg := rapid.SampledFrom([]int64{icose.ES256, icose.ES256, icose.ES384, icose.ES384, icose.ES512}).Draw(t, "alg")
		curveAlg := alg
		if rapid.IntRange(0, 4).Draw(t, "othercurve") == 0 {
			curveAlg = rapid.SampledFrom([]int64{icose.ES256, icose.ES384, icose.ES512}).Draw(t, "curve")
		}
		curve := icose.CurveFor(curveAlg)
		size := (curve.Params().BitSize + 7) / 8
		shape := rapid.SampledFrom(sShapeNames).Draw(t, "shape")
		rnd := rapid.SliceOfN(rapid.Byte(), size, size).Draw(t, "bytes")
		k := new(big.Int).SetBytes(rapid.SliceOfN(rapid.Byte(), size, size).Draw(t, "k"))
		rshape := "r-as-it-comes"
		if rapid.IntRange(0, 3).Draw(t, "rzero") == 0 && curveAlg != icose.ES512 {
			// walk k until r = x(kG) has a leading zero octet (about 256 steps)
			rshape = "r-leading-zero"
			n := curve.Params().N
			for i := 0; i < 20000; i++ {
				k.Mod(k, n)
				x, _ := curve.ScalarBaseMult(k.Bytes())
				if r := new(big.Int).Mod(x, n); r.Sign() != 0 && r.BitLen() <= 8*(size-1) {
					break
				}
				k.Add(k, big.NewInt(1))
			}
		}
		sg := &shapedSigner{alg: alg, curve: curve, k: k, wantS: sShape(shape, size, rnd)}
		validating := genBool.Draw(t, "validating")
		want, err := psatoken.ValidateAndEncodeClaimsToCBOR(c)
		if err != nil {
			t.Fatalf("C03: valid set does not validate-and-encode: %v", err)
		}
		ev := &psatoken.Evidence{}
		if err := ev.SetClaims(c); err != nil {
			t.Fatalf("C03: SetClaims of a valid set failed: %v", err)
		}
		var tok []byte
		if validating {
			tok, err = ev.ValidateAndSign(sg)
		} else {
			tok, err = ev.Sign(sg)
		}
		name := fmt.Sprintf("%s over %s, s %s, %s", icose.AlgName(alg), curve.Params().Name, shape, rshape)
		if sg.calls != 1 || sg.pub == nil {
			if err != nil {
				t.Fatalf("C03 violated (%s): signing a valid set failed before the signer was asked: %v", name, err)
			}
			t.Fatalf("VERIF-INFRA: the signer was called %d times", sg.calls)
		}
		// the crafted signature is a genuine one for the derived key
		half := len(sg.sig) / 2
		tbs := icose.SigStructure(icose.ProtectedAlg(alg), nil, want)
		if !ecdsa.Verify(sg.pub, icose.Digest(alg, tbs), new(big.Int).SetBytes(sg.sig[:half]), new(big.Int).SetBytes(sg.sig[half:])) {
			// the library handed the signer other bytes than Sig_structure(protected{alg}, "", validated encoding)
			t.Fatalf("C03 violated (%s): what the signer was given to sign is not the Sig_structure over the protected algorithm header and the validated encoding of the claims (its signature does not verify over that structure)", name)
		}
		if err != nil {
			t.Fatalf("C03 violated (%s): signing a valid set failed although the signer returned a genuine signature %x: %v", name, sg.sig, err)
		}
		parts, ok := icose.Split(tok)
		if !ok {
			t.Fatalf("C03 violated (%s): token is not [bstr, map, bstr, bstr]: %x", name, tok)
		}
		if string(parts.Payload) != string(want) {
			t.Fatalf("C03 violated (%s): payload is not the validated encoding", name)
		}
		if !icose.Verify(alg, sg.pub, parts.Protected, parts.Payload, parts.Signature) {
			t.Fatalf("C03 violated (%s): the token does not verify with the matching key (independent verifier)\n  signer returned %x\n  token carries   %x", name, sg.sig, parts.Signature)
		}
		if err := ev.Verify(sg.pub); err != nil {
			t.Fatalf("C03 violated (%s): signing Evidence does not verify with the matching key: %v\n  signature %x", name, err, parts.Signature)
		}
		dec, err := psatoken.DecodeAndValidateEvidenceFromCOSE(tok)
		if err != nil {
			t.Fatalf("C03 violated (%s): decode-and-validate of the signed token failed: %v", name, err)
		}
		if err := dec.Verify(sg.pub); err != nil {
			t.Fatalf("C03 violated (%s): decoded Evidence does not verify with the matching key: %v\n  signature %x", name, err, parts.Signature)
		}
		if g0, g1 := ObserveGetters(c), ObserveGetters(dec.Claims); g0 != g1 {
			t.Fatalf("C03 violated (%s): decoded claims differ from the originals:\n  signed:  %s\n  decoded: %s", name, g0, g1)
		}
		op := "Sign"
		if validating {
			op = "ValidateAndSign"
		}
		st.Case(name+"|"+op+"|"+m.ClassVector(), icose.AlgName(alg), shape, rshape, op)
		if st.WantSample() {
			st.Sample(map[string]any{"alg": icose.AlgName(alg), "curve": curve.Params().Name, "s": shape, "r": rshape, "signature": fmt.Sprintf("%x", parts.Signature)})
		}
	})
}
