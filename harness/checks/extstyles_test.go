package checks

// A family of extension-profile STYLES, i.e. of the ways a downstream project
// can derive a profile from the two built-in ones:
//
//   ext-p2 / ext-p1   embed the base claims, one extra claim, own codec methods
//                     through the embedding-aware helpers (the documented way)
//   inherit-p1        embeds P1Claims, inherits every method (codec included),
//                     only sets CanonicalProfile; the factory leaves the
//                     optional profile claim unset
//   inherit-p2-oid    embeds P2Claims, inherits every method, named by an OID
//   shadow-p2         like ext-p2, but the extra claim's Go field has the SAME
//                     NAME as a field of the embedded claims (other key)
//   nested-p2         an extension of an extension (two levels of embedding,
//                     one extra claim per level)
//   lookalike-key-p2  own claims whose CBOR keys start with the digits of the
//                     profile keys (2650, -750001), declared around the
//                     embedded claims
//   wide-p2           eighteen own claims: tokens are maps of 7..28 entries (around the 23/24 head boundary)
//
// Each style knows how to realise a model value, what its CBOR must look like
// on the wire (read independently), and how to read its own claims back.

import (
	"pgregory.net/rapid"
	"encoding/json"
	"fmt"
	"sort"

	"github.com/veraison/eat"
	"github.com/veraison/psatoken"
	"github.com/veraison/psatoken/encoding"
	"verifharness/icbor"
)

const (
	ShadowP2Name = "http://example.com/verif/shadow-on-p2"
	NestedP2Name = "http://example.com/verif/ext-on-ext-on-p2"
)

// ---- shadow-p2 ----

type ShadowP2Claims struct {
	psatoken.P2Claims
	// the vendor's own boot seed counter: same Go name as P2Claims.BootSeed,
	// another claim (key -75101)
	BootSeed *int64 `cbor:"-75101,keyasint,omitempty" json:"vendor-boot-seed,omitempty"`
}

func (o ShadowP2Claims) MarshalCBOR() ([]byte, error) { return encoding.SerializeStructToCBOR(hem, &o) }
func (o *ShadowP2Claims) UnmarshalCBOR(data []byte) error {
	return encoding.PopulateStructFromCBOR(hdm, data, o)
}
func (o ShadowP2Claims) MarshalJSON() ([]byte, error) { return encoding.SerializeStructToJSON(&o) }
func (o *ShadowP2Claims) UnmarshalJSON(data []byte) error {
	return encoding.PopulateStructFromJSON(data, o)
}

type shadowP2Profile struct{}

func (shadowP2Profile) GetName() string { return ShadowP2Name }
func (shadowP2Profile) GetClaims() psatoken.IClaims {
	p := eat.Profile{}
	if err := p.Set(ShadowP2Name); err != nil {
		panic(err)
	}
	return &ShadowP2Claims{P2Claims: psatoken.P2Claims{
		Profile:          &p,
		SwComponents:     &psatoken.SwComponents[*psatoken.SwComponent]{},
		CanonicalProfile: ShadowP2Name,
	}}
}

// ---- nested-p2 ----

type NestedP2Claims struct {
	ExtP2Claims
	Serial *int64 `cbor:"-75102,keyasint,omitempty" json:"serial,omitempty"`
}

func (o NestedP2Claims) MarshalCBOR() ([]byte, error) { return encoding.SerializeStructToCBOR(hem, &o) }
func (o *NestedP2Claims) UnmarshalCBOR(data []byte) error {
	return encoding.PopulateStructFromCBOR(hdm, data, o)
}
func (o NestedP2Claims) MarshalJSON() ([]byte, error) { return encoding.SerializeStructToJSON(&o) }
func (o *NestedP2Claims) UnmarshalJSON(data []byte) error {
	return encoding.PopulateStructFromJSON(data, o)
}

type nestedP2Profile struct{}

func (nestedP2Profile) GetName() string { return NestedP2Name }
func (nestedP2Profile) GetClaims() psatoken.IClaims {
	return &NestedP2Claims{ExtP2Claims: *(newExtP2ClaimsNamed(NestedP2Name).(*ExtP2Claims))}
}

// ---- lookalike-key-p2: own claims whose CBOR keys merely START with the
// digits of the profile keys (2650 / -750001), declared around the embedded
// claims ----

const RegionP2Name = "http://example.com/verif/region-on-p2"

type RegionP2Claims struct {
	Region *int64 `cbor:"2650,keyasint,omitempty" json:"region,omitempty"`
	psatoken.P2Claims
	Flags *int64 `cbor:"-750001,keyasint,omitempty" json:"flags,omitempty"`
}

func (o RegionP2Claims) MarshalCBOR() ([]byte, error) { return encoding.SerializeStructToCBOR(hem, &o) }
func (o *RegionP2Claims) UnmarshalCBOR(data []byte) error {
	return encoding.PopulateStructFromCBOR(hdm, data, o)
}
func (o RegionP2Claims) MarshalJSON() ([]byte, error) { return encoding.SerializeStructToJSON(&o) }
func (o *RegionP2Claims) UnmarshalJSON(data []byte) error {
	return encoding.PopulateStructFromJSON(data, o)
}

type regionP2Profile struct{}

func (regionP2Profile) GetName() string { return RegionP2Name }
func (regionP2Profile) GetClaims() psatoken.IClaims {
	p := eat.Profile{}
	if err := p.Set(RegionP2Name); err != nil {
		panic(err)
	}
	return &RegionP2Claims{P2Claims: psatoken.P2Claims{
		Profile:          &p,
		SwComponents:     &psatoken.SwComponents[*psatoken.SwComponent]{},
		CanonicalProfile: RegionP2Name,
	}}
}

// ---- wide-p2: eighteen own claims, so that tokens are maps of 7 to 28
// entries (CBOR map heads of the 0xb0.. range and, from 24 entries on, with a
// separate length byte) ----

const WideP2Name = "http://example.com/verif/wide-on-p2"

type WideP2Claims struct {
	psatoken.P2Claims
	W0  *int64 `cbor:"-75910,keyasint,omitempty" json:"w0,omitempty"`
	W1  *int64 `cbor:"-75911,keyasint,omitempty" json:"w1,omitempty"`
	W2  *int64 `cbor:"-75912,keyasint,omitempty" json:"w2,omitempty"`
	W3  *int64 `cbor:"-75913,keyasint,omitempty" json:"w3,omitempty"`
	W4  *int64 `cbor:"-75914,keyasint,omitempty" json:"w4,omitempty"`
	W5  *int64 `cbor:"-75915,keyasint,omitempty" json:"w5,omitempty"`
	W6  *int64 `cbor:"-75916,keyasint,omitempty" json:"w6,omitempty"`
	W7  *int64 `cbor:"-75917,keyasint,omitempty" json:"w7,omitempty"`
	W8  *int64 `cbor:"-75918,keyasint,omitempty" json:"w8,omitempty"`
	W9  *int64 `cbor:"-75919,keyasint,omitempty" json:"w9,omitempty"`
	W10 *int64 `cbor:"-75920,keyasint,omitempty" json:"w10,omitempty"`
	W11 *int64 `cbor:"-75921,keyasint,omitempty" json:"w11,omitempty"`
	W12 *int64 `cbor:"-75922,keyasint,omitempty" json:"w12,omitempty"`
	W13 *int64 `cbor:"-75923,keyasint,omitempty" json:"w13,omitempty"`
	W14 *int64 `cbor:"-75924,keyasint,omitempty" json:"w14,omitempty"`
	W15 *int64 `cbor:"-75925,keyasint,omitempty" json:"w15,omitempty"`
	W16 *int64 `cbor:"-75926,keyasint,omitempty" json:"w16,omitempty"`
	W17 *int64 `cbor:"-75927,keyasint,omitempty" json:"w17,omitempty"`
}

func (o WideP2Claims) MarshalCBOR() ([]byte, error) { return encoding.SerializeStructToCBOR(hem, &o) }
func (o *WideP2Claims) UnmarshalCBOR(data []byte) error {
	return encoding.PopulateStructFromCBOR(hdm, data, o)
}
func (o WideP2Claims) MarshalJSON() ([]byte, error) { return encoding.SerializeStructToJSON(&o) }
func (o *WideP2Claims) UnmarshalJSON(data []byte) error {
	return encoding.PopulateStructFromJSON(data, o)
}

type wideP2Profile struct{}

func (wideP2Profile) GetName() string { return WideP2Name }
func (wideP2Profile) GetClaims() psatoken.IClaims {
	p := eat.Profile{}
	if err := p.Set(WideP2Name); err != nil {
		panic(err)
	}
	return &WideP2Claims{P2Claims: psatoken.P2Claims{
		Profile:          &p,
		SwComponents:     &psatoken.SwComponents[*psatoken.SwComponent]{},
		CanonicalProfile: WideP2Name,
	}}
}

// ---- the table ----

type extStyle struct {
	Label string
	Base  Prof
	Name  string
	Impl  psatoken.IProfile
	// the style's own claims: CBOR keys / JSON member names, outermost last
	OwnKeys  []int64
	OwnJSON  []string
	CBORDisp bool // the dispatching CBOR decoder can select it (key 265 is emitted)
	JSONDisp bool // ... JSON decoder ... (a profile member is emitted)
}

// MixedCaseP2Name: a profile URI whose host (and path) are not all lower case
const MixedCaseP2Name = "http://Attester.Example.COM/psa/Demo2"

var extStyles = []extStyle{
	{"ext-p2", P2, ExtP2Name, extP2Profile{}, []int64{-75100}, []string{"timestamp"}, true, true},
	{"ext-p2-mixedcase-uri", P2, MixedCaseP2Name, dynProfile{MixedCaseP2Name, "ext-p2"}, []int64{-75100}, []string{"timestamp"}, true, true},
	{"ext-p1", P1, ExtP1Name, extP1Profile{}, []int64{-75100}, []string{"timestamp"}, false, true},
	{"inherit-p1", P1, InhP1Name, inheritProfile{P1}, nil, nil, false, false},
	{"inherit-p2-oid", P2, InhP2OID, inheritProfile{P2}, nil, nil, true, true},
	{"shadow-p2", P2, ShadowP2Name, shadowP2Profile{}, []int64{-75101}, []string{"vendor-boot-seed"}, true, true},
	{"nested-p2", P2, NestedP2Name, nestedP2Profile{}, []int64{-75100, -75102}, []string{"timestamp", "serial"}, true, true},
	{"lookalike-key-p2", P2, RegionP2Name, regionP2Profile{}, []int64{2650, -750001}, []string{"region", "flags"}, true, true},
	{"wide-p2", P2, WideP2Name, wideP2Profile{}, []int64{-75910, -75911, -75912, -75913, -75914, -75915, -75916, -75917, -75918, -75919, -75920, -75921, -75922, -75923, -75924, -75925, -75926, -75927}, []string{"w0", "w1", "w2", "w3", "w4", "w5", "w6", "w7", "w8", "w9", "w10", "w11", "w12", "w13", "w14", "w15", "w16", "w17"}, true, true},
}

func extStyleByLabel(l string) extStyle {
	for _, s := range extStyles {
		if s.Label == l {
			return s
		}
	}
	panic("VERIF-INFRA: no such extension style " + l)
}

// withExtStyles registers every style's profile (checkpoint hook) for the
// duration of fn. The caller must not hold registerMu.
func withExtStyles(fn func()) {
	registerMu.Lock()
	defer registerMu.Unlock()
	restore := psatoken.VerifCheckpointProfiles()
	defer restore()
	registerExtStyles()
	fn()
}

func registerExtStyles() {
	for _, s := range extStyles {
		if err := psatoken.RegisterProfile(s.Impl); err != nil {
			panic("VERIF-INFRA: cannot register " + s.Label + ": " + err.Error())
		}
	}
}

// extBase: pointer to the built-in claims struct embedded in c.
func extBase(c psatoken.IClaims) any {
	switch e := c.(type) {
	case *ExtP2Claims:
		return &e.P2Claims
	case *ExtP1Claims:
		return &e.P1Claims
	case *InheritP1Claims:
		return &e.P1Claims
	case *InheritP2Claims:
		return &e.P2Claims
	case *ShadowP2Claims:
		return &e.P2Claims
	case *NestedP2Claims:
		return &e.P2Claims
	case *RegionP2Claims:
		return &e.P2Claims
	case *WideP2Claims:
		return &e.P2Claims
	case *psatoken.P1Claims, *psatoken.P2Claims:
		return e
	}
	return nil
}

// extOwnPtrs: the style's own claim fields, in the order of OwnKeys.
func extOwnPtrs(c psatoken.IClaims) []**int64 {
	switch e := c.(type) {
	case *ExtP2Claims:
		return []**int64{&e.Timestamp}
	case *ExtP1Claims:
		return []**int64{&e.Timestamp}
	case *ShadowP2Claims:
		return []**int64{&e.BootSeed}
	case *NestedP2Claims:
		return []**int64{&e.Timestamp, &e.Serial}
	case *RegionP2Claims:
		return []**int64{&e.Region, &e.Flags}
	case *WideP2Claims:
		return []**int64{&e.W0, &e.W1, &e.W2, &e.W3, &e.W4, &e.W5, &e.W6, &e.W7, &e.W8, &e.W9, &e.W10, &e.W11, &e.W12, &e.W13, &e.W14, &e.W15, &e.W16, &e.W17}
	}
	return nil
}

// extOwn: readable form of the style's own claims ("" if it has none).
func extOwn(c psatoken.IClaims) string {
	r := ""
	for i, p := range extOwnPtrs(c) {
		r += fmt.Sprintf("own%d=%s;", i, fmtI64(*p))
	}
	return r
}

// build realises a VALID model value m (profile s.Base; for profile 1 with
// the explicit profile claim, which is then replaced by what the style's
// factory provides) on a fresh instance of the style; own[i] is the value of
// the i-th own claim (nil: absent; missing entries: absent).
func (s extStyle) build(m *MClaims, own ...*int64) (psatoken.IClaims, error) {
	c := s.Impl.GetClaims()
	b, err := m.BuildSetters()
	if err != nil {
		return nil, err
	}
	switch dst := extBase(c).(type) {
	case *psatoken.P2Claims:
		prof, canon := dst.Profile, dst.CanonicalProfile
		*dst = *(b.(*psatoken.P2Claims))
		dst.Profile, dst.CanonicalProfile = prof, canon
	case *psatoken.P1Claims:
		prof, canon := dst.Profile, dst.CanonicalProfile
		*dst = *(b.(*psatoken.P1Claims))
		dst.Profile, dst.CanonicalProfile = prof, canon
	default:
		return nil, fmt.Errorf("style %s: no base", s.Label)
	}
	for i, p := range extOwnPtrs(c) {
		if i < len(own) && own[i] != nil {
			v := *own[i]
			*p = &v
		}
	}
	return c, nil
}

// emitsProfile: does a token of this style carry a profile claim?
func (s extStyle) emitsProfile() bool { return s.Label != "inherit-p1" }

// wire: the key -> value map the style's CBOR must consist of.
func (s extStyle) wire(m *MClaims, own ...*int64) map[int64]*icbor.Node {
	r := map[int64]*icbor.Node{}
	for _, p := range m.WirePairs() {
		k, _ := p[0].Int()
		r[k] = p[1]
	}
	delete(r, 265)
	delete(r, -75000)
	switch {
	case !s.emitsProfile():
	case s.Base == P1:
		r[-75000] = icbor.Tstr(s.Name)
	case s.Name == InhP2OID:
		r[265] = icbor.Bstr(oidContent(s.Name))
	default:
		r[265] = icbor.Tstr(s.Name)
	}
	for i, k := range s.OwnKeys {
		if i < len(own) && own[i] != nil {
			r[k] = icbor.I(*own[i])
		}
	}
	return r
}

// checkWire compares the style's CBOR with the expected map.
func (s extStyle) checkWire(out []byte, m *MClaims, own ...*int64) string {
	n, fl, err := icbor.Read(out)
	if err != nil || n.Kind != icbor.KMap || fl.HasIndef || fl.HasDupKeys {
		return fmt.Sprintf("CBOR is not one definite map without duplicates (%v): %x", err, out)
	}
	want := s.wire(m, own...)
	got := map[int64]bool{}
	for _, pr := range n.Pairs {
		k, ok := pr[0].Int()
		if !ok {
			return "non-integer key " + icbor.Diag(pr[0])
		}
		got[k] = true
		if w, ok := want[k]; !ok {
			return fmt.Sprintf("unexpected key %d = %s", k, truncate(icbor.Diag(pr[1]), 80))
		} else if !icbor.Equal(w, pr[1]) {
			return fmt.Sprintf("key %d carries %s, expected %s", k, truncate(icbor.Diag(pr[1]), 80), truncate(icbor.Diag(w), 80))
		}
	}
	var missing []int64
	for k := range want {
		if !got[k] {
			missing = append(missing, k)
		}
	}
	if len(missing) > 0 {
		sort.Slice(missing, func(i, j int) bool { return missing[i] < missing[j] })
		return fmt.Sprintf("claims missing from the CBOR: keys %v", missing)
	}
	return ""
}

// decodeCBOR: through the dispatcher where the style can be dispatched, into
// a fresh instance otherwise.
func (s extStyle) decodeCBOR(b []byte) (psatoken.IClaims, error) {
	if s.CBORDisp {
		return psatoken.DecodeClaimsFromCBOR(b)
	}
	d := s.Impl.GetClaims()
	return d, hdm.Unmarshal(b, d)
}

func (s extStyle) decodeJSON(b []byte) (psatoken.IClaims, error) {
	if s.JSONDisp {
		return psatoken.DecodeClaimsFromJSON(b)
	}
	d := s.Impl.GetClaims()
	return d, json.Unmarshal(b, d)
}

// roundTrips: the full battery for one value of one style. what = "cbor",
// "json" or "both".
func (s extStyle) roundTrips(c psatoken.IClaims, m *MClaims, what string, own ...*int64) string {
	typ := fmt.Sprintf("%T", c)
	if err := c.Validate(); err != nil {
		return fmt.Sprintf("[%s] claims built from a valid base set do not validate: %v", s.Label, err)
	}
	if p, err := c.GetProfile(); err != nil || p != s.Name {
		return fmt.Sprintf("[%s] GetProfile() = %q, %v; want %q", s.Label, p, err, s.Name)
	}
	o0, own0 := Observe(c), extOwn(c)
	if what != "json" {
		out, err := psatoken.EncodeClaimsToCBOR(c)
		if err != nil {
			return fmt.Sprintf("[%s] valid claims do not encode to CBOR: %v", s.Label, err)
		}
		if msg := s.checkWire(out, m, own...); msg != "" {
			return fmt.Sprintf("[%s] CBOR encoding: %s", s.Label, msg)
		}
		d, err := s.decodeCBOR(out)
		if err != nil {
			return fmt.Sprintf("[%s] own CBOR does not decode: %v (%x)", s.Label, err, out)
		}
		if got := fmt.Sprintf("%T", d); got != typ {
			return fmt.Sprintf("[%s] CBOR decodes as %s, not %s", s.Label, got, typ)
		}
		if diff := o0.Diff(Observe(d)); diff != "" {
			return fmt.Sprintf("[%s] CBOR round trip changes the claims: %s", s.Label, diff)
		}
		if own1 := extOwn(d); own1 != own0 {
			return fmt.Sprintf("[%s] CBOR round trip changes the extension's own claims: %s -> %s", s.Label, own0, own1)
		}
		if err := d.Validate(); err != nil {
			return fmt.Sprintf("[%s] decoded claims no longer validate: %v", s.Label, err)
		}
		out2, err := psatoken.EncodeClaimsToCBOR(d)
		if err != nil || string(out2) != string(out) {
			return fmt.Sprintf("[%s] CBOR re-encoding is not byte-identical (%v): %x then %x", s.Label, err, out, out2)
		}
		// into a fresh instance as well, whatever the dispatcher does
		f := s.Impl.GetClaims()
		if err := hdm.Unmarshal(out, f); err != nil {
			return fmt.Sprintf("[%s] own CBOR does not decode into a fresh instance: %v", s.Label, err)
		}
		if diff := o0.Diff(Observe(f)); diff != "" || extOwn(f) != own0 {
			return fmt.Sprintf("[%s] CBOR round trip into a fresh instance changes the claims: %s (%s -> %s)", s.Label, diff, own0, extOwn(f))
		}
	}
	if what != "cbor" {
		js, err := psatoken.EncodeClaimsToJSON(c)
		if err != nil {
			return fmt.Sprintf("[%s] valid claims do not encode to JSON: %v", s.Label, err)
		}
		var obj map[string]json.RawMessage
		if err := json.Unmarshal(js, &obj); err != nil {
			return fmt.Sprintf("[%s] JSON is not an object: %v", s.Label, err)
		}
		for i, name := range s.OwnJSON {
			_, has := obj[name]
			want := i < len(own) && own[i] != nil
			if has != want {
				return fmt.Sprintf("[%s] JSON member %q present=%v, expected %v: %s", s.Label, name, has, want, truncate(string(js), 300))
			}
		}
		d, err := s.decodeJSON(js)
		if err != nil {
			return fmt.Sprintf("[%s] own JSON does not decode: %v (%s)", s.Label, err, truncate(string(js), 300))
		}
		if got := fmt.Sprintf("%T", d); got != typ {
			return fmt.Sprintf("[%s] JSON decodes as %s, not %s", s.Label, got, typ)
		}
		if diff := o0.Diff(Observe(d)); diff != "" {
			return fmt.Sprintf("[%s] JSON round trip changes the claims: %s", s.Label, diff)
		}
		if own1 := extOwn(d); own1 != own0 {
			return fmt.Sprintf("[%s] JSON round trip changes the extension's own claims: %s -> %s", s.Label, own0, own1)
		}
		js2, err := psatoken.EncodeClaimsToJSON(d)
		if err != nil || string(js2) != string(js) {
			return fmt.Sprintf("[%s] JSON re-encoding differs (%v): %s then %s", s.Label, err, truncate(string(js), 200), truncate(string(js2), 200))
		}
	}
	return ""
}


// drawOwnPresent: which of a style's n own claims are present. For styles with
// many of them the NUMBER present matters (the emitted map crosses the 23 / 24
// entries boundary of the CBOR head): half of the time only a few are left out.
func drawOwnPresent(t *rapid.T, n int, label string) []bool {
	r := make([]bool, n)
	if n >= 10 && genBool.Draw(t, label+".mostly-present") {
		for i := range r {
			r[i] = true
		}
		for k := rapid.IntRange(0, 6).Draw(t, label+".left-out"); k > 0; k-- {
			r[rapid.IntRange(0, n-1).Draw(t, label+".which")] = false
		}
		return r
	}
	for i := range r {
		r[i] = genBool.Draw(t, fmt.Sprintf("%s%d", label, i))
	}
	return r
}
