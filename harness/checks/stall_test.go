package checks

import (
	"fmt"
	"os"
	"regexp"
	"runtime"
	"strings"
	"sync"
	"sync/atomic"
	"time"
)

// stallGuard: the oracle for "the call returns". The properties speak of
// operations that succeed or fail; one that never comes back does neither. A
// sequence check reports its progress with Beat(); when there was none for
// stallLimit the goroutines are inspected - not the clock: if the goroutine
// of the check is parked on a lock / channel INSIDE the library (twice, five
// seconds apart, same goroutine) and no goroutine is running library code,
// nothing can ever wake it. That is reported as a violation of the
// property, with the history of operations that led there; rapid cannot
// shrink a case that does not return, so the guard prints the report, leaves
// the dump in stall.<pid> (which the driver takes as the replay) and exits.
// A slow but busy run is never a verdict (the driver's time limit turns it
// into an infrastructure error).
const stallLimit = 40 * time.Second

type stallGuard struct {
	prop, test string
	last       atomic.Int64
	mu         sync.Mutex
	hist       []string
	stop       chan struct{}
}

var stallHead = regexp.MustCompile(`^goroutine (\d+) \[([^\]]*)\]`)

func watchStalls(prop, test string) *stallGuard {
	g := &stallGuard{prop: prop, test: test, stop: make(chan struct{})}
	g.last.Store(time.Now().UnixNano())
	go g.run()
	return g
}

// Begin starts the history of a new case.
func (g *stallGuard) Begin(desc string) {
	g.mu.Lock()
	g.hist = append(g.hist[:0], desc)
	g.mu.Unlock()
	g.last.Store(time.Now().UnixNano())
}

// Beat records the operation that is about to be called.
func (g *stallGuard) Beat(format string, a ...any) {
	s := fmt.Sprintf(format, a...)
	g.mu.Lock()
	if len(g.hist) < 200 {
		g.hist = append(g.hist, s)
	}
	g.mu.Unlock()
	g.last.Store(time.Now().UnixNano())
}

func (g *stallGuard) Stop() { close(g.stop) }

// parkedInLibrary: ids of goroutines of this test that wait on a
// synchronisation primitive with library frames on their stack; busy = some
// goroutine is running or runnable inside the library.
func (g *stallGuard) parkedInLibrary() (ids map[string]string, busy bool, dump string) {
	buf := make([]byte, 8<<20)
	buf = buf[:runtime.Stack(buf, true)]
	ids = map[string]string{}
	for _, gr := range strings.Split(string(buf), "\n\n") {
		if !strings.Contains(gr, "github.com/veraison/psatoken") || !strings.Contains(gr, g.test) {
			continue
		}
		m := stallHead.FindStringSubmatch(gr)
		if m == nil {
			continue
		}
		st := m[2]
		switch {
		case strings.Contains(st, "chan send"), strings.Contains(st, "chan receive"), strings.Contains(st, "select"), strings.Contains(st, "semacquire"), strings.Contains(st, "sync.Mutex"), strings.Contains(st, "sync.RWMutex"), strings.Contains(st, "sync.Cond"), strings.Contains(st, "sync.WaitGroup"):
			// the innermost frame outside runtime / sync must be the library's
			// (a harness helper waiting for its own goroutine is not a verdict)
			for _, ln := range strings.Split(gr, "\n")[1:] {
				if strings.HasPrefix(ln, "\t") || strings.HasPrefix(ln, "runtime.") || strings.HasPrefix(ln, "sync.") || strings.HasPrefix(ln, "internal/") || strings.HasPrefix(ln, "sync/") {
					continue
				}
				if strings.HasPrefix(ln, "github.com/veraison/psatoken") {
					ids[m[1]] = st
				}
				break
			}
		case strings.Contains(st, "sleep"), strings.Contains(st, "IO wait"):
		default:
			busy = true
		}
	}
	return ids, busy, string(buf)
}

func (g *stallGuard) run() {
	tick := time.NewTicker(2 * time.Second)
	defer tick.Stop()
	for {
		select {
		case <-g.stop:
			return
		case <-tick.C:
		}
		if time.Since(time.Unix(0, g.last.Load())) < stallLimit {
			continue
		}
		seen0 := g.last.Load()
		a, busyA, _ := g.parkedInLibrary()
		time.Sleep(5 * time.Second)
		b, busyB, dump := g.parkedInLibrary()
		if g.last.Load() != seen0 {
			continue
		}
		same := ""
		for id, st := range b {
			if _, ok := a[id]; ok {
				same = fmt.Sprintf("goroutine %s [%s]", id, st)
			}
		}
		if same == "" || busyA || busyB {
			// slow, not stuck (or stuck outside the library): not a verdict
			g.last.Store(time.Now().UnixNano())
			fmt.Printf("VERIF-NOTE: %s made no progress for %v but is not parked inside the library (busy=%v): waiting on\n", g.test, stallLimit, busyA || busyB)
			continue
		}
		g.mu.Lock()
		hist := append([]string{}, g.hist...)
		g.mu.Unlock()
		file := fmt.Sprintf("stall.%d", os.Getpid())
		_ = os.WriteFile(file, []byte(fmt.Sprintf("%s: a library call did not return; %s is parked inside the library and nothing is running there.\nhistory of this case (last entry = the call that does not return):\n  %s\n\n%s", g.prop, same, strings.Join(hist, "\n  "), dump)), 0o644)
		fmt.Printf("%s violated: a library call never returns - %s has been parked on a lock / channel inside the library for more than %v and no goroutine is running library code (history in %s):\n  %s\n", g.prop, same, stallLimit, file, strings.Join(hist, "\n  "))
		os.Exit(3)
	}
}
