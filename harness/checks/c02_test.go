package checks

import (
	"bytes"
	"crypto"
	"crypto/ecdsa"
	"crypto/ed25519"
	"crypto/elliptic"
	"crypto/rsa"
	"crypto/sha1"
	"crypto/sha256"
	"crypto/sha512"
	"encoding/asn1"
	"fmt"
	cose "github.com/veraison/go-cose"
	"math/big"
	"sort"
	"testing"

	"github.com/veraison/psatoken"
	"pgregory.net/rapid"

	"verifharness/icbor"
	"verifharness/icose"
)

// C02 — a modified token or a different key never verifies.

type signedTok struct {
	Tok   []byte
	Parts icose.Parts
	Key   keyPair
}

func signModel(m *MClaims, kp keyPair) (signedTok, error) {
	c, ok := m.BuildLiteral()
	if !ok {
		return signedTok{}, fmt.Errorf("unrepresentable")
	}
	ev := &psatoken.Evidence{}
	if err := ev.SetClaims(c); err != nil {
		return signedTok{}, err
	}
	tok, err := ev.ValidateAndSign(kp.Signer())
	if err != nil {
		return signedTok{}, err
	}
	parts, ok := icose.Split(tok)
	if !ok {
		return signedTok{}, fmt.Errorf("token does not split")
	}
	return signedTok{tok, parts, kp}, nil
}

// c02Judge: must the mutated token fail? It must unless its protected,
// payload and signature CONTENT bytes all equal the original's (the signature
// does not cover the unprotected header or length encodings).
// Returns "" if the property holds, and the outcome class.
func c02Judge(orig signedTok, mutated []byte) (msg string, class string) {
	parts, ok := icose.Split(mutated)
	same := ok && bytes.Equal(parts.Protected, orig.Parts.Protected) &&
		bytes.Equal(parts.Payload, orig.Parts.Payload) && bytes.Equal(parts.Signature, orig.Parts.Signature)
	ev, err := psatoken.DecodeEvidenceFromCOSE(mutated)
	if err != nil {
		return "", "decode-failed"
	}
	verr := ev.Verify(orig.Key.Pub)
	if same {
		return "", "covered-bytes-unchanged"
	}
	if verr == nil {
		what := "structure changed"
		if ok {
			switch {
			case !bytes.Equal(parts.Payload, orig.Parts.Payload):
				what = "payload differs"
			case !bytes.Equal(parts.Protected, orig.Parts.Protected):
				what = "protected header differs"
			default:
				what = "signature differs"
			}
		}
		return fmt.Sprintf("altered token (%s) decodes and VERIFIES with the signer's key\n  original: %x\n  altered:  %x", what, orig.Tok, mutated), "verified"
	}
	// nothing a relying party may do with the decoded Evidence in between
	// (re-attach the claims it exposes, read it, encode its claims, try other
	// keys) turns the altered token into one that verifies
	if ev.Claims != nil {
		_ = ev.SetClaims(ev.Claims)
	}
	_, _ = ev.MarshalJSON()
	_ = ev.GetInstanceID()
	if ev.Claims != nil {
		_, _ = psatoken.EncodeClaimsToCBOR(ev.Claims)
		_ = ev.Claims.Validate()
	}
	_ = ev.Verify(keyFor(icose.EdDSA, 6).Pub)
	if ev.Verify(orig.Key.Pub) == nil {
		return fmt.Sprintf("altered token does not verify at first, but VERIFIES after the decoded Evidence was used (SetClaims of its own claims, MarshalJSON, GetInstanceID, encode, Verify with another key)\n  original: %x\n  altered:  %x", orig.Tok, mutated), "verified"
	}
	// the relying party decodes from its RECEIVE BUFFER and reads the next
	// message (here: the genuine token) into that buffer before verifying: the
	// Evidence still stands for the altered token it decoded
	if len(mutated) == len(orig.Tok) {
		buf := append([]byte{}, mutated...)
		if ev2, err := psatoken.DecodeEvidenceFromCOSE(buf); err == nil {
			copy(buf, orig.Tok)
			if ev2.Verify(orig.Key.Pub) == nil {
				return fmt.Sprintf("the Evidence decoded from the altered token VERIFIES once the caller's receive buffer, from which it was decoded, holds the genuine token\n  original: %x\n  altered:  %x", orig.Tok, mutated), "verified"
			}
		}
	}
	// the relying party keeps the Evidence BY VALUE (a list of decoded tokens)
	// and goes on using the object it copied from for the genuine token: the
	// kept value still stands for the altered one
	kept := *ev
	if err := ev.UnmarshalCOSE(orig.Tok); err == nil {
		if kept.Verify(orig.Key.Pub) == nil {
			return fmt.Sprintf("the Evidence value kept (copied) from the decoded altered token VERIFIES after the object it was copied from decoded the genuine token\n  original: %x\n  altered:  %x", orig.Tok, mutated), "verified"
		}
		if ev.Verify(orig.Key.Pub) != nil {
			return fmt.Sprintf("the genuine token does not verify on an Evidence that decoded an altered one before\n  original: %x\n  altered:  %x", orig.Tok, mutated), "verified"
		}
	}
	return "", "decoded-verify-failed"
}

type c02FlipIn struct {
	Alg  int64   `json:"alg"`
	Key  int     `json:"key"`
	M    MClaims `json:"claims"`
	Tok  hx      `json:"token"`
	Bit  int     `json:"bit"`
	Trim int     `json:"truncate_to"` // -1 = no truncation
}

var c02FlipKind = registerKind("c02flip", func(in c02FlipIn) string {
	kp := keyFor(in.Alg, in.Key)
	parts, ok := icose.Split(in.Tok)
	if !ok {
		return "VERIF-INFRA: replay token does not split"
	}
	orig := signedTok{in.Tok, parts, kp}
	mut := append([]byte{}, in.Tok...)
	if in.Trim >= 0 {
		mut = mut[:in.Trim]
	} else {
		mut[in.Bit/8] ^= 1 << (in.Bit % 8)
	}
	msg, _ := c02Judge(orig, mut)
	return msg
})

func c02Tokens() []struct {
	m  *MClaims
	kp keyPair
} {
	var r []struct {
		m  *MClaims
		kp keyPair
	}
	for i, alg := range icose.AllAlgs {
		p := P1
		if i%2 == 1 {
			p = P2
		}
		r = append(r, struct {
			m  *MClaims
			kp keyPair
		}{baseValid(p, i%3), keyFor(alg, i)})
	}
	return r
}

func TestC02_BitFlips(t *testing.T) {
	st := NewStats("C02", "TestC02_BitFlips", "enumeration: for one signed token per algorithm (7 algorithms, both profiles): every single-bit flip of the whole token (quick: every bit for EdDSA/ES256/PS*, every 8th+offset for ES384/ES512; thorough: every bit, 3 tokens per algorithm) and truncation at every offset; the altered token must fail to decode or fail Verify unless protected/payload/signature content bytes are all unchanged (independent splitter). Positive control: the unaltered token verifies. For altered tokens of unchanged length also: decoded from a receive buffer that then takes the genuine token before Verify. Non-trivial = the altered token still decodes (verdict comes from signature verification); distinct = (alg, bit | cut)")
	st.Exhaustive = true
	st.Require = []string{"decode-failed", "decoded-verify-failed", "positive-control"}
	defer st.Flush(t)
	sk, sn := shardInfo()
	nTok := 1
	if thorough() {
		nTok = 3
	}
	idx := 0
	for rep := 0; rep < nTok; rep++ {
		for _, tk := range c02Tokens() {
			idx++
			if idx%sn != sk {
				continue
			}
			m := tk.m
			if rep > 0 {
				m = baseValid(m.Prof, (rep+1)%3)
			}
			kp := keyFor(tk.kp.Alg, tk.kp.Idx+rep)
			orig, err := signModel(m, kp)
			if err != nil {
				t.Fatalf("C02: cannot sign a valid set with %s: %v", kp.Name(), err)
			}
			ev, err := psatoken.DecodeEvidenceFromCOSE(orig.Tok)
			if err != nil || ev.Verify(kp.Pub) != nil {
				t.Fatalf("C02 positive control failed: unaltered %s token does not decode+verify (%v)", kp.Name(), err)
			}
			st.Case("", "positive-control")
			step := 1
			if !thorough() && (kp.Alg == icose.ES384 || kp.Alg == icose.ES512) {
				step = 8
				st.Exhaustive = false
			}
			for bit := 0; bit < len(orig.Tok)*8; bit += step {
				b := bit
				if step > 1 {
					b = bit + (bit/8)%8 // vary the bit position within the byte
					if b >= len(orig.Tok)*8 {
						break
					}
				}
				mut := append([]byte{}, orig.Tok...)
				mut[b/8] ^= 1 << (b % 8)
				msg, class := c02Judge(orig, mut)
				key := ""
				if class != "decode-failed" {
					key = fmt.Sprintf("%s/bit%d", kp.Name(), b)
				}
				st.Case(key, class, icose.AlgName(kp.Alg))
				if key != "" && st.WantSample() {
					st.Sample(map[string]any{"alg": kp.Name(), "flipped_bit": b, "token_len": len(orig.Tok), "outcome": class})
				}
				if msg != "" {
					reportCase(t, "C02", "c02flip", c02FlipIn{kp.Alg, kp.Idx, *m, orig.Tok, b, -1}, msg)
				}
			}
			for cut := 0; cut < len(orig.Tok); cut++ {
				msg, class := c02Judge(orig, orig.Tok[:cut])
				st.Case("", "trunc-"+class)
				if msg != "" {
					reportCase(t, "C02", "c02flip", c02FlipIn{kp.Alg, kp.Idx, *m, orig.Tok, 0, cut}, msg)
				}
			}
		}
	}
}

func otherKeys(kp keyPair) []crypto.PublicKey {
	var r []crypto.PublicKey
	r = append(r, keyFor(kp.Alg, kp.Idx+1).Pub)
	for _, a := range icose.AllAlgs {
		if a != kp.Alg {
			// the three embedded RSA keys are shared by PS256/384/512:
			// pick an index that is a different key
			r = append(r, keyFor(a, kp.Idx+2).Pub)
		}
	}
	r = append(r, nil, "not a key", 42)
	// well-formed RSA public keys nobody generated: another key's modulus (and
	// the signer's own, if it has one) with a small / unusual public exponent
	foreign := keyFor(icose.PS256, kp.Idx+1).Pub.(*rsa.PublicKey)
	mods := []*big.Int{foreign.N}
	if own, ok := kp.Pub.(*rsa.PublicKey); ok {
		mods = append(mods, own.N)
	}
	for _, n := range mods {
		for _, e := range []int{3, 17, 257, 65539} {
			r = append(r, &rsa.PublicKey{N: new(big.Int).Set(n), E: e})
		}
	}
	// EC keys with the signer's X and another Y (the negated point), another
	// curve's generator, Ed25519 keys differing in one bit
	switch pub := kp.Pub.(type) {
	case *ecdsa.PublicKey:
		negY := new(big.Int).Sub(pub.Curve.Params().P, pub.Y)
		r = append(r, &ecdsa.PublicKey{Curve: pub.Curve, X: new(big.Int).Set(pub.X), Y: negY},
			&ecdsa.PublicKey{Curve: pub.Curve, X: new(big.Int).Set(pub.Curve.Params().Gx), Y: new(big.Int).Set(pub.Curve.Params().Gy)})
	case ed25519.PublicKey:
		k := append(ed25519.PublicKey{}, pub...)
		k[5] ^= 0x10
		r = append(r, k)
	}
	return r
}

func malformedKeys() []crypto.PublicKey {
	return []crypto.PublicKey{
		ed25519.PublicKey{}, ed25519.PublicKey(make([]byte, 31)), ed25519.PublicKey(make([]byte, 33)), ed25519.PublicKey(nil),
		(*ecdsa.PublicKey)(nil), &ecdsa.PublicKey{}, &ecdsa.PublicKey{Curve: elliptic.P256()},
		(*rsa.PublicKey)(nil), &rsa.PublicKey{}, &rsa.PublicKey{N: big.NewInt(1), E: 3},
		ecdsa.PublicKey{}, rsa.PublicKey{}, []byte{1, 2, 3}, new(int),
		// containers of keys are not keys: an empty key set, sets of keys that
		// cannot be used with the algorithm, a pointer to a key, a JWK-like map
		[]crypto.PublicKey{}, []crypto.PublicKey(nil), []crypto.PublicKey{nil}, []crypto.PublicKey{ed25519.PublicKey(make([]byte, 32))}, []crypto.PublicKey{&rsa.PublicKey{N: big.NewInt(1), E: 3}},
		[]crypto.PublicKey{ed25519.PublicKey(make([]byte, 32)), &ecdsa.PublicKey{}, []byte{1}}, []any{}, [0]crypto.PublicKey{}, map[string]crypto.PublicKey{}, map[string]any{"kty": "EC"},
		new(crypto.PublicKey), struct{}{}, "", "key", 0, true, func() {}, make(chan int),
	}
}

// c02RetypeAll: every value of the map n (the parsed protected header or
// payload of tok), and every value inside its component maps, respelt as an
// item of ANOTHER type that a lenient reader might take for the same thing
// (1 as true, an integer as a float or as text, a byte string as a text
// string / an array of integers / behind tag 24, text as bytes, a one-element
// array around it), under the original signature: must not verify.
func c02RetypeAll(tok signedTok, n *icbor.Node, protected bool) string {
	type slot struct {
		set func(*icbor.Node)
		cur *icbor.Node
	}
	var slots []slot
	for i := range n.Pairs {
		i := i
		slots = append(slots, slot{func(x *icbor.Node) { n.Pairs[i][1] = x }, n.Pairs[i][1]})
		if n.Pairs[i][1].Kind == icbor.KArray {
			for _, cm := range n.Pairs[i][1].Items {
				if cm.Kind == icbor.KMap {
					for j := range cm.Pairs {
						cm, j := cm, j
						slots = append(slots, slot{func(x *icbor.Node) { cm.Pairs[j][1] = x }, cm.Pairs[j][1]})
					}
				}
			}
		}
	}
	for si, sl := range slots {
		cur := sl.cur
		var alts []*icbor.Node
		switch cur.Kind {
		case icbor.KUint, icbor.KNint:
			v, _ := cur.Int()
			alts = []*icbor.Node{icbor.F64(float64(v)), icbor.Arr(cur), icbor.Tstr(fmt.Sprint(v))}
			if v == 1 {
				alts = append(alts, icbor.Bool(true))
			}
			if v == 0 {
				alts = append(alts, icbor.Bool(false), icbor.Null())
			}
		case icbor.KBytes:
			alts = []*icbor.Node{{Kind: icbor.KText, B: cur.B}, smallUintsOf(cur.B), icbor.Arr(cur), icbor.Tag(24, cur)}
		case icbor.KText:
			alts = []*icbor.Node{icbor.Bstr(cur.B), icbor.Arr(cur), icbor.Tag(32, cur)}
		default:
			alts = []*icbor.Node{icbor.Arr(cur)}
		}
		for _, alt := range alts {
			sl.set(alt)
			enc := icbor.Encode(n)
			sl.set(cur)
			cand := icbor.Encode(icose.Envelope(tok.Parts.Protected, nil, enc, tok.Parts.Signature))
			if protected {
				cand = icbor.Encode(icose.Envelope(enc, nil, tok.Parts.Payload, tok.Parts.Signature))
			}
			if msg, _ := c02Judge(tok, cand); msg != "" {
				return fmt.Sprintf("value #%d respelt as %s: %s", si, truncate(icbor.Diag(alt), 40), msg)
			}
		}
	}
	return ""
}

func TestC02_Splices(t *testing.T) {
	st := NewStats("C02", "TestC02_Splices", "rapid: two signed tokens (same or different key / algorithm / claims); splice protected, payload or signature content between them; replace the signature by zeros, random bytes, the other token's signature, right-length wrong bytes, or other spellings of the same (r,s) (ASN.1 DER, DER plus junk, zero-padded / zero-stripped halves, doubled); 1..8 random byte edits; protected header / payload re-encoded into different but equivalent bytes (non-preferred widths, long or indefinite map head, permuted keys) under the original signature; bytes appended to / cut from the payload or protected-header content with the length prefix adjusted; correctly signed envelopes that carry the algorithm only in the unprotected header or nowhere, a nil payload, an empty signature; verification with every other key (same type, other types, nil, non-keys). Oracle: independent splitter decides whether covered bytes changed; wrong key never verifies; alg-less/payload-less/signature-less never verify. Non-trivial = the altered token decodes; distinct = (alg, mutation kind, details)")
	st.Require = []string{"splice-payload", "splice-protected", "splice-signature", "sig-zero", "sig-random", "byte-edits", "alg-unprotected-only", "alg-nowhere", "nil-payload", "nil-payload-original-sig", "empty-signature", "wrong-key", "decoded-verify-failed", "equiv-protected", "equiv-payload", "extend-payload", "extend-protected", "sig-reencode", "prefix-payload", "other-container", "keyless-signature", "nested-token", "countersigned"}
	defer st.Flush(t)
	// deterministic prelude: every value of the payload of fixed tokens (both
	// profiles, with components and in the profile-1 no-measurements form)
	// respelt as an item of another type
	for vi := 0; vi < 4; vi++ {
		for _, p := range []Prof{P1, P2} {
			m := baseValid(p, vi%3)
			if vi == 3 {
				if p != P1 {
					continue
				}
				m.Comps, m.NoMeas = nil, u64p(1)
			}
			tk, err := signModel(m, keyFor(icose.EdDSA, vi))
			if err != nil {
				t.Fatalf("VERIF-INFRA: %v", err)
			}
			pn, _, rerr := icbor.Read(tk.Parts.Payload)
			if rerr != nil {
				t.Fatalf("VERIF-INFRA: %v", rerr)
			}
			if msg := c02RetypeAll(tk, pn, false); msg != "" {
				t.Fatalf("C02 violated (fixed %s token #%d): %s", p, vi, msg)
			}
			st.Case(fmt.Sprintf("fixed|%s|%d|retype-value", p, vi), "equiv-payload", "retype-value")
		}
	}
	rapid.Check(t, func(t *rapid.T) {
		algA := rapid.SampledFrom([]int64{icose.EdDSA, icose.EdDSA, icose.ES256, icose.ES256, icose.PS256, icose.ES384, icose.ES512, icose.PS384, icose.PS512}).Draw(t, "algA")
		kpA := keyFor(algA, rapid.IntRange(0, 2).Draw(t, "keyA"))
		mA := GenValid(t, drawProf(t), false)
		a, err := signModel(mA, kpA)
		if err != nil {
			t.Fatalf("cannot sign: %v", err)
		}
		otherTrafficEvery(4)
		kind := rapid.SampledFrom([]string{"splice-payload", "splice-protected", "splice-signature", "sig-zero", "sig-random", "sig-flip", "byte-edits", "alg-unprotected-only", "alg-nowhere", "nil-payload", "nil-payload-original-sig", "nil-payload-original-sig", "empty-signature", "wrong-key", "reencode", "equiv-protected", "equiv-protected", "equiv-payload", "extend-payload", "extend-payload", "extend-protected", "shrink-payload", "sig-reencode", "sig-reencode", "prefix-payload", "prefix-payload", "other-container", "other-container", "keyless-signature", "keyless-signature", "element-rewrap", "element-rewrap", "signature-less-evidence", "protected-params", "protected-params", "nested-token", "countersigned"}).Draw(t, "kind")
		var mut []byte
		detail := ""
		rebuild := func(prot, pay, sig []byte) []byte {
			return icbor.Encode(icose.Envelope(prot, nil, pay, sig))
		}
		switch kind {
		case "splice-payload", "splice-protected", "splice-signature":
			sameKey := genBool.Draw(t, "sameKey")
			kpB := kpA
			if !sameKey {
				algB := rapid.SampledFrom([]int64{algA, algA, icose.EdDSA, icose.ES256}).Draw(t, "algB")
				kpB = keyFor(algB, kpA.Idx+1)
			}
			mB := GenValid(t, mA.Prof, false)
			b, err := signModel(mB, kpB)
			if err != nil {
				t.Fatalf("cannot sign: %v", err)
			}
			switch kind {
			case "splice-payload":
				mut = rebuild(a.Parts.Protected, b.Parts.Payload, a.Parts.Signature)
			case "splice-protected":
				mut = rebuild(b.Parts.Protected, a.Parts.Payload, a.Parts.Signature)
			default:
				mut = rebuild(a.Parts.Protected, a.Parts.Payload, b.Parts.Signature)
			}
			detail = fmt.Sprintf("sameKey=%v %s", sameKey, kpB.Name())
		case "sig-zero":
			mut = rebuild(a.Parts.Protected, a.Parts.Payload, make([]byte, len(a.Parts.Signature)))
		case "sig-random":
			n := rapid.SampledFrom([]int{len(a.Parts.Signature), len(a.Parts.Signature) - 1, len(a.Parts.Signature) + 1, 1, 64}).Draw(t, "siglen")
			mut = rebuild(a.Parts.Protected, a.Parts.Payload, drawBytes(t, n, "sig"))
			detail = fmt.Sprint(n)
		case "sig-flip":
			s := append([]byte{}, a.Parts.Signature...)
			i := rapid.IntRange(0, len(s)-1).Draw(t, "pos")
			s[i] ^= rapid.ByteRange(1, 255).Draw(t, "xor")
			mut = rebuild(a.Parts.Protected, a.Parts.Payload, s)
			detail = fmt.Sprint(i)
		case "byte-edits":
			mut = append([]byte{}, a.Tok...)
			n := rapid.IntRange(1, 8).Draw(t, "edits")
			for i := 0; i < n; i++ {
				pos := rapid.IntRange(0, len(mut)-1).Draw(t, "pos")
				mut[pos] = genByte.Draw(t, "byte")
				detail += fmt.Sprintf("%d,", pos)
			}
		case "equiv-protected", "equiv-payload":
			// the covered BYTES differ although the decoded content is the
			// same (non-preferred integer widths, long map head, indefinite
			// map, permuted keys): a verifier that checks the signature over a
			// re-encoding of what it decoded would accept these
			src := a.Parts.Protected
			if kind == "equiv-payload" {
				src = a.Parts.Payload
			}
			n, _, rerr := icbor.Read(src)
			if rerr != nil || n.Kind != icbor.KMap {
				t.Fatalf("VERIF-INFRA: own token part does not parse: %v", rerr)
			}
			how := rapid.SampledFrom([]string{"value-long-head", "key-long-head", "map-long-head", "indefinite-map", "permute", "permute", "extra-unknown-key", "extra-unknown-key", "retype-value", "retype-value", "retype-value"}).Draw(t, "how")
			switch how {
			case "value-long-head", "key-long-head":
				i := rapid.IntRange(0, len(n.Pairs)-1).Draw(t, "pair")
				side := 1
				if how == "key-long-head" {
					side = 0
				}
				if x := n.Pairs[i][side]; x.Kind == icbor.KSimple || x.Kind == icbor.KFloat {
					n.Pairs[i][0] = n.Pairs[i][0].WithHead(8)
				} else {
					n.Pairs[i][side] = x.WithHead(rapid.SampledFrom([]int{1, 2, 4, 8}).Draw(t, "w"))
					if x.Kind == icbor.KBytes || x.Kind == icbor.KText || x.Kind == icbor.KArray || x.Kind == icbor.KMap {
						n.Pairs[i][side] = x.WithHead(8)
					} else if x.U > 23 {
						n.Pairs[i][side] = x.WithHead(8)
					}
				}
			case "map-long-head":
				n = n.WithHead(rapid.SampledFrom([]int{1, 2, 4, 8}).Draw(t, "w"))
				if len(n.Pairs) > 23 {
					n = n.WithHead(8)
				}
			case "indefinite-map":
				n = n.WithIndef()
			case "retype-value":
				if msg := c02RetypeAll(a, n, kind == "equiv-protected"); msg != "" {
					t.Fatalf("C02 violated (%s, %s): %s", kind, kpA.Name(), msg)
				}
				st.Case(kpA.Name()+"|"+kind+"|retype-value|"+mA.ClassVector(), kind, "retype-value", icose.AlgName(algA))
				return
			case "extra-unknown-key":
				// decodes to the same claims (an unknown entry is ignored)
				n.Pairs = append(n.Pairs, icbor.P(icbor.I(rapid.SampledFrom([]int64{-70001, 99, 7000, -1}).Draw(t, "unk")), rapid.SampledFrom([]*icbor.Node{icbor.U(1), icbor.Tstr("x"), icbor.Bstr([]byte{1, 2})}).Draw(t, "unkv")))
			default:
				if len(n.Pairs) < 2 {
					n = n.WithHead(2)
				} else {
					n.Pairs = append(n.Pairs[1:], n.Pairs[0])
				}
			}
			enc := icbor.Encode(n)
			if bytes.Equal(enc, src) {
				t.Skip("re-encoding is identical")
			}
			if kind == "equiv-protected" {
				mut = rebuild(enc, a.Parts.Payload, a.Parts.Signature)
			} else {
				mut = rebuild(a.Parts.Protected, enc, a.Parts.Signature)
			}
			detail = how
		case "extend-payload", "extend-protected", "shrink-payload":
			// bytes appended to (or cut from) the content of the payload /
			// protected byte string, its length prefix adjusted, under the
			// original signature
			src := a.Parts.Payload
			if kind == "extend-protected" {
				src = a.Parts.Protected
			}
			var alt []byte
			if kind == "shrink-payload" {
				alt = append([]byte{}, src[:len(src)-rapid.IntRange(1, 3).Draw(t, "cut")]...)
			} else {
				suffix := rapid.SampledFrom([][]byte{{0x00}, {0xf6}, {0xff}, {0xa0}, {0xa1, 0x00, 0x00}, {0x61}, {0x58, 0x20}, {0x40, 0x40}}).Draw(t, "suffix")
				if genBool.Draw(t, "suffix.self") {
					suffix = src // a second copy of the item
				}
				alt = append(append([]byte{}, src...), suffix...)
				detail = fmt.Sprintf("+%x", suffix[:min(len(suffix), 6)])
			}
			if kind == "extend-protected" {
				mut = rebuild(alt, a.Parts.Payload, a.Parts.Signature)
			} else {
				mut = rebuild(a.Parts.Protected, alt, a.Parts.Signature)
			}
		case "prefix-payload":
			// something well-formed put IN FRONT of the claims map (a tag head,
			// nested tag heads) or around it, the length prefix adjusted: a
			// decoder that skips it must not verify the skipped-over bytes away
			pre := rapid.SampledFrom([][]byte{{0xc6}, {0xd9, 0xd9, 0xf7}, {0xd8, 0x18}, {0xc6, 0xc6}, {0xd9, 0xd9, 0xf7, 0xd9, 0xd9, 0xf7}, {0xd8, 0x37}, {0xda, 0x00, 0x00, 0x00, 0x06}}).Draw(t, "prefix")
			src := a.Parts.Payload
			if genBool.Draw(t, "onprotected") {
				mut = rebuild(append(append([]byte{}, pre...), a.Parts.Protected...), src, a.Parts.Signature)
			} else {
				mut = rebuild(a.Parts.Protected, append(append([]byte{}, pre...), src...), a.Parts.Signature)
			}
			detail = fmt.Sprintf("%x", pre)
		case "sig-reencode":
			// the same mathematical signature in OTHER bytes: ASN.1 DER of
			// (r, s) as PKCS#11-style back-ends emit it, DER plus trailing
			// junk, zero-padded or zero-stripped halves, the signature twice
			sig := a.Parts.Signature
			how := rapid.SampledFrom([]string{"der", "der+junk", "pad-left", "pad-halves", "strip-zeros", "twice", "append-zero", "reverse-halves", "reverse-halves", "reverse-all", "swap-halves", "swap-and-reverse", "complement", "byte-swap-16", "byte-swap-32"}).Draw(t, "how")
			var alt []byte
			half := len(sig) / 2
			rev := func(b []byte) []byte {
				r := make([]byte, len(b))
				for i := range b {
					r[len(b)-1-i] = b[i]
				}
				return r
			}
			switch how {
			// the same numbers in another byte order (a little-endian crypto
			// accelerator's r and s, word-swapped values), the halves
			// exchanged, every bit inverted: other bytes, so no signature
			case "reverse-halves":
				alt = append(rev(sig[:half]), rev(sig[half:])...)
			case "reverse-all":
				alt = rev(sig)
			case "swap-halves":
				alt = append(append([]byte{}, sig[half:]...), sig[:half]...)
			case "swap-and-reverse":
				alt = append(rev(sig[half:]), rev(sig[:half])...)
			case "complement":
				alt = make([]byte, len(sig))
				for i := range sig {
					alt[i] = ^sig[i]
				}
			case "byte-swap-16", "byte-swap-32":
				w := 2
				if how == "byte-swap-32" {
					w = 4
				}
				alt = append([]byte{}, sig...)
				for i := 0; i+w <= len(alt); i += w {
					copy(alt[i:i+w], rev(sig[i:i+w]))
				}
			case "der", "der+junk":
				type rs struct{ R, S *big.Int }
				der, derr := asn1.Marshal(rs{new(big.Int).SetBytes(sig[:half]), new(big.Int).SetBytes(sig[half:])})
				if derr != nil {
					t.Fatalf("VERIF-INFRA: %v", derr)
				}
				alt = der
				if how == "der+junk" {
					alt = append(alt, 0x00, 0x01)
				}
			case "pad-left":
				alt = append([]byte{0, 0}, sig...)
			case "pad-halves":
				alt = append(append(append([]byte{0}, sig[:half]...), 0), sig[half:]...)
			case "strip-zeros":
				alt = append(bytes.TrimLeft(sig[:half], "\x00"), bytes.TrimLeft(sig[half:], "\x00")...)
				if len(alt) == len(sig) {
					alt = sig[1:]
				}
			case "twice":
				alt = append(append([]byte{}, sig...), sig...)
			default:
				alt = append(append([]byte{}, sig...), 0)
			}
			mut = rebuild(a.Parts.Protected, a.Parts.Payload, alt)
			detail = how
		case "nested-token":
			// the genuine token as the PAYLOAD of another envelope (what a
			// gateway forwarding it might build) whose own signature is not one
			// the signer made: zeros, random bytes, the inner signature again
			var sig []byte
			switch detail = rapid.SampledFrom([]string{"zeros", "random", "inner-signature", "one-byte"}).Draw(t, "outer.sig"); detail {
			case "zeros":
				sig = make([]byte, len(a.Parts.Signature))
			case "random":
				sig = drawBytes(t, len(a.Parts.Signature), "outer.sigbytes")
			case "inner-signature":
				sig = a.Parts.Signature
			default:
				sig = []byte{1}
			}
			inner := a.Tok
			if genBool.Draw(t, "nested.twice") {
				inner = rebuild(a.Parts.Protected, a.Tok, a.Parts.Signature)
				detail += "/twice"
			}
			mut = rebuild(a.Parts.Protected, inner, sig)
		case "countersigned":
			// the genuine token with a COUNTERSIGNATURE of another party in
			// its unprotected header (RFC 9338, labels 11 / 7; outside the
			// signed parts): it verifies with the signer's key as before, and
			// with nobody else's - the countersigner's included
			kpB := keyFor(rapid.SampledFrom([]int64{algA, algA, icose.EdDSA, icose.ES256}).Draw(t, "cs.alg"), kpA.Idx+1)
			signProt := icose.ProtectedAlg(kpB.Alg)
			v2 := genBool.Draw(t, "cs.v2")
			items := []*icbor.Node{icbor.Tstr("CounterSignature"), icbor.Bstr(a.Parts.Protected), icbor.Bstr(signProt), icbor.Bstr(nil), icbor.Bstr(a.Parts.Payload)}
			label := uint64(7)
			if v2 {
				items[0] = icbor.Tstr("CounterSignatureV2")
				items = append(items, icbor.Arr(icbor.Bstr(a.Parts.Signature)))
				label = 11
			}
			csig, serr := icose.SignTBS(kpB.Alg, kpB.Priv, icbor.Encode(icbor.Arr(items...)))
			if serr != nil {
				t.Fatalf("VERIF-INFRA: %v", serr)
			}
			cs := icbor.Arr(icbor.Bstr(signProt), icbor.Map(), icbor.Bstr(csig))
			if genBool.Draw(t, "cs.list") {
				cs = icbor.Arr(cs)
			}
			mut = icbor.Encode(icose.Envelope(a.Parts.Protected, icbor.Map(icbor.P(icbor.U(label), cs)), a.Parts.Payload, a.Parts.Signature))
			detail = fmt.Sprintf("label=%d by=%s", label, kpB.Name())
			ev, derr := psatoken.DecodeEvidenceFromCOSE(mut)
			if derr != nil {
				st.Case("", kind, "decode-failed", icose.AlgName(algA))
				return
			}
			if ev.Verify(kpB.Pub) == nil {
				t.Fatalf("C02 violated (%s, %s): a token signed by %s that carries a countersignature of %s in its unprotected header VERIFIES with the countersigner's key, a key other than the signer's\n  token: %x", kind, detail, kpA.Name(), kpB.Name(), mut)
			}
			for i, k := range otherKeys(kpA) {
				if ev.Verify(k) == nil {
					t.Fatalf("C02 violated (%s, %s): countersigned token verifies with a key other than the signer's (#%d, %T)", kind, detail, i, k)
				}
			}
			if verr := ev.Verify(kpA.Pub); verr != nil {
				// the unprotected header is not covered: the signer's key still
				// verifies (positive control; a library that refuses such
				// tokens earlier is not judged)
				t.Fatalf("C02 positive control failed on a countersigned token: %v", verr)
			}
			st.Case(kpA.Name()+"|countersigned|"+detail, kind, "wrong-key", icose.AlgName(algA))
			return
		case "signature-less-evidence":
			// the one way to hold a message WITHOUT a signature: an Evidence
			// whose signing attempt failed in the signer (error, empty or nil
			// signature) - fresh, or after it held and verified the genuine
			// token. It carries an algorithm and a payload; it must not
			// verify with any key.
			lit, ok := mA.BuildLiteral()
			if !ok {
				return
			}
			ev := &psatoken.Evidence{}
			prior := rapid.SampledFrom([]string{"fresh", "decoded-and-verified", "signed-and-verified"}).Draw(t, "prior")
			switch prior {
			case "decoded-and-verified":
				if ev.UnmarshalCOSE(a.Tok) != nil || ev.Verify(kpA.Pub) != nil {
					t.Fatalf("C02 positive control failed")
				}
				ev.Claims = lit
			case "signed-and-verified":
				_ = ev.SetClaims(lit)
				if _, serr := ev.ValidateAndSign(kpA.Signer()); serr != nil || ev.Verify(kpA.Pub) != nil {
					t.Fatalf("C02 positive control failed: %v", serr)
				}
			default:
				_ = ev.SetClaims(lit)
			}
			mode := rapid.SampledFrom([]string{"error", "empty", "nil"}).Draw(t, "fault")
			fs := &faultySigner{alg: cose.Algorithm(algA), mode: mode, n: len(a.Parts.Signature)}
			var tk []byte
			var serr error
			if genBool.Draw(t, "validating") {
				tk, serr = ev.ValidateAndSign(fs)
			} else {
				tk, serr = ev.Sign(fs)
			}
			if serr == nil || len(tk) != 0 {
				t.Fatalf("C02 violated (%s): signing with a signer that fails (%s) returned err=%v and %d bytes", kpA.Name(), mode, serr, len(tk))
			}
			for i, k := range append([]crypto.PublicKey{kpA.Pub}, otherKeys(kpA)...) {
				if ev.Verify(k) == nil {
					t.Fatalf("C02 violated (%s): an Evidence (%s) whose signing attempt failed in the signer (%s) carries no signature, yet Verify succeeds with key #%d (%T; #0 = the signer's)", kpA.Name(), prior, mode, i, k)
				}
			}
			st.Case(kpA.Name()+"|signature-less-evidence|"+prior+"|"+mode+"|"+mA.ClassVector(), "signature-less-evidence", icose.AlgName(algA))
			return
		case "protected-params":
			// further (standard) parameters in the protected header around the
			// algorithm - a kid, a content type, an IV, a crit list naming
			// parameters every implementation understands (or none, or a
			// private one) - under the original signature, with the genuine or
			// an altered payload: other protected bytes, so no valid signature
			kid := icbor.Bstr([]byte("key-1"))
			extra := [][][2]*icbor.Node{
				{icbor.P(icbor.U(2), icbor.Arr(icbor.U(4))), icbor.P(icbor.U(4), kid)},
				{icbor.P(icbor.U(2), icbor.Arr(icbor.U(1)))},
				{icbor.P(icbor.U(2), icbor.Arr(icbor.U(3))), icbor.P(icbor.U(3), icbor.U(60))},
				{icbor.P(icbor.U(2), icbor.Arr(icbor.U(1), icbor.U(3), icbor.U(4))), icbor.P(icbor.U(3), icbor.Tstr("application/eat+cwt")), icbor.P(icbor.U(4), kid)},
				{icbor.P(icbor.U(4), kid)},
				{icbor.P(icbor.U(3), icbor.U(60))},
				{icbor.P(icbor.U(2), icbor.Arr())},
				{icbor.P(icbor.U(2), icbor.Arr(icbor.I(-70001))), icbor.P(icbor.I(-70001), icbor.U(1))},
				{icbor.P(icbor.U(5), icbor.Bstr(make([]byte, 12)))},
				{icbor.P(icbor.U(33), icbor.Bstr([]byte{0x30, 0x00}))},
			}
			shape := rapid.IntRange(0, len(extra)-1).Draw(t, "params.shape")
			pairs := append([][2]*icbor.Node{icbor.P(icbor.U(1), icbor.I(algA))}, extra[shape]...)
			if genBool.Draw(t, "params.algLast") {
				pairs = append(pairs[1:], pairs[0])
			}
			pay := append([]byte{}, a.Parts.Payload...)
			if genBool.Draw(t, "params.alterPayload") {
				pay[len(pay)-1] ^= 0x01
			}
			mut = rebuild(icbor.Encode(icbor.Map(pairs...)), pay, a.Parts.Signature)
			detail = fmt.Sprintf("shape#%d", shape)
		case "element-rewrap":
			// the genuine header, payload and signature, but one element of the
			// array is no longer the byte string the structure requires: the
			// wrapper is cut off (the header or claims map stands there
			// itself), doubled, or of another string type. Those are other
			// envelope bytes for the protected header / payload / signature.
			prot, pay, sig := icbor.Bstr(a.Parts.Protected), icbor.Bstr(a.Parts.Payload), icbor.Bstr(a.Parts.Signature)
			shapes := map[string]*icbor.Node{
				"protected-unwrapped":      icbor.Tag(18, icbor.Arr(icbor.Raw(a.Parts.Protected), icbor.Map(), pay, sig)),
				"protected-double-wrapped": icbor.Tag(18, icbor.Arr(icbor.Bstr(icbor.Encode(prot)), icbor.Map(), pay, sig)),
				"protected-as-text":        icbor.Tag(18, icbor.Arr(icbor.Tstr(string(a.Parts.Protected)), icbor.Map(), pay, sig)),
				"protected-tag24":          icbor.Tag(18, icbor.Arr(icbor.Tag(24, prot), icbor.Map(), pay, sig)),
				"protected-in-array":       icbor.Tag(18, icbor.Arr(icbor.Arr(prot), icbor.Map(), pay, sig)),
				"protected-in-unprotected": icbor.Tag(18, icbor.Arr(icbor.Bstr(nil), icbor.Raw(a.Parts.Protected), pay, sig)),
				"protected-both-buckets":   icbor.Tag(18, icbor.Arr(icbor.Raw(a.Parts.Protected), icbor.Raw(a.Parts.Protected), pay, sig)),
				"payload-unwrapped":        icbor.Tag(18, icbor.Arr(prot, icbor.Map(), icbor.Raw(a.Parts.Payload), sig)),
				"payload-double-wrapped":   icbor.Tag(18, icbor.Arr(prot, icbor.Map(), icbor.Bstr(icbor.Encode(pay)), sig)),
				"payload-as-text":          icbor.Tag(18, icbor.Arr(prot, icbor.Map(), icbor.Tstr(string(a.Parts.Payload)), sig)),
				"payload-tag24":            icbor.Tag(18, icbor.Arr(prot, icbor.Map(), icbor.Tag(24, pay), sig)),
				"signature-double-wrapped": icbor.Tag(18, icbor.Arr(prot, icbor.Map(), pay, icbor.Bstr(icbor.Encode(sig)))),
				"signature-as-text":        icbor.Tag(18, icbor.Arr(prot, icbor.Map(), pay, icbor.Tstr(string(a.Parts.Signature)))),
				"signature-in-array":       icbor.Tag(18, icbor.Arr(prot, icbor.Map(), pay, icbor.Arr(sig))),
				"all-unwrapped":            icbor.Tag(18, icbor.Arr(icbor.Raw(a.Parts.Protected), icbor.Map(), icbor.Raw(a.Parts.Payload), sig)),
			}
			names := make([]string, 0, len(shapes))
			for k := range shapes {
				names = append(names, k)
			}
			sort.Strings(names)
			detail = rapid.SampledFrom(names).Draw(t, "shape")
			mut = icbor.Encode(shapes[detail])
		case "reencode":
			// same covered bytes, different outer encoding: no verdict, but
			// exercises the "covered-bytes-unchanged" path of the oracle
			env := icose.Envelope(a.Parts.Protected, icbor.Map(icbor.P(icbor.U(99), icbor.U(1))), a.Parts.Payload, a.Parts.Signature)
			mut = icbor.Encode(env)
		case "alg-unprotected-only", "alg-nowhere":
			prot := rapid.SampledFrom([][]byte{{}, {0xa0}}).Draw(t, "emptyprot")
			sig, err := icose.Sign(algA, kpA.Priv, prot, a.Parts.Payload)
			if err != nil {
				t.Fatalf("VERIF-INFRA: %v", err)
			}
			unprot := icbor.Map()
			if kind == "alg-unprotected-only" {
				unprot = icbor.Map(icbor.P(icbor.U(1), icbor.I(algA)))
			}
			mut = icbor.Encode(icose.Envelope(prot, unprot, a.Parts.Payload, sig))
			// also a variant signed over the canonical empty protected bstr
			detail = fmt.Sprintf("%x", prot)
		case "nil-payload":
			sig, _ := icose.Sign(algA, kpA.Priv, a.Parts.Protected, nil)
			mut = icbor.Encode(icbor.Tag(18, icbor.Arr(icbor.Bstr(a.Parts.Protected), icbor.Map(), icbor.Null(), icbor.Bstr(sig))))
		case "nil-payload-original-sig":
			// the genuine token with its payload taken out (null, or empty),
			// the genuine signature left in place
			var pl *icbor.Node = icbor.Null()
			if genBool.Draw(t, "emptybstr") {
				pl = icbor.Bstr(nil)
			}
			mut = icbor.Encode(icbor.Tag(18, icbor.Arr(icbor.Bstr(a.Parts.Protected), icbor.Map(), pl, icbor.Bstr(a.Parts.Signature))))
		case "empty-signature":
			mut = rebuild(a.Parts.Protected, a.Parts.Payload, nil)
		case "keyless-signature":
			// an altered payload under a "signature" that anybody can compute
			// from public data: digests of the Sig_structure / payload /
			// protected header (repeated or padded to the algorithm's
			// signature size - the short-circuit signatures of test builds),
			// the bytes themselves, constant patterns
			pay := append([]byte{}, a.Parts.Payload...)
			pay[len(pay)-1] ^= 0x01
			if genBool.Draw(t, "otherclaims") {
				pay = icbor.Encode(GenValid(t, mA.Prof, false).WireNode())
			}
			tbs := icbor.Encode(icbor.Arr(icbor.Tstr("Signature1"), icbor.Bstr(a.Parts.Protected), icbor.Bstr(nil), icbor.Bstr(pay)))
			srcs := map[string][]byte{"tbs": tbs, "payload": pay, "protected": a.Parts.Protected,
				"tbs-no-aad": icbor.Encode(icbor.Arr(icbor.Tstr("Signature1"), icbor.Bstr(a.Parts.Protected), icbor.Bstr(pay)))}
			n := len(a.Parts.Signature)
			// every combination is tried (72 candidate signatures per case)
			for _, srcName := range []string{"tbs", "payload", "protected", "tbs-no-aad"} {
				src := srcs[srcName]
				for _, hname := range []string{"sha256", "sha384", "sha512", "sha1", "raw", "const"} {
					var digest []byte
					switch hname {
					case "sha256":
						d := sha256.Sum256(src)
						digest = d[:]
					case "sha384":
						d := sha512.Sum384(src)
						digest = d[:]
					case "sha512":
						d := sha512.Sum512(src)
						digest = d[:]
					case "sha1":
						d := sha1.Sum(src)
						digest = d[:]
					case "raw":
						digest = src
					default:
						digest = []byte{0x5a}
					}
					for _, fit := range []string{"repeat", "pad-zero", "as-is"} {
						var sg []byte
						switch fit {
						case "repeat":
							for len(sg) < n {
								sg = append(sg, digest...)
							}
							sg = sg[:n]
						case "pad-zero":
							sg = make([]byte, n)
							copy(sg, digest)
						default:
							sg = digest
						}
						cand := rebuild(a.Parts.Protected, pay, sg)
						if ev, derr := psatoken.DecodeEvidenceFromCOSE(cand); derr == nil {
							for _, k := range []crypto.PublicKey{kpA.Pub, keyFor(algA, kpA.Idx+1).Pub} {
								if ev.Verify(k) == nil {
									t.Fatalf("C02 violated (%s): an altered payload under a signature that needs no key (%s of the %s, %s) VERIFIES: %x", kpA.Name(), hname, srcName, fit, cand)
								}
							}
						}
					}
				}
			}
			st.Case(kpA.Name()+"|keyless-signature|"+mA.ClassVector(), "keyless-signature", icose.AlgName(algA))
			return
		case "other-container":
			// claims the signer never signed (another valid claims-set, or the
			// genuine one with one byte changed) presented in something that
			// is not a signed COSE_Sign1 around them: an unprotected claims-set
			// (UCCS tag 601, CWT tag 61, bare map), a Sign1 array with the
			// signature missing / empty / null, a COSE_Mac0, COSE_Sign,
			// COSE_Encrypt0 or untagged look-alike carrying the genuine
			// protected header and signature. No signature by the signer over
			// these claims exists, so Verify must not succeed whatever was
			// decoded.
			pay := icbor.Encode(GenValid(t, mA.Prof, false).WireNode())
			if genBool.Draw(t, "flipone") || bytes.Equal(pay, a.Parts.Payload) {
				pay = append([]byte{}, a.Parts.Payload...)
				pay[len(pay)-1] ^= 0x01
			}
			prot, sig := icbor.Bstr(a.Parts.Protected), icbor.Bstr(a.Parts.Signature)
			raw := func(b []byte) *icbor.Node { return icbor.Raw(b) }
			shapes := map[string]*icbor.Node{
				"uccs-601":             icbor.Tag(601, raw(pay)),
				"uccs-601-bstr":        icbor.Tag(601, icbor.Bstr(pay)),
				"cwt-61":               icbor.Tag(61, raw(pay)),
				"cwt-61-sign1":         icbor.Tag(61, icbor.Tag(18, icbor.Arr(prot, icbor.Map(), icbor.Bstr(pay), icbor.Bstr(nil)))),
				"bare-map":             raw(pay),
				"bare-bstr":            icbor.Bstr(pay),
				"sign1-3-elements":     icbor.Tag(18, icbor.Arr(prot, icbor.Map(), icbor.Bstr(pay))),
				"sign1-null-sig":       icbor.Tag(18, icbor.Arr(prot, icbor.Map(), icbor.Bstr(pay), icbor.Null())),
				"sign1-empty-sig":      icbor.Tag(18, icbor.Arr(prot, icbor.Map(), icbor.Bstr(pay), icbor.Bstr(nil))),
				"sign1-empty-prot-sig": icbor.Tag(18, icbor.Arr(icbor.Bstr(nil), icbor.Map(), icbor.Bstr(pay), icbor.Bstr(nil))),
				"sign1-sig-in-unprot":  icbor.Tag(18, icbor.Arr(prot, icbor.Map(icbor.P(icbor.U(99), sig)), icbor.Bstr(pay), icbor.Bstr(nil))),
				"mac0-17":              icbor.Tag(17, icbor.Arr(prot, icbor.Map(), icbor.Bstr(pay), sig)),
				"sign-98":              icbor.Tag(98, icbor.Arr(prot, icbor.Map(), icbor.Bstr(pay), icbor.Arr(icbor.Arr(prot, icbor.Map(), sig)))),
				"encrypt0-16":          icbor.Tag(16, icbor.Arr(prot, icbor.Map(), icbor.Bstr(pay))),
				"untagged-5-elements":  icbor.Arr(prot, icbor.Map(), icbor.Bstr(pay), sig, sig),
				"map-envelope":         icbor.Tag(18, icbor.Map(icbor.P(icbor.U(1), prot), icbor.P(icbor.U(2), icbor.Map()), icbor.P(icbor.U(3), icbor.Bstr(pay)), icbor.P(icbor.U(4), sig))),
			}
			names := make([]string, 0, len(shapes))
			for k := range shapes {
				names = append(names, k)
			}
			sort.Strings(names)
			detail = rapid.SampledFrom(names).Draw(t, "shape")
			mut = icbor.Encode(shapes[detail])
		case "wrong-key":
			ev, err := psatoken.DecodeEvidenceFromCOSE(a.Tok)
			if err != nil {
				t.Fatalf("C02: own token does not decode: %v", err)
			}
			if err := ev.Verify(kpA.Pub); err != nil {
				t.Fatalf("C02 positive control failed: %v", err)
			}
			for i, k := range otherKeys(kpA) {
				if ev.Verify(k) == nil {
					t.Fatalf("C02 violated: %s token verifies with a key other than the signer's (#%d, %T)", kpA.Name(), i, k)
				}
			}
			// malformed key OBJECTS: whether the call errors or panics is not
			// judged here, but it must not report the signature as good
			for i, k := range malformedKeys() {
				ok := func() (verified bool) {
					defer func() { _ = recover() }()
					return ev.Verify(k) == nil
				}()
				if ok {
					t.Fatalf("C02 violated: %s token VERIFIES with malformed key object #%d (%T)", kpA.Name(), i, k)
				}
			}
			// a kept VALUE of the Evidence still stands for the token it
			// decoded when the object it was copied from moves on to a token of
			// another signer: that signer's key does not verify it
			kpC := keyFor(rapid.SampledFrom([]int64{algA, icose.EdDSA, icose.ES256}).Draw(t, "algC"), kpA.Idx+1)
			cTok, err := signModel(GenValid(t, mA.Prof, false), kpC)
			if err != nil {
				t.Fatalf("cannot sign: %v", err)
			}
			kept := *ev
			if err := ev.UnmarshalCOSE(cTok.Tok); err != nil {
				t.Fatalf("C02: own token does not decode on a used Evidence: %v", err)
			}
			if kept.Verify(kpC.Pub) == nil {
				t.Fatalf("C02 violated: the Evidence value kept from a %s token verifies with the key of ANOTHER signer (%s) after the object it was copied from decoded that signer's token", kpA.Name(), kpC.Name())
			}
			if err := kept.Verify(kpA.Pub); err != nil {
				t.Fatalf("C02 positive control failed on the kept Evidence value: %v", err)
			}
			if ev.Verify(kpA.Pub) == nil || ev.Verify(kpC.Pub) != nil {
				t.Fatalf("C02 violated: the re-used Evidence does not stand for the token it decoded last (%s after %s)", kpC.Name(), kpA.Name())
			}
			st.Case(kpA.Name()+"|wrong-key|"+mA.ClassVector(), "wrong-key", icose.AlgName(algA))
			return
		}
		var msg, class string
		switch kind {
		case "alg-unprotected-only", "alg-nowhere", "nil-payload", "nil-payload-original-sig", "empty-signature", "other-container":
			ev, err := psatoken.DecodeEvidenceFromCOSE(mut)
			class = "decode-failed"
			if err == nil {
				class = "decoded-verify-failed"
				if ev.Verify(kpA.Pub) == nil {
					msg = fmt.Sprintf("a message with %s VERIFIES: %x", kind, mut)
				}
			}
			// the same message handed to an Evidence that already holds the
			// genuine token / its claims: nothing from that earlier state may
			// stand in for what the message lacks
			for _, prior := range []string{"decoded-original", "claims-attached", "signed"} {
				ev2 := &psatoken.Evidence{}
				switch prior {
				case "decoded-original":
					_ = ev2.UnmarshalCOSE(a.Tok)
				case "claims-attached":
					if lit, ok := mA.BuildLiteral(); ok {
						_ = ev2.SetClaims(lit)
					}
				default:
					if lit, ok := mA.BuildLiteral(); ok {
						_ = ev2.SetClaims(lit)
						_, _ = ev2.ValidateAndSign(kpA.Signer())
					}
				}
				if uerr := ev2.UnmarshalCOSE(mut); uerr == nil && ev2.Verify(kpA.Pub) == nil && msg == "" {
					msg = fmt.Sprintf("a message with %s is accepted by an Evidence that previously held the genuine token (%s) and then VERIFIES: %x", kind, prior, mut)
				}
			}
		default:
			msg, class = c02Judge(a, mut)
		}
		if msg != "" {
			t.Fatalf("C02 violated (%s %s, %s): %s", kind, detail, kpA.Name(), msg)
		}
		key := ""
		if class != "decode-failed" {
			key = kpA.Name() + "|" + kind + "|" + detail
		}
		st.Case(key, kind, class, icose.AlgName(algA))
		if key != "" && st.WantSample() {
			st.Sample(map[string]any{"alg": kpA.Name(), "mutation": kind, "detail": detail, "outcome": class})
		}
	})
}

// FuzzC02_Tamper (thorough tier): coverage-guided mutation of two signed
// tokens; whatever the fuzzer turns them into must not verify with the
// original signer's key unless the covered bytes are unchanged.
func FuzzC02_Tamper(f *testing.F) {
	var origs []signedTok
	// Only the deterministic algorithm: the fuzz workers are separate
	// processes that each recompute the originals, and with a randomised
	// scheme (ECDSA, PSS) another process's VALID signature over the same
	// message would look like "signature differs and verifies".
	for i, alg := range []int64{icose.EdDSA, icose.EdDSA} {
		st, err := signModel(baseValid([]Prof{P1, P2}[i], 1), keyFor(alg, i))
		if err != nil {
			f.Fatalf("VERIF-INFRA: %v", err)
		}
		origs = append(origs, st)
		f.Add(st.Tok)
		// seeds that keep the structure but alter one part
		f.Add(icbor.Encode(icose.Envelope(st.Parts.Protected, nil, append(append([]byte{}, st.Parts.Payload...), 0x00), st.Parts.Signature)))
		f.Add(icbor.Encode(icose.Envelope([]byte{0xa0}, icbor.Map(icbor.P(icbor.U(1), icbor.I(alg))), st.Parts.Payload, st.Parts.Signature)))
	}
	f.Fuzz(func(t *testing.T, data []byte) {
		if len(data) > 1<<14 {
			return
		}
		for _, o := range origs {
			if msg, _ := c02Judge(o, data); msg != "" {
				t.Fatalf("C02 violated: %s", msg)
			}
		}
	})
}
