package checks

// Two extension profiles built the way example_extensions_test.go documents:
// a struct embedding a built-in claims type plus one extra claim, with the
// eight codec methods routed through the embedding-aware helpers. They are
// registered only inside withExtProfiles (checkpoint hook), never globally.

import (
	"bytes"
	"encoding/json"
	"errors"
	"fmt"
	"sync"
	"time"

	cbor "github.com/fxamacker/cbor/v2"
	"github.com/veraison/eat"
	"github.com/veraison/psatoken"
	"github.com/veraison/psatoken/encoding"
)

// harness-side codec modes with the same options as the library's.
var (
	hem cbor.EncMode
	hdm cbor.DecMode
)

func init() {
	var err error
	hem, err = cbor.EncOptions{IndefLength: cbor.IndefLengthForbidden, TimeTag: cbor.EncTagRequired}.EncMode()
	if err != nil {
		panic(err)
	}
	hdm, err = cbor.DecOptions{IndefLength: cbor.IndefLengthForbidden}.DecMode()
	if err != nil {
		panic(err)
	}
}

// timestamps the extension profiles reject with errors that WRAP the
// "ignorable" sentinels: a gate that filters the result of Validate() would
// let them through
const (
	extTSNotInProfile int64 = 13
	extTSOptionalish  int64 = 17
)

// extRuleBroken: does the extension's own rule reject this timestamp?
func extRuleBroken(ts *int64) bool {
	return ts != nil && (*ts < 0 || *ts == extTSNotInProfile || *ts == extTSOptionalish)
}

const (
	ExtP2Name = "http://example.com/verif/ext-on-p2"
	ExtP1Name = "PSA_IOT_PROFILE_1_VERIF_EXT"
)

// ---- extension on profile 2 ----

type ExtP2Claims struct {
	psatoken.P2Claims
	Timestamp *int64 `cbor:"-75100,keyasint,omitempty" json:"timestamp,omitempty"`
}

func (o *ExtP2Claims) GetTimestamp() (int64, error) {
	if o.Timestamp == nil {
		return 0, psatoken.ErrMissingOptional
	}
	if *o.Timestamp < 0 {
		return 0, errors.New("negative timestamp")
	}
	return *o.Timestamp, nil
}

func (o *ExtP2Claims) Validate() error {
	if err := psatoken.ValidateClaims(o); err != nil {
		return err
	}
	// the extension's own rules: negative timestamps are malformed; two
	// values are reserved and reported through the profile-related sentinels
	// (a derived profile is free to use them for claims IT does not allow)
	if o.Timestamp != nil {
		switch *o.Timestamp {
		case extTSNotInProfile:
			return fmt.Errorf("timestamp %d: %w", *o.Timestamp, psatoken.ErrClaimNotInProfile)
		case extTSOptionalish:
			return fmt.Errorf("timestamp %d is reserved (%w is not an excuse)", *o.Timestamp, psatoken.ErrMissingOptional)
		}
	}
	return psatoken.FilterError(o.GetTimestamp())
}

func (o ExtP2Claims) MarshalCBOR() ([]byte, error) { return encoding.SerializeStructToCBOR(hem, &o) }
func (o *ExtP2Claims) UnmarshalCBOR(data []byte) error {
	return encoding.PopulateStructFromCBOR(hdm, data, o)
}
func (o ExtP2Claims) MarshalJSON() ([]byte, error) { return encoding.SerializeStructToJSON(&o) }
func (o *ExtP2Claims) UnmarshalJSON(data []byte) error {
	return encoding.PopulateStructFromJSON(data, o)
}

func newExtP2Claims() psatoken.IClaims { return newExtP2ClaimsNamed(ExtP2Name) }

func newExtP2ClaimsNamed(name string) psatoken.IClaims {
	p := eat.Profile{}
	if err := p.Set(name); err != nil {
		panic(err)
	}
	return &ExtP2Claims{P2Claims: psatoken.P2Claims{
		Profile:          &p,
		SwComponents:     &psatoken.SwComponents[*psatoken.SwComponent]{},
		CanonicalProfile: name,
	}}
}

type extP2Profile struct{}

func (extP2Profile) GetName() string             { return ExtP2Name }
func (extP2Profile) GetClaims() psatoken.IClaims { return newExtP2Claims() }

// ---- extension on profile 1 ----

type ExtP1Claims struct {
	psatoken.P1Claims
	Timestamp *int64 `cbor:"-75100,keyasint,omitempty" json:"timestamp,omitempty"`
}

func (o *ExtP1Claims) GetTimestamp() (int64, error) {
	if o.Timestamp == nil {
		return 0, psatoken.ErrMissingOptional
	}
	if *o.Timestamp < 0 {
		return 0, errors.New("negative timestamp")
	}
	return *o.Timestamp, nil
}

func (o *ExtP1Claims) Validate() error {
	if err := psatoken.ValidateClaims(o); err != nil {
		return err
	}
	// the extension's own rules: negative timestamps are malformed; two
	// values are reserved and reported through the profile-related sentinels
	// (a derived profile is free to use them for claims IT does not allow)
	if o.Timestamp != nil {
		switch *o.Timestamp {
		case extTSNotInProfile:
			return fmt.Errorf("timestamp %d: %w", *o.Timestamp, psatoken.ErrClaimNotInProfile)
		case extTSOptionalish:
			return fmt.Errorf("timestamp %d is reserved (%w is not an excuse)", *o.Timestamp, psatoken.ErrMissingOptional)
		}
	}
	return psatoken.FilterError(o.GetTimestamp())
}

func (o ExtP1Claims) MarshalCBOR() ([]byte, error) {
	if o.SwComponents != nil && o.SwComponents.IsEmpty() {
		o.SwComponents = nil
	}
	return encoding.SerializeStructToCBOR(hem, &o)
}
func (o *ExtP1Claims) UnmarshalCBOR(data []byte) error {
	return encoding.PopulateStructFromCBOR(hdm, data, o)
}
func (o ExtP1Claims) MarshalJSON() ([]byte, error) {
	if o.SwComponents != nil && o.SwComponents.IsEmpty() {
		o.SwComponents = nil
	}
	return encoding.SerializeStructToJSON(&o)
}
func (o *ExtP1Claims) UnmarshalJSON(data []byte) error {
	return encoding.PopulateStructFromJSON(data, o)
}

func newExtP1Claims() psatoken.IClaims { return newExtP1ClaimsNamed(ExtP1Name) }

func newExtP1ClaimsNamed(name string) psatoken.IClaims {
	return &ExtP1Claims{P1Claims: psatoken.P1Claims{
		Profile:          &name,
		SwComponents:     &psatoken.SwComponents[*psatoken.SwComponent]{},
		CanonicalProfile: name,
	}}
}

type extP1Profile struct{}

func (extP1Profile) GetName() string             { return ExtP1Name }
func (extP1Profile) GetClaims() psatoken.IClaims { return newExtP1Claims() }

// registerMu serialises every use of the (global) profile register by the
// harness: tests that add profiles hold it for their whole duration.
var registerMu sync.Mutex

// withExtProfiles runs fn with both extension profiles registered and
// restores the register afterwards.
func withExtProfiles(fn func()) {
	registerMu.Lock()
	defer registerMu.Unlock()
	restore := psatoken.VerifCheckpointProfiles()
	defer restore()
	if err := psatoken.RegisterProfile(extP2Profile{}); err != nil {
		panic("VERIF-INFRA: cannot register ext-on-p2: " + err.Error())
	}
	if err := psatoken.RegisterProfile(extP1Profile{}); err != nil {
		panic("VERIF-INFRA: cannot register ext-on-p1: " + err.Error())
	}
	fn()
}

// ---- a profile whose claims type carries its JSON profile member under its
// own name ("x-profile", identified by the field name Profile, no CBOR tag) ----

const OwnTagName = "http://example.com/verif/own-tag"

type OwnTagClaims struct {
	Profile string `json:"x-profile"`
	psatoken.P2Claims
}

func (o *OwnTagClaims) Validate() error { return psatoken.ValidateClaims(o) }

func (o OwnTagClaims) MarshalCBOR() ([]byte, error) { return encoding.SerializeStructToCBOR(hem, &o) }
func (o *OwnTagClaims) UnmarshalCBOR(data []byte) error {
	return encoding.PopulateStructFromCBOR(hdm, data, o)
}
func (o OwnTagClaims) MarshalJSON() ([]byte, error) { return encoding.SerializeStructToJSON(&o) }
func (o *OwnTagClaims) UnmarshalJSON(data []byte) error {
	return encoding.PopulateStructFromJSON(data, o)
}

func newOwnTagClaims() psatoken.IClaims { return newOwnTagClaimsNamed(OwnTagName) }

func newOwnTagClaimsNamed(name string) psatoken.IClaims {
	p := eat.Profile{}
	if err := p.Set(name); err != nil {
		panic(err)
	}
	return &OwnTagClaims{Profile: name, P2Claims: psatoken.P2Claims{
		Profile:          &p,
		SwComponents:     &psatoken.SwComponents[*psatoken.SwComponent]{},
		CanonicalProfile: name,
	}}
}

// ---- claims types that cannot be registered ----

// NoProfClaims has no identifiable profile field (the embedded interface is
// left nil, so there is nothing to descend into).
type NoProfClaims struct {
	psatoken.IClaims
	Extra *int64 `cbor:"-75100,keyasint,omitempty" json:"extra,omitempty"`
}

// NoJSONTagClaims has a profile field (CBOR key 265) without a json tag.
type NoJSONTagClaims struct {
	psatoken.IClaims
	Profile *string `cbor:"265,keyasint"`
}

// LookalikeKeyClaims has NO profile field, only fields whose CBOR keys merely
// start with / contain the profile keys (2650, 26, -750001) and whose names
// merely resemble "Profile".
type LookalikeKeyClaims struct {
	psatoken.IClaims
	A        *string `cbor:"2650,keyasint,omitempty" json:"a-2650,omitempty"`
	B        *string `cbor:"26,keyasint,omitempty" json:"b-26,omitempty"`
	C        *string `cbor:"-750001,keyasint,omitempty" json:"c-750001,omitempty"`
	Profiles *string `cbor:"-75100,keyasint,omitempty" json:"profiles,omitempty"`
}

// ProfileDashClaims / ProfileEmptyKeyClaims: the only field named Profile is
// bookkeeping that is NOT a CBOR claim (cbor:"-") or has a cbor tag without a
// key; there is no field keyed 265 / -75000: not a registrable claims type.
type ProfileDashClaims struct {
	psatoken.IClaims
	Profile string `cbor:"-" json:"profile"`
	Extra   *int64 `cbor:"-75100,keyasint,omitempty" json:"extra,omitempty"`
}

type ProfileEmptyKeyClaims struct {
	psatoken.IClaims
	Profile string `cbor:",omitempty" json:"profile,omitempty"`
}

// LookalikeNameClaims has NO profile field either: fields whose Go names merely
// END in / start with / contain "Profile" (DeviceProfile, ProfileVersion,
// Profiles, profile), none keyed 265 / -75000.
type LookalikeNameClaims struct {
	psatoken.IClaims
	DeviceProfile  *string `json:"device-profile,omitempty"`
	ProfileVersion *string `json:"profile-version,omitempty"`
	Profiles       *string `cbor:"-75100,keyasint,omitempty" json:"profiles,omitempty"`
	EatProfile     *string `json:"eat-profile-label,omitempty"`
}

// dynProfile: a profile of a given shape under an arbitrary name.
type dynProfile struct {
	name  string
	shape string // ext-p2 | ext-p1 | own-tag | no-profile-field | no-json-tag
}

func (d dynProfile) GetName() string { return d.name }
func (d dynProfile) GetClaims() psatoken.IClaims {
	switch d.shape {
	case "ext-p2":
		return newExtP2ClaimsNamed(d.name)
	case "ext-p1":
		return newExtP1ClaimsNamed(d.name)
	case "own-tag":
		return newOwnTagClaimsNamed(d.name)
	case "two-embedded-p2":
		return newTwoEmbClaimsNamed(d.name)
	case "label-then-p2":
		return newLabelP2ClaimsNamed(d.name)
	case "both-keys-p2":
		return newBothKeysP2ClaimsNamed(d.name)
	case "iface-on-p2":
		return &IfaceRegClaims{IClaims: newPlainNamed(P2, d.name)}
	case "iface-on-p1":
		return &IfaceRegClaims{IClaims: newPlainNamed(P1, d.name)}
	case "iface-on-nothing":
		return &IfaceRegClaims{}
	case "no-profile-field":
		return &NoProfClaims{}
	case "lookalike-keys":
		return &LookalikeKeyClaims{}
	case "lookalike-names":
		return &LookalikeNameClaims{}
	case "profile-cbor-dash":
		return &ProfileDashClaims{}
	case "profile-cbor-empty-key":
		return &ProfileEmptyKeyClaims{}
	default:
		return &NoJSONTagClaims{}
	}
}

func shapeType(shape string) string {
	switch shape {
	case "ext-p2":
		return "*checks.ExtP2Claims"
	case "ext-p1":
		return "*checks.ExtP1Claims"
	case "own-tag":
		return "*checks.OwnTagClaims"
	case "two-embedded-p2":
		return "*checks.TwoEmbClaims"
	case "label-then-p2":
		return "*checks.LabelP2Claims"
	case "both-keys-p2":
		return "*checks.BothKeysP2Claims"
	case "iface-on-p2", "iface-on-p1":
		return "*checks.IfaceRegClaims"
	case "p1":
		return "*psatoken.P1Claims"
	case "p2":
		return "*psatoken.P2Claims"
	}
	return "?"
}

type ownTagProfile struct{}

func (ownTagProfile) GetName() string             { return OwnTagName }
func (ownTagProfile) GetClaims() psatoken.IClaims { return newOwnTagClaims() }

// ---- derived profiles that inherit EVERYTHING (codec methods, getters,
// Validate) from the embedded built-in type and only set CanonicalProfile,
// as the documentation of that field suggests ----

const (
	InhP1Name = "http://vendor.example/verif/p1-derived"
	// a profile named by an OID (EAT allows both URIs and OIDs)
	InhP2OID = "1.3.6.1.4.1.4128.100.2"
)

type InheritP1Claims struct{ psatoken.P1Claims }

// ONE Go type implements both derived profiles (a parametrised IProfile, as
// a vendor with a family of profiles would write it): the name a profile
// reports, not the Go type of its implementation, identifies it.
type inheritProfile struct{ base Prof }

func (p inheritProfile) GetName() string {
	if p.base == P1 {
		return InhP1Name
	}
	return InhP2OID
}

// the profile-1 factory leaves the optional profile claim unset
func (p inheritProfile) GetClaims() psatoken.IClaims {
	if p.base == P1 {
		return &InheritP1Claims{psatoken.P1Claims{
			SwComponents:     &psatoken.SwComponents[*psatoken.SwComponent]{},
			CanonicalProfile: InhP1Name,
		}}
	}
	ep := eat.Profile{}
	if err := ep.Set(InhP2OID); err != nil {
		panic(err)
	}
	return &InheritP2Claims{psatoken.P2Claims{
		Profile:          &ep,
		SwComponents:     &psatoken.SwComponents[*psatoken.SwComponent]{},
		CanonicalProfile: InhP2OID,
	}}
}

type InheritP2Claims struct{ psatoken.P2Claims }

// ---- a claims type with TWO sibling embedded structs: a group of vendor
// claims that has no profile field, declared BEFORE the embedded profile-2
// claims that have it ----

type AuditGroup struct {
	Auditor *string `cbor:"-75200,keyasint,omitempty" json:"auditor,omitempty"`
	Audited *int64  `cbor:"-75201,keyasint,omitempty" json:"audited,omitempty"`
}

type TwoEmbClaims struct {
	AuditGroup
	psatoken.P2Claims
}

func (o TwoEmbClaims) MarshalCBOR() ([]byte, error) { return encoding.SerializeStructToCBOR(hem, &o) }
func (o *TwoEmbClaims) UnmarshalCBOR(data []byte) error {
	return encoding.PopulateStructFromCBOR(hdm, data, o)
}
func (o TwoEmbClaims) MarshalJSON() ([]byte, error) { return encoding.SerializeStructToJSON(&o) }
func (o *TwoEmbClaims) UnmarshalJSON(data []byte) error {
	return encoding.PopulateStructFromJSON(data, o)
}

func newTwoEmbClaimsNamed(name string) psatoken.IClaims {
	p := eat.Profile{}
	if err := p.Set(name); err != nil {
		panic(err)
	}
	return &TwoEmbClaims{P2Claims: psatoken.P2Claims{
		Profile:          &p,
		SwComponents:     &psatoken.SwComponents[*psatoken.SwComponent]{},
		CanonicalProfile: name,
	}}
}

// nestingProfile: a profile whose factory, on its first call (RegisterProfile
// itself calls it), registers ANOTHER profile - the "lazy dependency" idiom.
type nestingProfile struct {
	outer    dynProfile
	inner    psatoken.IProfile
	done     *bool
	innerErr *error
}

func (n nestingProfile) GetName() string { return n.outer.name }
func (n nestingProfile) GetClaims() psatoken.IClaims {
	if !*n.done {
		*n.done = true
		*n.innerErr = psatoken.RegisterProfile(n.inner)
	}
	return n.outer.GetClaims()
}

// ---- an extension whose optional claim group is embedded BY POINTER, with
// pointer-receiver codec methods ----

const PtrEmbName = "http://example.com/verif/ptr-embedded-on-p2"

type VendorGroup struct {
	Vendor *string `cbor:"-75300,keyasint" json:"vendor"`
	Batch  *int64  `cbor:"-75301,keyasint,omitempty" json:"batch,omitempty"`
}

type PtrEmbClaims struct {
	psatoken.P2Claims
	*VendorGroup
}

func (o *PtrEmbClaims) MarshalCBOR() ([]byte, error) { return encoding.SerializeStructToCBOR(hem, o) }
func (o *PtrEmbClaims) UnmarshalCBOR(data []byte) error {
	return encoding.PopulateStructFromCBOR(hdm, data, o)
}
func (o *PtrEmbClaims) MarshalJSON() ([]byte, error) { return encoding.SerializeStructToJSON(o) }
func (o *PtrEmbClaims) UnmarshalJSON(data []byte) error {
	return encoding.PopulateStructFromJSON(data, o)
}

// GetVendor: missing-optional when the whole group is absent
func (o *PtrEmbClaims) GetVendor() (string, error) {
	if o.VendorGroup == nil {
		return "", psatoken.ErrMissingOptional
	}
	if o.Vendor == nil {
		return "", psatoken.ErrMissingMandatory
	}
	return *o.Vendor, nil
}

func (o *PtrEmbClaims) Validate() error {
	if err := psatoken.ValidateClaims(o); err != nil {
		return err
	}
	return psatoken.FilterError(o.GetVendor())
}

func newPtrEmbClaims() *PtrEmbClaims {
	p := eat.Profile{}
	if err := p.Set(PtrEmbName); err != nil {
		panic(err)
	}
	return &PtrEmbClaims{P2Claims: psatoken.P2Claims{
		Profile:          &p,
		SwComponents:     &psatoken.SwComponents[*psatoken.SwComponent]{},
		CanonicalProfile: PtrEmbName,
	}}
}

// ---- an extension whose own optional claim is of a type that validates
// when it is ENCODED but not when it is decoded (eat.Nonce) ----

const NonceP2Name = "http://example.com/verif/extra-nonce-on-p2"

type NonceP2Claims struct {
	psatoken.P2Claims
	Extra *eat.Nonce `cbor:"-75400,keyasint,omitempty" json:"extra-nonce,omitempty"`
}

func (o NonceP2Claims) MarshalCBOR() ([]byte, error) { return encoding.SerializeStructToCBOR(hem, &o) }
func (o *NonceP2Claims) UnmarshalCBOR(data []byte) error {
	return encoding.PopulateStructFromCBOR(hdm, data, o)
}
func (o NonceP2Claims) MarshalJSON() ([]byte, error) { return encoding.SerializeStructToJSON(&o) }
func (o *NonceP2Claims) UnmarshalJSON(data []byte) error {
	return encoding.PopulateStructFromJSON(data, o)
}

type nonceP2Profile struct{}

func (nonceP2Profile) GetName() string { return NonceP2Name }
func (nonceP2Profile) GetClaims() psatoken.IClaims {
	p := eat.Profile{}
	if err := p.Set(NonceP2Name); err != nil {
		panic(err)
	}
	return &NonceP2Claims{P2Claims: psatoken.P2Claims{
		Profile:          &p,
		SwComponents:     &psatoken.SwComponents[*psatoken.SwComponent]{},
		CanonicalProfile: NonceP2Name,
	}}
}

// ---- a claims type with a JSON-only field that merely is NAMED Profile,
// declared before the embedded claims whose profile field carries key 265:
// the field identified by its CBOR key takes precedence ----

type LabelP2Claims struct {
	// the working claims (not walked by the embedding-aware helpers: embedded
	// by pointer; its codec methods and getters are promoted)
	*psatoken.P2Claims `cbor:"-" json:"-"`
	// the two fields the registration looks at, on the same level
	Profile    string       `json:"profile-label,omitempty"`
	EatProfile *eat.Profile `cbor:"265,keyasint" json:"eat-profile"`
}

func newLabelP2ClaimsNamed(name string) psatoken.IClaims {
	p := eat.Profile{}
	if err := p.Set(name); err != nil {
		panic(err)
	}
	return &LabelP2Claims{P2Claims: &psatoken.P2Claims{
		Profile:          &p,
		SwComponents:     &psatoken.SwComponents[*psatoken.SwComponent]{},
		CanonicalProfile: name,
	}}
}

// ---- a claims type with TWO fields carrying a profile key on the same level:
// eat_profile (265) first, then a legacy psa-profile (-75000) kept for
// back-ends that still ask for it: the FIRST one found names the JSON
// profile member ----

type BothKeysP2Claims struct {
	*psatoken.P2Claims `cbor:"-" json:"-"`
	EatProfile         *eat.Profile `cbor:"265,keyasint" json:"eat-profile"`
	LegacyProfile      *string      `cbor:"-75000,keyasint,omitempty" json:"psa-profile,omitempty"`
}

func newBothKeysP2ClaimsNamed(name string) psatoken.IClaims {
	p := eat.Profile{}
	if err := p.Set(name); err != nil {
		panic(err)
	}
	return &BothKeysP2Claims{P2Claims: &psatoken.P2Claims{
		Profile:          &p,
		SwComponents:     &psatoken.SwComponents[*psatoken.SwComponent]{},
		CanonicalProfile: name,
	}}
}

// ---- an extension whose decoder has an ordinary bug: a table lookup with an
// unchecked index taken from its own claim (values 0..2 are fine) ----

const PanickyP2Name = "http://example.com/verif/panicky-on-p2"

type PanickyP2Claims struct {
	psatoken.P2Claims
	Mode *int64 `cbor:"-75950,keyasint,omitempty" json:"mode,omitempty"`
}

var panickyModes = []string{"off", "on", "auto"}

func (o PanickyP2Claims) MarshalCBOR() ([]byte, error) {
	return encoding.SerializeStructToCBOR(hem, &o)
}
func (o *PanickyP2Claims) UnmarshalCBOR(data []byte) error {
	if err := encoding.PopulateStructFromCBOR(hdm, data, o); err != nil {
		return err
	}
	if o.Mode != nil {
		_ = panickyModes[*o.Mode] // index out of range for modes the author did not think of
	}
	return nil
}
func (o PanickyP2Claims) MarshalJSON() ([]byte, error) { return encoding.SerializeStructToJSON(&o) }
func (o *PanickyP2Claims) UnmarshalJSON(data []byte) error {
	return encoding.PopulateStructFromJSON(data, o)
}

type panickyP2Profile struct{}

func (panickyP2Profile) GetName() string { return PanickyP2Name }
func (panickyP2Profile) GetClaims() psatoken.IClaims {
	p := eat.Profile{}
	if err := p.Set(PanickyP2Name); err != nil {
		panic(err)
	}
	return &PanickyP2Claims{P2Claims: psatoken.P2Claims{
		Profile:          &p,
		SwComponents:     &psatoken.SwComponents[*psatoken.SwComponent]{},
		CanonicalProfile: PanickyP2Name,
	}}
}

// ---- an extension whose own claim has a SLOW codec of its own (a value that
// is fetched from / checked against something outside the process): calls
// that are in flight at the same time really overlap inside the library's
// struct walkers ----

const SlowP2Name = "http://example.com/verif/slow-claim-on-p2"

type SlowStamp int64

func (v SlowStamp) MarshalCBOR() ([]byte, error) {
	time.Sleep(3 * time.Millisecond)
	return hem.Marshal(int64(v))
}
func (v *SlowStamp) UnmarshalCBOR(b []byte) error {
	time.Sleep(3 * time.Millisecond)
	var x int64
	if err := hdm.Unmarshal(b, &x); err != nil {
		return err
	}
	*v = SlowStamp(x)
	return nil
}

type SlowP2Claims struct {
	psatoken.P2Claims
	Stamp *SlowStamp `cbor:"-75960,keyasint,omitempty" json:"stamp,omitempty"`
}

func (o SlowP2Claims) MarshalCBOR() ([]byte, error) { return encoding.SerializeStructToCBOR(hem, &o) }
func (o *SlowP2Claims) UnmarshalCBOR(data []byte) error {
	return encoding.PopulateStructFromCBOR(hdm, data, o)
}
func (o SlowP2Claims) MarshalJSON() ([]byte, error) { return encoding.SerializeStructToJSON(&o) }
func (o *SlowP2Claims) UnmarshalJSON(data []byte) error {
	return encoding.PopulateStructFromJSON(data, o)
}

type slowP2Profile struct{}

func (slowP2Profile) GetName() string { return SlowP2Name }
func (slowP2Profile) GetClaims() psatoken.IClaims {
	p := eat.Profile{}
	if err := p.Set(SlowP2Name); err != nil {
		panic(err)
	}
	return &SlowP2Claims{P2Claims: psatoken.P2Claims{
		Profile:          &p,
		SwComponents:     &psatoken.SwComponents[*psatoken.SwComponent]{},
		CanonicalProfile: SlowP2Name,
	}}
}

// faultyFactoryProfile: a profile whose factory returns nil or panics.
type faultyFactoryProfile struct {
	name string
	mode string
}

func (f faultyFactoryProfile) GetName() string { return f.name }
func (f faultyFactoryProfile) GetClaims() psatoken.IClaims {
	if f.mode == "panic" {
		panic("factory not initialised")
	}
	return nil
}

// ---- an extension whose own claim is kept as raw CBOR ----

const RawP2Name = "http://example.com/verif/raw-claim-on-p2"

type RawP2Claims struct {
	psatoken.P2Claims
	Blob cbor.RawMessage `cbor:"-75500,keyasint,omitempty" json:"blob,omitempty"`
	Tail *[]byte         `cbor:"-75501,keyasint,omitempty" json:"tail,omitempty"`
}

func (o RawP2Claims) MarshalCBOR() ([]byte, error) { return encoding.SerializeStructToCBOR(hem, &o) }
func (o *RawP2Claims) UnmarshalCBOR(data []byte) error {
	return encoding.PopulateStructFromCBOR(hdm, data, o)
}
func (o RawP2Claims) MarshalJSON() ([]byte, error) { return encoding.SerializeStructToJSON(&o) }
func (o *RawP2Claims) UnmarshalJSON(data []byte) error {
	return encoding.PopulateStructFromJSON(data, o)
}

type rawP2Profile struct{}

func (rawP2Profile) GetName() string { return RawP2Name }
func (rawP2Profile) GetClaims() psatoken.IClaims {
	p := eat.Profile{}
	if err := p.Set(RawP2Name); err != nil {
		panic(err)
	}
	return &RawP2Claims{P2Claims: psatoken.P2Claims{
		Profile:          &p,
		SwComponents:     &psatoken.SwComponents[*psatoken.SwComponent]{},
		CanonicalProfile: RawP2Name,
	}}
}

// ---- an IClaims implementation that is used BY VALUE (a decorator around a
// *P2Claims: the pointer methods of the embedded pointer are in the value's
// method set) ----

type ByValueClaims struct{ *psatoken.P2Claims }

// ---- a derived profile that EXCLUDES a claim which is mandatory in the base
// profile: the instance ID (getter and setter report "not in profile") ----

const NoInstIDName = "http://example.com/verif/no-instance-id-on-p2"

type NoInstIDClaims struct{ psatoken.P2Claims }

func (o *NoInstIDClaims) GetInstID() ([]byte, error) { return nil, psatoken.ErrClaimNotInProfile }
func (o *NoInstIDClaims) SetInstID([]byte) error     { return psatoken.ErrClaimNotInProfile }
func (o *NoInstIDClaims) Validate() error            { return psatoken.ValidateClaims(o) }

type noInstIDProfile struct{}

func (noInstIDProfile) GetName() string { return NoInstIDName }
func (noInstIDProfile) GetClaims() psatoken.IClaims {
	p := eat.Profile{}
	if err := p.Set(NoInstIDName); err != nil {
		panic(err)
	}
	return &NoInstIDClaims{psatoken.P2Claims{
		Profile:          &p,
		SwComponents:     &psatoken.SwComponents[*psatoken.SwComponent]{},
		CanonicalProfile: NoInstIDName,
	}}
}

// ---- a derived profile that does not allow software components: the
// factory leaves the container nil, getter and setter report "not in
// profile" (the claims-set is valid without them) ----

const NoSwP2Name = "http://example.com/verif/no-sw-components-on-p2"

type NoSwP2Claims struct{ psatoken.P2Claims }

func (o *NoSwP2Claims) GetSoftwareComponents() ([]psatoken.ISwComponent, error) {
	return nil, psatoken.ErrClaimNotInProfile
}
func (o *NoSwP2Claims) SetSoftwareComponents([]psatoken.ISwComponent) error {
	return psatoken.ErrClaimNotInProfile
}
func (o *NoSwP2Claims) Validate() error { return psatoken.ValidateClaims(o) }

func (o NoSwP2Claims) MarshalCBOR() ([]byte, error) { return encoding.SerializeStructToCBOR(hem, &o) }
func (o *NoSwP2Claims) UnmarshalCBOR(data []byte) error {
	return encoding.PopulateStructFromCBOR(hdm, data, o)
}
func (o NoSwP2Claims) MarshalJSON() ([]byte, error) { return encoding.SerializeStructToJSON(&o) }
func (o *NoSwP2Claims) UnmarshalJSON(data []byte) error {
	return encoding.PopulateStructFromJSON(data, o)
}

type noSwP2Profile struct{}

func (noSwP2Profile) GetName() string { return NoSwP2Name }
func (noSwP2Profile) GetClaims() psatoken.IClaims {
	p := eat.Profile{}
	if err := p.Set(NoSwP2Name); err != nil {
		panic(err)
	}
	return &NoSwP2Claims{psatoken.P2Claims{Profile: &p, CanonicalProfile: NoSwP2Name}}
}

// ---- an extension whose tokens carry a NESTED token (a sub-module's
// claims-set as a byte string) which its decoder decodes and checks with the
// library's own dispatching decoder, after a short pause (I/O, logging ...) ----

const NestingP2Name = "http://example.com/verif/nesting-on-p2"

type NestingP2Claims struct {
	psatoken.P2Claims
	Inner    *[]byte          `cbor:"-75600,keyasint,omitempty" json:"inner,omitempty"`
	InnerSet psatoken.IClaims `cbor:"-" json:"-"`
}

func (o NestingP2Claims) MarshalCBOR() ([]byte, error) {
	return encoding.SerializeStructToCBOR(hem, &o)
}
func (o *NestingP2Claims) UnmarshalCBOR(data []byte) error {
	if err := encoding.PopulateStructFromCBOR(hdm, data, o); err != nil {
		return err
	}
	if o.Inner != nil {
		time.Sleep(2 * time.Millisecond)
		in, err := psatoken.DecodeClaimsFromCBOR(*o.Inner)
		if err != nil {
			return fmt.Errorf("nested token: %w", err)
		}
		o.InnerSet = in
	}
	return nil
}
func (o NestingP2Claims) MarshalJSON() ([]byte, error) { return encoding.SerializeStructToJSON(&o) }
func (o *NestingP2Claims) UnmarshalJSON(data []byte) error {
	return encoding.PopulateStructFromJSON(data, o)
}

type nestingP2Profile struct{}

func (nestingP2Profile) GetName() string { return NestingP2Name }
func (nestingP2Profile) GetClaims() psatoken.IClaims {
	p := eat.Profile{}
	if err := p.Set(NestingP2Name); err != nil {
		panic(err)
	}
	return &NestingP2Claims{P2Claims: psatoken.P2Claims{
		Profile:          &p,
		SwComponents:     &psatoken.SwComponents[*psatoken.SwComponent]{},
		CanonicalProfile: NestingP2Name,
	}}
}

// ---- an extension whose MarshalJSON writes through a json.Encoder with
// indentation and without HTML escaping: valid JSON that is NOT in the form
// json.Marshal normalises marshaler output to (compact, escaped, no newline) ----

const SloppyP2Name = "http://example.com/verif/sloppy-json-on-p2"

type SloppyJSONClaims struct{ psatoken.P2Claims }

func (o *SloppyJSONClaims) Validate() error { return psatoken.ValidateClaims(o) }

func (o SloppyJSONClaims) MarshalJSON() ([]byte, error) {
	inner, err := json.Marshal(&o.P2Claims)
	if err != nil {
		return nil, err
	}
	var v map[string]any
	if err := json.Unmarshal(inner, &v); err != nil {
		return nil, err
	}
	var buf bytes.Buffer
	enc := json.NewEncoder(&buf)
	enc.SetEscapeHTML(false)
	enc.SetIndent("", "  ")
	if err := enc.Encode(v); err != nil {
		return nil, err
	}
	return buf.Bytes(), nil
}

func newSloppyJSONClaims() *SloppyJSONClaims {
	p := eat.Profile{}
	if err := p.Set(SloppyP2Name); err != nil {
		panic(err)
	}
	return &SloppyJSONClaims{psatoken.P2Claims{
		Profile:          &p,
		SwComponents:     &psatoken.SwComponents[*psatoken.SwComponent]{},
		CanonicalProfile: SloppyP2Name,
	}}
}

// ---- an extension with claims of the richer types generic EAT / CWT claims
// have: a time (encoded with tag 1), a free-form value, a free-form map ----

const RichP2Name = "http://example.com/verif/rich-types-on-p2"

type RichP2Claims struct {
	psatoken.P2Claims
	IssuedAt *time.Time     `cbor:"6,keyasint,omitempty" json:"iat,omitempty"`
	Submods  map[string]any `cbor:"266,keyasint,omitempty" json:"submods,omitempty"`
	Free     any            `cbor:"-75800,keyasint,omitempty" json:"free,omitempty"`
}

func (o RichP2Claims) MarshalCBOR() ([]byte, error) { return encoding.SerializeStructToCBOR(hem, &o) }
func (o *RichP2Claims) UnmarshalCBOR(data []byte) error {
	return encoding.PopulateStructFromCBOR(hdm, data, o)
}
func (o RichP2Claims) MarshalJSON() ([]byte, error) { return encoding.SerializeStructToJSON(&o) }
func (o *RichP2Claims) UnmarshalJSON(data []byte) error {
	return encoding.PopulateStructFromJSON(data, o)
}

type richP2Profile struct{}

func (richP2Profile) GetName() string { return RichP2Name }
func (richP2Profile) GetClaims() psatoken.IClaims {
	p := eat.Profile{}
	if err := p.Set(RichP2Name); err != nil {
		panic(err)
	}
	return &RichP2Claims{P2Claims: psatoken.P2Claims{
		Profile:          &p,
		SwComponents:     &psatoken.SwComponents[*psatoken.SwComponent]{},
		CanonicalProfile: RichP2Name,
	}}
}

// ---- a STAND-ALONE claims type (no embedding, no codec methods of its own:
// the library's own CBOR / JSON modes encode and decode it by reflection): a
// profile that carries none of the PSA claims, only eat_profile, a time, a
// free-form value and a free-form map ----

const FreeFormName = "http://example.com/verif/free-form"

type FreeFormClaims struct {
	EatProfile *eat.Profile   `cbor:"265,keyasint" json:"eat-profile"`
	IssuedAt   *time.Time     `cbor:"6,keyasint,omitempty" json:"iat,omitempty"`
	Submods    map[string]any `cbor:"266,keyasint,omitempty" json:"submods,omitempty"`
	Free       any            `cbor:"-75800,keyasint,omitempty" json:"free,omitempty"`
}

func (o *FreeFormClaims) Validate() error { return psatoken.ValidateClaims(o) }
func (o *FreeFormClaims) GetProfile() (string, error) {
	if o.EatProfile == nil {
		return "", psatoken.ErrMissingMandatory
	}
	p, err := o.EatProfile.Get()
	if err != nil {
		return "", err
	}
	if p != FreeFormName {
		return "", fmt.Errorf("%w: %q", psatoken.ErrWrongProfile, p)
	}
	return p, nil
}
func (o *FreeFormClaims) GetClientID() (int32, error) { return 0, psatoken.ErrClaimNotInProfile }
func (o *FreeFormClaims) GetSecurityLifeCycle() (uint16, error) {
	return 0, psatoken.ErrClaimNotInProfile
}
func (o *FreeFormClaims) GetImplID() ([]byte, error)   { return nil, psatoken.ErrClaimNotInProfile }
func (o *FreeFormClaims) GetBootSeed() ([]byte, error) { return nil, psatoken.ErrClaimNotInProfile }
func (o *FreeFormClaims) GetCertificationReference() (string, error) {
	return "", psatoken.ErrClaimNotInProfile
}
func (o *FreeFormClaims) GetSoftwareComponents() ([]psatoken.ISwComponent, error) {
	return nil, psatoken.ErrClaimNotInProfile
}
func (o *FreeFormClaims) GetNonce() ([]byte, error)  { return nil, psatoken.ErrClaimNotInProfile }
func (o *FreeFormClaims) GetInstID() ([]byte, error) { return nil, psatoken.ErrClaimNotInProfile }
func (o *FreeFormClaims) GetVSI() (string, error)    { return "", psatoken.ErrClaimNotInProfile }

func (o *FreeFormClaims) SetClientID(int32) error           { return psatoken.ErrClaimNotInProfile }
func (o *FreeFormClaims) SetSecurityLifeCycle(uint16) error { return psatoken.ErrClaimNotInProfile }
func (o *FreeFormClaims) SetImplID([]byte) error            { return psatoken.ErrClaimNotInProfile }
func (o *FreeFormClaims) SetBootSeed([]byte) error          { return psatoken.ErrClaimNotInProfile }
func (o *FreeFormClaims) SetCertificationReference(string) error {
	return psatoken.ErrClaimNotInProfile
}
func (o *FreeFormClaims) SetSoftwareComponents([]psatoken.ISwComponent) error {
	return psatoken.ErrClaimNotInProfile
}
func (o *FreeFormClaims) SetNonce([]byte) error  { return psatoken.ErrClaimNotInProfile }
func (o *FreeFormClaims) SetInstID([]byte) error { return psatoken.ErrClaimNotInProfile }
func (o *FreeFormClaims) SetVSI(string) error    { return psatoken.ErrClaimNotInProfile }

type freeFormProfile struct{}

func (freeFormProfile) GetName() string { return FreeFormName }
func (freeFormProfile) GetClaims() psatoken.IClaims {
	p := eat.Profile{}
	if err := p.Set(FreeFormName); err != nil {
		panic(err)
	}
	return &FreeFormClaims{EatProfile: &p}
}

// ---- a profile-1 derived extension whose codec methods have POINTER
// receivers (the claims object itself reaches the embedding-aware helpers) ----

const PtrRecvP1Name = "PSA_IOT_PROFILE_1_VERIF_PTRRECV"

type PtrRecvP1Claims struct {
	psatoken.P1Claims
	Extra *int64 `cbor:"-75100,keyasint,omitempty" json:"extra,omitempty"`
}

func (o *PtrRecvP1Claims) MarshalCBOR() ([]byte, error) {
	return encoding.SerializeStructToCBOR(hem, o)
}
func (o *PtrRecvP1Claims) UnmarshalCBOR(data []byte) error {
	return encoding.PopulateStructFromCBOR(hdm, data, o)
}
func (o *PtrRecvP1Claims) MarshalJSON() ([]byte, error) { return encoding.SerializeStructToJSON(o) }
func (o *PtrRecvP1Claims) UnmarshalJSON(data []byte) error {
	return encoding.PopulateStructFromJSON(data, o)
}

// ---- a profile-independent add-on that embeds the base claims through the
// INTERFACE (so one outer Go type sits on top of claims-sets of either
// profile in the same process) and adds one optional claim of its own ----

type IfaceWrapClaims struct {
	psatoken.IClaims
	Stamp *int64 `cbor:"-75700,keyasint,omitempty" json:"stamp,omitempty"`
}

func (o IfaceWrapClaims) MarshalCBOR() ([]byte, error) { return encoding.SerializeStructToCBOR(hem, &o) }
func (o IfaceWrapClaims) MarshalJSON() ([]byte, error) { return encoding.SerializeStructToJSON(&o) }


// ---- ONE registrable claims type that reaches its profile field through an
// embedded INTERFACE: which JSON member declares the profile depends on the
// VALUE the factory plugs in (a profile-1 or a profile-2 claims-set under the
// profile's own name), not on the Go type; with nothing plugged in there is no
// identifiable profile field ----

type IfaceRegClaims struct {
	psatoken.IClaims
	Stamp *int64 `cbor:"-75701,keyasint,omitempty" json:"stamp-2,omitempty"`
}

func (o IfaceRegClaims) MarshalCBOR() ([]byte, error) { return encoding.SerializeStructToCBOR(hem, &o) }
func (o *IfaceRegClaims) UnmarshalCBOR(data []byte) error {
	return encoding.PopulateStructFromCBOR(hdm, data, o)
}
func (o IfaceRegClaims) MarshalJSON() ([]byte, error) { return encoding.SerializeStructToJSON(&o) }
func (o *IfaceRegClaims) UnmarshalJSON(data []byte) error {
	return encoding.PopulateStructFromJSON(data, o)
}

// newPlainNamed: a built-in claims-set of profile p set up for the name of a
// derived profile.
func newPlainNamed(p Prof, name string) psatoken.IClaims {
	if p == P1 {
		return &psatoken.P1Claims{Profile: &name, SwComponents: &psatoken.SwComponents[*psatoken.SwComponent]{}, CanonicalProfile: name}
	}
	ep := eat.Profile{}
	if err := ep.Set(name); err != nil {
		panic(err)
	}
	return &psatoken.P2Claims{Profile: &ep, SwComponents: &psatoken.SwComponents[*psatoken.SwComponent]{}, CanonicalProfile: name}
}
