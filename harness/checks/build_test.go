package checks

// Realising model values as (i) struct literals through the exported fields,
// (ii) setter sequences, (iii) wire maps built with the independent encoder.

import (
	"fmt"
	"reflect"
	"unsafe"

	"github.com/veraison/eat"
	"github.com/veraison/psatoken"

	"verifharness/icbor"
)

// Wire keys.
var p1Keys = map[Claim]int64{
	CProfile: -75000, CClientID: -75001, CLifecycle: -75002, CImplID: -75003, CBootSeed: -75004,
	CCertRef: -75005, CSwComps: -75006, CNonce: -75008, CInstID: -75009, CVSI: -75010,
}

const p1NoMeasKey int64 = -75007

var p2Keys = map[Claim]int64{
	CProfile: 265, CClientID: 2394, CLifecycle: 2395, CImplID: 2396, CBootSeed: 2397,
	CCertRef: 2398, CSwComps: 2399, CNonce: 10, CInstID: 256, CVSI: 2400,
}

func wireKey(p Prof, c Claim) int64 {
	if p == P1 {
		return p1Keys[c]
	}
	return p2Keys[c]
}

// Declaration order of the claims in each profile's struct (= emission order).
var p1Order = []Claim{CProfile, CClientID, CLifecycle, CImplID, CBootSeed, CCertRef, CSwComps, CNonce /* after no-meas */, CInstID, CVSI}
var p2Order = []Claim{CProfile, CClientID, CLifecycle, CImplID, CBootSeed, CCertRef, CSwComps, CNonce, CInstID, CVSI}

func compNode(c *MComp) *icbor.Node {
	if c == nil || c.NilEntry {
		return icbor.Null()
	}
	var ps [][2]*icbor.Node
	if c.Type != nil {
		ps = append(ps, icbor.P(icbor.U(1), icbor.Tstr(*c.Type)))
	}
	if c.Value != nil {
		ps = append(ps, icbor.P(icbor.U(2), icbor.Bstr(*c.Value)))
	}
	if c.Version != nil {
		ps = append(ps, icbor.P(icbor.U(4), icbor.Tstr(*c.Version)))
	}
	if c.Signer != nil {
		ps = append(ps, icbor.P(icbor.U(5), icbor.Bstr(*c.Signer)))
	}
	if c.Desc != nil {
		ps = append(ps, icbor.P(icbor.U(6), icbor.Tstr(*c.Desc)))
	}
	return icbor.Map(ps...)
}

func compsNode(cs []*MComp) *icbor.Node {
	items := []*icbor.Node{}
	for _, c := range cs {
		items = append(items, compNode(c))
	}
	return icbor.Arr(items...)
}

// WirePairs is the profile's wire form of the model value: exactly the keys
// for the claims that are set, in declaration order, absent claims omitted.
// For P1 an empty component list is omitted (that is the profile's format).
func (m *MClaims) WirePairs() [][2]*icbor.Node {
	var ps [][2]*icbor.Node
	add := func(k int64, v *icbor.Node) { ps = append(ps, icbor.P(icbor.I(k), v)) }
	k := func(c Claim) int64 { return wireKey(m.Prof, c) }
	if m.Profile != nil {
		add(k(CProfile), icbor.Tstr(*m.Profile))
	}
	if m.ClientID != nil {
		add(k(CClientID), icbor.I(int64(*m.ClientID)))
	}
	if m.Lifecycle != nil {
		add(k(CLifecycle), icbor.U(uint64(*m.Lifecycle)))
	}
	if m.ImplID != nil {
		add(k(CImplID), icbor.Bstr(*m.ImplID))
	}
	if m.BootSeed != nil {
		add(k(CBootSeed), icbor.Bstr(*m.BootSeed))
	}
	if m.CertRef != nil {
		add(k(CCertRef), icbor.Tstr(*m.CertRef))
	}
	if m.Prof == P1 {
		if !m.CompsNil && len(m.Comps) > 0 {
			add(k(CSwComps), compsNode(m.Comps))
		}
		if m.NoMeas != nil {
			add(p1NoMeasKey, icbor.U(*m.NoMeas))
		}
	} else if !m.CompsNil {
		add(k(CSwComps), compsNode(m.Comps))
	}
	if m.Nonces != nil {
		ns := *m.Nonces
		if len(ns) == 1 && ns[0] != nil {
			add(k(CNonce), icbor.Bstr(ns[0]))
		} else {
			var items []*icbor.Node
			for _, n := range ns {
				items = append(items, nonceItem(n))
			}
			add(k(CNonce), icbor.Arr(items...))
		}
	}
	if m.InstID != nil {
		add(k(CInstID), icbor.Bstr(*m.InstID))
	}
	if m.VSI != nil {
		add(k(CVSI), icbor.Tstr(*m.VSI))
	}
	return ps
}

func (m *MClaims) WireNode() *icbor.Node { return icbor.Map(m.WirePairs()...) }
func (m *MClaims) WireBytes() []byte     { return icbor.Encode(m.WireNode()) }

// ---- struct literal route ----

type swContainer = psatoken.SwComponents[*psatoken.SwComponent]

func libComp(c *MComp) *psatoken.SwComponent {
	if c == nil || c.NilEntry {
		return nil
	}
	return &psatoken.SwComponent{
		MeasurementType:  clonePtr(c.Type),
		MeasurementValue: cloneBytesPtr(c.Value),
		Version:          clonePtr(c.Version),
		SignerID:         cloneBytesPtr(c.Signer),
		MeasurementDesc:  clonePtr(c.Desc),
	}
}

// newContainer builds a component container holding exactly the given
// components WITHOUT running them through the library's validating
// Add/Replace: the unexported slice is written through reflect+unsafe. If the
// field layout ever changes, it falls back to the container's own CBOR
// decoder (which does not validate either).
func newContainer(cs []*MComp) *swContainer {
	sc := &swContainer{}
	vals := make([]*psatoken.SwComponent, len(cs))
	for i, c := range cs {
		vals[i] = libComp(c)
	}
	if len(cs) == 0 {
		return sc
	}
	f := reflect.ValueOf(sc).Elem().FieldByName("values")
	if f.IsValid() && f.Type() == reflect.TypeOf(vals) {
		reflect.NewAt(f.Type(), unsafe.Pointer(f.UnsafeAddr())).Elem().Set(reflect.ValueOf(vals))
		return sc
	}
	if err := sc.UnmarshalCBOR(icbor.Encode(compsNode(cs))); err != nil {
		panic("VERIF-INFRA: cannot construct component container: " + err.Error())
	}
	return sc
}

// containerValues reads the unexported slice (for fingerprints); nil if the
// layout changed.
func containerValues(sc *swContainer) ([]*psatoken.SwComponent, bool) {
	if sc == nil {
		return nil, true
	}
	f := reflect.ValueOf(sc).Elem().FieldByName("values")
	if !f.IsValid() || f.Type() != reflect.TypeOf([]*psatoken.SwComponent(nil)) {
		return nil, false
	}
	v := reflect.NewAt(f.Type(), unsafe.Pointer(f.UnsafeAddr())).Elem().Interface().([]*psatoken.SwComponent)
	return v, true
}

// nonceItem: one entry of a multi-entry nonce claim; a nil slice stands for
// a CBOR null entry (an empty non-nil slice for h”).
func nonceItem(x []byte) *icbor.Node {
	if x == nil {
		return icbor.Null()
	}
	return icbor.Bstr(x)
}

func eatNonce(ns [][]byte) *eat.Nonce {
	n := eat.Nonce{}
	var node *icbor.Node
	if len(ns) == 0 {
		return &n
	}
	if len(ns) == 1 && ns[0] != nil {
		node = icbor.Bstr(ns[0])
	} else {
		var items []*icbor.Node
		for _, x := range ns {
			items = append(items, nonceItem(x))
		}
		node = icbor.Arr(items...)
	}
	// eat.Nonce's own decoder is the only way to obtain out-of-range sizes.
	if err := n.UnmarshalCBOR(icbor.Encode(node)); err != nil {
		panic("VERIF-INFRA: cannot construct eat.Nonce: " + err.Error())
	}
	return &n
}

// BuildLiteral realises the model value through the exported struct fields.
// ok=false if the value is not representable that way (P2 profile strings
// that eat.Profile cannot hold).
func (m *MClaims) BuildLiteral() (psatoken.IClaims, bool) {
	var comps psatoken.ISwComponents
	if !m.CompsNil {
		comps = newContainer(m.Comps)
	}
	if m.Prof == P1 {
		c := &psatoken.P1Claims{
			Profile:                clonePtr(m.Profile),
			ImplID:                 cloneBytesPtr(m.ImplID),
			BootSeed:               cloneBytesPtr(m.BootSeed),
			CertificationReference: clonePtr(m.CertRef),
			SwComponents:           comps,
			InstID:                 cloneBytesPtr(m.InstID),
			VSI:                    clonePtr(m.VSI),
			CanonicalProfile:       P1Name,
		}
		setIntField(c, "ClientID", m.ClientID != nil, int64(deref32(m.ClientID)))
		setIntField(c, "SecurityLifeCycle", m.Lifecycle != nil, int64(deref16(m.Lifecycle)))
		if m.ZeroCanon {
			c.CanonicalProfile = ""
		}
		setIntField(c, "NoSwMeasurements", m.NoMeas != nil, int64(derefU64(m.NoMeas)))
		if m.Nonces != nil {
			if len(*m.Nonces) != 1 {
				return nil, false
			}
			setNonceField(c, (*m.Nonces)[0])
		}
		return c, true
	}
	c := &psatoken.P2Claims{
		ImplID:                 cloneBytesPtr(m.ImplID),
		BootSeed:               cloneBytesPtr(m.BootSeed),
		CertificationReference: clonePtr(m.CertRef),
		SwComponents:           comps,
		VSI:                    clonePtr(m.VSI),
		CanonicalProfile:       P2Name,
	}
	setIntField(c, "ClientID", m.ClientID != nil, int64(deref32(m.ClientID)))
	setIntField(c, "SecurityLifeCycle", m.Lifecycle != nil, int64(deref16(m.Lifecycle)))
	if m.ZeroCanon {
		c.CanonicalProfile = ""
	}
	if m.Profile != nil {
		p := eat.Profile{}
		if err := p.Set(*m.Profile); err != nil {
			return nil, false
		}
		if s, err := p.Get(); err != nil || s != *m.Profile {
			return nil, false // not faithfully representable
		}
		c.Profile = &p
	}
	if m.Nonces != nil {
		c.Nonce = eatNonce(*m.Nonces)
	}
	if m.InstID != nil {
		u := eat.UEID(append([]byte{}, (*m.InstID)...))
		c.InstID = &u
	}
	return c, true
}

// ---- setter route (valid values only) ----

func libComps(cs []*MComp) []psatoken.ISwComponent {
	r := make([]psatoken.ISwComponent, 0, len(cs))
	for _, c := range cs {
		r = append(r, libComp(c))
	}
	return r
}

// BuildSetters realises a VALID model value through NewClaims + setters.
// P1 sets without an explicit profile claim cannot be built this way through
// the public constructor (NewClaims always includes it); the profile pointer
// is then cleared through the exported field.
func (m *MClaims) BuildSetters() (psatoken.IClaims, error) {
	c, err := psatoken.NewClaims(m.Prof.Name())
	if err != nil {
		return nil, err
	}
	return c, m.applySetters(c)
}

// BuildSettersAfter realises m through the setters on an object on which an
// EARLIER valid value (prev, same profile) was set first: every claim is set
// twice, usually with different lengths / texts; only claims m also has are
// taken from prev, so the final content is exactly m.
func (m *MClaims) BuildSettersAfter(prev *MClaims) (psatoken.IClaims, error) {
	c, err := psatoken.NewClaims(m.Prof.Name())
	if err != nil {
		return nil, err
	}
	pm := prev.Clone()
	if m.BootSeed == nil {
		pm.BootSeed = nil
	}
	if m.CertRef == nil {
		pm.CertRef = nil
	}
	if m.VSI == nil {
		pm.VSI = nil
	}
	if m.Prof == P2 && len(pm.Comps) == 0 {
		pm.Comps = m.Comps
	}
	pm.Profile = sp(m.Prof.Name())
	if err := pm.applySetters(c); err != nil {
		return nil, fmt.Errorf("earlier value: %w", err)
	}
	return c, m.applySetters(c)
}

func (m *MClaims) applySetters(c psatoken.IClaims) error {
	steps := []func() error{
		func() error { return c.SetClientID(*m.ClientID) },
		func() error { return c.SetSecurityLifeCycle(*m.Lifecycle) },
		func() error { return c.SetImplID(append([]byte{}, (*m.ImplID)...)) },
		func() error {
			if m.BootSeed == nil {
				return nil
			}
			return c.SetBootSeed(append([]byte{}, (*m.BootSeed)...))
		},
		func() error {
			if m.CertRef == nil {
				return nil
			}
			return c.SetCertificationReference(*m.CertRef)
		},
		func() error {
			if len(m.Comps) == 0 {
				if m.Prof == P1 {
					return c.SetSoftwareComponents(nil)
				}
				return fmt.Errorf("model: P2 without components is not valid")
			}
			return c.SetSoftwareComponents(libComps(m.Comps))
		},
		func() error { return c.SetNonce(append([]byte{}, (*m.Nonces)[0]...)) },
		func() error { return c.SetInstID(append([]byte{}, (*m.InstID)...)) },
		func() error {
			if m.VSI == nil {
				return nil
			}
			return c.SetVSI(*m.VSI)
		},
	}
	for i, s := range steps {
		if err := s(); err != nil {
			return fmt.Errorf("setter step %d: %w", i, err)
		}
	}
	if m.Prof == P1 && m.Profile == nil {
		c.(*psatoken.P1Claims).Profile = nil
	}
	return nil
}

func derefU64(p *uint64) uint64 {
	if p == nil {
		return 0
	}
	return *p
}
func deref32(p *int32) int32 {
	if p == nil {
		return 0
	}
	return *p
}
func deref16(p *uint16) uint16 {
	if p == nil {
		return 0
	}
	return *p
}

// setIntField sets the exported pointer-to-integer field name of *obj through
// reflection, whatever integer width the library declares it with (so that
// the harness still builds if a field is widened).
// setNonceField assigns the profile-1 nonce through reflection, so that the
// harness still builds (and judges) a tree in which the field's Go type was
// changed to the container profile 2 uses.
func setNonceField(obj any, v []byte) {
	f := reflect.ValueOf(obj).Elem().FieldByName("Nonce")
	if !f.IsValid() || f.Kind() != reflect.Pointer {
		panic("VERIF-INFRA: no pointer field Nonce")
	}
	switch f.Type() {
	case reflect.TypeOf((*[]byte)(nil)):
		f.Set(reflect.ValueOf(bp(append([]byte{}, v...))))
	case reflect.TypeOf((*eat.Nonce)(nil)):
		f.Set(reflect.ValueOf(eatNonce([][]byte{v})))
	default:
		panic("VERIF-INFRA: field Nonce has an unexpected type " + f.Type().String())
	}
}

func setIntField(obj any, name string, present bool, v int64) {
	f := reflect.ValueOf(obj).Elem().FieldByName(name)
	if !f.IsValid() || f.Kind() != reflect.Pointer {
		panic("VERIF-INFRA: no pointer field " + name)
	}
	if !present {
		f.Set(reflect.Zero(f.Type()))
		return
	}
	e := reflect.New(f.Type().Elem())
	switch e.Elem().Kind() {
	case reflect.Int, reflect.Int8, reflect.Int16, reflect.Int32, reflect.Int64:
		e.Elem().SetInt(v)
	case reflect.Uint, reflect.Uint8, reflect.Uint16, reflect.Uint32, reflect.Uint64:
		e.Elem().SetUint(uint64(v))
	default:
		panic("VERIF-INFRA: field " + name + " is not an integer pointer")
	}
	f.Set(e)
}
