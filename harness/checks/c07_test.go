package checks

// C07 — decoding dispatches on the declared profile, defaulting to profile 1.

import (
	"fmt"
	"sort"
	"strconv"
	"strings"
	"testing"

	"github.com/veraison/psatoken"
	"pgregory.net/rapid"

	"verifharness/icbor"
	"verifharness/icose"
)

type regProf struct {
	Name string
	Base Prof
	Tag  string // JSON member carrying the profile
	Type string
	Impl psatoken.IProfile
}

var builtinProfs = []regProf{
	{P1Name, P1, "psa-profile", "*psatoken.P1Claims", nil},
	{P2Name, P2, "eat-profile", "*psatoken.P2Claims", nil},
}

var extraProfs = []regProf{
	{ExtP2Name, P2, "eat-profile", "*checks.ExtP2Claims", extP2Profile{}},
	{ExtP1Name, P1, "psa-profile", "*checks.ExtP1Claims", extP1Profile{}},
	{OwnTagName, P2, "x-profile", "*checks.OwnTagClaims", ownTagProfile{}},
	// derived profiles that inherit everything and only set CanonicalProfile:
	// one on profile 1 named by a URI (in CBOR it is declared under key 265,
	// with or without -75000), one on profile 2 named by an OID
	{InhP1Name, P1, "psa-profile", "*checks.InheritP1Claims", inheritProfile{P1}},
	{InhP2OID, P2, "eat-profile", "*checks.InheritP2Claims", inheritProfile{P2}},
	// own claims under keys that merely start with the digits of the profile keys
	{RegionP2Name, P2, "eat-profile", "*checks.RegionP2Claims", regionP2Profile{}},
}

var c07Names = []string{P1Name, P2Name, ExtP2Name, ExtP1Name, OwnTagName, InhP1Name, InhP2OID, RegionP2Name, "1.3.6.1.4.1.4128.100.3", "http://example.com/unknown", "PSA_IOT_PROFILE_2", "psa_iot_profile_1", "http://arm.com/psa/2.0.0/", "http://ARM.com/psa/2.0.0", "1.2.3.4",
	// spellings that URL / string normalisation would map onto a registered name
	"HTTP://arm.com/psa/2.0.0", "http://arm.com/psa/2.0.0#", "http://arm.com/psa/2.0.0?", "http://arm.com:80/psa/2.0.0", "http://arm.com/psa/./2.0.0",
	"http://arm.com/psa/2.0.0 ", " http://arm.com/psa/2.0.0", "http://arm.com/psa/2.0.0\x00", "http://arm.com/psa/2%2E0.0", "PSA_IOT_PROFILE_1 ", "PSA_IOT_PROFILE_1\n",
	"HTTP://example.com/verif/ext-on-p2", "http://example.com/verif/ext-on-p2#"}

type slotVal struct {
	Kind string `json:"kind"` // absent | null | undefined | empty | name | nontext | oid (CBOR: Name as the byte-string OID form)
	Name string `json:"name,omitempty"`
}

func (s slotVal) String() string {
	if s.Kind == "name" {
		return fmt.Sprintf("%q", s.Name)
	}
	return s.Kind
}

type c07Case struct {
	Format string   `json:"format"`
	Reg    []int    `json:"extra_profiles_registered"`
	Body   MClaims  `json:"body"`
	Other  *MClaims `json:"other_profile_body,omitempty"` // CBOR only
	S1     slotVal  `json:"psa_profile_slot"`             // -75000 / "psa-profile"
	S2     slotVal  `json:"eat_profile_slot"`             // 265 / "eat-profile"
	SX     slotVal  `json:"x_profile_slot"`               // "x-profile" (JSON only)
	// Prior (format "cose"): what the Evidence held before UnmarshalCOSE
	Prior string `json:"evidence_prior_state,omitempty"`
	// FailedReg: registrations attempted (and refused) before decoding:
	// "unknown-bad-shape" = an unregistered name with a claims type that has
	// no usable profile field; "existing" = built-in names with another type
	FailedReg []string `json:"failed_registrations,omitempty"`
	// JSON only: write the profile strings / member names with escape
	// sequences that mean the same text (\/ for /, \uXXXX for a letter)
	EscVal bool `json:"escaped_profile_values,omitempty"`
	EscKey bool `json:"escaped_member_names,omitempty"`
	// ExtTS: value of the extension's own claim (-75100 / "timestamp"); the
	// harness's extension profiles reject negative values in Validate()
	ExtTS *int64 `json:"extension_timestamp,omitempty"`
	// Extra: unknown entries added to the token, which every profile ignores:
	// 1 = an integer label, 2 = a text label (CBOR) / another member (JSON),
	// 4 = a negative label, 8 = (CBOR) a label that is neither int nor text;
	// bits may be combined
	Extra int `json:"extra_unknown_entries,omitempty"`
	// KeyW (CBOR / COSE): the label 265 written with a longer head than needed
	// (2, 4, 8 argument bytes) - the same label, spelt differently
	KeyW int `json:"key265_head_width,omitempty"`
	// EmptyName (JSON): an unknown member whose NAME is the empty string
	EmptyName string `json:"member_with_empty_name,omitempty"`
	// Empty: the claims-set with every claim absent ({} / a0)
	Empty bool `json:"every_claim_absent,omitempty"`
	// Nested (JSON): members named like the profile members, carrying
	// registered names, but NOT at the top level: inside an unknown member's
	// object, inside an array, inside the first software component
	Nested int `json:"profile_members_below_top_level,omitempty"`
	// Dup2 (JSON only): a SECOND "eat-profile" member, naming another
	// registered profile, written after the first one
	Dup2 string `json:"second_eat_profile_member,omitempty"`
}

// jsonEscapedString renders s as a JSON string using non-canonical but
// equivalent escapes.
func jsonEscapedString(s string) string {
	var sb strings.Builder
	sb.WriteByte('"')
	for i, r := range s {
		switch {
		case r == '/':
			sb.WriteString(`\/`)
		case r == '"' || r == '\\':
			sb.WriteByte('\\')
			sb.WriteRune(r)
		case r < 0x20:
			fmt.Fprintf(&sb, `\u%04x`, r)
		case i%5 == 2 && r < 0x80:
			fmt.Fprintf(&sb, `\u%04X`, r)
		default:
			sb.WriteRune(r)
		}
	}
	sb.WriteByte('"')
	return sb.String()
}

func (c *c07Case) registered() []regProf {
	r := append([]regProf{}, builtinProfs...)
	for _, i := range c.Reg {
		r = append(r, extraProfs[i])
	}
	return r
}

func findProf(rs []regProf, name string) *regProf {
	for i := range rs {
		if rs[i].Name == name {
			return &rs[i]
		}
	}
	return nil
}

// ---- token assembly ----

func slotCBOR(s slotVal) *icbor.Node {
	switch s.Kind {
	case "null":
		return icbor.Null()
	case "undefined":
		return icbor.Undef()
	case "empty":
		return icbor.Tstr("")
	case "name":
		return icbor.Tstr(s.Name)
	case "nontext":
		return icbor.U(5)
	case "oid":
		return icbor.Bstr(oidContent(s.Name))
	}
	return nil
}

// oidContent: the BER content octets of a dotted-decimal OID (what EAT puts
// into the eat_profile byte string).
func oidContent(dotted string) []byte {
	var arcs []uint64
	for _, f := range strings.Split(dotted, ".") {
		n, err := strconv.ParseUint(f, 10, 64)
		if err != nil {
			panic("VERIF-INFRA: bad OID " + dotted)
		}
		arcs = append(arcs, n)
	}
	b128 := func(n uint64) []byte {
		r := []byte{byte(n & 0x7f)}
		for n >>= 7; n > 0; n >>= 7 {
			r = append([]byte{byte(n&0x7f) | 0x80}, r...)
		}
		return r
	}
	out := b128(arcs[0]*40 + arcs[1])
	for _, a := range arcs[2:] {
		out = append(out, b128(a)...)
	}
	return out
}

func bodyPairs(m *MClaims) [][2]*icbor.Node {
	var r [][2]*icbor.Node
	pk := wireKey(m.Prof, CProfile)
	for _, p := range m.WirePairs() {
		if k, _ := p[0].Int(); k != pk {
			r = append(r, p)
		}
	}
	return r
}

func (c *c07Case) cborToken(withS2 bool) []byte {
	ps := bodyPairs(&c.Body)
	if c.Other != nil {
		ps = append(ps, bodyPairs(c.Other)...)
	}
	if n := slotCBOR(c.S1); n != nil {
		ps = append([][2]*icbor.Node{icbor.P(icbor.I(-75000), n)}, ps...)
	}
	if c.ExtTS != nil {
		ps = append(ps, icbor.P(icbor.I(-75100), icbor.I(*c.ExtTS)))
	}
	if c.Extra&1 != 0 {
		ps = append(ps, icbor.P(icbor.U(99999), icbor.Tstr("vendor")))
	}
	if c.Extra&2 != 0 {
		ps = append([][2]*icbor.Node{icbor.P(icbor.Tstr("build"), icbor.U(7))}, ps...)
	}
	if c.Extra&4 != 0 {
		ps = append(ps, icbor.P(icbor.I(-70001), icbor.Arr(icbor.U(1))))
	}
	if c.Extra&8 != 0 {
		// a label that is neither int nor text: not a claims map
		odd := []*icbor.Node{icbor.Bool(false), icbor.Null(), icbor.F64(1.5), icbor.Simple(32), icbor.Tag(1, icbor.U(0)), icbor.Undef(), icbor.Bool(true)}
		ps = append(ps, icbor.P(odd[len(ps)%len(odd)], icbor.U(1)))
	}
	if n := slotCBOR(c.S2); n != nil && withS2 {
		// in the middle: dispatch must not depend on position
		mid := len(ps) / 2
		key := icbor.U(265)
		if c.KeyW > 0 {
			key = key.WithHead(c.KeyW)
		}
		ps = append(append(append([][2]*icbor.Node{}, ps[:mid]...), icbor.P(key, n)), ps[mid:]...)
	}
	return icbor.Encode(icbor.Map(ps...))
}

func jBytes(b []byte) *jn { return jStr(b64(b)) }

// modelJN renders the body (without any profile member) as a JSON object
// using the member names of its own profile; absent claims are omitted.
func modelJN(m *MClaims) *jn {
	o := jObj()
	add := func(k string, v *jn) { o.keys = append(o.keys, k); o.vals = append(o.vals, v) }
	if m.ClientID != nil {
		add("psa-client-id", jNum(fmt.Sprint(*m.ClientID)))
	}
	if m.Lifecycle != nil {
		add("psa-security-lifecycle", jNum(fmt.Sprint(*m.Lifecycle)))
	}
	if m.ImplID != nil {
		add("psa-implementation-id", jBytes(*m.ImplID))
	}
	if m.BootSeed != nil {
		add("psa-boot-seed", jBytes(*m.BootSeed))
	}
	if m.CertRef != nil {
		if m.Prof == P1 {
			add("psa-hwver", jStr(*m.CertRef))
		} else {
			add("psa-certification-reference", jStr(*m.CertRef))
		}
	}
	if !m.CompsNil && (m.Prof == P2 || len(m.Comps) > 0) {
		a := jArr()
		for _, c := range m.Comps {
			if c == nil || c.NilEntry {
				a.items = append(a.items, jNull())
				continue
			}
			co := jObj()
			cadd := func(k string, v *jn) { co.keys = append(co.keys, k); co.vals = append(co.vals, v) }
			if c.Type != nil {
				cadd("measurement-type", jStr(*c.Type))
			}
			if c.Value != nil {
				cadd("measurement-value", jBytes(*c.Value))
			}
			if c.Version != nil {
				cadd("version", jStr(*c.Version))
			}
			if c.Signer != nil {
				cadd("signer-id", jBytes(*c.Signer))
			}
			if c.Desc != nil {
				cadd("measurement-description", jStr(*c.Desc))
			}
			a.items = append(a.items, co)
		}
		add("psa-software-components", a)
	}
	if m.NoMeas != nil && m.Prof == P1 {
		add("psa-no-software-measurements", jNum(fmt.Sprint(*m.NoMeas)))
	}
	if m.Nonces != nil {
		ns := *m.Nonces
		if len(ns) == 1 {
			add("psa-nonce", jBytes(ns[0]))
		} else {
			a := jArr()
			for _, n := range ns {
				a.items = append(a.items, jBytes(n))
			}
			add("psa-nonce", a)
		}
	}
	if m.InstID != nil {
		add("psa-instance-id", jBytes(*m.InstID))
	}
	if m.VSI != nil {
		add("psa-verification-service-indicator", jStr(*m.VSI))
	}
	return o
}

func slotJN(s slotVal) *jn {
	switch s.Kind {
	case "null":
		return jNull()
	case "empty":
		return jStr("")
	case "name":
		return jStr(s.Name)
	case "nontext":
		return jNum("5")
	}
	return nil
}

func (c *c07Case) jsonDoc(withS2 bool) []byte {
	o := modelJN(&c.Body)
	if v := slotJN(c.S1); v != nil {
		o.keys = append([]string{"psa-profile"}, o.keys...)
		o.vals = append([]*jn{v}, o.vals...)
	}
	if v := slotJN(c.S2); v != nil && withS2 {
		o.keys = append(o.keys, "eat-profile")
		o.vals = append(o.vals, v)
	}
	if v := slotJN(c.SX); v != nil {
		o.keys = append(o.keys, "x-profile")
		o.vals = append(o.vals, v)
	}
	if c.Dup2 != "" && withS2 {
		o.keys = append(o.keys, "eat-profile")
		o.vals = append(o.vals, jStr(c.Dup2))
	}
	if c.ExtTS != nil {
		o.keys = append(o.keys, "timestamp")
		o.vals = append(o.vals, jNum(fmt.Sprint(*c.ExtTS)))
	}
	if c.Extra&1 != 0 {
		o.keys, o.vals = append(o.keys, "99999"), append(o.vals, jStr("vendor"))
	}
	if c.Extra&2 != 0 {
		o.keys, o.vals = append([]string{"build"}, o.keys...), append([]*jn{jNum("7")}, o.vals...)
	}
	if c.Extra&4 != 0 {
		o.keys, o.vals = append(o.keys, "vendor-profile"), append(o.vals, jArr(jNum("1")))
	}
	if c.EmptyName != "" {
		o.keys, o.vals = append(o.keys, ""), append(o.vals, jRaw(c.EmptyName))
	}
	if c.Nested != 0 {
		inner := func() *jn {
			return jObj("eat-profile", jStr(P2Name), "psa-profile", jStr(P1Name), "x-profile", jStr(OwnTagName))
		}
		if c.Nested&1 != 0 {
			o.keys, o.vals = append([]string{"vendor"}, o.keys...), append([]*jn{inner()}, o.vals...)
		}
		if c.Nested&2 != 0 {
			o.keys, o.vals = append(o.keys, "vendor-list"), append(o.vals, jArr(inner(), jStr("eat-profile"), jStr(P2Name)))
		}
		if c.Nested&4 != 0 {
			for i, k := range o.keys {
				if k == "psa-software-components" && o.vals[i].kind == 'a' && len(o.vals[i].items) > 0 && o.vals[i].items[0].kind == 'o' {
					co := o.vals[i].items[0]
					co.keys, co.vals = append(co.keys, "eat-profile", "psa-profile"), append(co.vals, jStr(ExtP2Name), jStr(P1Name))
				}
			}
		}
	}
	if c.EscVal {
		for i, v := range o.vals {
			if v.kind == 's' && strings.HasSuffix(o.keys[i], "-profile") {
				o.vals[i] = jRaw(jsonEscapedString(v.raw))
			}
		}
	}
	doc := o.String()
	if c.EscKey {
		for _, k := range []string{"psa-profile", "eat-profile", "x-profile", "psa-nonce", "psa-client-id"} {
			doc = strings.Replace(doc, `"`+k+`":`, jsonEscapedString(k)+":", 1)
		}
	}
	return []byte(doc)
}

// ---- reference dispatcher ----

type c07Expect struct {
	Err  bool     // dispatch must fail
	Soft bool     // outcome must be an error or identical to the token without key 265
	Sel  *regProf // selected profile
	View *MClaims // the token as seen under the selected profile's rules
	// DecodeMayFail: the non-validating decoder may legitimately fail (the
	// view is invalid in a way that can surface as a decoding error)
}

func profPtr(s slotVal) *string {
	switch s.Kind {
	case "name", "oid":
		return sp(s.Name)
	case "empty":
		return sp("")
	}
	return nil
}

func viewUnder(sel *regProf, body *MClaims, profVal *string) *MClaims {
	v := &MClaims{Prof: sel.Base, Canon: sel.Name, Profile: profVal}
	if sel.Name == sel.Base.Name() {
		v.Canon = ""
	}
	if body == nil {
		return v
	}
	b := body.Clone()
	v.ClientID, v.Lifecycle, v.ImplID, v.BootSeed = b.ClientID, b.Lifecycle, b.ImplID, b.BootSeed
	v.Comps, v.CompsNil, v.Nonces, v.InstID, v.VSI = b.Comps, b.CompsNil, b.Nonces, b.InstID, b.VSI
	if body.Prof == sel.Base {
		v.CertRef, v.NoMeas = b.CertRef, b.NoMeas
	}
	if sel.Base == P2 && body.Prof == P1 && len(v.Comps) == 0 {
		// a profile-1 body without a list has no components member at all
		v.CompsNil = true
	}
	return v
}

func (c *c07Case) expect() c07Expect {
	regs := c.registered()
	if c.Format != "json" && c.Extra&8 != 0 {
		return c07Expect{Err: true}
	}
	if c.Format != "json" {
		var sel *regProf
		switch c.S2.Kind {
		case "absent":
			sel = &regs[0]
		case "name":
			if c.S2.Name == P1Name {
				return c07Expect{Soft: true}
			}
			if strings.HasPrefix(c.S2.Name, "1.3.6.") {
				// the dotted form as TEXT is not an eat_profile value (a text
				// eat_profile is an absolute URI): no profile's valid token
				return c07Expect{Err: true}
			}
			if sel = findProf(regs, c.S2.Name); sel == nil {
				return c07Expect{Err: true}
			}
		case "oid":
			// the OID as EAT encodes it (byte string): declares the profile
			// registered under the dotted form
			if sel = findProf(regs, c.S2.Name); sel == nil {
				return c07Expect{Err: true}
			}
		case "nontext":
			// eat_profile of a wrong CBOR type: not a conformant token of any
			// profile (C04), whatever else the map holds
			return c07Expect{Err: true}
		default:
			return c07Expect{Soft: true}
		}
		var body *MClaims
		if c.Body.Prof == sel.Base {
			body = &c.Body
		} else if c.Other != nil && c.Other.Prof == sel.Base {
			body = c.Other
		}
		var pv *string
		if sel.Base == P1 {
			pv = profPtr(c.S1)
		} else {
			pv = profPtr(c.S2)
		}
		return c07Expect{Sel: sel, View: viewUnder(sel, body, pv)}
	}
	slots := map[string]slotVal{"psa-profile": c.S1, "eat-profile": c.S2, "x-profile": c.SX}
	declared := false
	matched := map[string]*regProf{}
	for i := range regs {
		v := slots[regs[i].Tag]
		switch v.Kind {
		case "empty", "nontext":
			declared = true
		case "name":
			declared = true
			if v.Name == regs[i].Name {
				matched[regs[i].Name] = &regs[i]
			}
		}
	}
	var sel *regProf
	switch {
	case len(matched) > 1:
		return c07Expect{Err: true}
	case len(matched) == 1:
		for _, r := range matched {
			sel = r
		}
	case declared:
		return c07Expect{Err: true}
	default:
		sel = &regs[0]
	}
	var pv *string
	if sel.Base == P1 {
		pv = profPtr(c.S1)
	} else {
		pv = profPtr(c.S2)
	}
	return c07Expect{Sel: sel, View: viewUnder(sel, &c.Body, pv)}
}

// jsonViewDecodable: slots holding a non-text value under the selected
// type's own profile member make the typed decoding itself fail.
func (c *c07Case) viewBroken(sel *regProf) bool {
	if c.Format != "json" {
		// CBOR: a non-text psa-profile (-75000) is a wrong-typed claim of a
		// profile-1 style token; for every other profile it is an unknown key
		return sel.Base == P1 && c.S1.Kind == "nontext"
	}
	if sel.Base == P1 && c.S1.Kind == "nontext" {
		return true
	}
	if sel.Base == P2 && (c.S2.Kind == "nontext" || c.S2.Kind == "empty") {
		return true
	}
	return false
}

func c07Check(c *c07Case) string {
	var tok, tok0 []byte
	var dec, decv func([]byte) (psatoken.IClaims, error)
	if c.Format == "cbor" {
		tok, tok0 = c.cborToken(true), c.cborToken(false)
		dec, decv = psatoken.DecodeClaimsFromCBOR, psatoken.DecodeAndValidateClaimsFromCBOR
	} else if c.Format == "cose" {
		// the same token as the payload of a signed envelope, decoded by an
		// Evidence that may already hold claims of some profile
		kp := keyFor(icose.EdDSA, 0)
		wrap := func(b []byte) []byte {
			t, err := icose.SignedToken(kp.Alg, kp.Priv, b)
			if err != nil {
				panic("VERIF-INFRA: " + err.Error())
			}
			return t
		}
		tok, tok0 = wrap(c.cborToken(true)), wrap(c.cborToken(false))
		prep := func() *psatoken.Evidence {
			ev := &psatoken.Evidence{}
			switch c.Prior {
			case "decoded-p1":
				_ = ev.UnmarshalCOSE(wrap(baseValid(P1, 1).WireBytes()))
			case "decoded-p2":
				_ = ev.UnmarshalCOSE(wrap(baseValid(P2, 1).WireBytes()))
			case "setclaims-p1":
				lit, _ := baseValid(P1, 2).BuildLiteral()
				_ = ev.SetClaims(lit)
			case "setclaims-p2":
				lit, _ := baseValid(P2, 0).BuildLiteral()
				_ = ev.SetClaims(lit)
			case "failed-decode":
				_ = ev.UnmarshalCOSE(wrap(baseValid(P2, 1).WireBytes()))
				_ = ev.UnmarshalCOSE([]byte{0xd2, 0x84, 0x40})
			}
			return ev
		}
		dec = func(b []byte) (psatoken.IClaims, error) {
			ev := prep()
			if err := ev.UnmarshalCOSE(b); err != nil {
				return nil, err
			}
			return ev.Claims, nil
		}
		decv = func(b []byte) (psatoken.IClaims, error) {
			ev := prep()
			if err := ev.UnmarshalCOSE(b); err != nil {
				return nil, err
			}
			verr := ev.Claims.Validate()
			ev2, err2 := psatoken.DecodeAndValidateEvidenceFromCOSE(b)
			if (err2 == nil) != (verr == nil) {
				// report it as an acceptance so that the caller's oracle sees
				// the gate that let the token through
				if err2 == nil {
					return ev2.Claims, nil
				}
				return nil, err2
			}
			if verr != nil {
				return nil, verr
			}
			return ev.Claims, nil
		}
	} else {
		tok, tok0 = c.jsonDoc(true), c.jsonDoc(false)
		dec, decv = psatoken.DecodeClaimsFromJSON, psatoken.DecodeAndValidateClaimsFromJSON
	}
	show := func() string {
		if c.Format == "json" {
			return truncate(string(tok), 700)
		}
		return truncate(hexs(tok), 700)
	}
	ex := c.expect()
	r, err := dec(tok)
	rv, errv := decv(tok)
	if c.Format == "json" {
		// the deprecated v1 names are aliases of the two decoders
		ru, erru := psatoken.DecodeUnvalidatedJSONClaims(tok)
		rd, errd := psatoken.DecodeJSONClaims(tok)
		if (erru == nil) != (err == nil) || (errd == nil) != (errv == nil) {
			return fmt.Sprintf("the deprecated aliases disagree with the decoders they stand for: DecodeUnvalidatedJSONClaims err=%v vs DecodeClaimsFromJSON err=%v; DecodeJSONClaims err=%v vs DecodeAndValidateClaimsFromJSON err=%v\n  token: %s", erru, err, errd, errv, truncate(string(tok), 400))
		}
		if err == nil {
			if d := Observe(r).Diff(Observe(ru)); d != "" || fmt.Sprintf("%T", r) != fmt.Sprintf("%T", ru) {
				return "DecodeUnvalidatedJSONClaims decodes differently from DecodeClaimsFromJSON: " + d
			}
		}
		if errv == nil {
			if d := Observe(rv).Diff(Observe(rd)); d != "" || fmt.Sprintf("%T", rv) != fmt.Sprintf("%T", rd) {
				return "DecodeJSONClaims decodes differently from DecodeAndValidateClaimsFromJSON: " + d
			}
		}
	}
	otherTrafficEvery(8)
	if err == nil && r == nil || errv == nil && rv == nil {
		return "decoder returned neither claims nor an error"
	}
	if c.KeyW > 0 && c.Format != "json" {
		// the label 265 in a longer spelling: whether such a token is taken
		// at all is open (C04), but IF it decodes, the entry was read as
		// label 265 - the outcome is that of the shortest spelling
		if err != nil {
			return ""
		}
		cc := *c
		cc.KeyW = 0
		tokC := cc.cborToken(true)
		if c.Format == "cose" {
			kp := keyFor(icose.EdDSA, 0)
			t, serr := icose.SignedToken(kp.Alg, kp.Priv, tokC)
			if serr != nil {
				return "VERIF-INFRA: " + serr.Error()
			}
			tokC = t
		}
		rC, errC := dec(tokC)
		if errC != nil {
			return fmt.Sprintf("a token whose label 265 is written with a %d-byte argument decodes as %T, the same token with the shortest spelling of the label is refused (%v)\n  token: %s", c.KeyW, r, errC, show())
		}
		if fmt.Sprintf("%T", r) != fmt.Sprintf("%T", rC) {
			return fmt.Sprintf("a token whose label 265 is written with a %d-byte argument decodes as %T, with the shortest spelling as %T: the profile claim was not seen\n  token: %s", c.KeyW, r, rC, show())
		}
		if d := Observe(rC).Diff(Observe(r)); d != "" {
			return fmt.Sprintf("a token whose label 265 is written with a %d-byte argument decodes differently from the shortest spelling: %s\n  token: %s", c.KeyW, d, show())
		}
		if _, errvC := decv(tokC); (errvC == nil) != (errv == nil) {
			return fmt.Sprintf("decode-and-validate of a token whose label 265 is written with a %d-byte argument: %v; with the shortest spelling: %v\n  token: %s", c.KeyW, errv, errvC, show())
		}
		return ""
	}
	if errv == nil && err != nil {
		return fmt.Sprintf("decode-and-validate accepts what the plain decoder rejects (%v)\n  token: %s", err, show())
	}
	if c.Dup2 != "" {
		// the profile member occurs twice (two registered names): JSON leaves
		// open which one counts, or whether the document is refused; but IF it
		// decodes, dispatcher and claims decoder must have read the SAME one:
		// the result's type is the type registered for the profile it reports
		if err != nil {
			return ""
		}
		p, perr := r.GetProfile()
		if perr != nil {
			return fmt.Sprintf("a document whose eat-profile member occurs twice (%q, %q) decodes as %T, which then does not report a profile (%v): the dispatcher and the claims decoder read different occurrences\n  token: %s", c.S2.Name, c.Dup2, r, perr, show())
		}
		sel := findProf(c.registered(), p)
		if sel == nil || fmt.Sprintf("%T", r) != sel.Type {
			return fmt.Sprintf("a document whose eat-profile member occurs twice decodes as %T but reports profile %q", r, p)
		}
		return ""
	}
	switch {
	case ex.Err:
		if err == nil || errv == nil {
			return fmt.Sprintf("token whose profile claim matches no registered profile (or several) was decoded as %T instead of being rejected\n  slots psa-profile=%s eat-profile=%s x-profile=%s\n  token: %s", r, c.S1, c.S2, c.SX, show())
		}
		return ""
	case ex.Soft:
		if err != nil {
			return ""
		}
		r0, err0 := dec(tok0)
		if err0 != nil {
			return fmt.Sprintf("key 265 = %s turned a token that does not decode (%v) into one that decodes as %T\n  token: %s", c.S2, err0, r, show())
		}
		if d := Observe(r0).Diff(Observe(r)); d != "" {
			return fmt.Sprintf("key 265 = %s is neither rejected nor ignored: result differs from the same token without key 265: %s\n  token: %s", c.S2, d, show())
		}
		if errv == nil {
			if _, err0v := decv(tok0); err0v != nil {
				return fmt.Sprintf("key 265 = %s makes an otherwise rejected token (%v) pass decode-and-validate\n  token: %s", c.S2, err0v, show())
			}
		}
		return ""
	}
	sel, view := ex.Sel, ex.View
	valid := view.Valid() && !c.viewBroken(sel)
	if c.Empty && err != nil {
		// nothing in it can fail to decode: it is the selected profile's
		// claims-set with every claim absent (not valid, but decodable)
		return fmt.Sprintf("the claims-set with every claim absent (no profile claim: profile 1) is refused by the non-validating decoder: %v\n  token: %s", err, show())
	}
	if extRuleBroken(c.ExtTS) && (sel.Type == "*checks.ExtP2Claims" || sel.Type == "*checks.ExtP1Claims") {
		// the selected extension profile's OWN rule (beyond the ten standard
		// claims): a token is validated under the rules of the profile it declares
		valid = false
	}
	if err == nil {
		if got := fmt.Sprintf("%T", r); got != sel.Type {
			return fmt.Sprintf("token declaring %q (registered: %v) was decoded as %s, not %s\n  slots psa-profile=%s eat-profile=%s x-profile=%s\n  token: %s", sel.Name, c.Reg, got, sel.Type, c.S1, c.S2, c.SX, show())
		}
	} else if valid {
		return fmt.Sprintf("token that is valid under the profile it declares (%q) does not decode: %v\n  token: %s", sel.Name, err, show())
	}
	if (errv == nil) != valid {
		if valid {
			return fmt.Sprintf("token that is valid under the profile it declares (%q) is rejected: %v\n  view: [%s]\n  token: %s", sel.Name, errv, view.ClassVector(), show())
		}
		return fmt.Sprintf("token accepted although it is not valid under the rules of the profile it declares (%q): offending %v\n  view: [%s]\n  slots psa-profile=%s eat-profile=%s x-profile=%s\n  token: %s", sel.Name, view.Offending(), view.ClassVector(), c.S1, c.S2, c.SX, show())
	}
	if errv == nil {
		if got := fmt.Sprintf("%T", rv); got != sel.Type {
			return fmt.Sprintf("accepted token declaring %q has type %s, not %s", sel.Name, got, sel.Type)
		}
		if p, perr := rv.GetProfile(); perr != nil || p != sel.Name {
			return fmt.Sprintf("accepted token declaring %q reports profile %q (%v)", sel.Name, p, perr)
		}
		if d := checkGettersAgainstModel(rv, view, false); d != "" {
			return fmt.Sprintf("accepted token declaring %q: %s\n  token: %s", sel.Name, d, show())
		}
	}
	return ""
}

// c07NewClaims: NewClaims(p) reports p, for every registered name; unknown
// names are errors; "" is an error or profile 1.
func c07NewClaims(regs []regProf) string {
	// second pass: "NewClaims(p) reports p" whatever happened to the instances
	// handed out before - the first pass's results are changed IN PLACE through
	// everything a caller can reach (exported fields, pointees, setters)
	var made []psatoken.IClaims
	for pass := 0; pass < 2; pass++ {
		ctx := ""
		if pass == 1 {
			ctx = " (after the instances created before were modified in place by their holder)"
			for i, c := range made {
				func() {
					defer func() { _ = recover() }()
					scribbleInPlace(c, byte(i))
				}()
			}
		}
		for _, n := range c07Names {
			c, err := psatoken.NewClaims(n)
			r := findProf(regs, n)
			if r == nil {
				if err == nil {
					return fmt.Sprintf("NewClaims(%q) succeeds (%T) although the profile is not registered%s", n, c, ctx)
				}
				continue
			}
			if err != nil {
				return fmt.Sprintf("NewClaims(%q) fails although the profile is registered%s: %v", n, ctx, err)
			}
			if got := fmt.Sprintf("%T", c); got != r.Type {
				return fmt.Sprintf("NewClaims(%q) returns %s, not %s%s", n, got, r.Type, ctx)
			}
			if p, perr := c.GetProfile(); perr != nil || p != n {
				return fmt.Sprintf("NewClaims(%q).GetProfile() = %q, %v%s", n, p, perr, ctx)
			}
			if pass == 0 {
				made = append(made, c)
			}
		}
		if c, err := psatoken.NewClaims(""); err == nil {
			if fmt.Sprintf("%T", c) != "*psatoken.P1Claims" {
				return fmt.Sprintf(`NewClaims("") returns %T%s`, c, ctx)
			}
			if p, perr := c.GetProfile(); perr != nil || p != P1Name {
				return fmt.Sprintf(`NewClaims("").GetProfile() = %q, %v%s`, p, perr, ctx)
			}
			if pass == 0 {
				made = append(made, c)
			}
		}
	}
	return ""
}

func withRegistered(idx []int, fn func(), failed ...string) {
	restore := psatoken.VerifCheckpointProfiles()
	defer restore()
	for _, i := range idx {
		if err := psatoken.RegisterProfile(extraProfs[i].Impl); err != nil {
			panic("VERIF-INFRA: cannot register " + extraProfs[i].Name + ": " + err.Error())
		}
	}
	// registrations that must be refused and must not influence dispatch
	for _, f := range failed {
		switch f {
		case "unknown-bad-shape":
			_ = psatoken.RegisterProfile(dynProfile{"http://example.com/unknown", "no-json-tag"})
			_ = psatoken.RegisterProfile(dynProfile{"PSA_IOT_PROFILE_2", "no-profile-field"})
		case "existing":
			_ = psatoken.RegisterProfile(dynProfile{P2Name, "ext-p2"})
			_ = psatoken.RegisterProfile(dynProfile{P1Name, "own-tag"})
			_ = psatoken.RegisterProfile(dynProfile{"", "ext-p2"})
		}
	}
	fn()
}

var c07Kind = registerKind("c07", func(c c07Case) string {
	registerMu.Lock()
	defer registerMu.Unlock()
	var msg string
	withRegistered(c.Reg, func() {
		if msg = c07NewClaims(c.registered()); msg == "" {
			msg = c07Check(&c)
		}
	}, c.FailedReg...)
	return msg
})

func drawSlot(t *rapid.T, label string, kinds []string) slotVal {
	k := rapid.SampledFrom(kinds).Draw(t, label+".kind")
	s := slotVal{Kind: k}
	if k == "name" {
		s.Name = rapid.SampledFrom(c07Names).Draw(t, label+".name")
	}
	return s
}

func TestC07_Dispatch(t *testing.T) {
	st := NewStats("C07", "TestC07_Dispatch", "rapid: a body of profile-1 or profile-2 claims (valid, or with 1..2 rule deviations) in CBOR (independent encoder; optionally with the other profile's complete body mixed in), the same CBOR as payload of a signed COSE envelope decoded by an Evidence that is fresh or already holds claims of either profile (decoded, attached, or after a failed decode), or JSON (harness's own writer; profile strings and member names optionally written with equivalent escape sequences); tokens for the extension profiles may carry the extension's own claim with a value its Validate() rejects; optionally after registrations that must be refused (existing names, claims types without usable profile field), combined with every class of profile claim under each profile's key/member (-75000 / 265, psa-profile / eat-profile / x-profile): absent, null, undefined, empty, non-text, one of 24 names (the two built-ins, three extension names, unknown URIs, and look-alikes that case / URL / whitespace normalisation would map onto a registered name), under one key or both; with every subset of three extra profiles registered through the checkpoint hook (an extension of profile 2 sharing eat-profile, an extension of profile 1 sharing psa-profile, one with its own JSON member). Oracle: reference dispatcher (CBOR: key 265 absent -> profile 1, registered name -> that profile, other text -> error; JSON: exactly one registered name matched -> it, a present non-null profile member matching nothing or two profiles matched -> error, none present -> profile 1); result type = selected profile's; decode-and-validate succeeds iff the token is valid under THAT profile's rules (independent model, cross-read member names); accepted token reports the declared name and the wire values; NewClaims(p) reports p for every registered p and fails otherwise. Key 265 holding a non-text item: error. Key 265 holding ''/null/undefined or the profile-1 name: error or identical to the token without it. Non-trivial = profile claim not simply present-and-matching with nothing else registered; distinct = format + slots + registered set + validity class")
	st.Require = []string{"cbor", "json", "cose", "cose-used-evidence", "after-refused-registration", "json-escapes", "extra-unknown-entries", "duplicate-profile-member", "extension-own-rule-violated", "expect=error", "expect=soft", "expect=selected-valid", "expect=selected-invalid", "sel=default", "sel=extension", "reg=0", "reg>0", "both-keys", "cross-profile"}
	defer st.Flush(t)
	registerMu.Lock()
	defer registerMu.Unlock()
	rapid.Check(t, func(t *rapid.T) {
		c := &c07Case{Format: rapid.SampledFrom([]string{"cbor", "json", "cbor", "json", "cose"}).Draw(t, "format")}
		if c.Format == "cose" {
			c.Prior = rapid.SampledFrom([]string{"fresh", "decoded-p1", "decoded-p2", "setclaims-p1", "setclaims-p2", "failed-decode"}).Draw(t, "prior")
		}
		if c.Format == "json" {
			c.EscVal = rapid.IntRange(0, 3).Draw(t, "escval") == 0
			c.EscKey = rapid.IntRange(0, 5).Draw(t, "esckey") == 0
		}
		if rapid.IntRange(0, 2).Draw(t, "extra") == 0 {
			c.Extra = rapid.IntRange(1, 7).Draw(t, "extra.bits")
			if c.Format != "json" && rapid.IntRange(0, 3).Draw(t, "extra.oddlabel") == 0 {
				c.Extra |= 8
			}
		}
		if c.Format != "json" && rapid.IntRange(0, 7).Draw(t, "key265.longhead") == 0 {
			c.KeyW = rapid.SampledFrom([]int{4, 8, 2}).Draw(t, "key265.width")
		}
		if rapid.IntRange(0, 2).Draw(t, "ext.ts") == 0 {
			ts := rapid.SampledFrom([]int64{0, 1, 1700000000, -1, -1700000000, 1 << 40, extTSNotInProfile, extTSOptionalish}).Draw(t, "ext.ts.val")
			c.ExtTS = &ts
		}
		switch rapid.IntRange(0, 5).Draw(t, "failedreg") {
		case 0:
			c.FailedReg = []string{"unknown-bad-shape"}
		case 1:
			c.FailedReg = []string{"existing"}
		case 2:
			c.FailedReg = []string{"existing", "unknown-bad-shape"}
		}
		for i := range extraProfs {
			if rapid.IntRange(0, 2).Draw(t, fmt.Sprintf("reg%d", i)) == 0 {
				c.Reg = append(c.Reg, i)
			}
		}
		q := drawProf(t)
		var body *MClaims
		switch rapid.IntRange(0, 3).Draw(t, "bodykind") {
		case 0:
			body = GenAny(t, q)
		default:
			body = GenValid(t, q, false)
		}
		body.Profile = nil
		if c.Format == "json" {
			// keep the body representable by the harness's JSON writer
			for _, cm := range body.Comps {
				if cm != nil {
					cm.NilEntry = false
				}
			}
			if body.NoMeas != nil && *body.NoMeas > 1<<53 {
				body.NoMeas = u64p(1)
			}
		}
		c.Body = *body
		if c.Format == "json" && rapid.IntRange(0, 5).Draw(t, "nestedprofile") == 0 {
			c.Nested = rapid.IntRange(1, 7).Draw(t, "nestedprofile.where")
		}
		if c.Format == "json" && rapid.IntRange(0, 7).Draw(t, "emptyname") == 0 {
			c.EmptyName = rapid.SampledFrom([]string{`"x"`, `"PSA_IOT_PROFILE_1"`, `"http://arm.com/psa/2.0.0"`, `5`, `true`, `[]`, `{}`}).Draw(t, "emptyname.val")
		}
		if c.Format != "json" && rapid.IntRange(0, 3).Draw(t, "otherbody") == 0 {
			oq := P1
			if q == P1 {
				oq = P2
			}
			o := GenValid(t, oq, false)
			o.Profile = nil
			c.Other = o
		}
		// the slots; bias towards the natural configuration of the body
		natural := genBool.Draw(t, "natural")
		textKinds := []string{"absent", "absent", "name", "name", "name", "empty", "null", "nontext"}
		if c.Format != "json" {
			c.S1 = drawSlot(t, "s1", []string{"absent", "absent", "name", "empty", "nontext", "null"})
			c.S2 = drawSlot(t, "s2", append(textKinds, "undefined", "name", "name"))
			if rapid.IntRange(0, 9).Draw(t, "s2.oid") == 0 {
				c.S2 = slotVal{Kind: "oid", Name: rapid.SampledFrom([]string{InhP2OID, InhP2OID, "1.3.6.1.4.1.4128.100.3", "2.999.1"}).Draw(t, "s2.oidname")}
			}
		} else {
			c.S1 = drawSlot(t, "s1", textKinds)
			c.S2 = drawSlot(t, "s2", textKinds)
			c.SX = drawSlot(t, "sx", []string{"absent", "absent", "absent", "name", "null", "empty", "nontext"})
		}
		if natural {
			if q == P1 {
				c.S2 = slotVal{Kind: "absent"}
				if genBool.Draw(t, "p1.explicit") {
					c.S1 = slotVal{Kind: "name", Name: P1Name}
				} else {
					c.S1 = slotVal{Kind: "absent"}
				}
				if rapid.IntRange(0, 3).Draw(t, "p1.derived") == 0 {
					// a profile derived from profile 1: CBOR declares it under
					// key 265 (with or without -75000), JSON under psa-profile
					if c.Format == "json" {
						c.S1 = slotVal{Kind: "name", Name: InhP1Name}
					} else {
						c.S2 = slotVal{Kind: "name", Name: InhP1Name}
						if c.S1.Kind == "name" && genBool.Draw(t, "p1.derived.explicit") {
							c.S1.Name = InhP1Name
						} else {
							c.S1 = slotVal{Kind: "absent"}
						}
					}
				}
			} else {
				c.S1 = slotVal{Kind: "absent"}
				c.S2 = slotVal{Kind: "name", Name: rapid.SampledFrom([]string{P2Name, P2Name, ExtP2Name, OwnTagName, InhP2OID, RegionP2Name}).Draw(t, "p2.name")}
				if c.S2.Name == InhP2OID && c.Format != "json" {
					c.S2.Kind = "oid"
				}
				if c.S2.Name == OwnTagName && c.Format == "json" {
					c.SX = slotVal{Kind: "name", Name: OwnTagName}
				}
				if c.S2.Name != P2Name && rapid.IntRange(0, 2).Draw(t, "p1form.certref") == 0 {
					// a profile derived from profile 2 inherits profile 2's rule:
					// the bare EAN-13 form is profile 1's
					c.Body.CertRef = sp(drawDigits(t, 13, "cert.ean13"))
				}
			}
		}
		if rapid.IntRange(0, 19).Draw(t, "emptybody") == 0 {
			// the boundary token: no claim at all (optionally still with an
			// unknown entry / null-valued profile member)
			c.Body = MClaims{Prof: P1, CompsNil: true}
			c.Other, c.ExtTS, c.Dup2 = nil, nil, ""
			c.S1, c.S2, c.SX = slotVal{Kind: "absent"}, slotVal{Kind: "absent"}, slotVal{Kind: "absent"}
			if !genBool.Draw(t, "emptybody.extras") {
				c.Extra, c.EmptyName = 0, ""
			}
			c.Empty = true
		}
		if !c.Empty && c.Format == "json" && rapid.IntRange(0, 7).Draw(t, "twoprofiles") == 0 {
			// two DIFFERENT registered profiles declared at once, each under
			// its own member: ambiguous, whatever implements the two (the
			// two derived profiles share one Go implementation type)
			if genBool.Draw(t, "twoprofiles.inherit") {
				have := map[int]bool{}
				for _, i := range c.Reg {
					have[i] = true
				}
				for _, i := range []int{3, 4} {
					if !have[i] {
						c.Reg = append(c.Reg, i)
					}
				}
				sort.Ints(c.Reg)
				c.S1 = slotVal{Kind: "name", Name: InhP1Name}
				c.S2 = slotVal{Kind: "name", Name: InhP2OID}
			} else {
				byTag := map[string][]string{}
				for _, r := range c.registered() {
					byTag[r.Tag] = append(byTag[r.Tag], r.Name)
				}
				c.S1 = slotVal{Kind: "name", Name: rapid.SampledFrom(byTag["psa-profile"]).Draw(t, "twoprofiles.s1")}
				c.S2 = slotVal{Kind: "name", Name: rapid.SampledFrom(byTag["eat-profile"]).Draw(t, "twoprofiles.s2")}
				if xs := byTag["x-profile"]; len(xs) > 0 && genBool.Draw(t, "twoprofiles.sx") {
					c.SX = slotVal{Kind: "name", Name: xs[0]}
					if genBool.Draw(t, "twoprofiles.dropone") {
						c.S1 = slotVal{Kind: "absent"}
					}
				}
			}
		}
		if !c.Empty && c.Format == "json" && natural && q == P2 && c.S2.Kind == "name" && rapid.IntRange(0, 3).Draw(t, "dup2") == 0 {
			// both names must be registered profiles carried by eat-profile
			pool := []string{P2Name}
			for _, i := range c.Reg {
				if extraProfs[i].Tag == "eat-profile" && extraProfs[i].Base == P2 {
					pool = append(pool, extraProfs[i].Name)
				}
			}
			if findProfIn(pool, c.S2.Name) && len(pool) > 1 {
				d := rapid.SampledFrom(pool).Draw(t, "dup2.name")
				if d != c.S2.Name {
					c.Dup2 = d
					c.SX = slotVal{Kind: "absent"}
				}
			}
		}
		var msg string
		withRegistered(c.Reg, func() {
			if msg = c07NewClaims(c.registered()); msg == "" {
				msg = c07Check(c)
			}
		}, c.FailedReg...)
		ex := c.expect()
		if c.Prior != "" && c.Prior != "fresh" {
			defer st.Class("cose-used-evidence")
		}
		if len(c.FailedReg) > 0 {
			defer st.Class("after-refused-registration")
		}
		if c.EscVal || c.EscKey {
			defer st.Class("json-escapes")
		}
		if c.Extra != 0 {
			defer st.Class("extra-unknown-entries")
		}
		if c.Dup2 != "" {
			defer st.Class("duplicate-profile-member")
		}
		if extRuleBroken(c.ExtTS) && !ex.Err && !ex.Soft && ex.Sel != nil && ex.Sel.Impl != nil {
			defer st.Class("extension-own-rule-violated")
		}
		cls := []string{c.Format}
		switch {
		case ex.Err:
			cls = append(cls, "expect=error")
		case ex.Soft:
			cls = append(cls, "expect=soft")
		default:
			if ex.View.Valid() && !c.viewBroken(ex.Sel) {
				cls = append(cls, "expect=selected-valid")
			} else {
				cls = append(cls, "expect=selected-invalid")
			}
			switch {
			case ex.Sel.Impl != nil:
				cls = append(cls, "sel=extension")
			case ex.Sel.Name == P1Name && c.S1.Kind != "name" && c.S2.Kind == "absent":
				cls = append(cls, "sel=default")
			}
			if ex.Sel.Base != q {
				cls = append(cls, "cross-profile")
			}
		}
		if len(c.Reg) == 0 {
			cls = append(cls, "reg=0")
		} else {
			cls = append(cls, "reg>0")
		}
		if c.S1.Kind != "absent" && c.S2.Kind != "absent" {
			cls = append(cls, "both-keys")
		}
		key := ""
		simple := len(c.Reg) == 0 && c.Other == nil && c.SX.Kind == "absent" &&
			((q == P1 && c.S2.Kind == "absent" && c.S1 == slotVal{Kind: "name", Name: P1Name}) || (q == P2 && c.S1.Kind == "absent" && c.S2 == slotVal{Kind: "name", Name: P2Name}))
		if !simple {
			regs := append([]int{}, c.Reg...)
			sort.Ints(regs)
			key = fmt.Sprintf("%d%v%v%v|%s|%s|%v|%v|%v|%v|%v|%v|%s", c.Extra, c.EscVal, c.EscKey, extRuleBroken(c.ExtTS), c.Format, c.Prior, c.FailedReg, c.S1, c.S2, c.SX, regs, c.Other != nil, strings.Join(cls, ","))
			if body.Valid() {
				key += "|" + q.String()
			} else {
				key += "|" + body.ClassVector()
			}
		}
		st.Case(key, cls...)
		if key != "" && st.WantSample() {
			st.Sample(map[string]any{"format": c.Format, "registered_extras": c.Reg, "body": q.String(), "psa-profile/-75000": c.S1.String(), "eat-profile/265": c.S2.String(), "x-profile": c.SX.String(), "classes": cls})
		}
		if msg != "" {
			t.Fatalf("C07 violated: %s", msg)
		}
	})
}

func findProfIn(pool []string, name string) bool {
	for _, n := range pool {
		if n == name {
			return true
		}
	}
	return false
}
