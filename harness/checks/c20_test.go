package checks

import (
	"encoding/base32"
	"encoding/base64"
	"encoding/hex"
	"encoding/json"
	"fmt"
	"os"
	"runtime/debug"
	"strings"
	"testing"
	"time"

	"github.com/veraison/psatoken"

	"verifharness/icbor"
	"verifharness/icose"
)

// C20 — only a well-formed tagged COSE_Sign1 carrying a claims map is evidence.

// c20Classify is the independent classifier on the bytes.
// verdict: "sign1" (well-formed), "not-sign1", "no-verdict" (tagged payload item).
func c20Classify(b []byte) (string, string) {
	n, _, err := icbor.Read(b)
	if err != nil {
		return "not-sign1", "not exactly one well-formed CBOR item: " + err.Error()
	}
	if n.Kind != icbor.KTag || n.U != 18 {
		return "not-sign1", "outer item is not tag 18"
	}
	a := n.Items[0]
	if a.Kind != icbor.KArray {
		return "not-sign1", "tag 18 does not wrap an array"
	}
	if len(a.Items) != 4 {
		return "not-sign1", fmt.Sprintf("array has %d elements", len(a.Items))
	}
	if a.Items[0].Kind != icbor.KBytes {
		return "not-sign1", "protected header is not a byte string"
	}
	if a.Items[1].Kind != icbor.KMap {
		return "not-sign1", "unprotected header is not a map"
	}
	if a.Items[2].Kind != icbor.KBytes {
		return "not-sign1", "payload is not a byte string"
	}
	if a.Items[3].Kind != icbor.KBytes || len(a.Items[3].B) == 0 {
		return "not-sign1", "signature is not a non-empty byte string"
	}
	p, _, err := icbor.Read(a.Items[2].B)
	if err != nil {
		return "not-sign1", "payload content is not exactly one CBOR item: " + err.Error()
	}
	if p.Kind == icbor.KTag {
		// tags around a MAP carry no verdict (see C04's tagged-item carve-out);
		// a tagged anything-else is still not a claims map
		inner := p
		for inner.Kind == icbor.KTag {
			inner = inner.Items[0]
		}
		if inner.Kind == icbor.KMap {
			return "no-verdict", "payload item is a tagged map"
		}
		return "not-sign1", "payload item is a tagged " + inner.Kind.String() + ", not a map"
	}
	if p.Kind != icbor.KMap {
		return "not-sign1", "payload item is a " + p.Kind.String() + ", not a map"
	}
	// a claims map: labels are integers or text strings
	for _, pr := range p.Pairs {
		if _, isInt := pr[0].Int(); !isInt && pr[0].Kind != icbor.KText && !isHugeInt(pr[0]) {
			return "not-sign1", "payload map has a label that is neither an integer nor a text string: " + icbor.Diag(pr[0])
		}
	}
	// ... and it is DECODABLE as the claims of the stock profile it declares:
	// no claim of that profile carries an item of a plainly different kind
	// (an integer where text or bytes belong, text where a number belongs, a
	// map anywhere). Nulls, simple values, arrays and tagged items under
	// claim labels are C04's known findings / carve-outs: no verdict from them.
	// which stock profile the decoder dispatches to: label 265 alone decides
	// (its absence means profile 1, whatever -75000 says - a mismatch there is
	// validation's business, not decoding's)
	declared := ""
	dup := map[int64]int{}
	var v265 *icbor.Node
	for _, pr := range p.Pairs {
		if k, ok := pr[0].Int(); ok {
			dup[k]++
			if k == 265 {
				v265 = pr[1]
			}
			if k == -75000 && pr[1].Kind != icbor.KText {
				return "sign1", "" // (a profile-1 claim of another kind: no verdict from here)
			}
		}
	}
	want := map[int64]string{}
	switch {
	case dup[265] > 1:
		return "sign1", ""
	case v265 != nil:
		if v265.Kind != icbor.KText || string(v265.B) != P2Name {
			// another profile (a registered derived one, an OID ...), the
			// profile-1 name under 265 (carve-out), or nothing registered
			return "sign1", ""
		}
		declared = P2Name
		want = map[int64]string{2394: "int", 2395: "int", 2396: "bytes", 2397: "bytes", 256: "bytes", 10: "bytes", 2398: "text", 2400: "text", 2399: "array"}
	default:
		declared = P1Name
		has := false
		for k := range dup {
			has = has || (k <= -75001 && k >= -75010)
		}
		if !has {
			return "sign1", ""
		}
		want = map[int64]string{-75001: "int", -75002: "int", -75003: "bytes", -75004: "bytes", -75009: "bytes", -75008: "bytes", -75005: "text", -75010: "text", -75006: "array", -75007: "int"}
	}
	for _, pr := range p.Pairs {
		k, ok := pr[0].Int()
		if !ok || want[k] == "" || dup[k] != 1 {
			continue
		}
		got := ""
		switch pr[1].Kind {
		case icbor.KUint, icbor.KNint:
			got = "int"
		case icbor.KBytes:
			got = "bytes"
		case icbor.KText:
			got = "text"
		case icbor.KMap:
			got = "map"
		}
		if got != "" && got != want[k] && !pr[1].Indef {
			return "not-sign1", fmt.Sprintf("payload is not a decodable claims map of %q: claim %d carries %s where the profile has %s", declared, k, icbor.Diag(pr[1]), want[k])
		}
	}
	return "sign1", ""
}

type c20In struct {
	Desc string `json:"desc"`
	Tok  hx     `json:"token"`
}

// c20Decode / c20Unmarshal: a registered profile's decoder may have a bug of
// its own and panic (the harness registers one that does, for one claim
// value). That is not a library panic; but it is certainly not a payload
// that decoded: whatever the library does with the panic, it must not report
// success. A panic that reaches the caller counts as "did not succeed".
func c20Decode(tok []byte) (ev *psatoken.Evidence, err error) {
	defer func() {
		if r := recover(); r != nil {
			if !strings.Contains(string(debug.Stack()), "PanickyP2Claims") {
				panic(r) // the library's own panic: not an error return (and C05's business)
			}
			ev, err = nil, fmt.Errorf("panic reached the caller: %v", r)
		}
	}()
	return psatoken.DecodeEvidenceFromCOSE(tok)
}

func c20Unmarshal(ev *psatoken.Evidence, tok []byte) (err error) {
	defer func() {
		if r := recover(); r != nil {
			if !strings.Contains(string(debug.Stack()), "PanickyP2Claims") {
				panic(r)
			}
			err = fmt.Errorf("panic reached the caller: %v", r)
		}
	}()
	return ev.UnmarshalCOSE(tok)
}

// c20Kind judges one envelope. "Rejected with an error" includes coming back
// at all: the judgement runs in its own goroutine, and if it has not finished
// after c20Patience - twice, the second time in a fresh goroutine - the input
// (a few hundred bytes) makes a decode call spin or block for ever. A spinning
// goroutine cannot be stopped, so the finding is printed, the input is left
// in stall.<pid> (the driver's replay) and the process exits.
const c20Patience = 20 * time.Second

var c20Kind = registerKind("c20", func(in c20In) string {
	for attempt := 0; ; attempt++ {
		done := make(chan string, 1)
		go func() {
			defer func() {
				if r := recover(); r != nil {
					st := string(debug.Stack())
					if i := strings.Index(st, "panic("); i > 0 {
						st = st[i:]
					}
					done <- fmt.Sprintf("decoding PANICS instead of rejecting the envelope with an error: %v  (%s)\n%s", r, in.Desc, truncate(st, 1200))
				}
			}()
			done <- c20Judge(in)
		}()
		select {
		case msg := <-done:
			return msg
		case <-time.After(c20Patience):
		}
		if attempt == 1 {
			js, _ := json.Marshal(in)
			file := fmt.Sprintf("stall.%d", os.Getpid())
			_ = os.WriteFile(file, []byte(fmt.Sprintf("C20: decoding this envelope does not return (2 attempts of %v):\n%s\n", c20Patience, js)), 0o644)
			fmt.Printf("C20 violated: a library call never returns - decoding the %d-byte envelope %q (%x) did not come back within %v, twice; it is neither accepted nor rejected with an error (input in %s)\n", len(in.Tok), in.Desc, []byte(in.Tok), c20Patience, file)
			os.Exit(3)
		}
	}
})

func c20Judge(in c20In) string {
	if strings.Contains(in.Desc, "decoder-panics") {
		_ = psatoken.RegisterProfile(panickyP2Profile{}) // replay in a fresh process
	}
	verdict, why := c20Classify(in.Tok)
	ev, err := c20Decode(in.Tok)
	if err == nil && (ev == nil || ev.Claims == nil) {
		return "decoding succeeded but returned no evidence / no claims  (" + in.Desc + ")"
	}
	if err == nil && verdict == "not-sign1" {
		return fmt.Sprintf("accepted as evidence although %s  (%s)", why, in.Desc)
	}
	// an Evidence with a past must behave the same as a fresh one: it held a
	// good token, or claims, and possibly failed to decode something since
	good, gerr := goodEnvelopeOnce()
	if gerr != nil {
		return "VERIF-INFRA: " + gerr.Error()
	}
	for _, prior := range []string{"decoded", "decoded+garbage", "decoded+mac0", "decoded+truncated", "decoded+nonmap-payload", "setclaims", "setclaims+garbage", "signed"} {
		ev2 := &psatoken.Evidence{}
		parts := strings.Split(prior, "+")
		switch parts[0] {
		case "decoded":
			_ = ev2.UnmarshalCOSE(good)
		case "setclaims":
			lit, _ := baseValid(P1, 1).BuildLiteral()
			_ = ev2.SetClaims(lit)
		case "signed":
			lit, _ := baseValid(P2, 1).BuildLiteral()
			_ = ev2.SetClaims(lit)
			_, _ = ev2.ValidateAndSign(keyFor(icose.EdDSA, 2).Signer())
		}
		if len(parts) > 1 {
			switch parts[1] {
			case "garbage":
				_ = ev2.UnmarshalCOSE([]byte{0x00})
			case "mac0":
				_ = ev2.UnmarshalCOSE(append([]byte{0xd1}, good[1:]...))
			case "truncated":
				_ = ev2.UnmarshalCOSE(good[:len(good)/2])
			case "nonmap-payload":
				kp := keyFor(icose.EdDSA, 0)
				bad, _ := icose.SignedToken(kp.Alg, kp.Priv, []byte{0x80})
				_ = ev2.UnmarshalCOSE(bad)
			}
		}
		err2 := c20Unmarshal(ev2, in.Tok)
		if (err2 == nil) != (err == nil) {
			return fmt.Sprintf("UnmarshalCOSE on an Evidence with a past (%s) disagrees with DecodeEvidenceFromCOSE on a fresh one: %v vs %v  (%s)", prior, err2, err, in.Desc)
		}
		if err2 == nil && ev2.Claims == nil {
			return fmt.Sprintf("UnmarshalCOSE on a used Evidence (%s) succeeded but holds no claims", prior)
		}
		if err2 == nil && err == nil {
			if d := Observe(ev.Claims).Diff(Observe(ev2.Claims)); d != "" {
				return fmt.Sprintf("UnmarshalCOSE on a used Evidence (%s) yields other claims than a fresh decode: %s", prior, d)
			}
		}
	}
	if err != nil {
		if ev != nil {
			return "DecodeEvidenceFromCOSE returned an Evidence together with an error"
		}
	}
	return ""
}

var goodEnv []byte

func goodEnvelopeOnce() ([]byte, error) {
	if goodEnv != nil {
		return goodEnv, nil
	}
	kp := keyFor(icose.EdDSA, 0)
	tok, err := icose.SignedToken(kp.Alg, kp.Priv, baseValid(P2, 0).WireBytes())
	if err == nil {
		goodEnv = tok
	}
	return tok, err
}

func c20Replacements() []struct {
	name string
	n    *icbor.Node
} {
	return []struct {
		name string
		n    *icbor.Node
	}{
		{"uint0", icbor.U(0)}, {"uint1000", icbor.U(1000)}, {"nint", icbor.I(-1)},
		{"bstr-empty", icbor.Bstr(nil)}, {"bstr-01", icbor.Bstr([]byte{1})}, {"bstr-a0", icbor.Bstr([]byte{0xa0})},
		{"tstr-empty", icbor.Tstr("")}, {"tstr-a", icbor.Tstr("a")},
		{"array-empty", icbor.Arr()}, {"array-1", icbor.Arr(icbor.U(1))},
		{"map-empty", icbor.Map()}, {"map-1-2", icbor.Map(icbor.P(icbor.U(1), icbor.U(2)))},
		{"tag1(0)", icbor.Tag(1, icbor.U(0))}, {"tag24(bstr)", icbor.Tag(24, icbor.Bstr([]byte{0xa0}))},
		{"null", icbor.Null()}, {"undefined", icbor.Undef()}, {"true", icbor.Bool(true)}, {"false", icbor.Bool(false)},
		{"float", icbor.F64(1.5)}, {"simple32", icbor.Simple(32)},
	}
}

func TestC20_EnvelopeGrid(t *testing.T) {
	st := NewStats("C20", "TestC20_EnvelopeGrid", "enumeration with the independent encoder around correctly signed material (7 algorithms in thorough, EdDSA+ES256 in quick; both profiles): tag in {none, 0..30, 61, 98, 18 nested twice} x array length 0..6; each of the four elements replaced by 20 other CBOR items and by indefinite-length / over-long-head forms; 2-element replacement pairs; 18 payload variants (raw map, double-wrapped, null, h'', h'f6', h'f7', array, int, text, tagged map, map+trailing, two maps, truncated map, ...; claims maps of either stock profile in which one claim, or an optional claim and another one in either order, carry an item of a plainly different kind) plus 19 tag numbers of every head width (incl. numbers whose last byte looks like a map head) x 8 tagged contents (null, undefined, array, int, bstr, text, map, tagged null); payload contents that are not well-formed CBOR (heads with the reserved additional-information values 28..31 of every major type, alone / followed by bytes / behind tags; heads cut off inside their argument); 0..3 trailing bytes; correct envelopes of exactly 2^12, 2^16, 2^20 (+-1) bytes alone and with trailing bytes; well-formed messages of the other COSE kinds around the same material (COSE_Sign with 0/1/2 signers incl. a correctly computed one, Mac0, Mac, Encrypt0, Encrypt, Sign1 with a counter-signature element) under 8 tags; the correct envelope in 13 text transport encodings (base64 in four alphabets, hex, data URI, base32, diagnostic notation, ...); 14 content-type / typ header values in either bucket x 6 payloads (claims as JSON text, '{}', 'null', base64 / hex of the claims, the claims map) each correctly signed; non-minimal tag/array heads; the TF-M Mac0 and Sign1 vectors and their tag-swapped variants; correct envelopes whose payload declares a registered extension profile whose own decoder panics for some values of its claim (a fault inside the claims-decoding stage: whatever becomes of the panic, the decode must not report success). Every envelope is also given to Evidence objects with a past (decoded a good token / had claims attached / signed, possibly followed by a failed decode of garbage, a Mac0, a truncated token, a non-map payload), which must agree with a fresh decode. Every judgement must come back within 20 s (twice), else the decode is reported as never returning. Oracle: DecodeEvidenceFromCOSE / UnmarshalCOSE success implies the independent classifier sees tag 18, 4-array, bstr, map, bstr holding exactly one map item in which no claim of the declared stock profile carries an item of a plainly different kind (integer / text / bytes / map mixed up), non-empty bstr, no trailing bytes. Non-trivial = still parses as CBOR and differs from a valid envelope in exactly one structural respect; distinct = grid cell")
	st.Exhaustive = true
	st.Require = []string{"accepted", "rejected", "tag", "arity", "element", "payload", "trailing", "vector", "transcoded", "header-x-payload", "cose-kind", "size", "decoder-fault"}
	defer st.Flush(t)
	registerMu.Lock()
	defer registerMu.Unlock()
	restore := psatoken.VerifCheckpointProfiles()
	defer restore()
	registerExtStyles()
	accepted := 0
	run := func(desc, class string, tok []byte, nontrivial bool) {
		in := c20In{desc, tok}
		msg := c20Kind(in)
		if msg != "" {
			st.Case("", "violation", class)
			reportCase(t, "C20", "c20", in, msg)
			return
		}
		_, err := c20Decode(tok)
		out := "rejected"
		if err == nil {
			out = "accepted"
			accepted++
		}
		key := ""
		if nontrivial {
			key = desc
		}
		st.Case(key, out, class)
		if nontrivial && st.WantSample() && class != "tag" {
			st.Sample(map[string]any{"cell": desc, "token": truncate(hexs(tok), 160), "outcome": out})
		}
		if msg != "" {
			reportCase(t, "C20", "c20", in, msg)
		}
	}
	algs := []int64{icose.EdDSA, icose.ES256}
	if thorough() {
		algs = icose.AllAlgs
	}
	// fault inside the claims-decoding stage: a correct envelope whose payload
	// declares a registered extension profile whose decoder has a bug and
	// panics for some values of its own claim (and works for the others)
	if err := psatoken.RegisterProfile(panickyP2Profile{}); err != nil {
		t.Fatalf("VERIF-INFRA: %v", err)
	}
	for ai, alg := range algs {
		kp := keyFor(alg, 1)
		for _, mode := range []int64{1, 3, 99, -1} {
			m := baseValid(P2, ai%3)
			pairs := append(bodyPairs(m), icbor.P(icbor.U(265), icbor.Tstr(PanickyP2Name)), icbor.P(icbor.I(-75950), icbor.I(mode)))
			tok, serr := icose.SignedToken(kp.Alg, kp.Priv, icbor.Encode(icbor.Map(pairs...)))
			if serr != nil {
				t.Fatalf("VERIF-INFRA: %v", serr)
			}
			run(fmt.Sprintf("%s/payload-of-extension-whose-decoder-panics/mode=%d", icose.AlgName(alg), mode), "decoder-fault", tok, true)
			for _, extra := range [][]byte{{0x00}, {0xf6}} {
				run(fmt.Sprintf("%s/payload-of-extension-whose-decoder-panics/mode=%d/trailing=%x", icose.AlgName(alg), mode, extra), "decoder-fault", append(append([]byte{}, tok...), extra...), true)
			}
		}
	}
	for ai, alg := range algs {
		for _, p := range []Prof{P1, P2} {
			kp := keyFor(alg, ai)
			claims := baseValid(p, ai%3).WireBytes()
			prot := icose.ProtectedAlg(alg)
			sigOver := func(payload []byte) []byte {
				s, err := icose.Sign(alg, kp.Priv, prot, payload)
				if err != nil {
					t.Fatalf("VERIF-INFRA: %v", err)
				}
				return s
			}
			sig := sigOver(claims)
			elems := func() []*icbor.Node {
				return []*icbor.Node{icbor.Bstr(prot), icbor.Map(), icbor.Bstr(claims), icbor.Bstr(sig)}
			}
			pre := fmt.Sprintf("%s/%s/", icose.AlgName(alg), p)
			// positive control
			good := icbor.Encode(icbor.Tag(18, icbor.Arr(elems()...)))
			ev, err := psatoken.DecodeEvidenceFromCOSE(good)
			if err != nil || ev.Verify(kp.Pub) != nil {
				t.Fatalf("C20 positive control: the canonical envelope is rejected or does not verify: %v", err)
			}
			run(pre+"canonical", "canonical", good, false)

			// tag x arity
			extra := []*icbor.Node{icbor.Bstr([]byte{1}), icbor.Map()}
			tags := []int{-1}
			for tg := 0; tg <= 30; tg++ {
				tags = append(tags, tg)
			}
			// 18 written in every long form is still 18; numbers that merely END
			// in 0x12, and 18 wrapped in other tags, are not
			tags = append(tags, 61, 98, 1818, 274, 530, 0x6212, 65554, 0x10012, 1<<32+18, 0x1212, 5579918, 2418, 618)
			for _, tg := range tags {
				for n := 0; n <= 6; n++ {
					items := append(elems(), extra...)[:n]
					var node *icbor.Node = icbor.Arr(items...)
					switch {
					case tg == 1818:
						node = icbor.Tag(18, icbor.Tag(18, node))
					case tg == 5579918:
						node = icbor.Tag(55799, icbor.Tag(18, node))
					case tg == 2418:
						node = icbor.Tag(55799, icbor.Tag(55799, icbor.Tag(18, node)))
					case tg == 618:
						node = icbor.Tag(6, icbor.Tag(18, node))
					case tg >= 0:
						node = icbor.Tag(uint64(tg), node)
					}
					cls := "tag"
					if tg == 18 {
						cls = "arity"
					}
					run(fmt.Sprintf("%stag%d/len%d", pre, tg, n), cls, icbor.Encode(node), !(tg == 18 && n == 4))
				}
			}
			// the correct tagged envelope ENCLOSED in one more tag (what another
			// layer of a protocol stack might add: the CWT tag, self-described
			// CBOR, an encoded-CBOR / URI / date tag, any small number): the
			// outermost item is then not tag 18
			outer := []uint64{61, 55799, 601, 16, 17, 19, 96, 97, 98, 24, 63, 32, 256, 1 << 16, 1<<32 + 61, 0xd2, 0x84, 0xd284}
			for tg := uint64(0); tg <= 40; tg++ {
				outer = append(outer, tg)
			}
			for _, tg := range outer {
				for _, w := range []int{0, 2, 4, 8} {
					node := icbor.Tag(tg, icbor.Tag(18, icbor.Arr(elems()...)))
					if w > 0 {
						node = node.WithHead(w)
					}
					run(fmt.Sprintf("%souter-tag%d/w%d", pre, tg, w), "tag", icbor.Encode(node), true)
				}
				run(fmt.Sprintf("%souter-tag%d-twice", pre, tg), "tag", icbor.Encode(icbor.Tag(tg, icbor.Tag(tg, icbor.Tag(18, icbor.Arr(elems()...))))), true)
			}
			// element replacement (single and pairs)
			names := []string{"protected", "unprotected", "payload", "signature"}
			reps := c20Replacements()
			for i := 0; i < 4; i++ {
				for _, r := range reps {
					e := elems()
					e[i] = r.n
					run(fmt.Sprintf("%s%s=%s", pre, names[i], r.name), "element", icbor.Encode(icbor.Tag(18, icbor.Arr(e...))), true)
					for _, tg := range []int{-1, 17, 98} {
						var node *icbor.Node = icbor.Arr(e...)
						if tg >= 0 {
							node = icbor.Tag(uint64(tg), node)
						}
						run(fmt.Sprintf("%stag%d/%s=%s", pre, tg, names[i], r.name), "element", icbor.Encode(node), true)
					}
				}
				// encoding-form variants of the right type
				e := elems()
				e[i] = e[i].WithIndef()
				run(fmt.Sprintf("%s%s=indefinite", pre, names[i]), "element-form", icbor.Encode(icbor.Tag(18, icbor.Arr(e...))), true)
				e = elems()
				e[i] = e[i].WithHead(2)
				run(fmt.Sprintf("%s%s=longhead", pre, names[i]), "element-form", icbor.Encode(icbor.Tag(18, icbor.Arr(e...))), true)
			}
			for i, name := range names {
				e := elems()
				if e[i].Kind == icbor.KBytes {
					e[i] = smallUintsOf(e[i].B)
					run(fmt.Sprintf("%s%s=int-array-spelling-it", pre, name), "element", icbor.Encode(icbor.Tag(18, icbor.Arr(e...))), true)
				}
			}
			for i := 0; i < 4; i++ {
				for j := i + 1; j < 4; j++ {
					for _, ri := range []int{3, 8, 10, 14} {
						for _, rj := range []int{0, 4, 11, 15} {
							e := elems()
							e[i], e[j] = reps[ri].n, reps[rj].n
							run(fmt.Sprintf("%s%s=%s,%s=%s", pre, names[i], reps[ri].name, names[j], reps[rj].name), "element-pair", icbor.Encode(icbor.Tag(18, icbor.Arr(e...))), true)
						}
					}
				}
			}
			// payload variants (correctly signed over the carried payload bytes)
			claimsNode, _, _ := icbor.Read(claims)
			pv := []struct {
				name string
				raw  *icbor.Node // element as placed in the array
			}{
				{"raw-map", claimsNode},
				{"double-wrapped", icbor.Bstr(icbor.Encode(icbor.Bstr(claims)))},
				{"null", icbor.Null()},
				{"empty-bstr", icbor.Bstr(nil)},
				{"bstr-null", icbor.Bstr([]byte{0xf6})},
				{"bstr-undefined", icbor.Bstr([]byte{0xf7})},
				{"bstr-array", icbor.Bstr(icbor.Encode(icbor.Arr(claimsNode)))},
				{"bstr-empty-array", icbor.Bstr([]byte{0x80})},
				{"bstr-int", icbor.Bstr([]byte{0x01})},
				{"bstr-text", icbor.Bstr(icbor.Encode(icbor.Tstr("claims")))},
				{"bstr-tagged-map", icbor.Bstr(icbor.Encode(icbor.Tag(55799, claimsNode)))},
				{"bstr-map-trailing", icbor.Bstr(append(append([]byte{}, claims...), 0x00))},
				{"bstr-two-maps", icbor.Bstr(append(append([]byte{}, claims...), claims...))},
				{"bstr-truncated-map", icbor.Bstr(claims[:len(claims)-1])},
				{"bstr-empty-map", icbor.Bstr([]byte{0xa0})},
				{"bstr-true", icbor.Bstr([]byte{0xf5})},
				{"bstr-float", icbor.Bstr(icbor.Encode(icbor.F64(1)))},
				{"bstr-bstr-null", icbor.Bstr(icbor.Encode(icbor.Bstr([]byte{0xf6})))},
				// arrays of small integers SPELLING bytes (a typed decoder may
				// fill a byte slice from them): the claims map, an empty map
				{"int-array-spelling-claims", smallUintsOf(claims)},
				{"int-array-spelling-empty-map", icbor.Arr(icbor.U(0xa0))},
				{"int-array-spelling-null", icbor.Arr(icbor.U(0xf6))},
				{"text-spelling-claims", &icbor.Node{Kind: icbor.KText, B: claims}},
			}
			// tagged payload items: every tag-number width, incl. numbers whose
			// last head byte looks like a map head (0xa0..0xbf)
			for _, tg := range []uint64{0, 1, 6, 23, 24, 0xa0, 0xa5, 0xbf, 0xff, 0x100, 0x1a0, 0xa000, 0xbfbf, 55799, 0x10000, 0xa0a0a0a0, 0xffffffff, 0x1000000a0, 1<<64 - 1} {
				for _, in := range []struct {
					name string
					n    *icbor.Node
				}{{"null", icbor.Null()}, {"undefined", icbor.Undef()}, {"array", icbor.Arr(claimsNode)}, {"int", icbor.U(0xa0)}, {"bstr", icbor.Bstr(claims)}, {"text", icbor.Tstr("claims")}, {"map", claimsNode}, {"tag-null", icbor.Tag(0xa0, icbor.Null())}} {
					pv = append(pv, struct {
						name string
						raw  *icbor.Node
					}{fmt.Sprintf("bstr-tag%d(%s)", tg, in.name), icbor.Bstr(icbor.Encode(icbor.Tag(tg, in.n)))})
				}
			}
			// payload contents that are NOT well-formed CBOR: a head with one of
			// the reserved additional-information values 28..30 (and the break
			// code) for every major type, alone, followed by bytes, and behind
			// ordinary tags; a head cut off inside its argument
			for major := 0; major < 8; major++ {
				for ai := 28; ai <= 31; ai++ {
					h := byte(major<<5 | ai)
					for ti, tail := range [][]byte{nil, {0x44, 0xde, 0xad, 0xbe, 0xef}, claims} {
						for pi, pre2 := range [][]byte{nil, {0xc6}, {0xd9, 0xd9, 0xf7}, {0xd8, 0x3d, 0xc1}} {
							content := append(append(append([]byte{}, pre2...), h), tail...)
							pv = append(pv, struct {
								name string
								raw  *icbor.Node
							}{fmt.Sprintf("bstr-ill-formed-head-%02x/tail#%d/tags#%d", h, ti, pi), icbor.Bstr(content)})
						}
					}
				}
			}
			for _, cut := range [][]byte{{0xd8}, {0xd9, 0xd9}, {0xda, 0, 0}, {0xdb, 0, 0, 0, 0}, {0xc6, 0xd8}, {0xb8}, {0xb9, 0x01}, {0xbf}, {0xbf, 0x01}, {0x5f}, {0x7f, 0x61}} {
				pv = append(pv, struct {
					name string
					raw  *icbor.Node
				}{fmt.Sprintf("bstr-cut-head-%x", cut), icbor.Bstr(cut)})
			}
			// payloads that ARE maps but not decodable claims maps: claims of
			// the declared profile carrying items of a plainly different kind -
			// one claim, and two of them in either order (an optional one
			// before / after another one; a typed decoder reports only the
			// first mismatch it meets)
			for _, cp := range []Prof{P1, P2} {
				wrongFor := func(k int64) *icbor.Node {
					switch k {
					case 2394, 2395, -75001, -75002, -75007:
						return icbor.Tstr("text")
					case 2398, 2400, -75005, -75010:
						return icbor.U(5)
					case 2399, -75006:
						return icbor.Tstr("components")
					}
					return icbor.U(7) // the byte-string claims
				}
				opt := []int64{2397, 2398, 2400}
				other := []int64{2394, 2395, 2396, 256, 10, 2399, 2398}
				if cp == P1 {
					opt = []int64{-75005, -75010, -75006}
					other = []int64{-75001, -75002, -75003, -75004, -75008, -75009, -75010}
				}
				mk := func(first, second int64) []byte {
					bm := baseValid(cp, 1)
					var front, rest [][2]*icbor.Node
					for _, pr := range bm.WirePairs() {
						k, _ := pr[0].Int()
						switch {
						case k == 265 || k == -75000:
							front = append([][2]*icbor.Node{pr}, front...)
						case k == first || k == second:
						default:
							rest = append(rest, pr)
						}
					}
					front = append(front, icbor.P(icbor.I(first), wrongFor(first)))
					if second != 0 {
						front = append(front, icbor.P(icbor.I(second), wrongFor(second)))
					}
					return icbor.Encode(icbor.Map(append(front, rest...)...))
				}
				for _, o := range opt {
					pv = append(pv, struct {
						name string
						raw  *icbor.Node
					}{fmt.Sprintf("bstr-%s-claims-with-wrong-kind-under-%d", cp, o), icbor.Bstr(mk(o, 0))})
					for _, x := range other {
						if x == o {
							continue
						}
						pv = append(pv, struct {
							name string
							raw  *icbor.Node
						}{fmt.Sprintf("bstr-%s-claims-with-wrong-kinds-under-%d-then-%d", cp, o, x), icbor.Bstr(mk(o, x))}, struct {
							name string
							raw  *icbor.Node
						}{fmt.Sprintf("bstr-%s-claims-with-wrong-kinds-under-%d-then-%d", cp, x, o), icbor.Bstr(mk(x, o))})
					}
				}
			}
			for _, v := range pv {
				e := elems()
				e[2] = v.raw
				if v.raw.Kind == icbor.KBytes {
					e[3] = icbor.Bstr(sigOver(v.raw.B))
				}
				run(pre+"payload="+v.name, "payload", icbor.Encode(icbor.Tag(18, icbor.Arr(e...))), true)
			}
			// the whole (correct) envelope inside something else
			for name, w := range map[string]*icbor.Node{
				"bstr(envelope)":        icbor.Bstr(good),
				"bstr(bstr(envelope))":  icbor.Bstr(icbor.Encode(icbor.Bstr(good))),
				"tag24(bstr(envelope))": icbor.Tag(24, icbor.Bstr(good)),
				"[envelope]":            icbor.Arr(icbor.Tag(18, icbor.Arr(elems()...))),
				"{0: envelope}":         icbor.Map(icbor.P(icbor.U(0), icbor.Tag(18, icbor.Arr(elems()...)))),
				"tstr(envelope)":        &icbor.Node{Kind: icbor.KText, B: good},
			} {
				run(pre+"wrapped="+name, "wrapped", icbor.Encode(w), true)
			}
			// the payload behind tag 24 / other "encoded item" spellings
			for name, pl := range map[string][]byte{
				"tag24(bstr(claims))":      icbor.Encode(icbor.Tag(24, icbor.Bstr(claims))),
				"tag24_long(bstr(claims))": icbor.Encode(icbor.Tag(24, icbor.Bstr(claims)).WithHead(2)),
				"tag63(bstr(claims))":      icbor.Encode(icbor.Tag(63, icbor.Bstr(claims))),
			} {
				e := elems()
				e[2] = icbor.Bstr(pl)
				e[3] = icbor.Bstr(sigOver(pl))
				run(pre+"payload="+name, "payload", icbor.Encode(icbor.Tag(18, icbor.Arr(e...))), true)
			}
			// well-formed messages of the OTHER COSE kinds around the same
			// material: COSE_Sign with one / two / no signers (signature taken
			// from the Sign1 token, and computed for the COSE_Sign context),
			// COSE_Mac0, COSE_Mac, COSE_Encrypt0, COSE_Encrypt - tagged and
			// untagged
			{
				signer := func(sg []byte) *icbor.Node { return icbor.Arr(icbor.Bstr(prot), icbor.Map(), icbor.Bstr(sg)) }
				// Sig_structure for COSE_Sign: ["Signature", body_protected, sign_protected, external_aad, payload]
				tbs := icbor.Encode(icbor.Arr(icbor.Tstr("Signature"), icbor.Bstr(nil), icbor.Bstr(prot), icbor.Bstr(nil), icbor.Bstr(claims)))
				msig, merr := icose.SignTBS(alg, kp.Priv, tbs)
				if merr != nil {
					t.Fatalf("VERIF-INFRA: %v", merr)
				}
				kinds := map[string]*icbor.Node{
					"sign-1-signer":          icbor.Arr(icbor.Bstr(nil), icbor.Map(), icbor.Bstr(claims), icbor.Arr(signer(msig))),
					"sign-1-signer-sign1sig": icbor.Arr(icbor.Bstr(prot), icbor.Map(), icbor.Bstr(claims), icbor.Arr(signer(sig))),
					"sign-2-signers":         icbor.Arr(icbor.Bstr(nil), icbor.Map(), icbor.Bstr(claims), icbor.Arr(signer(msig), signer(sig))),
					"sign-0-signers":         icbor.Arr(icbor.Bstr(prot), icbor.Map(), icbor.Bstr(claims), icbor.Arr()),
					"sign-signer-not-array":  icbor.Arr(icbor.Bstr(prot), icbor.Map(), icbor.Bstr(claims), icbor.Arr(icbor.Bstr(sig))),
					"mac0":                   icbor.Arr(icbor.Bstr(prot), icbor.Map(), icbor.Bstr(claims), icbor.Bstr(sig[:32])),
					"mac-1-recipient":        icbor.Arr(icbor.Bstr(prot), icbor.Map(), icbor.Bstr(claims), icbor.Bstr(sig[:32]), icbor.Arr(icbor.Arr(icbor.Bstr(nil), icbor.Map(), icbor.Bstr(nil)))),
					"encrypt0":               icbor.Arr(icbor.Bstr(prot), icbor.Map(), icbor.Bstr(claims)),
					"encrypt-1-recipient":    icbor.Arr(icbor.Bstr(prot), icbor.Map(), icbor.Bstr(claims), icbor.Arr(icbor.Arr(icbor.Bstr(nil), icbor.Map(), icbor.Bstr(nil)))),
					"sign1-with-countersig":  icbor.Arr(icbor.Bstr(prot), icbor.Map(icbor.P(icbor.U(7), signer(msig))), icbor.Bstr(claims), icbor.Bstr(sig), icbor.Arr(signer(msig))),
				}
				for name, body := range kinds {
					for _, tg := range []int{-1, 98, 97, 96, 17, 16, 18, 19} {
						var node *icbor.Node = body
						if tg >= 0 {
							node = icbor.Tag(uint64(tg), body)
						}
						run(fmt.Sprintf("%scose-kind=%s/tag%d", pre, name, tg), "cose-kind", icbor.Encode(node), true)
					}
				}
			}
			// the four correct elements in an INDEFINITE-length array, followed
			// by further bytes after the break, or with a fifth element
			{
				ind := icbor.Encode(icbor.Tag(18, icbor.Arr(elems()...).WithIndef()))
				for _, tr := range [][]byte{{0x00}, {0xff}, {0xf6}, {0x40}, {0xd2, 0x84}, good} {
					run(fmt.Sprintf("%sindefinite-array+trailing=%x", pre, tr[:min(len(tr), 4)]), "trailing", append(append([]byte{}, ind...), tr...), true)
				}
				five := append(elems(), icbor.Bstr([]byte{1}))
				run(pre+"indefinite-array-5-elements", "arity", icbor.Encode(icbor.Tag(18, icbor.Arr(five...).WithIndef())), true)
				run(pre+"indefinite-array-3-elements", "arity", icbor.Encode(icbor.Tag(18, icbor.Arr(elems()[:3]...).WithIndef())), true)
				run(pre+"indefinite-array-no-break", "truncation", ind[:len(ind)-1], true)
			}
			// payloads that are maps with a label that is neither an integer
			// nor a text string (not a claims map), for the built-in profiles
			// and for a registered extension profile whose decoder skips what
			// it does not know
			for oi, odd := range []*icbor.Node{icbor.Bool(false), icbor.Bool(true), icbor.Null(), icbor.Undef(), icbor.F64(1.5), icbor.Simple(32), icbor.Tag(1, icbor.U(0)), icbor.Bstr([]byte{1}), icbor.Arr(), icbor.Map()} {
				for _, ext := range []bool{false, true} {
					cn, _, _ := icbor.Read(claims)
					if ext {
						if p != P2 {
							continue
						}
						var ps [][2]*icbor.Node
						for _, pr := range cn.Pairs {
							if k, _ := pr[0].Int(); k == 265 {
								pr = icbor.P(icbor.U(265), icbor.Tstr(ExtP2Name))
							}
							ps = append(ps, pr)
						}
						cn = icbor.Map(ps...)
					}
					cn.Pairs = append(cn.Pairs, icbor.P(odd, icbor.U(1)))
					pl := icbor.Encode(cn)
					e := elems()
					e[2], e[3] = icbor.Bstr(pl), icbor.Bstr(sigOver(pl))
					run(fmt.Sprintf("%spayload-label#%d/ext=%v", pre, oi, ext), "payload", icbor.Encode(icbor.Tag(18, icbor.Arr(e...))), true)
				}
			}
			// the (correct) envelope in a TEXT transport encoding: base64 in its
			// four alphabets / paddings, hex, with line breaks or a data: prefix
			for name, txt := range map[string]string{
				"base64-std":       base64.StdEncoding.EncodeToString(good),
				"base64-std-raw":   base64.RawStdEncoding.EncodeToString(good),
				"base64-url":       base64.URLEncoding.EncodeToString(good),
				"base64-url-raw":   base64.RawURLEncoding.EncodeToString(good),
				"base64-std+nl":    base64.StdEncoding.EncodeToString(good) + "\n",
				"base64-quoted":    "\"" + base64.StdEncoding.EncodeToString(good) + "\"",
				"base64-of-base64": base64.StdEncoding.EncodeToString([]byte(base64.StdEncoding.EncodeToString(good))),
				"hex":              hex.EncodeToString(good),
				"HEX":              strings.ToUpper(hex.EncodeToString(good)),
				"0x-hex":           "0x" + hex.EncodeToString(good),
				"data-uri":         "data:application/eat+cwt;base64," + base64.StdEncoding.EncodeToString(good),
				"base32":           base32.StdEncoding.EncodeToString(good),
				"diag":             icbor.Diag(icbor.Tag(18, icbor.Arr(elems()...))),
			} {
				run(pre+"transcoded="+name, "transcoded", []byte(txt), true)
			}
			// header parameters that describe the payload (content type, typ,
			// crit) in either bucket x payloads that are not a CBOR claims map
			// (the claims as JSON text, "{}", the claims map itself): a header
			// must not turn a non-map payload into an acceptable one
			var jsonClaims []byte
			if lit, ok := baseValid(p, ai%3).BuildLiteral(); ok {
				jsonClaims, _ = psatoken.EncodeClaimsToJSON(lit)
			}
			for hi, hv := range []*icbor.Node{
				icbor.Tstr("application/json"), icbor.Tstr("application/eat-ucs+json"), icbor.Tstr("application/eat+json"), icbor.Tstr("APPLICATION/JSON; charset=utf-8"),
				icbor.U(50), icbor.U(60), icbor.U(0), icbor.U(61), icbor.U(263), icbor.Tstr("application/cbor"), icbor.Tstr("application/eat+cwt"), icbor.Tstr("text/plain"), icbor.Tstr("JWT"), icbor.Tstr("application/octet-stream"),
			} {
				for _, label := range []uint64{3, 16} {
					for bucket := 0; bucket < 2; bucket++ {
						for pi, pl := range [][]byte{jsonClaims, []byte("{}"), []byte("null"), []byte(base64.StdEncoding.EncodeToString(claims)), []byte(hex.EncodeToString(claims)), claims} {
							if len(pl) == 0 {
								continue
							}
							protMap, unprot := icbor.Map(icbor.P(icbor.U(1), icbor.I(alg))), icbor.Map()
							if bucket == 0 {
								protMap.Pairs = append(protMap.Pairs, icbor.P(icbor.U(label), hv.Clone()))
							} else {
								unprot.Pairs = append(unprot.Pairs, icbor.P(icbor.U(label), hv.Clone()))
							}
							pb := icbor.Encode(protMap)
							sg, serr := icose.Sign(alg, kp.Priv, pb, pl)
							if serr != nil {
								t.Fatalf("VERIF-INFRA: %v", serr)
							}
							tok := icbor.Encode(icbor.Tag(18, icbor.Arr(icbor.Bstr(pb), unprot, icbor.Bstr(pl), icbor.Bstr(sg))))
							run(fmt.Sprintf("%sheader%d=#%d/bucket%d/payload#%d", pre, label, hi, bucket, pi), "header-x-payload", tok, pi < 5)
						}
					}
				}
			}
			// trailing bytes
			for _, tr := range [][]byte{{0x00}, {0xff}, {0xf6}, {0x00, 0x00}, {0xd2, 0x84}, {0x40, 0xa0, 0x40}} {
				run(fmt.Sprintf("%strailing=%x", pre, tr), "trailing", append(append([]byte{}, good...), tr...), true)
			}
			run(pre+"twice", "trailing", append(append([]byte{}, good...), good...), true)
			// non-minimal heads
			for _, w := range []int{1, 2, 4, 8} {
				run(fmt.Sprintf("%stag-head%d", pre, w), "head", icbor.Encode(icbor.Tag(18, icbor.Arr(elems()...)).WithHead(w)), true)
				run(fmt.Sprintf("%sarray-head%d", pre, w), "head", icbor.Encode(icbor.Tag(18, icbor.Arr(elems()...).WithHead(w))), true)
			}
			run(pre+"array-indefinite", "head", icbor.Encode(icbor.Tag(18, icbor.Arr(elems()...).WithIndef())), true)
			// truncations of the canonical envelope
			for cut := 0; cut < len(good); cut += 1 + len(good)/40 {
				run(fmt.Sprintf("%struncate%d", pre, cut), "truncation", good[:cut], cut > 2)
			}
		}
	}
	// correct envelopes of EXACT sizes (2^12, 2^16, 2^20 bytes and one byte
	// more / less; the free-text claim is padded), alone and followed by
	// trailing bytes: a size limit must not cut the input before the
	// "nothing after it" test
	{
		kp := keyFor(icose.EdDSA, 0)
		prot := icose.ProtectedAlg(kp.Alg)
		build := func(vsiLen int) []byte {
			m := baseValid(P2, 1)
			m.VSI = sp(strings.Repeat("v", vsiLen))
			pl := m.WireBytes()
			sg, err := icose.Sign(kp.Alg, kp.Priv, prot, pl)
			if err != nil {
				t.Fatalf("VERIF-INFRA: %v", err)
			}
			return icbor.Encode(icose.Envelope(prot, icbor.Map(), pl, sg))
		}
		for _, size := range []int{1 << 12, 1 << 16, 1 << 20} {
			for _, delta := range []int{-1, 0, 1} {
				want := size + delta
				n := want - len(build(0))
				var tok []byte
				for try := 0; try < 12 && n > 0; try++ {
					tok = build(n)
					if len(tok) == want {
						break
					}
					n -= len(tok) - want
				}
				if len(tok) != want {
					continue // head widths make this exact size unreachable
				}
				run(fmt.Sprintf("size/%d", want), "size", tok, true)
				for _, tr := range [][]byte{{0x00}, {0xff}, {0xf6}, {0xd2, 0x84, 0x40}} {
					run(fmt.Sprintf("size/%d+trailing=%x", want, tr), "trailing", append(append([]byte{}, tok...), tr...), true)
				}
			}
		}
	}
	// TF-M vectors
	for _, f := range []string{"psa-2_0_0_mac0.bin", "psa-2_0_0_sign1.bin"} {
		b, err := os.ReadFile(repoDir() + "/testvectors/tf-m/" + f)
		if err != nil {
			st.Class("vector-missing")
			continue
		}
		run("vector/"+f, "vector", b, true)
		if len(b) > 0 {
			for _, first := range []byte{0xd1, 0xd2, 0xd8} {
				sw := append([]byte{first}, b[1:]...)
				run(fmt.Sprintf("vector/%s/firstbyte=%02x", f, first), "vector", sw, true)
			}
			run("vector/"+f+"/untagged", "vector", b[1:], true)
		}
	}
	if accepted == 0 {
		t.Fatalf("VERIF-INFRA: no envelope at all was accepted")
	}
}

// FuzzC20_Envelope (thorough tier): coverage-guided mutation of envelopes,
// with the classifier oracle inside the target.
func FuzzC20_Envelope(f *testing.F) {
	kp := keyFor(icose.EdDSA, 0)
	for _, p := range []Prof{P1, P2} {
		claims := baseValid(p, 1).WireBytes()
		good, _ := icose.SignedToken(kp.Alg, kp.Priv, claims)
		f.Add(good)
		f.Add(good[1:])
		f.Add(append([]byte{0xd1}, good[1:]...))
		f.Add(append(append([]byte{}, good...), 0x00))
		for _, pl := range [][]byte{{0xf6}, {0x80}, {0xd8, 0xa0, 0xf6}, {0xa0}, claims[:len(claims)-1], append(append([]byte{}, claims...), 0xa0)} {
			tok, _ := icose.SignedToken(kp.Alg, kp.Priv, pl)
			f.Add(tok)
		}
		f.Add(icbor.Encode(icbor.Tag(18, icbor.Arr(icbor.Bstr(icose.ProtectedAlg(kp.Alg)), icbor.Map(), icbor.Null(), icbor.Bstr([]byte{1})))))
		f.Add(icbor.Encode(icbor.Tag(55799, icbor.Tag(18, icbor.Arr(icbor.Bstr(nil), icbor.Map(), icbor.Bstr(claims), icbor.Bstr([]byte{1}))))))
	}
	for _, name := range []string{"psa-2_0_0_mac0.bin", "psa-2_0_0_sign1.bin"} {
		if b, err := os.ReadFile(repoDir() + "/testvectors/tf-m/" + name); err == nil {
			f.Add(b)
		}
	}
	f.Fuzz(func(t *testing.T, data []byte) {
		if len(data) > 1<<14 {
			return
		}
		if msg := c20Kind(c20In{Desc: "fuzz", Tok: data}); msg != "" {
			t.Fatalf("C20 violated: %s\n  token: %x", msg, data)
		}
	})
}

func smallUintsOf(b []byte) *icbor.Node {
	it := make([]*icbor.Node, len(b))
	for i, x := range b {
		it[i] = icbor.U(uint64(x))
	}
	return icbor.Arr(it...)
}

// isHugeInt: an integer label outside int64 (still an integer).
func isHugeInt(n *icbor.Node) bool {
	return n.Kind == icbor.U(0).Kind || n.Kind == icbor.NintArg(0).Kind
}
