package checks

import (
	"bytes"
	"errors"
	"fmt"
	"sort"
	"strings"
	"syscall"
	"testing"
	"verifharness/icose"

	"github.com/veraison/eat"
	"github.com/veraison/psatoken"
	"pgregory.net/rapid"
)

// C13 — errors carry the documented sentinel class.

func clsSetString(s map[ECls]bool) string {
	var r []string
	for k := range s {
		r = append(r, k.String())
	}
	sort.Strings(r)
	return "{" + strings.Join(r, ",") + "}"
}

// c13Claims checks getter and Validate() error classes of c against m.
func c13Claims(c psatoken.IClaims, m *MClaims) string {
	for k := Claim(0); k < nClaims; k++ {
		want, alt := m.Expect(k)
		var err error
		switch k {
		case CProfile:
			_, err = c.GetProfile()
		case CClientID:
			_, err = c.GetClientID()
		case CLifecycle:
			_, err = c.GetSecurityLifeCycle()
		case CImplID:
			_, err = c.GetImplID()
		case CBootSeed:
			_, err = c.GetBootSeed()
		case CCertRef:
			_, err = c.GetCertificationReference()
		case CSwComps:
			_, err = c.GetSoftwareComponents()
		case CNonce:
			_, err = c.GetNonce()
		case CInstID:
			_, err = c.GetInstID()
		case CVSI:
			_, err = c.GetVSI()
		}
		if want == EOK {
			if err != nil {
				return fmt.Sprintf("getter %s fails (%v) on a well-formed claim", k, err)
			}
			continue
		}
		if err == nil {
			return fmt.Sprintf("getter %s succeeds, expected a %s error", k, want)
		}
		allowed := map[ECls]bool{want: true}
		if alt >= 0 {
			allowed[alt] = true
		}
		if k == CSwComps && !m.CompsNil && len(m.Comps) > 0 {
			// the error may come from any offending field of any component
			for _, sc := range m.Comps {
				for cl := range compClasses(sc) {
					allowed[cl] = true
				}
			}
		}
		got := classSet(err)
		if len(got) == 0 {
			return fmt.Sprintf("getter %s: error %q satisfies errors.Is for no sentinel class (expected %s)", k, err, clsSetString(allowed))
		}
		for cl := range got {
			if !allowed[cl] {
				return fmt.Sprintf("getter %s: error %q is classified %s, expected %s", k, err, clsSetString(got), clsSetString(allowed))
			}
		}
		// FilterError must treat it consistently with its class
		fe := psatoken.FilterError(nil, err)
		if got[EMissOpt] && fe != nil {
			return fmt.Sprintf("FilterError keeps a missing-optional error of %s", k)
		}
		if !got[EMissOpt] && !got[ENotInProfile] && fe != err {
			return fmt.Sprintf("FilterError altered/suppressed the %s error of %s", clsSetString(got), k)
		}
	}
	// Validate()
	verr := c.Validate()
	off := m.OffendingClasses()
	if len(off) == 0 {
		if verr != nil {
			return fmt.Sprintf("Validate() fails on a valid set: %v", verr)
		}
		return ""
	}
	if verr == nil {
		return "Validate() succeeds on an invalid set"
	}
	got := classSet(verr)
	if len(got) == 0 {
		return fmt.Sprintf("Validate() error %q satisfies errors.Is for no sentinel class (offending classes %s)", verr, clsSetString(off))
	}
	for cl := range got {
		if !off[cl] {
			return fmt.Sprintf("Validate() error %q is classified %s; the offending claims call for one of %s", verr, clsSetString(got), clsSetString(off))
		}
	}
	if got[EMissOpt] || got[ENotInProfile] {
		return fmt.Sprintf("Validate() failed with an error classified as ignorable: %v", verr)
	}
	// the same verdict travels through every validating entry point: the
	// error each of them returns for this invalid set is still classifiable
	ev := &psatoken.Evidence{}
	evHeld := &psatoken.Evidence{Claims: c}
	kp := keyFor(icose.EdDSA, 0)
	gates := []struct {
		name string
		call func() error
	}{
		{"ValidateAndEncodeClaimsToCBOR", func() error { _, e := psatoken.ValidateAndEncodeClaimsToCBOR(c); return e }},
		{"ValidateAndEncodeClaimsToJSON", func() error { _, e := psatoken.ValidateAndEncodeClaimsToJSON(c); return e }},
		{"Evidence.SetClaims", func() error { return ev.SetClaims(c) }},
		{"Evidence.ValidateAndSign", func() error { _, e := evHeld.ValidateAndSign(kp.Signer()); return e }},
	}
	for _, g := range gates {
		gerr := g.call()
		if gerr == nil {
			return g.name + " succeeds on an invalid set"
		}
		gg := classSet(gerr)
		if len(gg) == 0 {
			return fmt.Sprintf("%s: validation error %q satisfies errors.Is for no sentinel class (offending classes %s; Validate() said %q)", g.name, gerr, clsSetString(off), verr)
		}
		for cl := range gg {
			if !off[cl] {
				return fmt.Sprintf("%s: error %q is classified %s; the offending claims call for one of %s", g.name, gerr, clsSetString(gg), clsSetString(off))
			}
		}
	}
	return ""
}

func c13Components(c psatoken.IClaims, m *MClaims) string {
	// component getters on the model's components, realised one by one
	for i, mc := range m.Comps {
		if mc == nil || mc.NilEntry {
			continue
		}
		sc := libComp(mc)
		check := func(name string, err error, present bool, okLen bool, mandatory bool) string {
			switch {
			case present && okLen:
				if err != nil {
					return fmt.Sprintf("component %d %s getter fails on a well-formed field: %v", i, name, err)
				}
			case !present && mandatory:
				if s := classSet(err); len(s) != 1 || !s[EMissMand] {
					return fmt.Sprintf("component %d absent mandatory %s: error %v classified %s, want missing-mandatory", i, name, err, clsSetString(s))
				}
			case !present:
				if s := classSet(err); len(s) != 1 || !s[EMissOpt] {
					return fmt.Sprintf("component %d absent optional %s: error %v classified %s, want missing-optional", i, name, err, clsSetString(s))
				}
			default:
				if s := classSet(err); len(s) != 1 || !s[ESyntax] {
					return fmt.Sprintf("component %d malformed %s: error %v classified %s, want wrong-syntax", i, name, err, clsSetString(s))
				}
			}
			return ""
		}
		_, e := sc.GetMeasurementValue()
		if s := check("measurement-value", e, mc.Value != nil, mc.Value != nil && isHashLen(len(*mc.Value)), true); s != "" {
			return s
		}
		_, e = sc.GetSignerID()
		if s := check("signer-id", e, mc.Signer != nil, mc.Signer != nil && isHashLen(len(*mc.Signer)), true); s != "" {
			return s
		}
		_, e = sc.GetMeasurementType()
		if s := check("measurement-type", e, mc.Type != nil, true, false); s != "" {
			return s
		}
		_, e = sc.GetVersion()
		if s := check("version", e, mc.Version != nil, true, false); s != "" {
			return s
		}
		_, e = sc.GetMeasurementDesc()
		if s := check("measurement-description", e, mc.Desc != nil, true, false); s != "" {
			return s
		}
		verr := sc.Validate()
		cc := compClasses(mc)
		if len(cc) == 0 && verr != nil {
			return fmt.Sprintf("well-formed component %d does not validate: %v", i, verr)
		}
		if len(cc) > 0 {
			if verr == nil {
				return fmt.Sprintf("malformed component %d validates", i)
			}
			got := classSet(verr)
			if len(got) == 0 {
				return fmt.Sprintf("component %d Validate() error %q has no sentinel class", i, verr)
			}
			for cl := range got {
				if !cc[cl] {
					return fmt.Sprintf("component %d Validate() error %q classified %s, offending fields call for %s", i, verr, clsSetString(got), clsSetString(cc))
				}
			}
		}
	}
	return ""
}

func TestC13_ClaimErrors(t *testing.T) {
	st := NewStats("C13", "TestC13_ClaimErrors", "rapid: each claim / component field x each way of being wrong, alone (exact class) and combined (class of some offending claim), on claims-sets obtained as struct literals, via the per-type CBOR unmarshal, and via setters called with invalid values; instances of DERIVED profiles holding claims that declare another profile (the stock name of their own base, the other stock profile, an unknown name): wrong-profile class from GetProfile and Validate; errors.Is against the five sentinels must hold for the expected class and for no other. Non-trivial = the error travels through >= 1 wrapping layer (component inside list, getter inside Validate); distinct = (route, class vector)")
	st.Require = []string{"route=literal", "route=unmarshal", "route=setter", "single", "combined", "component-defect", "foreign-component", "degraded-in-place", "null-component-entry", "setter-on-held-value", "route=derived-mismatch"}
	defer st.Flush(t)
	rapid.Check(t, func(t *rapid.T) {
		p := drawProf(t)
		route := rapid.SampledFrom([]string{"literal", "literal", "unmarshal", "unmarshal", "setter", "degraded", "derived-mismatch"}).Draw(t, "route")
		if route == "setter" {
			c, err := psatoken.NewClaims(p.Name())
			if err != nil {
				t.Fatalf("VERIF-INFRA: %v", err)
			}
			o := drawSetterOp(t, p)
			err, applicable := o.apply(c)
			if !applicable {
				st.Case("", "route=setter")
				return
			}
			accept := o.modelAccepts(p)
			if o.Claim == CSwComps && len(o.Comps) == 0 {
				st.Case("", "route=setter")
				return
			}
			if !accept {
				if err == nil {
					t.Fatalf("setter %s accepted an invalid value", o)
				}
				got := classSet(err)
				allowed := map[ECls]bool{ESyntax: true}
				if o.Claim == CSwComps {
					allowed = map[ECls]bool{}
					for _, sc := range o.Comps {
						for cl := range compClasses(sc) {
							allowed[cl] = true
						}
					}
				}
				if len(got) == 0 {
					t.Fatalf("C13 violated: error of %s (%q) satisfies errors.Is for no sentinel class", o, err)
				}
				for cl := range got {
					if !allowed[cl] {
						t.Fatalf("C13 violated: error of %s (%q) classified %s, want %s", o, err, clsSetString(got), clsSetString(allowed))
					}
				}
				cls := []string{"route=setter"}
				if o.Claim != CSwComps {
					// ... and the same call on a claims-set that ALREADY holds
					// that very (malformed) value, by a route that did not
					// validate it (filled through the fields, decoded): the
					// setter still refuses it, with the same class
					hm := baseValid(p, 1)
					o.updateModel(hm, nil)
					if held, ok := hm.BuildLiteral(); ok {
						herr, happ := o.apply(held)
						if happ && herr == nil {
							t.Fatalf("C13 violated: setter %s accepts an invalid value when the claims-set already holds that same value", o)
						}
						if happ {
							hgot := classSet(herr)
							if len(hgot) == 0 {
								t.Fatalf("C13 violated: error of %s on a claims-set already holding the value (%q) satisfies errors.Is for no sentinel class", o, herr)
							}
							for cl := range hgot {
								if !allowed[cl] {
									t.Fatalf("C13 violated: error of %s on a claims-set already holding the value (%q) classified %s, want %s", o, herr, clsSetString(hgot), clsSetString(allowed))
								}
							}
						}
						cls = append(cls, "setter-on-held-value")
					}
				}
				if o.Claim == CSwComps {
					cls = append(cls, "component-defect")
					// the same list with the malformed components being of
					// ANOTHER ISwComponent implementation (an extension's
					// component type embedding SwComponent): a malformed
					// component is still reported under its defect's class
					var list []psatoken.ISwComponent
					nilEntry := false
					for _, mc := range o.Comps {
						lc := libComp(mc)
						switch {
						case lc == nil:
							nilEntry = true
						case compClass(mc) != EOK:
							list = append(list, &foreignComp{SwComponent: *lc})
						default:
							list = append(list, lc)
						}
					}
					if !nilEntry {
						for _, via := range []string{"setter", "add", "replace"} {
							c2, _ := psatoken.NewClaims(p.Name())
							var ferr error
							switch via {
							case "setter":
								ferr = c2.SetSoftwareComponents(list)
							case "add":
								ferr = swContainerOf(c2).Add(list...)
							default:
								ferr = swContainerOf(c2).Replace(list)
							}
							if ferr == nil {
								t.Fatalf("C13: %s accepted a list with a malformed component of a foreign type", via)
							}
							fgot := classSet(ferr)
							if len(fgot) == 0 {
								t.Fatalf("C13 violated: %s given a malformed component of another ISwComponent implementation: error %q satisfies errors.Is for no sentinel class (want %s)", via, ferr, clsSetString(allowed))
							}
							for cl := range fgot {
								if !allowed[cl] {
									t.Fatalf("C13 violated: %s given a malformed foreign component: error %q classified %s, want %s", via, ferr, clsSetString(fgot), clsSetString(allowed))
								}
							}
						}
						cls = append(cls, "foreign-component")
					}
				}
				st.Case("setter|"+o.String(), cls...)
				return
			}
			st.Case("", "route=setter")
			return
		}
		if route == "derived-mismatch" {
			// an instance of a profile DERIVED from p (own name, claims type
			// embedding the base type) holding claims that declare ANOTHER
			// profile - the stock name of its own base, the other stock
			// profile, an unknown name: a profile mismatch, whatever the name
			derived := map[Prof]string{P1: ExtP1Name, P2: ExtP2Name}[p]
			declared := rapid.SampledFrom([]string{p.Name(), p.Name(), map[Prof]string{P1: P2Name, P2: P1Name}[p], "http://example.com/verif/unknown", derived}).Draw(t, "declared")
			mv := GenValid(t, p, false)
			mv.Profile = sp(declared)
			var c psatoken.IClaims
			if p == P1 {
				c = newExtP1Claims()
			} else {
				c = newExtP2Claims()
			}
			how := rapid.SampledFrom([]string{"unmarshal", "field"}).Draw(t, "how")
			if how == "unmarshal" {
				type cu interface{ UnmarshalCBOR([]byte) error }
				if err := c.(cu).UnmarshalCBOR(mv.WireBytes()); err != nil {
					st.Case("", "undecodable")
					return
				}
			} else {
				lit, ok := mv.BuildLiteral()
				if !ok {
					st.Case("", "unrepresentable")
					return
				}
				switch cc := c.(type) {
				case *ExtP1Claims:
					canon := cc.P1Claims.CanonicalProfile
					cc.P1Claims = *lit.(*psatoken.P1Claims)
					cc.P1Claims.CanonicalProfile = canon
				case *ExtP2Claims:
					canon := cc.P2Claims.CanonicalProfile
					cc.P2Claims = *lit.(*psatoken.P2Claims)
					cc.P2Claims.CanonicalProfile = canon
				}
			}
			_, gerr := c.GetProfile()
			if declared == derived {
				if gerr != nil {
					t.Fatalf("C13 violated: a %s instance declaring its own name %q: GetProfile says %v", derived, declared, gerr)
				}
				st.Case("", "route=derived-mismatch")
				return
			}
			if gerr == nil {
				t.Fatalf("C13 violated: an instance of the derived profile %q holds claims declaring %q (%s): GetProfile reports no error (a profile mismatch yields the wrong-profile class)", derived, declared, how)
			}
			if got := classSet(gerr); len(got) != 1 || !got[EProfile] {
				t.Fatalf("C13 violated: an instance of the derived profile %q holds claims declaring %q (%s): GetProfile error %q classified %s, want wrong-profile", derived, declared, how, gerr, clsSetString(got))
			}
			verr := c.Validate()
			if verr == nil {
				t.Fatalf("C13 violated: an instance of the derived profile %q holds claims declaring %q (%s): Validate() reports no error", derived, declared, how)
			}
			if got := classSet(verr); !got[EProfile] {
				t.Fatalf("C13 violated: an instance of the derived profile %q holds claims declaring %q (%s): Validate() error %q classified %s, want wrong-profile among them", derived, declared, how, verr, clsSetString(got))
			}
			st.Case("derived-mismatch|"+how+"|"+declared+"|"+mv.ClassVector(), "route=derived-mismatch", "single")
			return
		}
		if route == "degraded" {
			// a claims-set built through the setters, validated, and THEN made
			// invalid by its holder through a component object it shares with
			// the claims-set (the one the getter hands out)
			mv := GenValid(t, p, true)
			if len(mv.Comps) == 0 {
				st.Case("", "route=degraded")
				return
			}
			c, err := mv.BuildSetters()
			if err != nil {
				t.Fatalf("valid set cannot be built through setters: %v", err)
			}
			if err := c.Validate(); err != nil {
				t.Fatalf("C13: valid set built through setters does not validate: %v", err)
			}
			scs, err := c.GetSoftwareComponents()
			if err != nil || len(scs) != len(mv.Comps) {
				t.Fatalf("C13: components of a valid set: %d, %v", len(scs), err)
			}
			i := rapid.IntRange(0, len(scs)-1).Draw(t, "degrade.idx")
			h, ok := scs[i].(*psatoken.SwComponent)
			if !ok {
				st.Case("", "route=degraded")
				return
			}
			mm := mv.Clone()
			short := drawBytes(t, rapid.SampledFrom([]int{0, 7, 31, 33, 65}).Draw(t, "degrade.len"), "degrade.bytes")
			defect := rapid.SampledFrom([]string{"signer-nil", "signer-bad", "value-nil", "value-bad"}).Draw(t, "degrade.kind")
			switch defect {
			case "signer-nil":
				h.SignerID, mm.Comps[i].Signer = nil, nil
			case "signer-bad":
				h.SignerID, mm.Comps[i].Signer = cloneBytesPtr(&short), cloneBytesPtr(&short)
			case "value-nil":
				h.MeasurementValue, mm.Comps[i].Value = nil, nil
			default:
				h.MeasurementValue, mm.Comps[i].Value = cloneBytesPtr(&short), cloneBytesPtr(&short)
			}
			// does the claims-set hold what its holder changed? The plain
			// (non-validating) encoder tells, independently of any getter
			lit, ok := mm.BuildLiteral()
			if !ok {
				st.Case("", "route=degraded")
				return
			}
			b1, e1 := psatoken.EncodeClaimsToCBOR(c)
			b2, e2 := psatoken.EncodeClaimsToCBOR(lit)
			if e1 != nil || e2 != nil || !bytes.Equal(b1, b2) {
				st.Case("", "route=degraded", "no-verdict:component-not-shared")
				return
			}
			if msg := c13Claims(c, mm); msg != "" {
				t.Fatalf("C13 violated (claims-set built through setters and validated; then component %d changed in place by its holder: %s): %s\n [%s]", i, defect, msg, mm.ClassVector())
			}
			st.Case("degraded|"+defect+"|"+mm.ClassVector(), "route=degraded", "degraded-in-place", "component-defect")
			return
		}
		m := GenAny(t, p)
		var c psatoken.IClaims
		if route == "literal" {
			var ok bool
			if c, ok = m.BuildLiteral(); !ok {
				st.Case("", "unrepresentable")
				return
			}
		} else {
			var err error
			c, err = psatoken.NewClaims(p.Name())
			if err != nil {
				t.Fatalf("VERIF-INFRA: %v", err)
			}
			if profileNormalisesToCanon(m) {
				// e.g. "HTTP://arm.com/psa/2.0.0": not the registered name (the
				// dispatching decoders reject it, see C07), but when such a
				// token is unmarshalled straight into a P2Claims the profile
				// getter compares URL-normalised forms and RFC 3986 calls the
				// two URIs equivalent: no verdict on which class applies
				st.Case("", "no-verdict:profile-uri-normalisation")
				return
			}
			type cu interface{ UnmarshalCBOR([]byte) error }
			if err := c.(cu).UnmarshalCBOR(m.WireBytes()); err != nil {
				st.Case("", "undecodable")
				return
			}
			// what a decoder yields for these wire bytes: nil container never
			// arises; an absent P2 list leaves the constructor's empty one
		}
		if msg := c13Claims(c, m); msg != "" {
			t.Fatalf("C13 violated (%s route): %s\n [%s]", route, msg, m.ClassVector())
		}
		if msg := c13Components(c, m); msg != "" {
			t.Fatalf("C13 violated: %s\n [%s]", msg, m.ClassVector())
		}
		off := m.Offending()
		cls := []string{"route=" + route}
		wrapped := false
		switch {
		case len(off) == 1:
			cls = append(cls, "single")
			wrapped = true // getter error inside Validate()
		case len(off) > 1:
			cls = append(cls, "combined")
			wrapped = true
		}
		for _, sc := range m.Comps {
			if compClass(sc) != EOK {
				cls = append(cls, "component-defect")
				break
			}
		}
		for _, sc := range m.Comps {
			if sc != nil && sc.NilEntry {
				cls = append(cls, "null-component-entry")
				break
			}
		}
		key := ""
		if wrapped {
			key = route + "|" + m.ClassVector()
		}
		st.Case(key, cls...)
		if key != "" && st.WantSample() {
			st.Sample(map[string]any{"route": route, "claims": m.ClassVector(), "validate_error": fmt.Sprint(c.Validate())})
		}
	})
}

// ---- FilterError over constructed error trees ----

type unwrapErr struct{ inner error }

func (e *unwrapErr) Error() string { return "custom(" + e.inner.Error() + ")" }
func (e *unwrapErr) Unwrap() error { return e.inner }

type isErr struct{ target error }

func (e *isErr) Error() string        { return "is-a(" + e.target.Error() + ")" }
func (e *isErr) Is(target error) bool { return target == e.target }

type opaqueErr struct{ inner error }

func (e *opaqueErr) Error() string { return "opaque(" + e.inner.Error() + ")" }

var sentinels = []error{psatoken.ErrMissingOptional, psatoken.ErrMissingMandatory, psatoken.ErrNotInProfile, psatoken.ErrWrongProfile, psatoken.ErrWrongSyntax}

type derived struct {
	err  error
	base error
}

var derivedErrs = []derived{
	{psatoken.ErrOptionalClaimMissing, psatoken.ErrMissingOptional},
	{psatoken.ErrMandatoryClaimMissing, psatoken.ErrMissingMandatory},
	{psatoken.ErrClaimNotInProfile, psatoken.ErrNotInProfile},
	{psatoken.ErrOptionalFieldMissing, psatoken.ErrMissingOptional},
	{psatoken.ErrMandatoryFieldMissing, psatoken.ErrMissingMandatory},
	{psatoken.ErrFieldNotInProfile, psatoken.ErrNotInProfile},
}

// drawErrTree returns an error value, the set of sentinels reachable from it
// by construction, a description, and its depth.
type zeroStructErr struct{}

func (zeroStructErr) Error() string { return "zero struct error" }

type codeErr int

func (c codeErr) Error() string { return fmt.Sprintf("code %d", int(c)) }

type strErr string

func (s strErr) Error() string { return "strErr:" + string(s) }

type arrErr [2]byte

func (a arrErr) Error() string { return fmt.Sprintf("arrErr:%x", a[:]) }

func drawErrTree(t *rapid.T, depth int) (error, map[error]bool, string, int) {
	leaf := depth >= 4 || rapid.IntRange(0, 2).Draw(t, "leaf") == 0
	if leaf {
		switch rapid.IntRange(0, 4).Draw(t, "leafkind") {
		case 4:
			// error VALUES of non-pointer types, among them the zero value of
			// their type (a field-less struct, an integer code 0, errno 0, an
			// empty string type, an all-zero array type)
			e := rapid.SampledFrom([]error{zeroStructErr{}, codeErr(0), codeErr(7), syscall.Errno(0), syscall.Errno(2), strErr(""), strErr("x"), arrErr{}, arrErr{1}}).Draw(t, "valueerr")
			return e, map[error]bool{}, fmt.Sprintf("value(%T %v)", e, e == nil), 0
		case 0:
			s := rapid.SampledFrom(sentinels).Draw(t, "sentinel")
			return s, map[error]bool{s: true}, "S(" + s.Error() + ")", 0
		case 1:
			d := rapid.SampledFrom(derivedErrs).Draw(t, "derived")
			return d.err, map[error]bool{d.base: true}, "D(" + d.err.Error() + ")", 0
		case 2:
			// a fresh error with identical text reaches no sentinel
			s := rapid.SampledFrom(sentinels).Draw(t, "lookalike")
			return errors.New(s.Error()), map[error]bool{}, "lookalike(" + s.Error() + ")", 0
		default:
			return errors.New("unrelated"), map[error]bool{}, "unrelated", 0
		}
	}
	inner, reach, desc, d := drawErrTree(t, depth+1)
	switch rapid.IntRange(0, 5).Draw(t, "wrapper") {
	case 0:
		return fmt.Errorf("ctx: %w", inner), reach, "%w(" + desc + ")", d + 1
	case 1:
		return fmt.Errorf("ctx: %v", inner), map[error]bool{}, "%v(" + desc + ")", d + 1
	case 2:
		other, r2, desc2, d2 := drawErrTree(t, depth+1)
		u := map[error]bool{}
		for k := range reach {
			u[k] = true
		}
		for k := range r2 {
			u[k] = true
		}
		if d2 > d {
			d = d2
		}
		if genBool.Draw(t, "joinorder") {
			return errors.Join(inner, other), u, "join(" + desc + "," + desc2 + ")", d + 1
		}
		return errors.Join(other, inner), u, "join(" + desc2 + "," + desc + ")", d + 1
	case 3:
		return &unwrapErr{inner}, reach, "unwrap(" + desc + ")", d + 1
	case 4:
		s := rapid.SampledFrom(sentinels).Draw(t, "istarget")
		return &isErr{s}, map[error]bool{s: true}, "is(" + s.Error() + ")", 1
	default:
		return &opaqueErr{inner}, map[error]bool{}, "opaque(" + desc + ")", d + 1
	}
}

func TestC13_FilterError(t *testing.T) {
	st := NewStats("C13", "TestC13_FilterError", "rapid: error values built by arbitrary wrapping (leaves: the five sentinels, the six derived errors, fresh look-alike errors with identical text, unrelated errors, error values of non-pointer types incl. their zero values, nil; wrappers: %w, %v, errors.Join, custom Unwrap, custom Is, opaque). By construction the set of reachable sentinels is known: FilterError returns nil iff e is nil or missing-optional / not-in-profile is reachable, otherwise the very same error value. Non-trivial = >= 1 wrapping layer; distinct = tree shape")
	st.Require = []string{"filtered", "kept", "nil", "lookalike"}
	defer st.Flush(t)
	rapid.Check(t, func(t *rapid.T) {
		if rapid.IntRange(0, 19).Draw(t, "nilcase") == 0 {
			if got := psatoken.FilterError("anything", nil); got != nil {
				t.Fatalf("C13 violated: FilterError(nil) = %v", got)
			}
			st.Case("", "nil")
			return
		}
		e, reach, desc, depth := drawErrTree(t, 0)
		val := rapid.SampledFrom([]any{nil, 1, "x", []byte{1}}).Draw(t, "value")
		got := psatoken.FilterError(val, e)
		wantNil := reach[psatoken.ErrMissingOptional] || reach[psatoken.ErrNotInProfile]
		// cross-check the construction itself against errors.Is
		for _, s := range sentinels {
			if errors.Is(e, s) != reach[s] {
				t.Fatalf("VERIF-INFRA: construction bookkeeping disagrees with errors.Is for %s on %s", s, desc)
			}
		}
		if wantNil && got != nil {
			t.Fatalf("C13 violated: FilterError kept %s although an ignorable class is reachable", desc)
		}
		if !wantNil && got != e {
			t.Fatalf("C13 violated: FilterError(%s) returned %v instead of the same error", desc, got)
		}
		cls := []string{"kept"}
		if wantNil {
			cls = []string{"filtered"}
		}
		if strings.Contains(desc, "lookalike") {
			cls = append(cls, "lookalike")
		}
		key := ""
		if depth >= 1 {
			key = desc
		}
		st.Case(key, cls...)
		if key != "" && st.WantSample() {
			st.Sample(map[string]any{"tree": desc, "filtered": wantNil})
		}
	})
}

// profileNormalisesToCanon: a profile-2 name that differs from the canonical
// one only by what URL parsing normalises away (scheme case, empty fragment).
func profileNormalisesToCanon(m *MClaims) bool {
	if m.Prof != P2 || m.Profile == nil || *m.Profile == m.CanonName() {
		return false
	}
	p, err := eat.NewProfile(*m.Profile)
	if err != nil {
		return false
	}
	s, err := p.Get()
	return err == nil && s == m.CanonName()
}

// ---- validation ignores exactly the filtered classes, for ANY implementation ----

// overrideClaims is a claims implementation of a hypothetical derived profile:
// it answers some of the ten standard getters with a given error (a claim the
// profile makes optional, or does not have) and delegates the rest.
type overrideClaims struct {
	psatoken.IClaims
	errs map[Claim]error
}

func (o *overrideClaims) Validate() error { return psatoken.ValidateClaims(o) }
func (o *overrideClaims) GetProfile() (string, error) {
	if e, ok := o.errs[CProfile]; ok {
		return "", e
	}
	return o.IClaims.GetProfile()
}
func (o *overrideClaims) GetClientID() (int32, error) {
	if e, ok := o.errs[CClientID]; ok {
		return 0, e
	}
	return o.IClaims.GetClientID()
}
func (o *overrideClaims) GetSecurityLifeCycle() (uint16, error) {
	if e, ok := o.errs[CLifecycle]; ok {
		return 0, e
	}
	return o.IClaims.GetSecurityLifeCycle()
}
func (o *overrideClaims) GetImplID() ([]byte, error) {
	if e, ok := o.errs[CImplID]; ok {
		return nil, e
	}
	return o.IClaims.GetImplID()
}
func (o *overrideClaims) GetBootSeed() ([]byte, error) {
	if e, ok := o.errs[CBootSeed]; ok {
		return nil, e
	}
	return o.IClaims.GetBootSeed()
}
func (o *overrideClaims) GetCertificationReference() (string, error) {
	if e, ok := o.errs[CCertRef]; ok {
		return "", e
	}
	return o.IClaims.GetCertificationReference()
}
func (o *overrideClaims) GetSoftwareComponents() ([]psatoken.ISwComponent, error) {
	if e, ok := o.errs[CSwComps]; ok {
		return nil, e
	}
	return o.IClaims.GetSoftwareComponents()
}
func (o *overrideClaims) GetNonce() ([]byte, error) {
	if e, ok := o.errs[CNonce]; ok {
		return nil, e
	}
	return o.IClaims.GetNonce()
}
func (o *overrideClaims) GetInstID() ([]byte, error) {
	if e, ok := o.errs[CInstID]; ok {
		return nil, e
	}
	return o.IClaims.GetInstID()
}
func (o *overrideClaims) GetVSI() (string, error) {
	if e, ok := o.errs[CVSI]; ok {
		return "", e
	}
	return o.IClaims.GetVSI()
}

// foreignComp: an extension's own component type (embeds the stock one).
type foreignComp struct {
	psatoken.SwComponent
	Vendor *string `cbor:"-1,keyasint,omitempty" json:"vendor,omitempty"`
}

// overrideComp does the same for the software component fields.
type overrideComp struct {
	psatoken.ISwComponent
	errs map[int]error
}

func (o *overrideComp) Validate() error { return psatoken.ValidateSwComponent(o) }
func (o *overrideComp) GetMeasurementType() (string, error) {
	if e, ok := o.errs[1]; ok {
		return "", e
	}
	return o.ISwComponent.GetMeasurementType()
}
func (o *overrideComp) GetMeasurementValue() ([]byte, error) {
	if e, ok := o.errs[2]; ok {
		return nil, e
	}
	return o.ISwComponent.GetMeasurementValue()
}
func (o *overrideComp) GetVersion() (string, error) {
	if e, ok := o.errs[4]; ok {
		return "", e
	}
	return o.ISwComponent.GetVersion()
}
func (o *overrideComp) GetSignerID() ([]byte, error) {
	if e, ok := o.errs[5]; ok {
		return nil, e
	}
	return o.ISwComponent.GetSignerID()
}
func (o *overrideComp) GetMeasurementDesc() (string, error) {
	if e, ok := o.errs[6]; ok {
		return "", e
	}
	return o.ISwComponent.GetMeasurementDesc()
}

func TestC13_ValidationFilters(t *testing.T) {
	st := NewStats("C13", "TestC13_ValidationFilters", "rapid: a claims implementation of a hypothetical derived profile (delegating to a valid built-in claims-set) answers 1..3 of the ten standard getters with an arbitrarily wrapped error (the error-tree generator of TestC13_FilterError: sentinels, derived errors, look-alikes, %w / %v / Join / custom Unwrap / custom Is / opaque wrappers); the exported ValidateClaims (and ValidateSwComponent for a component implementation built the same way, and Evidence.SetClaims) must succeed iff every injected error reaches the missing-optional or not-in-profile class, and otherwise return an error from which the first offending injected error is still reachable with errors.Is. Non-trivial = at least one injected error has a wrapping layer; distinct = claims + tree shapes")
	st.Require = []string{"all-ignorable", "some-kept", "component", "claims"}
	defer st.Flush(t)
	rapid.Check(t, func(t *rapid.T) {
		p := drawProf(t)
		m := GenValid(t, p, true)
		if p == P1 {
			m.Profile = sp(P1Name)
		}
		if len(m.Comps) == 0 {
			m.NoMeas = nil
			m.Comps = drawValidComps(t, "sw")
		}
		base, err := m.BuildSetters()
		if err != nil {
			t.Fatalf("VERIF-INFRA: %v", err)
		}
		component := rapid.IntRange(0, 3).Draw(t, "component") == 0
		n := rapid.IntRange(1, 3).Draw(t, "ninject")
		allIgnorable := true
		var descs []string
		maxDepth := 0
		var kept []error
		if component {
			scs, _ := base.GetSoftwareComponents()
			oc := &overrideComp{ISwComponent: scs[0], errs: map[int]error{}}
			for i := 0; i < n; i++ {
				f := rapid.SampledFrom([]int{1, 2, 4, 5, 6}).Draw(t, "field")
				if _, dup := oc.errs[f]; dup {
					continue
				}
				e, reach, desc, d := drawErrTree(t, 0)
				oc.errs[f] = e
				descs = append(descs, fmt.Sprintf("field%d:%s", f, desc))
				if d > maxDepth {
					maxDepth = d
				}
				if !(reach[psatoken.ErrMissingOptional] || reach[psatoken.ErrNotInProfile]) {
					allIgnorable = false
					kept = append(kept, e)
				}
			}
			got := psatoken.ValidateSwComponent(oc)
			if (got == nil) != allIgnorable {
				t.Fatalf("C13 violated: ValidateSwComponent = %v for a component whose getters fail with %v (ignorable: %v)", got, descs, allIgnorable)
			}
			if got != nil {
				ok := false
				for _, e := range kept {
					if errors.Is(got, e) {
						ok = true
					}
				}
				if !ok {
					t.Fatalf("C13 violated: ValidateSwComponent returned %q from which none of the offending getter errors %v is reachable", got, descs)
				}
			}
		} else {
			oc := &overrideClaims{IClaims: base, errs: map[Claim]error{}}
			for i := 0; i < n; i++ {
				c := Claim(rapid.IntRange(0, int(nClaims)-1).Draw(t, "claim"))
				if _, dup := oc.errs[c]; dup {
					continue
				}
				e, reach, desc, d := drawErrTree(t, 0)
				oc.errs[c] = e
				descs = append(descs, fmt.Sprintf("%s:%s", c, desc))
				if d > maxDepth {
					maxDepth = d
				}
				if !(reach[psatoken.ErrMissingOptional] || reach[psatoken.ErrNotInProfile]) {
					allIgnorable = false
					kept = append(kept, e)
				}
			}
			got := psatoken.ValidateClaims(oc)
			if (got == nil) != allIgnorable {
				t.Fatalf("C13 violated: ValidateClaims = %v for a claims implementation whose getters fail with %v (ignorable: %v)", got, descs, allIgnorable)
			}
			if got != nil {
				ok := false
				for _, e := range kept {
					if errors.Is(got, e) {
						ok = true
					}
				}
				if !ok {
					t.Fatalf("C13 violated: ValidateClaims returned %q from which none of the offending getter errors %v is reachable", got, descs)
				}
			}
			ev := &psatoken.Evidence{}
			if serr := ev.SetClaims(oc); (serr == nil) != allIgnorable {
				t.Fatalf("C13 violated: Evidence.SetClaims = %v for getters failing with %v (ignorable: %v)", serr, descs, allIgnorable)
			}
		}
		cls := []string{"claims"}
		if component {
			cls = []string{"component"}
		}
		if allIgnorable {
			cls = append(cls, "all-ignorable")
		} else {
			cls = append(cls, "some-kept")
		}
		key := ""
		if maxDepth >= 1 {
			key = strings.Join(descs, ";")
		}
		st.Case(key, cls...)
		if key != "" && st.WantSample() {
			st.Sample(map[string]any{"injected": descs, "validation_must_succeed": allIgnorable})
		}
	})
}
