package checks

// C04 — CBOR acceptance equals profile conformance; accepted values equal the
// wire.

import (
	"fmt"
	"math"
	"strings"
	"testing"

	"github.com/veraison/psatoken"
	"pgregory.net/rapid"

	"verifharness/icbor"
)

type wtype int

const (
	tInt32 wtype = iota
	tUint16
	tFlag
	tBstr
	tTstr
	tComps
	tNonceP2
)

func (w wtype) String() string {
	return [...]string{"int32", "uint16", "flag", "bstr", "tstr", "components", "nonce(bstr|array)"}[w]
}

type wtarget struct {
	comp     int // -1 = top-level claim
	key      int64
	ty       wtype
	optional bool // the key may be absent from a conformant token
	claim    Claim
	isFlag   bool
}

func (w wtarget) String() string {
	if w.comp >= 0 {
		return fmt.Sprintf("component[%d].%d", w.comp, w.key)
	}
	return fmt.Sprint(w.key)
}

func claimWireType(p Prof, c Claim) wtype {
	switch c {
	case CClientID:
		return tInt32
	case CLifecycle:
		return tUint16
	case CImplID, CBootSeed, CInstID:
		return tBstr
	case CProfile, CCertRef, CVSI:
		return tTstr
	case CSwComps:
		return tComps
	case CNonce:
		if p == P2 {
			return tNonceP2
		}
		return tBstr
	}
	panic("bad claim")
}

func claimWireOptional(p Prof, c Claim) bool {
	switch c {
	case CCertRef, CVSI:
		return true
	case CProfile, CSwComps:
		return p == P1
	case CBootSeed:
		return p == P2
	}
	return false
}

// targetsOf lists the keys present in root (the wire map of a token of
// profile p) that belong to the profile's key space, and the component fields.
func targetsOf(p Prof, root *icbor.Node) []wtarget {
	var r []wtarget
	for _, pr := range root.Pairs {
		k, ok := pr[0].Int()
		if !ok {
			continue
		}
		if p == P1 && k == p1NoMeasKey {
			r = append(r, wtarget{-1, k, tFlag, true, CSwComps, true})
			continue
		}
		for c := Claim(0); c < nClaims; c++ {
			if wireKey(p, c) == k {
				r = append(r, wtarget{-1, k, claimWireType(p, c), claimWireOptional(p, c), c, false})
				if c == CSwComps && pr[1].Kind == icbor.KArray {
					for i, cm := range pr[1].Items {
						if cm.Kind != icbor.KMap {
							continue
						}
						for _, f := range cm.Pairs {
							fk, _ := f[0].Int()
							ty := tBstr
							opt := false
							if fk == 1 || fk == 4 || fk == 6 {
								ty, opt = tTstr, true
							}
							r = append(r, wtarget{i, fk, ty, opt, CSwComps, false})
						}
					}
				}
			}
		}
	}
	return r
}

// slotOf finds the value slot of a target in root.
func slotOf(p Prof, root *icbor.Node, w wtarget) *[2]*icbor.Node {
	find := func(m *icbor.Node, key int64) *[2]*icbor.Node {
		for i := range m.Pairs {
			if k, ok := m.Pairs[i][0].Int(); ok && k == key {
				return &m.Pairs[i]
			}
		}
		return nil
	}
	if w.comp < 0 {
		return find(root, w.key)
	}
	cs := find(root, wireKey(p, CSwComps))
	if cs == nil || cs[1].Kind != icbor.KArray || w.comp >= len(cs[1].Items) {
		return nil
	}
	return find(cs[1].Items[w.comp], w.key)
}

// wire-level effects
const (
	effNeutral  = 0 // conformant, same values
	effNonConf  = 1 // not a conformant token: must be rejected
	effOpen     = 2 // the specifications leave it open: no accept/reject verdict, no fidelity verdict
	effOpenSame = 3 // no accept/reject verdict, but if accepted the values must still equal the wire
)

type wmut struct {
	Target string `json:"target"`
	Kind   string `json:"kind"`
	Eff    int    `json:"effect"`
	Known  string `json:"known_finding,omitempty"`
}

func compatible(ty wtype, n *icbor.Node) bool {
	switch ty {
	case tInt32:
		return n.Kind == icbor.KUint || n.Kind == icbor.KNint
	case tUint16, tFlag:
		return n.Kind == icbor.KUint
	case tBstr:
		return n.Kind == icbor.KBytes
	case tTstr:
		return n.Kind == icbor.KText
	case tComps:
		return n.Kind == icbor.KArray
	case tNonceP2:
		return n.Kind == icbor.KBytes || n.Kind == icbor.KArray
	}
	return false
}

func bytesAsUintArray(b []byte) *icbor.Node {
	it := make([]*icbor.Node, len(b))
	for i, x := range b {
		it[i] = icbor.U(uint64(x))
	}
	return icbor.Arr(it...)
}

// wrongTypePool: items of every major type (incl. the treacherous look-alikes).
func wrongTypePool(cur *icbor.Node) []*icbor.Node {
	r := []*icbor.Node{
		icbor.U(5), icbor.U(0x3000), icbor.I(-5), icbor.Bstr(make([]byte, 32)), icbor.Bstr([]byte("1234567890123-12345")), icbor.Bstr([]byte(P2Name)),
		icbor.Tstr("1234567890123"), icbor.Tstr(string(make([]byte, 32))), icbor.Tstr("x"),
		icbor.Arr(icbor.Bstr(make([]byte, 32))), icbor.Arr(icbor.U(1), icbor.U(2)), smallUints(32), smallUints(33), icbor.Arr(icbor.Tstr("x")),
		icbor.Map(), icbor.Map(icbor.P(icbor.U(2), icbor.Bstr(make([]byte, 32))), icbor.P(icbor.U(5), icbor.Bstr(make([]byte, 32)))),
		icbor.Bool(true), icbor.Bool(false), icbor.Simple(0), icbor.Simple(16), icbor.Simple(32), icbor.Simple(255), icbor.F64(1.0), icbor.F64(math.NaN()), icbor.F16bits(0x3c00), icbor.F32(3e9), icbor.F64(12288),
	}
	if cur != nil && cur.Kind == icbor.KBytes {
		r = append(r, bytesAsUintArray(cur.B), icbor.Tstr(string(cur.B)))
	}
	if cur != nil && cur.Kind == icbor.KText {
		r = append(r, icbor.Bstr(cur.B))
	}
	return r
}

func outOfWidth(ty wtype) []*icbor.Node {
	switch ty {
	case tInt32:
		return []*icbor.Node{icbor.U(1 << 31), icbor.I(-(1 << 31) - 1), icbor.U(1 << 32), icbor.U(1<<32 + 7), icbor.U(1 << 63), icbor.U(1<<64 - 1), icbor.NintArg(1<<64 - 1), icbor.NintArg(1 << 32)}
	case tUint16:
		return []*icbor.Node{icbor.U(1 << 16), icbor.U(1<<16 + 0x3000), icbor.U(1<<32 + 0x3000), icbor.U(1<<64 - 1), icbor.I(-1), icbor.I(-0x3000)}
	case tFlag:
		return []*icbor.Node{icbor.I(-1), icbor.NintArg(1<<64 - 1)}
	}
	return nil
}

const (
	kfArrayAsBstr  = "array-as-bstr"
	kfNullOptional = "null-optional"
	kfSimpleAsInt  = "simple-as-int"
	kfTextKey      = "text-key-as-int"
	kfHugeKey      = "huge-key-rejected"
	kfUintFold     = "uint-key-folded"
)

// textKeyCollides: does a TEXT key spell (in decimal) an integer key of the
// structs a token of profile p is decoded into (the selector's 265 included)?
func textKeyCollides(p Prof, s string, component bool) bool {
	if component {
		return s == "1" || s == "2" || s == "4" || s == "5" || s == "6"
	}
	if s == "265" {
		return true
	}
	if p == P1 && s == fmt.Sprint(p1NoMeasKey) {
		return true
	}
	for c := Claim(0); c < nClaims; c++ {
		if s == fmt.Sprint(wireKey(p, c)) {
			return true
		}
	}
	return false
}

func setModelBytes(m *MClaims, w wtarget, b []byte) {
	if w.comp >= 0 {
		if w.key == 2 {
			m.Comps[w.comp].Value = bp(b)
		} else if w.key == 5 {
			m.Comps[w.comp].Signer = bp(b)
		}
		return
	}
	switch w.claim {
	case CImplID:
		m.ImplID = bp(b)
	case CBootSeed:
		m.BootSeed = bp(b)
	case CInstID:
		m.InstID = bp(b)
	case CNonce:
		ns := [][]byte{b}
		m.Nonces = &ns
	}
}

func setModelInt(m *MClaims, w wtarget, v uint64) {
	switch {
	case w.isFlag:
		m.NoMeas = u64p(v)
	case w.claim == CClientID:
		m.ClientID = i32p(int32(v))
	case w.claim == CLifecycle:
		m.Lifecycle = u16p(uint16(v))
	}
}

// mutKinds applicable to a target.
var c04Kinds = []string{"null", "undefined", "wrongtype", "outofwidth", "tagged", "indefinite", "longhead", "keylonghead", "dupkey"}

// applyWireMut mutates root at target w. pick selects among alternatives
// (pool index); it returns the description, or ok=false if not applicable.
// m is updated where the library's lenient reading (null == absent) changes
// what the rest of the token means (used only by the known-finding
// classifier).
func applyWireMut(p Prof, root *icbor.Node, m *MClaims, w wtarget, kind string, pick int) (wmut, bool) {
	sl := slotOf(p, root, w)
	if sl == nil {
		return wmut{}, false
	}
	cur := sl[1]
	mu := wmut{Target: w.String(), Kind: kind}
	switch kind {
	case "null", "undefined":
		if kind == "null" {
			sl[1] = icbor.Null()
		} else {
			sl[1] = icbor.Undef()
		}
		mu.Eff = effNonConf
		if w.optional {
			mu.Known = kfNullOptional
			// null == absent for the lenient reader
			if w.comp >= 0 {
				c := m.Comps[w.comp]
				switch w.key {
				case 1:
					c.Type = nil
				case 4:
					c.Version = nil
				case 6:
					c.Desc = nil
				}
			} else if w.isFlag {
				m.NoMeas = nil
			} else {
				switch w.claim {
				case CCertRef:
					m.CertRef = nil
				case CVSI:
					m.VSI = nil
				case CBootSeed:
					m.BootSeed = nil
				case CProfile:
					m.Profile = nil
				case CSwComps:
					m.Comps = nil
					m.CompsNil = true
				}
			}
		}
	case "wrongtype":
		pool := wrongTypePool(cur)
		n := pool[pick%len(pool)]
		for i := 0; compatible(w.ty, n) && i < len(pool); i++ {
			pick++
			n = pool[pick%len(pool)]
		}
		if compatible(w.ty, n) {
			return wmut{}, false
		}
		sl[1] = n.Clone()
		mu.Eff = effNonConf
		mu.Kind = "wrongtype:" + truncate(icbor.Diag(n), 24)
		// Lenient readings of the CBOR library that psatoken inherits: record
		// what the library would read so that the known-finding classifier
		// can tell "accepted only because of this leniency" from anything else.
		if w.ty == tBstr && n.Kind == icbor.KArray && len(n.Items) > 0 {
			bs := make([]byte, len(n.Items))
			all := true
			for i, it := range n.Items {
				if it.Kind != icbor.KUint || it.U > 255 {
					all = false
					break
				}
				bs[i] = byte(it.U)
			}
			if all {
				mu.Known = kfArrayAsBstr
				mu.Kind = fmt.Sprintf("wrongtype:array-of-%d-small-uints", len(bs))
				setModelBytes(m, w, bs)
			}
		}
		if (w.ty == tInt32 || w.ty == tUint16 || w.ty == tFlag) && n.Kind == icbor.KSimple && (n.U < 20 || n.U > 31) {
			mu.Known = kfSimpleAsInt
			setModelInt(m, w, n.U)
		}
	case "outofwidth":
		pool := outOfWidth(w.ty)
		if len(pool) == 0 {
			return wmut{}, false
		}
		sl[1] = pool[pick%len(pool)].Clone()
		mu.Eff = effNonConf
		mu.Kind = "outofwidth:" + icbor.Diag(sl[1])
	case "tagged":
		tag := []uint64{0, 1, 2, 3, 21, 24, 32, 37, 55799}[pick%9]
		sl[1] = icbor.Tag(tag, cur)
		mu.Eff = effOpen
		mu.Kind = fmt.Sprintf("tagged:%d", tag)
	case "indefinite":
		switch cur.Kind {
		case icbor.KBytes, icbor.KText:
			if len(cur.B) > 1 && pick%2 == 1 {
				sl[1] = cur.WithIndef(len(cur.B) / 2)
			} else {
				sl[1] = cur.WithIndef()
			}
		case icbor.KArray, icbor.KMap:
			sl[1] = cur.WithIndef()
		default:
			return wmut{}, false
		}
		mu.Eff = effNonConf
	case "longhead":
		if cur.Kind == icbor.KSimple || cur.Kind == icbor.KFloat {
			return wmut{}, false
		}
		wd := []int{2, 4, 8}[pick%3]
		// the forced width must be able to hold the argument
		arg := cur.U
		switch cur.Kind {
		case icbor.KBytes, icbor.KText:
			arg = uint64(len(cur.B))
		case icbor.KArray:
			arg = uint64(len(cur.Items))
		case icbor.KMap:
			arg = uint64(len(cur.Pairs))
		}
		if (wd == 2 && arg > 0xffff) || (wd == 4 && arg > 0xffffffff) {
			wd = 8
		}
		sl[1] = cur.WithHead(wd)
		mu.Eff = effOpenSame
	case "keylonghead":
		// the KEY written with a longer-than-necessary head: the same map in
		// the CBOR data model (for key 265: the token still declares its
		// profile)
		sl[0] = sl[0].WithHead([]int{2, 4, 8}[pick%3])
		mu.Eff = effOpenSame
	case "dupkey":
		var parent *icbor.Node = root
		if w.comp >= 0 {
			cs := slotOf(p, root, wtarget{comp: -1, key: wireKey(p, CSwComps)})
			parent = cs[1].Items[w.comp]
		}
		other := []*icbor.Node{cur.Clone(), icbor.Null(), icbor.U(1), icbor.Bstr(make([]byte, 32)), icbor.Tstr("dup")}[pick%5]
		parent.Pairs = append(parent.Pairs, icbor.P(icbor.I(w.key), other))
		mu.Eff = effOpen
	default:
		return wmut{}, false
	}
	return mu, true
}

type c04In struct {
	Prof  int     `json:"profile"`
	Model MClaims `json:"model_after_lenient_reading"`
	Muts  []wmut  `json:"wire_mutations"`
	Tok   hx      `json:"token"`
	Open  bool    `json:"open_from_model"` // e.g. no-measurements flag value other than 1
	// ProfileTouched: the token no longer (cleanly) declares the profile it
	// was generated for (profile-2 key 265 absent, foreign or wire-mutated);
	// which profile it then falls under is C07's business. With the other
	// profile's complete key set mixed in it may even be a valid token of that
	// profile, so no verdict is given then.
	ProfileTouched bool `json:"profile_claim_touched"`
	Mixed          bool `json:"other_profile_keys_mixed_in"`
}

// c04Judge is the oracle. Returns (violation message, outcome class, known id hit).
func c04Judge(in c04In, st *Stats) (string, string) {
	msg, outcome := c04RawJudge(in)
	if msg == "" {
		return "", outcome
	}
	// Is the mismatch explained by nothing but listed (active) known findings?
	ids := map[string]bool{}
	loose := false // a text / huge key is present: it can flip the outcome either way
	uncovered := false
	for _, mu := range in.Muts {
		if mu.Known != "" {
			ids[mu.Known] = true
			if mu.Known == kfTextKey || mu.Known == kfHugeKey || mu.Known == kfUintFold {
				loose = true
			}
		} else if mu.Eff == effNonConf {
			uncovered = true // a non-conformance no known finding covers
		}
	}
	if len(ids) == 0 || st == nil {
		return msg, outcome
	}
	if !loose && (uncovered || !(outcome == "bug-accepted" && in.Model.Valid())) {
		return msg, outcome
	}
	for id := range ids {
		if _, ok := knownActive["C04/"+id]; !ok {
			return msg, outcome
		}
	}
	for id := range ids {
		st.Known(id)
	}
	return "", "known-finding"
}

func c04RawJudge(in c04In) (string, string) {
	m := &in.Model
	verdict := "accept"
	fidelity := true
	if !m.Valid() {
		verdict = "reject"
	}
	nNonConf := 0
	for _, mu := range in.Muts {
		switch mu.Eff {
		case effNonConf:
			verdict = "reject"
			nNonConf++
		}
	}
	open := in.Open || (in.ProfileTouched && in.Mixed)
	for _, mu := range in.Muts {
		if mu.Eff == effOpen {
			open = true
			fidelity = false
		}
		if mu.Eff == effOpenSame {
			open = true
		}
	}
	c, err := psatoken.DecodeAndValidateClaimsFromCBOR(in.Tok)
	if err == nil && c == nil {
		return "decode-and-validate returned neither claims nor an error", "bug"
	}
	otherTrafficEvery(16) // the decoded claims are read after unrelated work
	// the non-validating decoder followed by Validate must agree
	c2, err2 := psatoken.DecodeClaimsFromCBOR(in.Tok)
	agree := (err2 == nil && c2.Validate() == nil) == (err == nil)
	if !agree {
		return fmt.Sprintf("DecodeAndValidateClaimsFromCBOR (%v) disagrees with DecodeClaimsFromCBOR+Validate", err), "bug"
	}
	accepted := err == nil
	// a token that the (non-validating) decoder takes must have been taken
	// as a token of the profile it declares, however key 265 and its value
	// are spelt
	if err2 == nil && !in.ProfileTouched && !accepted {
		wantType := "*psatoken.P1Claims"
		if Prof(in.Prof) == P2 {
			wantType = "*psatoken.P2Claims"
		}
		if got := fmt.Sprintf("%T", c2); got != wantType {
			return fmt.Sprintf("token declaring profile %s is decoded (and then judged) as %s", Prof(in.Prof), got), "bug"
		}
	}
	if accepted && !in.ProfileTouched {
		wantType := "*psatoken.P1Claims"
		if Prof(in.Prof) == P2 {
			wantType = "*psatoken.P2Claims"
		}
		if got := fmt.Sprintf("%T", c); got != wantType {
			return fmt.Sprintf("token of profile %s decoded as %s", Prof(in.Prof), got), "bug"
		}
	}
	if open {
		if accepted && fidelity && nNonConf == 0 && m.Valid() {
			if d := checkGettersAgainstModel(c, m, false); d != "" {
				return "accepted token (open encoding, same values): " + d, "bug"
			}
		}
		if accepted {
			return "", "open-accepted"
		}
		return "", "open-rejected"
	}
	switch {
	case verdict == "accept" && !accepted:
		return fmt.Sprintf("conformant token rejected: %v", err), "bug"
	case verdict == "reject" && accepted:
		why := []string{}
		if !m.Valid() {
			why = append(why, fmt.Sprintf("claims %v break the profile's rules", m.Offending()))
		}
		for _, mu := range in.Muts {
			if mu.Eff == effNonConf {
				why = append(why, fmt.Sprintf("key %s carries %s", mu.Target, mu.Kind))
			}
		}
		return "non-conformant token accepted: " + strings.Join(why, "; "), "bug-accepted"
	case verdict == "accept":
		if d := checkGettersAgainstModel(c, m, false); d != "" {
			return "accepted token does not return the wire values: " + d, "bug"
		}
		return "", "accepted"
	}
	return "", "rejected"
}

var c04Kind = registerKind("c04", func(in c04In) string {
	msg, _ := c04Judge(in, replayStats("C04"))
	return msg
})

var replayStatsCache = map[string]*Stats{}

func replayStats(prop string) *Stats {
	if s, ok := replayStatsCache[prop]; ok {
		return s
	}
	s := NewStats(prop, "replay", "")
	replayStatsCache[prop] = s
	return s
}

// ---- token-level neutral variation ----

var unknownKeysP1 = []int64{0, 1, 7, 11, 255, 257, 264, 266, 2393, 2401, -1, -74999, -75011, -75100, 1 << 40, -(1 << 40), 10, 256, 2394, 2395, 2396, 2397, 2398, 2399, 2400}
var unknownKeysP2 = []int64{0, 1, 7, 11, 255, 257, 264, 266, 2393, 2401, -1, -74999, -75011, -75100, 1 << 40, -(1 << 40), -75000, -75001, -75002, -75003, -75004, -75005, -75006, -75007, -75008, -75009, -75010}

var denseKeyCache = map[Prof][]int64{}

// denseUnknownKeys: every integer in [-40, 60], [240, 300], [2380, 2420],
// [-75030, -74980], [60000, 60010] that is not a key of profile p.
func denseUnknownKeys(p Prof) []int64 {
	if r, ok := denseKeyCache[p]; ok {
		return r
	}
	known := map[int64]bool{}
	for c := Claim(0); c < nClaims; c++ {
		known[wireKey(p, c)] = true
	}
	if p == P1 {
		known[-75007] = true
	} else {
		known[265] = true
	}
	known[265] = true // eat_profile selects the profile whatever the profile
	var r []int64
	for _, rg := range [][2]int64{{-40, 60}, {240, 300}, {2380, 2420}, {-75030, -74980}, {60000, 60010}} {
		for k := rg[0]; k <= rg[1]; k++ {
			if !known[k] {
				r = append(r, k)
			}
		}
	}
	denseKeyCache[p] = r
	return r
}

func drawUnknownValue(t *rapid.T) *icbor.Node {
	return rapid.SampledFrom([]*icbor.Node{icbor.U(1), icbor.I(-7), icbor.Tstr("x"), icbor.Bstr([]byte{1, 2}), icbor.Bstr(make([]byte, 32)), icbor.Arr(icbor.U(1)), icbor.Arr(), icbor.Map(icbor.P(icbor.U(1), icbor.U(2))), icbor.Null(), icbor.F64(1.5), icbor.Bool(true), icbor.Tstr(P2Name), icbor.Tag(1, icbor.U(0))}).Draw(t, "extra.val")
}

func addUnknownKeys(t *rapid.T, p Prof, root *icbor.Node) (int, []wmut) {
	var muts []wmut
	n := rapid.SampledFrom([]int{0, 0, 1, 2, 3}).Draw(t, "extra.n")
	pool := unknownKeysP1
	if p == P2 {
		pool = unknownKeysP2
	}
	added := 0
	for i := 0; i < n; i++ {
		var key *icbor.Node
		nBefore := len(muts)
		switch rapid.IntRange(0, 6).Draw(t, "extra.keykind") {
		case 6:
			// a label that is neither an integer nor a text string: not a
			// claims map (CWT labels are int / tstr) - must be rejected
			key = rapid.SampledFrom([]*icbor.Node{icbor.Bool(false), icbor.Bool(true), icbor.Null(), icbor.Undef(), icbor.F64(1.5), icbor.F64(265), icbor.Simple(32), icbor.Tag(1, icbor.U(0)), icbor.Bstr([]byte{1}), icbor.Arr(), icbor.Map()}).Draw(t, "extra.oddlabel")
			muts = append(muts, wmut{"label " + icbor.Diag(key), "label-not-int-or-text", effNonConf, ""})
		case 0:
			txt := rapid.SampledFrom([]string{"x", "", "psa-nonce", "265", "eat-profile", "2394", "-75001", "10", "-75008", "2400", "0265", "+265", " 265"}).Draw(t, "extra.textkey")
			key = icbor.Tstr(txt)
			if textKeyCollides(p, txt, false) {
				muts = append(muts, wmut{fmt.Sprintf("text key %q", txt), "text-key-spelling-an-integer-key", effNeutral, kfTextKey})
			}
		case 1:
			key = rapid.SampledFrom([]*icbor.Node{icbor.U(1 << 63), icbor.U(1<<64 - 1), icbor.U(1<<64 - 3), icbor.U(1<<64 - 75001), icbor.NintArg(1<<64 - 1), icbor.NintArg(1 << 63), icbor.U(1<<63 - 1), icbor.NintArg(1<<63 - 1)}).Draw(t, "extra.hugekey")
			// (an UNSIGNED label of 2^63 or more is ignored like any other
			// unknown label by the unchanged library; only negative labels
			// below -2^63 make it fail: the known finding is about those)
			if _, fits := key.Int(); !fits && key.Kind == icbor.KNint {
				muts = append(muts, wmut{"unknown key " + icbor.Diag(key), "integer-key-outside-int64", effNeutral, kfHugeKey})
			}
			if key.Kind == icbor.KUint && key.U >= 1<<63 && textKeyCollides(p, fmt.Sprint(int64(key.U)), false) {
				// an unsigned label that, cut to 64 bits and read as SIGNED,
				// is one of the profile's (negative) keys
				muts = append(muts, wmut{"unknown key " + icbor.Diag(key), "unsigned-key-congruent-to-a-claim-key", effNeutral, kfUintFold})
			}
			if key.Kind == icbor.KUint && key.U >= 1<<63 && genBool.Draw(t, "extra.congruent") {
				// ... together with the DIFFERENT label that is congruent to
				// it modulo 2^64 (18446744073709551615 and -1): two unknown
				// labels, both to be ignored
				twin := icbor.NintArg(^key.U)
				present := false
				for _, pr := range root.Pairs {
					if icbor.Equal(icbor.Canonical(pr[0]), twin) {
						present = true
					}
				}
				if !present {
					root.Pairs = append(root.Pairs, icbor.P(twin, drawUnknownValue(t)))
					added++
				}
			}
		case 2, 3:
			// any key number in the neighbourhood of the registered CWT /
			// EAT / PSA claim keys that is not one of this profile's
			k := rapid.SampledFrom(denseUnknownKeys(p)).Draw(t, "extra.densekey")
			key = icbor.I(k)
		default:
			key = icbor.I(rapid.SampledFrom(pool).Draw(t, "extra.key"))
		}
		dup := false
		kb := string(icbor.Encode(key))
		for _, pr := range root.Pairs {
			if string(icbor.Encode(icbor.Canonical(pr[0]))) == kb {
				dup = true
			}
		}
		if dup {
			muts = muts[:nBefore]
			continue
		}
		root.Pairs = append(root.Pairs, icbor.P(key, drawUnknownValue(t)))
		added++
	}
	return added, muts
}

func permutePairs(t *rapid.T, root *icbor.Node) {
	root.Pairs = rapid.Permutation(root.Pairs).Draw(t, "keyorder")
}

// c04Extension: body of profile p (valid, or with rule-level deviations),
// declared as the registered extension of that profile, with the extension's
// own claim absent / conformant / rejected by the extension's own rule.
// Acceptance by decode-and-validate == (base rules met) && (own rule met).
func c04Extension(t *rapid.T, p Prof) (msg string, class string) {
	var m *MClaims
	if genBool.Draw(t, "ext.modelvalid") {
		m = GenValid(t, p, false)
	} else {
		m = GenAny(t, p)
	}
	name := ExtP2Name
	if p == P1 {
		name = ExtP1Name
	}
	if m.Profile == nil || *m.Profile != p.Name() {
		m.Profile = sp(p.Name()) // the profile claim is not what is varied here
	}
	var ts *int64
	if rapid.IntRange(0, 3).Draw(t, "ext.own") > 0 {
		v := rapid.SampledFrom([]int64{0, 5, 1 << 40, -1, -1 << 40, extTSNotInProfile, extTSOptionalish, 12, 18}).Draw(t, "ext.ts")
		ts = &v
	}
	var ps [][2]*icbor.Node
	pk := wireKey(p, CProfile)
	for _, pr := range m.WirePairs() {
		if k, _ := pr[0].Int(); k == pk {
			pr = icbor.P(icbor.I(pk), icbor.Tstr(name))
		}
		ps = append(ps, pr)
	}
	if ts != nil {
		ps = append(ps, icbor.P(icbor.I(-75100), icbor.I(*ts)))
	}
	tok := icbor.Encode(icbor.Map(ps...))
	want := m.Valid() && !extRuleBroken(ts)
	class = fmt.Sprintf("accepted|%s|%v", m.ClassVector(), ts != nil)
	if !want {
		class = fmt.Sprintf("rejected|%s|%s", m.ClassVector(), fmtI64(ts))
	}
	withExtProfiles(func() {
		type cu interface{ UnmarshalCBOR([]byte) error }
		var c psatoken.IClaims
		var err error
		if p == P2 {
			c, err = psatoken.DecodeAndValidateClaimsFromCBOR(tok)
		} else {
			// a profile-1 derived name travels under -75000, which the CBOR
			// dispatcher does not look at: no verdict through the dispatcher
			return
		}
		if (err == nil) != want {
			msg = fmt.Sprintf("decode-and-validate = %v for a token declaring %q; base rules met: %v, the extension's own claim: %s (own rule broken: %v)\n  token: %x", err, name, m.Valid(), fmtI64(ts), extRuleBroken(ts), tok)
			return
		}
		if err == nil {
			if got := fmt.Sprintf("%T", c); got != "*checks.ExtP2Claims" {
				msg = fmt.Sprintf("accepted token declaring %q decodes as %s", name, got)
				return
			}
			mm := m.Clone()
			mm.Profile = sp(name)
			if gp, gerr := c.GetProfile(); gerr != nil || gp != name {
				msg = fmt.Sprintf("accepted token declaring %q reports profile %q, %v", name, gp, gerr)
				return
			}
			if own := c.(*ExtP2Claims).Timestamp; (own == nil) != (ts == nil) || (own != nil && *own != *ts) {
				msg = fmt.Sprintf("accepted token: the extension's own claim is %s, the wire has %s", fmtI64(own), fmtI64(ts))
			}
		}
	})
	return msg, class
}

func TestC04_Product(t *testing.T) {
	st := NewStats("C04", "TestC04_Product", "rapid: a model claims-set of profile 1 or 2 with 0..4 rule-level deviations (generator of C01) is encoded by the independent encoder; then 0..3 wire-level mutations hit random known keys or component fields: null / undefined, a value of every other major type (incl. array-of-uints spelling the bytes, bstr<->tstr look-alikes, floats 1.0/NaN/12288.0), out-of-width integers (2^16, 2^31, -2^31-1, 2^32, 2^63, 2^64-1, -2^64), tags, indefinite-length strings/arrays/maps, non-preferred head widths, duplicate keys; plus key permutation, 0..3 unknown extra keys (int, negative, huge, text; the other profile's keys), one-element nonce arrays, indefinite / long-head top-level map, the other profile's complete key set mixed in. Oracle: decode-and-validate accepts iff model valid and no non-conformant wire form; accepted tokens return exactly the wire values from every getter (components in order, optional fields intact); encodings the specifications leave open (tags, duplicate keys, one-element nonce array, flag != 1, non-preferred heads) get no accept/reject verdict. Non-trivial = at least one key in a non-default class; distinct = class vector + wire mutations + key-order hash")
	st.Require = []string{"accepted", "rejected", "open-accepted", "P1", "P2", "wire=null", "wire=wrongtype", "wire=outofwidth", "wire=indefinite", "wire=tagged", "wire=dupkey", "wire=longhead", "extra-keys", "mixed-profile-keys", "component-field", "wire=p1-with-nontext-265", "declares-extension"}
	defer st.Flush(t)
	rapid.Check(t, func(t *rapid.T) {
		p := drawProf(t)
		if rapid.IntRange(0, 11).Draw(t, "declares-extension") == 0 {
			// "a conformant token of the profile it DECLARES": a token that
			// declares a registered profile derived from profile 2 (or 1) whose
			// Validate() adds a rule of its own on top of the base rules
			msg, cls := c04Extension(t, p)
			if msg != "" {
				t.Fatalf("C04 violated (token declaring a registered extension profile): %s", msg)
			}
			st.Case(cls, "declares-extension", p.String(), strings.SplitN(cls, "|", 2)[0])
			return
		}
		var m *MClaims
		if rapid.IntRange(0, 2).Draw(t, "modelvalid") > 0 {
			m = GenValid(t, p, false)
		} else {
			m = GenAny(t, p)
		}
		root := m.WireNode()
		open := m.NoMeas != nil && *m.NoMeas != 1
		cls := []string{p.String()}
		var muts []wmut
		nW := rapid.SampledFrom([]int{0, 0, 1, 1, 1, 1, 2, 2, 3}).Draw(t, "nwire")
		used := map[string]bool{}
		compTouched := false
		for i := 0; i < nW; i++ {
			ts := targetsOf(p, root)
			if len(ts) == 0 {
				break
			}
			w := ts[rapid.IntRange(0, len(ts)-1).Draw(t, "target")]
			kind := rapid.SampledFrom(c04Kinds).Draw(t, "wirekind")
			if used[w.String()] || (w.comp >= 0 && used[fmt.Sprint(wireKey(p, CSwComps))]) {
				continue // one wire mutation per key
			}
			if w.comp < 0 && w.claim == CSwComps && !w.isFlag && compTouched {
				continue
			}
			mu, ok := applyWireMut(p, root, m, w, kind, rapid.IntRange(0, 63).Draw(t, "pick"))
			if !ok {
				continue
			}
			muts = append(muts, mu)
			used[w.String()] = true
			cls = append(cls, "wire="+strings.SplitN(mu.Kind, ":", 2)[0])
			if w.comp >= 0 {
				compTouched = true
				cls = append(cls, "component-field")
			}
		}
		// component-level and token-level variations
		switch rapid.IntRange(0, 11).Draw(t, "tokenvar") {
		case 0: // a component replaced by a non-map
			if cs := slotOf(p, root, wtarget{comp: -1, key: wireKey(p, CSwComps)}); cs != nil && !compTouched && !used[fmt.Sprint(wireKey(p, CSwComps))] && cs[1].Kind == icbor.KArray && len(cs[1].Items) > 0 {
				i := rapid.IntRange(0, len(cs[1].Items)-1).Draw(t, "compidx")
				repl := rapid.SampledFrom([]*icbor.Node{icbor.U(1), icbor.Null(), icbor.Bstr(make([]byte, 32)), icbor.Arr(), icbor.Tstr("BL"), icbor.Bool(true)}).Draw(t, "comprepl")
				cs[1].Items[i] = repl
				muts = append(muts, wmut{fmt.Sprintf("component[%d]", i), "wrongtype:" + icbor.Diag(repl), effNonConf, ""})
				cls = append(cls, "wire=component-nonmap")
			}
		case 1: // unknown key inside a component
			if cs := slotOf(p, root, wtarget{comp: -1, key: wireKey(p, CSwComps)}); cs != nil && !used[fmt.Sprint(wireKey(p, CSwComps))] && cs[1].Kind == icbor.KArray && len(cs[1].Items) > 0 {
				i := rapid.IntRange(0, len(cs[1].Items)-1).Draw(t, "compidx")
				if cm := cs[1].Items[i]; cm.Kind == icbor.KMap {
					key := rapid.SampledFrom([]*icbor.Node{icbor.U(3), icbor.U(7), icbor.I(-1), icbor.U(0), icbor.Tstr("x"), icbor.U(1 << 40), icbor.Tstr("2"), icbor.Tstr("6")}).Draw(t, "compkey")
					cm.Pairs = append(cm.Pairs, icbor.P(key, drawUnknownValue(t)))
					if key.Kind == icbor.KText && textKeyCollides(p, string(key.B), true) {
						muts = append(muts, wmut{fmt.Sprintf("component[%d] text key %q", i, string(key.B)), "text-key-spelling-an-integer-key", effNeutral, kfTextKey})
					}
					cls = append(cls, "component-unknown-key")
				}
			}
		case 2: // one-element nonce array (profile 2)
			if sl := slotOf(p, root, wtarget{comp: -1, key: wireKey(p, CNonce)}); sl != nil && p == P2 && sl[1].Kind == icbor.KBytes && !used["10"] {
				sl[1] = icbor.Arr(sl[1])
				muts = append(muts, wmut{"10", "one-element-nonce-array", effOpen, ""})
				cls = append(cls, "wire=nonce-array-1")
			}
		case 3:
			root = root.WithIndef()
			muts = append(muts, wmut{"token", "indefinite", effNonConf, ""})
			cls = append(cls, "wire=indefinite")
		case 4:
			root = root.WithHead(rapid.SampledFrom([]int{1, 2, 4, 8}).Draw(t, "maphead"))
			if root.HeadW == 1 && len(root.Pairs) < 24 || root.HeadW > 1 {
				muts = append(muts, wmut{"token", "longhead", effOpenSame, ""})
				cls = append(cls, "wire=longhead")
			}
		case 5: // the other profile's complete key set mixed in (never key 265 / -75000)
			other := P1
			if p == P1 {
				other = P2
			}
			om := GenValid(t, other, false)
			for _, pr := range om.WirePairs() {
				k, _ := pr[0].Int()
				if k == 265 || k == -75000 {
					continue
				}
				root.Pairs = append(root.Pairs, pr)
			}
			cls = append(cls, "mixed-profile-keys")
		case 7, 8: // a profile-1 token that also carries key 265 with an item of the wrong type
			if p == P1 && slotOf(p, root, wtarget{comp: -1, key: 265}) == nil {
				v := rapid.SampledFrom([]*icbor.Node{icbor.U(5), icbor.I(-1), icbor.Bstr([]byte(P1Name)), icbor.Bstr(nil), icbor.Arr(), icbor.Arr(icbor.Tstr(P1Name)), icbor.Map(), icbor.Bool(true), icbor.Bool(false), icbor.F64(1), icbor.Simple(0)}).Draw(t, "p1.265")
				root.Pairs = append(root.Pairs, icbor.P(icbor.U(265), v))
				muts = append(muts, wmut{"265", "wrongtype:" + truncate(icbor.Diag(v), 24), effNonConf, ""})
				cls = append(cls, "wire=p1-with-nontext-265")
			}
		case 6: // explicit empty list next to the flag (profile 1): open
			if p == P1 && len(m.Comps) == 0 && slotOf(p, root, wtarget{comp: -1, key: -75006}) == nil {
				root.Pairs = append(root.Pairs, icbor.P(icbor.I(-75006), icbor.Arr()))
				muts = append(muts, wmut{"-75006", "explicit-empty-list", effOpen, ""})
			}
		}
		if n, ms := addUnknownKeys(t, p, root); n > 0 {
			cls = append(cls, "extra-keys")
			muts = append(muts, ms...)
		}
		permutePairs(t, root)
		in := c04In{Prof: int(p), Model: *m, Muts: muts, Tok: icbor.Encode(root), Open: open}
		if p == P2 {
			in.ProfileTouched = m.Profile == nil || *m.Profile != P2Name
			for _, mu := range muts {
				if mu.Target == "265" && mu.Eff != effOpenSame {
					in.ProfileTouched = true
				}
			}
		}
		for _, c := range cls {
			if c == "mixed-profile-keys" {
				in.Mixed = true
			}
		}
		msg, outcome := c04Judge(in, st)
		cls = append(cls, outcome)
		key := ""
		if len(muts) > 0 || !m.IsCanned() || len(cls) > 2 {
			var ds []string
			for _, mu := range muts {
				ds = append(ds, mu.Target+"="+mu.Kind)
			}
			var ko []string
			for _, pr := range root.Pairs {
				ko = append(ko, icbor.Diag(pr[0]))
			}
			key = m.ClassVector() + "|" + strings.Join(ds, ",") + "|" + strings.Join(ko, ",")
		}
		st.Case(key, cls...)
		if key != "" && len(muts) > 0 && st.WantSample() {
			st.Sample(map[string]any{"profile": p.String(), "claims": m.ClassVector(), "wire_mutations": muts, "outcome": outcome, "token": truncate(hexs(in.Tok), 200)})
		}
		if msg != "" {
			t.Fatalf("C04 violated: %s\n  profile %s, claims [%s]\n  wire mutations: %+v\n  token: %x", msg, p, m.ClassVector(), muts, []byte(in.Tok))
		}
	})
}

// TestC04_Sweep: every key x every wire class, on fully populated valid
// tokens of both profiles.
func TestC04_Sweep(t *testing.T) {
	st := NewStats("C04", "TestC04_Sweep", "enumeration: on fully populated valid tokens of both profiles (3 backgrounds, incl. all optional claims, 2 components with all optional fields, the profile-1 no-measurements form) every known key and every component field x every wire class: null, undefined, each of ~26 items of the wrong major type, every out-of-width integer, 9 tags, indefinite forms (whole and chunked), 3 non-preferred head widths, 5 duplicate-key variants; every key order rotation; 28 spellings of profile names (look-alikes that URL / case / whitespace normalisation would map onto a registered name) under the profile key. Oracle and verdict rules as in TestC04_Product. Non-trivial = every mutated case; distinct = (background, key, class)")
	st.Exhaustive = true
	st.Require = []string{"accepted", "rejected", "open-accepted", "P1", "P2"}
	defer st.Flush(t)
	run := func(p Prof, m *MClaims, root *icbor.Node, muts []wmut, key string) {
		in := c04In{Prof: int(p), Model: *m, Muts: muts, Tok: icbor.Encode(root), Open: m.NoMeas != nil && *m.NoMeas != 1}
		if p == P2 {
			in.ProfileTouched = m.Profile == nil || *m.Profile != P2Name
			for _, mu := range muts {
				if mu.Target == "265" && mu.Eff != effOpenSame {
					in.ProfileTouched = true
				}
			}
		}
		msg, outcome := c04Judge(in, st)
		st.Case(key, outcome, p.String())
		if len(muts) > 0 && st.WantSample() && outcome != "rejected" {
			st.Sample(map[string]any{"cell": key, "outcome": outcome, "token": truncate(hexs(in.Tok), 160)})
		}
		if msg != "" {
			reportCase(t, "C04", "c04", in, msg+"  ["+key+"]")
		}
	}
	for _, p := range []Prof{P1, P2} {
		for variant := 0; variant < 4; variant++ {
			mk := func() *MClaims {
				if variant == 3 {
					m := baseValid(p, 1)
					if p == P1 {
						m.Comps = nil
						m.NoMeas = u64p(1)
					} else {
						m.BootSeed = bp(make([]byte, 8))
						m.Comps[1].Type = sp("")
					}
					return m
				}
				m := baseValid(p, variant)
				if variant == 1 {
					m.Comps[0].Version = sp("v")
					m.Comps[0].Desc = sp("d")
					m.Comps[1].Type = sp("t")
				}
				return m
			}
			pre := fmt.Sprintf("%s/v%d/", p, variant)
			base := mk()
			run(p, base, base.WireNode(), nil, "")
			// every unknown key number of the dense neighbourhoods x a few
			// values of different types: ignored, the token stays valid
			if variant == 0 {
				for _, k := range denseUnknownKeys(p) {
					for vi, v := range []*icbor.Node{icbor.Bstr(make([]byte, 32)), icbor.Bstr([]byte{1, 2, 3}), icbor.U(7), icbor.Tstr("x"), icbor.Arr(icbor.Null()), icbor.Bool(false)} {
						m := mk()
						root := m.WireNode()
						root.Pairs = append(root.Pairs, icbor.P(icbor.I(k), v))
						run(p, m, root, nil, fmt.Sprintf("%sunknown-key/%d/#%d", pre, k, vi))
					}
				}
			}
			// every spelling of a profile name that some normalisation (URL,
			// case, whitespace, escapes) would map onto a registered name,
			// under the profile's key: none of them is the profile's name
			if variant == 0 {
				for ni, name := range c07Names {
					m := mk()
					m.Profile = sp(name)
					run(p, m, m.WireNode(), nil, fmt.Sprintf("%sprofile-spelling/#%d", pre, ni))
				}
			}
			// rule-level sweep on the wire: every byte-string claim and
			// component field at every length 0..80 and a few larger ones
			if variant == 1 {
				for _, n := range append(seqInts(0, 80), 96, 128, 255, 256, 288) {
					buf := make([]byte, n)
					for i := range buf {
						buf[i] = byte(7*n + i)
					}
					for _, which := range []string{"impl", "boot", "nonce", "inst", "comp.value", "comp.signer"} {
						m := mk()
						switch which {
						case "impl":
							m.ImplID = bp(buf)
						case "boot":
							m.BootSeed = bp(buf)
						case "nonce":
							ns := [][]byte{buf}
							m.Nonces = &ns
						case "inst":
							b := append([]byte{}, buf...)
							if n > 0 {
								b[0] = 1
							}
							m.InstID = bp(b)
						case "comp.value":
							m.Comps[len(m.Comps)-1].Value = bp(buf)
						default:
							m.Comps[0].Signer = bp(buf)
						}
						run(p, m, m.WireNode(), nil, fmt.Sprintf("%slen/%s/%d", pre, which, n))
					}
				}
			}
			nT := len(targetsOf(p, base.WireNode()))
			for ti := 0; ti < nT; ti++ {
				for _, kind := range c04Kinds {
					for pick := 0; pick < 40; pick++ {
						m := mk()
						root := m.WireNode()
						w := targetsOf(p, root)[ti]
						mu, ok := applyWireMut(p, root, m, w, kind, pick)
						if !ok {
							break
						}
						run(p, m, root, []wmut{mu}, fmt.Sprintf("%s%s/%s#%d", pre, w, kind, pick))
						if kind == "null" || kind == "undefined" || (kind == "indefinite" && pick >= 1) || ((kind == "longhead" || kind == "keylonghead") && pick >= 2) || (kind == "dupkey" && pick >= 4) || (kind == "tagged" && pick >= 8) {
							break
						}
						if kind == "outofwidth" && pick+1 >= len(outOfWidth(w.ty)) {
							break
						}
					}
				}
			}
			// every rotation of the key order
			n := len(base.WireNode().Pairs)
			for r := 1; r < n; r++ {
				m := mk()
				root := m.WireNode()
				root.Pairs = append(append([][2]*icbor.Node{}, root.Pairs[r:]...), root.Pairs[:r]...)
				run(p, m, root, nil, fmt.Sprintf("%srotate/%d", pre, r))
			}
			// reversed order
			m := mk()
			root := m.WireNode()
			for i, j := 0, len(root.Pairs)-1; i < j; i, j = i+1, j-1 {
				root.Pairs[i], root.Pairs[j] = root.Pairs[j], root.Pairs[i]
			}
			run(p, m, root, nil, pre+"reversed")
		}
	}
}

func seqInts(a, b int) []int {
	var r []int
	for i := a; i <= b; i++ {
		r = append(r, i)
	}
	return r
}

// ---- a claims object that is used a second time ----

// TestC04_UsedObject: one claims object per session. The object decodes and
// validates a conformant token, is read, and then the exported UnmarshalCBOR
// decodes a SECOND token into it which carries the same number of software
// components, every component with all five fields PRESENT (so that nothing of
// the first token can show through: decoding into an existing object leaves
// fields the new token does not mention as they were, Go's convention - no
// verdict on those) and one of them with a measurement value or signer id of a
// wrong length. That token is not conformant: the object must not validate.
func TestC04_UsedObject(t *testing.T) {
	st := NewStats("C04", "TestC04_UsedObject", "rapid: a claims object of either profile decodes (exported UnmarshalCBOR) and validates a conformant token, its components are read, then a second token with the SAME number of components - all five fields present in every component, one measurement value / signer id of a wrong length (0, 5, 31, 33, 65 bytes) - is decoded into the same object: Validate() and GetSoftwareComponents() must report the malformed component (the reject direction of 'accepts iff conformant' for an object with a past; what a field ABSENT from the second token becomes is Go's merge convention and gets no verdict). Non-trivial = every case; distinct = class vector of both tokens + position and length of the defect")
	st.Require = []string{"P1", "P2", "defect=value", "defect=signer"}
	defer st.Flush(t)
	rapid.Check(t, func(t *rapid.T) {
		p := drawProf(t)
		m1 := GenValid(t, p, false)
		if len(m1.Comps) == 0 {
			m1.NoMeas, m1.CompsNil = nil, false
			m1.Comps = drawValidComps(t, "sw1")
		}
		if len(m1.Comps) > 8 {
			m1.Comps = m1.Comps[:8]
		}
		m2 := m1.Clone()
		m2.Comps = nil
		for i := range m1.Comps {
			c := drawComp(t, true, fmt.Sprintf("sw2.%d", i))
			if c.Type == nil {
				c.Type = sp("BL")
			}
			if c.Version == nil {
				c.Version = sp("1.0")
			}
			if c.Desc == nil {
				c.Desc = sp("sha-256")
			}
			m2.Comps = append(m2.Comps, c)
		}
		at := rapid.IntRange(0, len(m2.Comps)-1).Draw(t, "defect.at")
		bad := drawBytes(t, rapid.SampledFrom([]int{0, 5, 31, 33, 65}).Draw(t, "defect.len"), "defect.bytes")
		what := rapid.SampledFrom([]string{"value", "signer"}).Draw(t, "defect.what")
		if what == "value" {
			m2.Comps[at].Value = &bad
		} else {
			m2.Comps[at].Signer = &bad
		}
		c, err := psatoken.NewClaims(p.Name())
		if err != nil {
			t.Fatalf("VERIF-INFRA: %v", err)
		}
		type cu interface{ UnmarshalCBOR([]byte) error }
		if err := c.(cu).UnmarshalCBOR(m1.WireBytes()); err != nil {
			t.Fatalf("C04: conformant token rejected by UnmarshalCBOR: %v [%s]", err, m1.ClassVector())
		}
		if err := c.Validate(); err != nil {
			t.Fatalf("C04: conformant token does not validate: %v [%s]", err, m1.ClassVector())
		}
		if genBool.Draw(t, "read-first") {
			_, _ = c.GetSoftwareComponents()
			_ = c.Validate()
		}
		if err := c.(cu).UnmarshalCBOR(m2.WireBytes()); err != nil {
			st.Case("", "second-token-undecodable", p.String())
			return
		}
		if err := c.Validate(); err == nil {
			t.Fatalf("C04 violated: a claims object that had decoded and validated a conformant token decodes a second token whose component %d has a %s of %d bytes - and validates\n second token: %x\n [%s]", at, what, len(bad), m2.WireBytes(), m2.ClassVector())
		}
		if scs, err := c.GetSoftwareComponents(); err == nil {
			t.Fatalf("C04 violated: a claims object with a past decodes a second token whose component %d has a %s of %d bytes - and GetSoftwareComponents returns %d components without error\n second token: %x", at, what, len(bad), len(scs), m2.WireBytes())
		}
		st.Case(fmt.Sprintf("%s|%s|%d|%s|%d", m1.ClassVector(), m2.ClassVector(), at, what, len(bad)), p.String(), "defect="+what)
	})
}
