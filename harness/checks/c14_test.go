package checks

import (
	"sync"
	"reflect"
	"encoding/json"
	"fmt"
	cose "github.com/veraison/go-cose"
	"testing"
	"verifharness/icose"

	"github.com/veraison/psatoken"

	"verifharness/icbor"
)

// C14 — security-lifecycle values map to the specified state, totally.

var c14Names = []string{"unknown", "assembly-and-test", "psa-rot-provisioning", "secured", "non-psa-rot-debug", "recoverable-psa-rot-debug", "decommissioned"}

type c14In struct {
	V    int  `json:"v"`
	JSON bool `json:"json_route"`
}

var c14Kind = registerKind("c14", func(in c14In) string {
	v := uint16(in.V)
	// table oracle, written from the property statement
	want := -1
	hi, _ := v>>8, v&0xff
	switch hi {
	case 0x00, 0x10, 0x20, 0x30, 0x40, 0x50, 0x60:
		want = int(hi >> 4)
	}
	valid := want >= 0

	st := psatoken.LifeCycleToState(v)
	if valid {
		if int(st) != want {
			return fmt.Sprintf("LifeCycleToState(0x%04x) = %d (%s), want state %d (%s)", v, st, st, want, c14Names[want])
		}
		if st.String() != c14Names[want] {
			return fmt.Sprintf("state name of 0x%04x is %q, want %q", v, st.String(), c14Names[want])
		}
	} else {
		if st.IsValid() {
			return fmt.Sprintf("LifeCycleToState(0x%04x) = %d (%s) which IsValid, but the value is in no range", v, st, st)
		}
		if st != psatoken.StateInvalid {
			return fmt.Sprintf("LifeCycleToState(0x%04x) = %d, want the invalid state (%d)", v, st, psatoken.StateInvalid)
		}
		if st.String() != "invalid" {
			return fmt.Sprintf("state name of out-of-range 0x%04x is %q, want \"invalid\"", v, st.String())
		}
	}
	if st.IsValid() != valid {
		return fmt.Sprintf("IsValid(state of 0x%04x) = %v, want %v", v, st.IsValid(), valid)
	}
	if err := psatoken.ValidateSecurityLifeCycle(v); (err == nil) != valid {
		return fmt.Sprintf("ValidateSecurityLifeCycle(0x%04x) = %v, want valid=%v", v, err, valid)
	} else if err != nil && classify(err) != ESyntax {
		return fmt.Sprintf("ValidateSecurityLifeCycle(0x%04x) error is not wrong-syntax: %v", v, err)
	}
	for _, p := range []Prof{P1, P2} {
		// setter route
		c, err := psatoken.NewClaims(p.Name())
		if err != nil {
			return "VERIF-INFRA: NewClaims: " + err.Error()
		}
		err = c.SetSecurityLifeCycle(v)
		if (err == nil) != valid {
			return fmt.Sprintf("%s SetSecurityLifeCycle(0x%04x) = %v, want valid=%v", p, v, err, valid)
		}
		got, gerr := c.GetSecurityLifeCycle()
		if valid {
			if gerr != nil || got != v {
				return fmt.Sprintf("%s after SetSecurityLifeCycle(0x%04x): getter = %d, %v", p, v, got, gerr)
			}
		} else if gerr == nil {
			return fmt.Sprintf("%s rejected setter left a readable lifecycle %d", p, got)
		}
		// struct-literal route
		m := baseValid(p, 0)
		m.Lifecycle = u16p(v)
		lc, _ := m.BuildLiteral()
		got, gerr = lc.GetSecurityLifeCycle()
		if (gerr == nil) != valid || (valid && got != v) {
			return fmt.Sprintf("%s literal lifecycle 0x%04x: getter = %d, %v; want valid=%v", p, v, got, gerr, valid)
		}
		if verr := lc.Validate(); (verr == nil) != valid {
			return fmt.Sprintf("%s literal lifecycle 0x%04x: Validate = %v; want valid=%v", p, v, verr, valid)
		}
		// instances are independent: a claims-set filled by the setter and then
		// re-used as a decode target (per-type unmarshal writes into it) must
		// not influence what a FRESH claims-set stores for the same value
		if valid {
			used, _ := psatoken.NewClaims(p.Name())
			_ = used.SetSecurityLifeCycle(v)
			om := baseValid(p, 0)
			om.Lifecycle = u16p(v ^ 0x2100)
			type cu interface{ UnmarshalCBOR([]byte) error }
			_ = used.(cu).UnmarshalCBOR(om.WireBytes())
			om.Lifecycle = u16p(0xffff)
			if doc, jerr := json.Marshal(om.ExpectJSON()); jerr == nil {
				_ = json.Unmarshal(doc, used)
			}
			fresh, _ := psatoken.NewClaims(p.Name())
			if serr := fresh.SetSecurityLifeCycle(v); serr != nil {
				return fmt.Sprintf("%s SetSecurityLifeCycle(0x%04x) on a fresh claims-set fails after another claims-set was re-used as a decode target: %v", p, v, serr)
			}
			if got, gerr := fresh.GetSecurityLifeCycle(); gerr != nil || got != v {
				return fmt.Sprintf("%s fresh claims-set: Set(0x%04x) then Get gives 0x%04x, %v after ANOTHER claims-set that had been set to the same value was re-used as a decode target (shared storage)", p, v, got, gerr)
			}
		}
		// ... and the object that took a valid value through its setter and
		// is then handed ANOTHER value by a non-validating route (its holder
		// re-uses it as decode target, or writes through the exported field):
		// the getter's verdict follows the value the object holds now
		for _, first := range []uint16{0x3000, v} {
			if lifecycleState(first) < 0 {
				continue
			}
			for _, route := range []string{"cbor", "json", "field"} {
				u, _ := psatoken.NewClaims(p.Name())
				if serr := u.SetSecurityLifeCycle(first); serr != nil {
					return fmt.Sprintf("%s SetSecurityLifeCycle(0x%04x) fails: %v", p, first, serr)
				}
				if _, gerr := u.GetSecurityLifeCycle(); gerr != nil {
					return fmt.Sprintf("%s getter after SetSecurityLifeCycle(0x%04x): %v", p, first, gerr)
				}
				om := baseValid(p, 0)
				om.Lifecycle = u16p(v)
				switch route {
				case "cbor":
					type cu interface{ UnmarshalCBOR([]byte) error }
					if derr := u.(cu).UnmarshalCBOR(om.WireBytes()); derr != nil {
						continue
					}
				case "json":
					doc, jerr := json.Marshal(om.ExpectJSON())
					if jerr != nil || json.Unmarshal(doc, u) != nil {
						continue
					}
				default:
					f := reflect.ValueOf(u).Elem().FieldByName("SecurityLifeCycle")
					if !f.IsValid() || f.Kind() != reflect.Pointer || f.IsNil() || f.Elem().Kind() != reflect.Uint16 {
						continue
					}
					f.Elem().SetUint(uint64(v))
				}
				got, gerr := u.GetSecurityLifeCycle()
				if (gerr == nil) != valid || (valid && got != v) {
					return fmt.Sprintf("%s claims-set that was given 0x%04x through the setter and then holds 0x%04x (%s route): getter = %d, %v; want valid=%v", p, first, v, route, got, gerr, valid)
				}
			}
		}
		// the setter on a claims-set that ALREADY holds a value (the same one,
		// a valid one, an invalid one: stored by a non-validating route)
		for _, prev := range []uint16{v, 0x3000, 0xffff, v ^ 0x0100, 0x0000, 0x1000, 0x20ff, 0x4000, 0x5000, 0x6000, 0x60ff} {
			pm := baseValid(p, 0)
			pm.Lifecycle = u16p(prev)
			pc, _ := pm.BuildLiteral()
			serr := pc.SetSecurityLifeCycle(v)
			if (serr == nil) != valid {
				return fmt.Sprintf("%s SetSecurityLifeCycle(0x%04x) on a claims-set holding 0x%04x = %v, want valid=%v", p, v, prev, serr, valid)
			}
			got, gerr := pc.GetSecurityLifeCycle()
			wantVal, wantOK := prev, lifecycleState(prev) >= 0
			if valid {
				wantVal, wantOK = v, true
			}
			if (gerr == nil) != wantOK || (wantOK && got != wantVal) {
				return fmt.Sprintf("%s after SetSecurityLifeCycle(0x%04x) (err=%v) on a claims-set holding 0x%04x the getter gives %d, %v", p, v, serr, prev, got, gerr)
			}
		}
		// the setter / getter pair on objects in OTHER states of their profile
		// claim: zero values, a constructor-made object that then decoded a
		// document without (or with a foreign) profile claim, instances of
		// derived profiles - the lifecycle rule does not depend on any of it
		others := map[string]psatoken.IClaims{}
		if p == P1 {
			others["zero-value P1Claims"] = &psatoken.P1Claims{}
			others["inherit-p1 instance"] = inheritProfile{P1}.GetClaims()
			others["ext-p1 instance"] = newExtP1Claims()
			fp, _ := psatoken.NewClaims(P1Name)
			type cu interface{ UnmarshalCBOR([]byte) error }
			_ = fp.(cu).UnmarshalCBOR(icbor.Encode(icbor.Map(icbor.P(icbor.I(-75000), icbor.Tstr("http://example.com/foreign")), icbor.P(icbor.I(-75001), icbor.U(1)))))
			others["P1 object that decoded a foreign psa-profile"] = fp
		} else {
			others["zero-value P2Claims"] = &psatoken.P2Claims{}
			others["inherit-p2-oid instance"] = inheritProfile{P2}.GetClaims()
			others["ext-p2 instance"] = newExtP2Claims()
			np, _ := psatoken.NewClaims(P2Name)
			_ = json.Unmarshal([]byte(`{"psa-client-id":1}`), np)
			others["P2 object that decoded a document without eat-profile"] = np
			np2, _ := psatoken.NewClaims(P2Name)
			type cu interface{ UnmarshalCBOR([]byte) error }
			_ = np2.(cu).UnmarshalCBOR([]byte{0xa1, 0x19, 0x09, 0x5a, 0x01})
			others["P2 object that decoded a token without eat_profile"] = np2
		}
		for i, prep := range []func(psatoken.IClaims){
			func(c psatoken.IClaims) { _ = c.SetSecurityLifeCycle(0x1100) },
			func(c psatoken.IClaims) { _ = c.SetNonce([]byte{1}) },
			func(c psatoken.IClaims) { _ = c.SetImplID(nil); _ = c.SetInstID([]byte{2}); _ = c.SetVSI("") },
			func(c psatoken.IClaims) {
				_ = c.SetSecurityLifeCycle(0x3000)
				_ = c.SetSecurityLifeCycle(0xffff)
				_ = c.SetSoftwareComponents([]psatoken.ISwComponent{&psatoken.SwComponent{}})
			},
		} {
			rc, _ := psatoken.NewClaims(p.Name())
			prep(rc)
			if i == 3 {
				// holds 0x3000 from the accepted call: the getter case below
				// is only meaningful for valid v
				if !valid {
					if serr := rc.SetSecurityLifeCycle(v); serr == nil {
						return fmt.Sprintf("%s: SetSecurityLifeCycle(0x%04x) accepted after earlier refused calls", p, v)
					}
					continue
				}
			}
			others[fmt.Sprintf("%s object on which earlier setter calls were refused (#%d)", p, i)] = rc
		}
		// objects that an Evidence has handled: attached with SetClaims (and
		// another claim changed through its exported field afterwards), used
		// in a signing attempt whose signer failed, signed successfully
		{
			full := func() psatoken.IClaims {
				m := baseValid(p, 0)
				c, err := m.BuildSetters()
				if err != nil {
					panic("VERIF-INFRA: " + err.Error())
				}
				return c
			}
			a := full()
			ev := &psatoken.Evidence{}
			_ = ev.SetClaims(a)
			switch x := a.(type) {
			case *psatoken.P1Claims:
				x.Nonce = nil
			case *psatoken.P2Claims:
				x.Nonce = nil
			}
			others[p.String()+" object attached with SetClaims whose nonce was then removed"] = a
			b := full()
			ev2 := &psatoken.Evidence{}
			_ = ev2.SetClaims(b)
			_, _ = ev2.ValidateAndSign(&faultySigner{alg: cose.Algorithm(icose.ES256), mode: "error"})
			_, _ = ev2.Sign(&faultySigner{alg: cose.Algorithm(icose.ES256), mode: "empty"})
			others[p.String()+" object on which a signing attempt failed"] = b
			d := full()
			ev3 := &psatoken.Evidence{}
			_ = ev3.SetClaims(d)
			_, _ = ev3.ValidateAndSign(keyFor(icose.EdDSA, 0).Signer())
			others[p.String()+" object that was signed"] = d
		}
		// objects that hold every OPTIONAL claim as well (certification
		// reference, verification service, boot seed), through the setters
		// and decoded: the lifecycle rule does not depend on other claims
		{
			fm := baseValid(p, 1)
			if fc, ferr := fm.BuildSetters(); ferr == nil {
				others[p.String()+" object holding every optional claim (certification reference, VSI, boot seed ...)"] = fc
			} else {
				return "VERIF-INFRA: " + ferr.Error()
			}
			if dc, derr := psatoken.DecodeClaimsFromCBOR(fm.WireBytes()); derr == nil {
				others[p.String()+" object decoded from a token with every optional claim"] = dc
			}
		}
		for what, oc := range others {
			before, berr := oc.GetSecurityLifeCycle()
			serr := oc.SetSecurityLifeCycle(v)
			if (serr == nil) != valid {
				return fmt.Sprintf("%s: SetSecurityLifeCycle(0x%04x) = %v, want valid=%v", what, v, serr, valid)
			}
			got, gerr := oc.GetSecurityLifeCycle()
			if valid && (gerr != nil || got != v) {
				return fmt.Sprintf("%s: after SetSecurityLifeCycle(0x%04x) the getter gives %d, %v", what, v, got, gerr)
			}
			if !valid && ((gerr == nil) != (berr == nil) || (gerr == nil && got != before)) {
				return fmt.Sprintf("%s: a rejected setter changed what the getter returns: before %d, %v; after %d, %v", what, before, berr, got, gerr)
			}
		}
		if valid {
			// ... and the other way round: with the lifecycle v in place
			// first, every other setter still takes its valid value
			fm2 := baseValid(p, 1)
			fm2.Lifecycle = u16p(v)
			fc2, ferr := fm2.BuildSetters()
			if ferr != nil {
				return fmt.Sprintf("%s: with the (valid) lifecycle 0x%04x set first, a later setter refuses a valid value: %v", p, v, ferr)
			}
			if verr := fc2.Validate(); verr != nil {
				return fmt.Sprintf("%s: a claims-set with every claim set successfully (lifecycle 0x%04x) does not validate: %v", p, v, verr)
			}
		}
		// ... and the getter of such objects holding the value by a
		// non-validating route (struct literal with no canonical profile)
		var bare psatoken.IClaims
		if p == P1 {
			bare = &psatoken.P1Claims{}
		} else {
			bare = &psatoken.P2Claims{}
		}
		setIntField(bare, "SecurityLifeCycle", true, int64(v)) // (through reflection: the harness builds whatever the field's width)
		if got, gerr := bare.GetSecurityLifeCycle(); (gerr == nil) != valid || (valid && got != v) {
			return fmt.Sprintf("%s bare struct literal holding lifecycle 0x%04x: getter = %d, %v; want valid=%v", p, v, got, gerr, valid)
		}
		// CBOR decode-and-validate route (token built by the independent encoder)
		tok := icbor.Encode(m.WireNode())
		dc, derr := psatoken.DecodeAndValidateClaimsFromCBOR(tok)
		if (derr == nil) != valid {
			return fmt.Sprintf("%s CBOR token with lifecycle 0x%04x: decode-and-validate = %v; want valid=%v", p, v, derr, valid)
		}
		if valid {
			if got, gerr := dc.GetSecurityLifeCycle(); gerr != nil || got != v {
				return fmt.Sprintf("%s CBOR token with lifecycle 0x%04x decodes to %d, %v", p, v, got, gerr)
			}
		}
		if in.JSON {
			doc, _ := json.Marshal(m.ExpectJSON())
			jc, jerr := psatoken.DecodeAndValidateClaimsFromJSON(doc)
			if (jerr == nil) != valid {
				return fmt.Sprintf("%s JSON token with lifecycle 0x%04x: decode-and-validate = %v; want valid=%v", p, v, jerr, valid)
			}
			if valid {
				if got, gerr := jc.GetSecurityLifeCycle(); gerr != nil || got != v {
					return fmt.Sprintf("%s JSON token with lifecycle 0x%04x decodes to %d, %v", p, v, got, gerr)
				}
			}
		}
	}
	return ""
})

// c14Concurrent: the mapping is a pure function also when several goroutines
// classify DIFFERENT values at the same time (each walks all 65 536 values in
// its own order; every answer is compared with the table).
func c14Concurrent() string {
	const G = 8
	errs := make([]string, G)
	var wg sync.WaitGroup
	start := make(chan struct{})
	for g := 0; g < G; g++ {
		wg.Add(1)
		go func(g int) {
			defer wg.Done()
			cur := -1
			defer func() {
				// the mapping is TOTAL: a value that makes it panic is a violation, not a dead test run
				if r := recover(); r != nil {
					errs[g] = fmt.Sprintf("classifying / validating lifecycle value 0x%04x panics: %v", cur, r)
				}
			}()
			<-start
			step := []int{1, 257, 4099, 65535, 3, 32771, 769, 12289}[g]
			for round := 0; round < 3 && errs[g] == ""; round++ {
				v := uint16(g * 8191)
				for i := 0; i < 65536; i++ {
					want := lifecycleState(v)
					cur = int(v)
					st := psatoken.LifeCycleToState(v)
					if (want >= 0) != st.IsValid() || (want >= 0 && int(st) != want) {
						errs[g] = fmt.Sprintf("LifeCycleToState(0x%04x) = %d (%s) while %d other goroutines classify other values; the table says %d", v, st, st, G-1, want)
						break
					}
					if err := psatoken.ValidateSecurityLifeCycle(v); (err == nil) != (want >= 0) {
						errs[g] = fmt.Sprintf("ValidateSecurityLifeCycle(0x%04x) = %v while other goroutines validate other values; valid=%v", v, err, want >= 0)
						break
					}
					v += uint16(step)
				}
			}
		}(g)
	}
	close(start)
	wg.Wait()
	for _, e := range errs {
		if e != "" {
			return e
		}
	}
	return ""
}

func TestC14_All(t *testing.T) {
	st := NewStats("C14", "TestC14_All", "all 65536 lifecycle values, exhaustively, against a table oracle: LifeCycleToState, state name, IsValid, ValidateSecurityLifeCycle, both profiles' setter+getter (on a fresh claims-set and on ones already holding the same / a valid / an invalid value), struct-literal getter+Validate, setter+getter on zero-value objects, on objects that decoded a document without / with a foreign profile claim and on instances of derived profiles and on objects on which earlier setter calls were refused, CBOR decode-and-validate of a token carrying the value (thorough: also the JSON route). Non-trivial = a value other than the 18 the repository's table test pins; distinct = value")
	st.Exhaustive = true
	defer st.Flush(t)
	pinned := map[int]bool{}
	for _, v := range []int{0x0000, 0x00a7, 0x00ff, 0x1010, 0x2001, 0x20ff, 0x3000, 0x3090, 0x30ff, 0x4020, 0x5000, 0x50af, 0x6001, 0x60ff, 0xffff, 0x0100, 0x3100, 0x7000} {
		pinned[v] = true
	}
	shard, shards := shardInfo()
	if msg := c14Concurrent(); msg != "" {
		t.Fatalf("C14 violated: %s", msg)
	}
	for v := 0; v <= 0xffff; v++ {
		if v%shards != shard {
			continue
		}
		in := c14In{V: v, JSON: thorough()}
		msg := c14Kind(in)
		key := ""
		if !pinned[v] {
			key = fmt.Sprint(v)
		}
		cls := "out-of-range"
		if lifecycleState(uint16(v)) >= 0 {
			cls = "state-" + c14Names[lifecycleState(uint16(v))]
		}
		st.Case(key, cls)
		if v%8191 == 17 {
			st.Sample(fmt.Sprintf("0x%04x -> %s", v, cls))
		}
		if msg != "" {
			reportCase(t, "C14", "c14", in, msg)
		}
	}
}
