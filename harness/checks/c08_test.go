package checks

import (
	"reflect"
	"time"

	"bytes"
	"encoding/json"
	"fmt"
	cose "github.com/veraison/go-cose"
	"testing"

	"github.com/veraison/psatoken"
	"pgregory.net/rapid"

	"verifharness/icbor"
	"verifharness/icose"
)

// C08 — validating entry points never let an invalid claims-set through.

// extRuleBroken: c is an extension-profile instance whose OWN rule (beyond
// the ten standard claims) is violated, so its Validate() must fail although
// the model of the standard claims is satisfied.
func c08Gates(m *MClaims, c psatoken.IClaims, kp keyPair, st *Stats, extRuleBroken bool) string {
	verr := c.Validate()
	valid := verr == nil
	if valid != (m.Valid() && !extRuleBroken) {
		return fmt.Sprintf("Validate() = %v but the model says valid=%v (see C01)", verr, m.Valid())
	}

	if _, isExt := c.(*ExtP2Claims); isExt {
		// the remaining comparisons model the built-in profile names
		m = m.Clone()
		m.Canon = ExtP2Name
		m.Profile = sp(ExtP2Name)
	}
	// gate 1: Evidence.SetClaims
	prev, _ := baseValid(m.Prof, 0).BuildLiteral()
	ev := &psatoken.Evidence{Claims: prev}
	prevObs := Observe(prev)
	compsBefore, _ := c.GetSoftwareComponents()
	err := ev.SetClaims(c)
	if (err == nil) != valid {
		return fmt.Sprintf("SetClaims: err=%v, Validate()=%v", err, verr)
	}
	if err != nil {
		if ev.Claims != prev {
			return "SetClaims failed but replaced the attached claims"
		}
		if d := prevObs.Diff(Observe(ev.Claims)); d != "" {
			return "SetClaims failed but changed the attached claims: " + d
		}
		ev0 := &psatoken.Evidence{}
		if ev0.SetClaims(c) == nil || ev0.Claims != nil {
			return "SetClaims on an empty Evidence failed to refuse / attached something"
		}
	} else if ev.Claims != c {
		return "SetClaims succeeded but did not attach the given claims"
	} else {
		// like the plain assignment ev.Claims = c, attaching leaves the
		// claims-set as it is: the component objects the caller holds are
		// still the ones the claims-set holds (a later update through them
		// must reach what gets encoded and signed)
		compsAfter, _ := c.GetSoftwareComponents()
		if len(compsAfter) != len(compsBefore) {
			return fmt.Sprintf("SetClaims changed the number of components from %d to %d", len(compsBefore), len(compsAfter))
		}
		for i := range compsBefore {
			if compsBefore[i] != compsAfter[i] {
				return fmt.Sprintf("SetClaims replaced component object #%d of the claims-set it attached by another object (the plain assignment ev.Claims = c does not): an update through the object the caller holds would no longer be encoded", i)
			}
		}
		if len(compsBefore) > 0 {
			if sc, ok := compsBefore[0].(*psatoken.SwComponent); ok {
				old := sc.MeasurementDesc
				probe := "verif-probe-after-attach"
				sc.MeasurementDesc = &probe
				enc, eerr := psatoken.EncodeClaimsToCBOR(ev.Claims)
				sc.MeasurementDesc = old
				if eerr == nil && !bytes.Contains(enc, []byte(probe)) {
					return "an update made through a component object obtained BEFORE SetClaims does not reach the encoding of the attached claims"
				}
			}
		}
	}
	st.Class("gate=SetClaims")

	// gate 2/3: validate-and-encode
	plainC, plainCErr := psatoken.EncodeClaimsToCBOR(c)
	gotC, err := psatoken.ValidateAndEncodeClaimsToCBOR(c)
	snapC, snapPlainC := string(gotC), string(plainC)
	interfere()
	if string(gotC) != snapC || string(plainC) != snapPlainC {
		return "bytes returned by (ValidateAnd)EncodeClaimsToCBOR changed while other claims-sets were being encoded"
	}
	if (err == nil) != (valid && plainCErr == nil) {
		return fmt.Sprintf("ValidateAndEncodeClaimsToCBOR: err=%v, Validate()=%v, plain encoder err=%v", err, verr, plainCErr)
	}
	if err != nil && len(gotC) != 0 {
		return "ValidateAndEncodeClaimsToCBOR returned bytes together with an error"
	}
	if err == nil && !bytes.Equal(gotC, plainC) {
		return fmt.Sprintf("ValidateAndEncodeClaimsToCBOR differs from EncodeClaimsToCBOR: %x vs %x", gotC, plainC)
	}
	if valid && plainCErr != nil {
		return "valid set does not encode to CBOR: " + plainCErr.Error()
	}
	st.Class("gate=EncodeCBOR")
	plainJ, plainJErr := psatoken.EncodeClaimsToJSON(c)
	gotJ, err := psatoken.ValidateAndEncodeClaimsToJSON(c)
	snapJ, snapPlainJ := string(gotJ), string(plainJ)
	interfere()
	if string(gotJ) != snapJ || string(plainJ) != snapPlainJ {
		return "bytes returned by (ValidateAnd)EncodeClaimsToJSON changed while other claims-sets were being encoded"
	}
	if (err == nil) != (valid && plainJErr == nil) {
		return fmt.Sprintf("ValidateAndEncodeClaimsToJSON: err=%v, Validate()=%v, plain encoder err=%v", err, verr, plainJErr)
	}
	if err != nil && len(gotJ) != 0 {
		return "ValidateAndEncodeClaimsToJSON returned bytes together with an error"
	}
	if err == nil && !bytes.Equal(gotJ, plainJ) {
		return "ValidateAndEncodeClaimsToJSON differs from EncodeClaimsToJSON"
	}
	if valid && plainJErr != nil {
		return "valid set does not encode to JSON: " + plainJErr.Error()
	}
	st.Class("gate=EncodeJSON")

	// gate 4: ValidateAndSign vs Sign
	// (the signer is go-cose's own or one written around a crypto.Signer
	// handle, by the key's index)
	evS := &psatoken.Evidence{Claims: c}
	plainTok, plainSErr := evS.Sign(kp.AnySigner())
	evV := &psatoken.Evidence{Claims: c}
	tok, err := evV.ValidateAndSign(kp.AnySigner())
	if (err == nil) != (valid && plainSErr == nil) {
		return fmt.Sprintf("ValidateAndSign: err=%v, Validate()=%v, Sign err=%v", err, verr, plainSErr)
	}
	if err == nil {
		snapT := string(tok)
		interfere()
		if string(tok) != snapT {
			return "the token returned by ValidateAndSign changed while other claims-sets were being encoded"
		}
		if evV.Verify(kp.Pub) != nil || evS.Verify(kp.Pub) != nil {
			return "a signing Evidence stops verifying after other claims-sets were encoded"
		}
	}
	if err != nil && len(tok) != 0 {
		return "ValidateAndSign returned a token together with an error"
	}
	if err != nil {
		if k := keyFor(kp.Alg, kp.Idx); evV.Verify(k.Pub) == nil {
			return "Evidence verifies after a failed ValidateAndSign"
		}
	}
	if err == nil {
		a, okA := icose.Split(tok)
		b, okB := icose.Split(plainTok)
		if !okA || !okB {
			return "signed token is not a tag-18 4-array"
		}
		if !bytes.Equal(a.Payload, b.Payload) || !bytes.Equal(a.Protected, b.Protected) {
			return "ValidateAndSign and Sign produce different payload / protected header"
		}
		if !bytes.Equal(a.Payload, plainC) {
			return "signed payload differs from the claims' CBOR encoding"
		}
		if kp.Alg == icose.EdDSA && !bytes.Equal(tok, plainTok) {
			return "ValidateAndSign and Sign tokens differ under deterministic EdDSA"
		}
	}
	// caller-supplied signers for algorithms go-cose has no built-in signer
	// (or no name) for: whatever Sign does with them, ValidateAndSign does
	// the same on a valid set
	for _, alg := range []int64{-47, -257, -65000, 0, 5} {
		fs := func() cose.Signer { return &faultySigner{alg: cose.Algorithm(alg), mode: "junk", n: 64} }
		e1, e2 := &psatoken.Evidence{Claims: c}, &psatoken.Evidence{Claims: c}
		t1, err1 := e1.Sign(fs())
		t2, err2 := e2.ValidateAndSign(fs())
		if (err2 == nil) != (valid && err1 == nil) {
			return fmt.Sprintf("with a caller-supplied signer for algorithm %d: ValidateAndSign err=%v, Sign err=%v, Validate()=%v", alg, err2, err1, verr)
		}
		if err1 == nil && err2 == nil {
			a, okA := icose.Split(t1)
			b, okB := icose.Split(t2)
			if !okA || !okB || !bytes.Equal(a.Payload, b.Payload) || !bytes.Equal(a.Protected, b.Protected) {
				return fmt.Sprintf("with a caller-supplied signer for algorithm %d ValidateAndSign and Sign produce different tokens", alg)
			}
		}
	}
	st.Class("gate=ValidateAndSign")

	// gate 5: decode-and-validate CBOR. Input bytes: the non-validating
	// encoder's when it can encode the set, else the model's wire form.
	wire := plainC
	if plainCErr != nil {
		wire = m.WireBytes()
	}
	// the same bytes, and harmless re-wrappings of them (tags, an unknown
	// extra key): whatever the plain decoder accepts, the validating one must
	// judge by Validate()
	variants := [][]byte{wire}
	if wn, _, rerr := icbor.Read(wire); rerr == nil && wn.Kind == icbor.KMap {
		for _, tg := range []uint64{6, 24, 55799} {
			variants = append(variants, icbor.Encode(icbor.Tag(tg, wn)))
		}
		variants = append(variants, icbor.Encode(icbor.Tag(55799, icbor.Tag(55799, wn))))
		x := wn.Clone()
		x.Pairs = append(x.Pairs, icbor.P(icbor.U(99999), icbor.Tstr("extra")))
		variants = append(variants, icbor.Encode(x))
		// extra entries of other kinds: a text label, labels at the ends of
		// the integer ranges, an unknown key twice, a known key twice
		for _, extra := range [][][2]*icbor.Node{
			{icbor.P(icbor.Tstr("build"), icbor.U(1))},
			{icbor.P(icbor.U(1<<63-1), icbor.U(1))},
			{icbor.P(icbor.U(1<<63), icbor.U(1))},
			{icbor.P(icbor.NintArg(1<<63-1), icbor.U(1))},
			{icbor.P(icbor.I(-70001), icbor.U(1)), icbor.P(icbor.I(-70001), icbor.U(2))},
			{wn.Pairs[0]},
			{wn.Pairs[len(wn.Pairs)-1]},
			{icbor.P(icbor.Bstr([]byte{1}), icbor.U(1))},
			{icbor.P(icbor.Arr(), icbor.Null())},
		} {
			y := wn.Clone()
			y.Pairs = append(y.Pairs, extra...)
			variants = append(variants, icbor.Encode(y))
		}
		variants = append(variants, icbor.Encode(wn.WithIndef()), icbor.Encode(wn.WithHead(8)))
	}
	for vi, wire := range variants {
		d0, derr := psatoken.DecodeClaimsFromCBOR(wire)
		d1, err := psatoken.DecodeAndValidateClaimsFromCBOR(wire)
		if derr != nil {
			if err == nil {
				return "DecodeAndValidateClaimsFromCBOR accepts bytes the plain decoder rejects"
			}
			continue
		}
		dv := d0.Validate()
		if (err == nil) != (dv == nil) {
			return fmt.Sprintf("DecodeAndValidateClaimsFromCBOR (input variant %d: %x...): err=%v, Validate() of the decoded set=%v", vi, wire[:4], err, dv)
		}
		if err != nil && d1 != nil {
			return "DecodeAndValidateClaimsFromCBOR returned claims together with an error"
		}
		if err == nil {
			if d := Observe(d0).Diff(Observe(d1)); d != "" {
				return "validating and non-validating CBOR decoders differ: " + d
			}
		}
		if vi == 0 && plainCErr == nil && (dv == nil) != valid {
			return fmt.Sprintf("validity changed across encode->decode: before %v, after %v", verr, dv)
		}
	}
	st.Class("gate=DecodeCBOR")

	// gate 6: decode-and-validate JSON (+ deprecated alias)
	if plainJErr == nil {
		j0, jerr := psatoken.DecodeClaimsFromJSON(plainJ)
		j1, err := psatoken.DecodeAndValidateClaimsFromJSON(plainJ)
		j2, err2 := psatoken.DecodeJSONClaims(plainJ)
		if (err == nil) != (err2 == nil) {
			return "DecodeJSONClaims (deprecated alias) disagrees with DecodeAndValidateClaimsFromJSON"
		}
		if jerr != nil {
			if err == nil {
				return "DecodeAndValidateClaimsFromJSON accepts a document the plain decoder rejects"
			}
		} else {
			jv := j0.Validate()
			if (err == nil) != (jv == nil) {
				return fmt.Sprintf("DecodeAndValidateClaimsFromJSON: err=%v, Validate() of the decoded set=%v", err, jv)
			}
			if err != nil && (j1 != nil || j2 != nil) {
				return "DecodeAndValidateClaimsFromJSON returned claims together with an error"
			}
			if err == nil {
				if d := Observe(j0).Diff(Observe(j1)); d != "" {
					return "validating and non-validating JSON decoders differ: " + d
				}
			}
		}
		// the same document with bytes after (or before) it: whatever the
		// plain decoder says, the validating one says too
		for _, v := range []struct{ pre, post string }{{"", "}"}, {"", "]"}, {"", " "}, {"", "\n"}, {"", "{}"}, {"", ","}, {"", "x"}, {"", "\x00"}, {"", "null"}, {" \n\t", ""}, {"\xef\xbb\xbf", ""}, {"[", "]"}, {"", plainJStr(plainJ)}} {
			doc := []byte(v.pre + string(plainJ) + v.post)
			x0, e0 := psatoken.DecodeClaimsFromJSON(doc)
			_, e1 := psatoken.DecodeAndValidateClaimsFromJSON(doc)
			_, e2 := psatoken.DecodeJSONClaims(doc)
			accept0 := e0 == nil && x0.Validate() == nil
			if accept0 != (e1 == nil) || (e1 == nil) != (e2 == nil) {
				return fmt.Sprintf("JSON document with %q before and %q after it: DecodeClaimsFromJSON+Validate accepts=%v, DecodeAndValidateClaimsFromJSON err=%v, DecodeJSONClaims err=%v", v.pre, truncate(v.post, 20), accept0, e1, e2)
			}
		}
		st.Class("gate=DecodeJSON")
	}

	// gate 7: DecodeAndValidateEvidenceFromCOSE
	cwt := plainTok
	if plainSErr != nil {
		var serr error
		cwt, serr = icose.SignedToken(kp.Alg, kp.Priv, m.WireBytes())
		if serr != nil {
			return "VERIF-INFRA: " + serr.Error()
		}
	}
	e0, eerr := psatoken.DecodeEvidenceFromCOSE(cwt)
	e1, err := psatoken.DecodeAndValidateEvidenceFromCOSE(cwt)
	if eerr != nil {
		if err == nil {
			return "DecodeAndValidateEvidenceFromCOSE accepts a token the plain decoder rejects"
		}
	} else {
		evv := e0.Claims.Validate()
		if (err == nil) != (evv == nil) {
			return fmt.Sprintf("DecodeAndValidateEvidenceFromCOSE: err=%v, Validate() of the decoded claims=%v", err, evv)
		}
		if err != nil && e1 != nil {
			return "DecodeAndValidateEvidenceFromCOSE returned an Evidence together with an error"
		}
		if err == nil {
			if d := Observe(e0.Claims).Diff(Observe(e1.Claims)); d != "" {
				return "validating and non-validating COSE decoders differ: " + d
			}
			if (e0.Verify(kp.Pub) == nil) != (e1.Verify(kp.Pub) == nil) {
				return "validating and non-validating COSE decoders differ in verification outcome"
			}
		}
	}
	for vi, wire := range variants[1:] {
		cw, serr := icose.SignedToken(kp.Alg, kp.Priv, wire)
		if serr != nil {
			return "VERIF-INFRA: " + serr.Error()
		}
		e0, eerr := psatoken.DecodeEvidenceFromCOSE(cw)
		e1, err := psatoken.DecodeAndValidateEvidenceFromCOSE(cw)
		if eerr != nil {
			if err == nil {
				return "DecodeAndValidateEvidenceFromCOSE accepts a token the plain decoder rejects"
			}
			continue
		}
		evv := e0.Claims.Validate()
		if (err == nil) != (evv == nil) {
			return fmt.Sprintf("DecodeAndValidateEvidenceFromCOSE (payload variant %d: %x...): err=%v, Validate() of the decoded claims=%v", vi+1, wire[:4], err, evv)
		}
		if err == nil {
			if d := Observe(e0.Claims).Diff(Observe(e1.Claims)); d != "" {
				return "validating and non-validating COSE decoders differ: " + d
			}
		}
	}
	// the same signed material in other ENVELOPES (no tag, another tag, one
	// more tag around it, indefinite-length array): the validating gate takes
	// nothing the plain decoder refuses, and nothing whose claims do not validate
	if n, _, rerr := icbor.Read(cwt); rerr == nil && n.Kind == icbor.KTag && n.Items != nil && len(n.Items) == 1 {
		arr := n.Items[0]
		for name, env := range map[string][]byte{
			"untagged":       icbor.Encode(arr),
			"tag-17":         icbor.Encode(icbor.Tag(17, arr)),
			"tag-98":         icbor.Encode(icbor.Tag(98, arr)),
			"tag-61-outside": icbor.Encode(icbor.Tag(61, n)),
			"tag-55799":      icbor.Encode(icbor.Tag(55799, n)),
			"indefinite":     icbor.Encode(icbor.Tag(18, arr.WithIndef())),
		} {
			ep, perr := psatoken.DecodeEvidenceFromCOSE(env)
			ev, verr := psatoken.DecodeAndValidateEvidenceFromCOSE(env)
			if verr == nil && perr != nil {
				return fmt.Sprintf("DecodeAndValidateEvidenceFromCOSE accepts the %s form of a token, which the plain decoder rejects (%v)", name, perr)
			}
			if verr == nil && (ev == nil || ev.Claims == nil || ev.Claims.Validate() != nil) {
				return fmt.Sprintf("DecodeAndValidateEvidenceFromCOSE accepts the %s form of a token whose claims do not validate", name)
			}
			if perr == nil && (verr == nil) != (ep.Claims.Validate() == nil) {
				return fmt.Sprintf("DecodeAndValidateEvidenceFromCOSE (%s form): err=%v, Validate() of the plainly decoded claims=%v", name, verr, ep.Claims.Validate())
			}
		}
	}
	st.Class("gate=DecodeCOSE")
	return ""
}

func TestC08_Gates(t *testing.T) {
	st := NewStats("C08", "TestC08_Gates", "rapid: valid and invalid claims-sets of both profiles (C01's class-vector generator, as struct literals), and instances of a registered extension profile whose own Validate() rule is met or broken, through the seven validating entry points (SetClaims, ValidateAndEncode CBOR/JSON, ValidateAndSign, DecodeAndValidate CBOR/JSON(+deprecated alias)/COSE): each fails iff Validate() fails, emits/attaches nothing on failure, and equals its non-validating sibling on success. Non-trivial = invalid set whose defect is not merely a missing lifecycle; distinct = class vector")
	st.Require = []string{"valid", "invalid", "gate=SetClaims", "gate=EncodeCBOR", "gate=EncodeJSON", "gate=ValidateAndSign", "gate=DecodeCBOR", "gate=DecodeJSON", "gate=DecodeCOSE", "invalid-encodable", "extension-profile", "extension-own-rule-broken", "impl=by-value", "impl=no-instance-id", "impl=sloppy-json", "impl=unregistered-extension", "impl=stand-alone-rich"}
	defer st.Flush(t)
	registerMu.Lock()
	defer registerMu.Unlock()
	restore := psatoken.VerifCheckpointProfiles()
	defer restore()
	if err := psatoken.RegisterProfile(extP2Profile{}); err != nil {
		t.Fatalf("VERIF-INFRA: %v", err)
	}
	if err := psatoken.RegisterProfile(noInstIDProfile{}); err != nil {
		t.Fatalf("VERIF-INFRA: %v", err)
	}
	if err := psatoken.RegisterProfile(freeFormProfile{}); err != nil {
		t.Fatalf("VERIF-INFRA: %v", err)
	}
	rapid.Check(t, func(t *rapid.T) {
		p := drawProf(t)
		if rapid.IntRange(0, 5).Draw(t, "other-implementation") == 0 {
			// IClaims implementations of other make: a decorator used BY
			// VALUE, and an instance of a derived profile that excludes the
			// instance ID; judged by pure differentials (no rule model)
			mm := GenAny(t, P2)
			if genBool.Draw(t, "forcevalid") {
				mm = GenValid(t, P2, false)
			}
			lit, ok := mm.BuildLiteral()
			if !ok {
				st.Class("unrepresentable")
				return
			}
			var oc psatoken.IClaims
			what := rapid.SampledFrom([]string{"by-value", "no-instance-id", "no-instance-id", "sloppy-json", "unregistered-extension", "stand-alone-rich"}).Draw(t, "impl")
			switch what {
			case "stand-alone-rich":
				// a stand-alone claims type without codec methods: the
				// library's own CBOR / JSON modes encode it by reflection, and
				// its claims (a time, a free-form value and map) are of types
				// whose encoding depends on the mode's options
				f := freeFormProfile{}.GetClaims().(*FreeFormClaims)
				if genBool.Draw(t, "rich.time") {
					ts := time.Unix(rapid.SampledFrom([]int64{0, 1, 1700000000, -1, 1 << 33}).Draw(t, "rich.ts"), 0).UTC()
					f.IssuedAt = &ts
				}
				switch rapid.IntRange(0, 3).Draw(t, "rich.free") {
				case 1:
					f.Free = []any{uint64(1), "x", []byte{1, 2}}
				case 2:
					f.Free = map[string]any{"k": []byte{7}}
				case 3:
					f.Submods = map[string]any{"sub": map[any]any{uint64(265): "x"}}
				}
				if rapid.IntRange(0, 3).Draw(t, "rich.noprofile") == 0 {
					f.EatProfile = nil // mandatory claim missing: invalid
				}
				oc = f
			case "by-value":
				oc = ByValueClaims{lit.(*psatoken.P2Claims)}
			case "sloppy-json":
				// valid JSON from the marshaler, but indented, unescaped and
				// newline-terminated (the profile is not registered either)
				n := newSloppyJSONClaims()
				prof, canon := n.Profile, n.CanonicalProfile
				n.P2Claims = *(lit.(*psatoken.P2Claims))
				n.Profile, n.CanonicalProfile = prof, canon
				if mm.VSI != nil {
					v := "https://v.example/?a=1&b=<2>"
					n.VSI = &v
				}
				oc = n
			case "unregistered-extension":
				// an extension profile that was never registered in this
				// process (attester-only use)
				es := extStyleByLabel("shadow-p2")
				n := es.Impl.GetClaims().(*ShadowP2Claims)
				prof, canon := n.Profile, n.CanonicalProfile
				n.P2Claims = *(lit.(*psatoken.P2Claims))
				n.Profile, n.CanonicalProfile = prof, canon
				oc = n
			default:
				n := noInstIDProfile{}.GetClaims().(*NoInstIDClaims)
				prof, canon := n.Profile, n.CanonicalProfile
				n.P2Claims = *(lit.(*psatoken.P2Claims))
				n.Profile, n.CanonicalProfile = prof, canon
				n.InstID = nil
				oc = n
			}
			kp := keyFor(rapid.SampledFrom(fastAlgs).Draw(t, "alg"), 0)
			if msg := c08Differential(oc, kp); msg != "" {
				t.Fatalf("C08 violated (%s implementation): %s\n [%s]", what, msg, mm.ClassVector())
			}
			st.Case(what+"|"+mm.ClassVector(), "other-implementation", "impl="+what)
			return
		}
		m := GenAny(t, p)
		c, ok := m.BuildLiteral()
		if !ok {
			st.Class("unrepresentable")
			return
		}
		extBroken := false
		isExt := false
		if p == P2 && rapid.IntRange(0, 4).Draw(t, "extension") == 0 {
			// a registered extension profile whose Validate() adds a rule of its
			// own: every gate must consult THAT, not just the standard claims
			m = GenValid(t, P2, true)
			ts := rapid.SampledFrom([]int64{-1, -1700000000, extTSNotInProfile, extTSOptionalish, 0, 5, 1700000000}).Draw(t, "ts")
			var err error
			if c, err = buildExt(m, &ts); err != nil {
				t.Fatalf("VERIF-INFRA: %v", err)
			}
			extBroken = extRuleBroken(&ts)
			isExt = true
		}
		alg := rapid.SampledFrom(fastAlgs).Draw(t, "alg")
		kp := keyFor(alg, rapid.IntRange(0, 3).Draw(t, "key"))
		if msg := c08Gates(m, c, kp, st, extBroken); msg != "" {
			t.Fatalf("C08 violated: %s\n [%s] extension=%v own-rule-broken=%v", msg, m.ClassVector(), isExt, extBroken)
		}
		if isExt {
			st.Class("extension-profile")
			if extBroken {
				st.Class("extension-own-rule-broken")
			}
		}
		cls := []string{"valid"}
		key := ""
		if extBroken {
			cls = []string{"invalid"}
			key = "ext-own-rule|" + m.ClassVector()
		} else if !m.Valid() {
			cls = []string{"invalid"}
			off := m.Offending()
			if !(len(off) == 1 && off[0] == CLifecycle && m.Lifecycle == nil) {
				key = m.ClassVector()
			}
			if _, err := psatoken.EncodeClaimsToCBOR(c); err == nil {
				cls = append(cls, "invalid-encodable")
			}
		}
		st.Case(key, cls...)
		if key != "" && st.WantSample() {
			st.Sample(map[string]any{"claims": m.ClassVector(), "offending": fmt.Sprint(m.Offending()), "alg": icose.AlgName(alg)})
		}
	})
}

// ---- gates in context: stale Evidence state, in-place (in)validation ----

func c08Prior(t *rapid.T, ev *psatoken.Evidence, prior string, kp keyPair) {
	seed, _ := baseValid(P2, 1).BuildLiteral()
	switch prior {
	case "fresh":
	case "signed":
		ev.Claims = seed
		if _, err := ev.Sign(kp.Signer()); err != nil {
			t.Fatalf("VERIF-INFRA: %v", err)
		}
	case "vsigned":
		ev.Claims = seed
		if _, err := ev.ValidateAndSign(keyFor(icose.EdDSA, 3).Signer()); err != nil {
			t.Fatalf("VERIF-INFRA: %v", err)
		}
	case "decoded":
		tok, _ := icose.SignedToken(kp.Alg, kp.Priv, baseValid(P1, 1).WireBytes())
		if err := ev.UnmarshalCOSE(tok); err != nil {
			t.Fatalf("VERIF-INFRA: %v", err)
		}
	case "failed-sign":
		ev.Claims = seed
		if _, err := ev.Sign(&faultySigner{alg: cose.Algorithm(kp.Alg), mode: "error"}); err == nil {
			t.Fatalf("VERIF-INFRA: faulty signer signed")
		}
	case "failed-decode":
		_ = ev.UnmarshalCOSE([]byte{0xd2, 0x84, 0x40})
	}
}

// overwriteInPlace makes the object behind dst hold the content of src
// (same dynamic type), keeping dst's identity.
func overwriteInPlace(dst, src psatoken.IClaims) bool {
	d, s := reflect.ValueOf(dst), reflect.ValueOf(src)
	if d.Type() != s.Type() || d.Kind() != reflect.Pointer {
		return false
	}
	d.Elem().Set(s.Elem())
	return true
}

func TestC08_GatesInContext(t *testing.T) {
	st := NewStats("C08", "TestC08_GatesInContext", "rapid: the gates exercised where stale state exists. (a) ValidateAndSign vs Sign on two Evidence objects brought into the same prior state {fresh, after Sign, after ValidateAndSign, after UnmarshalCOSE, after a failed sign, after a failed decode}: they succeed/fail together when the claims are valid, ValidateAndSign fails iff Validate() fails, payload and protected header equal; (b) a claims object is attached with SetClaims (or validated/encoded once) and then overwritten IN PLACE with an invalid (or, from invalid, a valid) claims-set of the same type: SetClaims / ValidateAndEncode CBOR+JSON / ValidateAndSign called again must follow the CURRENT content: fail and emit nothing iff Validate() fails now; (c) every gate called twice in a row gives the same outcome; (d) afterwards - ValidateAndSign refused or not - SetClaims of a valid set on that Evidence succeeds and attaches it, ValidateAndSign then signs exactly its encoding, and the Evidence decodes its own token (a call that never returns is detected by a goroutine inspection, see stall_test.go). Non-trivial = prior state not fresh, or an in-place flip of validity; distinct = prior + flip + class vector")
	st.Require = []string{"prior=signed", "prior=decoded", "prior=failed-sign", "flip=valid->invalid", "flip=invalid->valid"}
	defer st.Flush(t)
	stall := watchStalls("C08", "TestC08_GatesInContext")
	defer stall.Stop()
	rapid.Check(t, func(t *rapid.T) {
		p := drawProf(t)
		alg := rapid.SampledFrom(fastAlgs).Draw(t, "alg")
		kp := keyFor(alg, rapid.IntRange(0, 3).Draw(t, "key"))
		prior := rapid.SampledFrom([]string{"fresh", "signed", "vsigned", "decoded", "failed-sign", "failed-decode"}).Draw(t, "prior")
		stall.Begin("Evidence in state " + prior + "; claims assigned; Sign / ValidateAndSign")
		m := GenAny(t, p)
		if genBool.Draw(t, "forceValid") {
			m = GenValid(t, p, false)
		}
		c, ok := m.BuildLiteral()
		if !ok {
			t.Skip("unrepresentable")
		}
		valid := c.Validate() == nil
		// (a) same prior state, validating vs non-validating signer
		evS, evV := &psatoken.Evidence{}, &psatoken.Evidence{}
		c08Prior(t, evS, prior, kp)
		c08Prior(t, evV, prior, kp)
		evS.Claims, evV.Claims = c, c
		plainTok, plainErr := evS.Sign(kp.Signer())
		tok, err := evV.ValidateAndSign(kp.Signer())
		if (err == nil) != (valid && plainErr == nil) {
			t.Fatalf("C08 violated: on an Evidence in state %q ValidateAndSign err=%v while Validate() ok=%v and Sign err=%v\n [%s]", prior, err, valid, plainErr, m.ClassVector())
		}
		if err != nil && len(tok) != 0 {
			t.Fatalf("C08 violated: ValidateAndSign (state %q) returned bytes together with an error", prior)
		}
		if err == nil {
			a, okA := icose.Split(tok)
			b, okB := icose.Split(plainTok)
			if !okA || !okB || !bytes.Equal(a.Payload, b.Payload) || !bytes.Equal(a.Protected, b.Protected) {
				t.Fatalf("C08 violated: ValidateAndSign and Sign (state %q) produce different payload / protected header", prior)
			}
			if evV.Verify(kp.Pub) != nil {
				t.Fatalf("C08 violated: Evidence does not verify after a successful ValidateAndSign in state %q", prior)
			}
		} else if evV.Verify(kp.Pub) == nil {
			t.Fatalf("C08 violated: Evidence in state %q verifies after a FAILED ValidateAndSign", prior)
		}
		// (c) repeat
		_, err2 := evV.ValidateAndSign(kp.Signer())
		if (err2 == nil) != (err == nil) {
			t.Fatalf("C08 violated: a second ValidateAndSign gives a different outcome (%v then %v)", err, err2)
		}
		// (d) the Evidence stays usable after its gates were used, refused or
		// not: attaching a valid set works (as plain assignment would) and
		// the gates then let it through
		{
			m3 := GenValid(t, p, false)
			c3, _ := m3.BuildLiteral()
			stall.Beat("SetClaims(valid set) on the Evidence (state %q) whose ValidateAndSign returned err=%v twice", prior, err)
			if e := evV.SetClaims(c3); e != nil || evV.Claims != c3 {
				t.Fatalf("C08 violated: SetClaims of a valid set on an Evidence (state %q) whose ValidateAndSign had returned err=%v: err=%v, attached=%v", prior, err, e, evV.Claims == c3)
			}
			stall.Beat("ValidateAndSign after that SetClaims")
			tk3, e3 := evV.ValidateAndSign(kp.Signer())
			want3, _ := psatoken.ValidateAndEncodeClaimsToCBOR(c3)
			p3, ok3 := icose.Split(tk3)
			if e3 != nil || !ok3 || !bytes.Equal(p3.Payload, want3) {
				t.Fatalf("C08 violated: after SetClaims of a valid set on a used Evidence (state %q, earlier ValidateAndSign err=%v) ValidateAndSign err=%v / payload is not the encoding of the attached claims", prior, err, e3)
			}
			stall.Beat("UnmarshalCOSE of that token into the same Evidence")
			if e := evV.UnmarshalCOSE(tk3); e != nil {
				t.Fatalf("C08 violated: the Evidence cannot decode the token it just signed: %v", e)
			}
		}
		// (b) in-place flip
		m2 := GenAny(t, p)
		if !valid || genBool.Draw(t, "flipToValid") {
			m2 = GenValid(t, p, false)
		}
		c2, ok := m2.BuildLiteral()
		flip := ""
		if ok {
			ev := &psatoken.Evidence{}
			attached := ev.SetClaims(c) == nil
			_, _ = psatoken.ValidateAndEncodeClaimsToCBOR(c)
			if attached {
				_, _ = ev.ValidateAndSign(kp.Signer())
			}
			if overwriteInPlace(c, c2) {
				now := c.Validate() == nil
				if valid != now {
					flip = fmt.Sprintf("flip=%s->%s", map[bool]string{true: "valid", false: "invalid"}[valid], map[bool]string{true: "valid", false: "invalid"}[now])
				}
				if attached {
					tk, e := ev.ValidateAndSign(kp.Signer())
					if (e == nil) != now || (e != nil && len(tk) != 0) {
						t.Fatalf("C08 violated: claims attached with SetClaims were changed in place (now valid=%v) but ValidateAndSign err=%v, %d bytes\n before [%s]\n now    [%s]", now, e, len(tk), m.ClassVector(), m2.ClassVector())
					}
				}
				if b, e := psatoken.ValidateAndEncodeClaimsToCBOR(c); (e == nil) != now || (e != nil && len(b) != 0) {
					t.Fatalf("C08 violated: ValidateAndEncodeClaimsToCBOR after an in-place change (now valid=%v): err=%v, %d bytes", now, e, len(b))
				}
				if b, e := psatoken.ValidateAndEncodeClaimsToJSON(c); (e == nil) != now || (e != nil && len(b) != 0) {
					t.Fatalf("C08 violated: ValidateAndEncodeClaimsToJSON after an in-place change (now valid=%v): err=%v, %d bytes", now, e, len(b))
				}
				ev3 := &psatoken.Evidence{}
				if e := ev3.SetClaims(c); (e == nil) != now || (e != nil && ev3.Claims != nil) {
					t.Fatalf("C08 violated: SetClaims after an in-place change (now valid=%v): err=%v", now, e)
				}
				if e := ev.SetClaims(c); (e == nil) != now {
					t.Fatalf("C08 violated: re-attaching the same (changed) object: SetClaims err=%v but valid=%v", e, now)
				}
			}
		}
		cls := []string{"prior=" + prior}
		if flip != "" {
			cls = append(cls, flip)
		}
		key := ""
		if prior != "fresh" || flip != "" {
			key = prior + "|" + flip + "|" + m.ClassVector()
		}
		st.Case(key, cls...)
		if key != "" && st.WantSample() {
			st.Sample(map[string]any{"prior": prior, "flip": flip, "claims": m.ClassVector()})
		}
	})
}

var _ = json.Marshal

func plainJStr(b []byte) string { return string(b) }

// c08Differential: the seven gates on an arbitrary IClaims implementation,
// judged only against Validate() and the non-validating siblings.
func c08Differential(c psatoken.IClaims, kp keyPair) string {
	valid := c.Validate() == nil
	ev := &psatoken.Evidence{}
	if err := ev.SetClaims(c); (err == nil) != valid {
		return fmt.Sprintf("SetClaims: err=%v, Validate() valid=%v", err, valid)
	}
	pc, pcErr := psatoken.EncodeClaimsToCBOR(c)
	vc, vcErr := psatoken.ValidateAndEncodeClaimsToCBOR(c)
	if (vcErr == nil) != (valid && pcErr == nil) || (vcErr == nil && !bytes.Equal(pc, vc)) {
		return fmt.Sprintf("ValidateAndEncodeClaimsToCBOR err=%v vs EncodeClaimsToCBOR err=%v, valid=%v", vcErr, pcErr, valid)
	}
	pj, pjErr := psatoken.EncodeClaimsToJSON(c)
	vj, vjErr := psatoken.ValidateAndEncodeClaimsToJSON(c)
	if (vjErr == nil) != (valid && pjErr == nil) || (vjErr == nil && !bytes.Equal(pj, vj)) {
		return fmt.Sprintf("ValidateAndEncodeClaimsToJSON err=%v vs EncodeClaimsToJSON err=%v, valid=%v", vjErr, pjErr, valid)
	}
	e1, e2 := &psatoken.Evidence{Claims: c}, &psatoken.Evidence{Claims: c}
	ptok, psErr := e1.Sign(kp.HSMSigner())
	vtok, vsErr := e2.ValidateAndSign(kp.HSMSigner())
	if (vsErr == nil) != (valid && psErr == nil) {
		return fmt.Sprintf("ValidateAndSign err=%v vs Sign err=%v, valid=%v", vsErr, psErr, valid)
	}
	if vsErr == nil {
		pp, ok1 := icose.Split(ptok)
		vp, ok2 := icose.Split(vtok)
		if !ok1 || !ok2 || !bytes.Equal(pp.Payload, vp.Payload) || !bytes.Equal(pp.Protected, vp.Protected) {
			return fmt.Sprintf("ValidateAndSign and Sign cover different bytes for the same valid claims:\n  Sign            %x\n  ValidateAndSign %x", ptok, vtok)
		}
		if pcErr == nil && !bytes.Equal(vp.Payload, pc) {
			return fmt.Sprintf("the signed payload is not the encoding of the claims:\n  payload  %x\n  encoding %x", vp.Payload, pc)
		}
	}
	if pcErr == nil {
		d0, derr := psatoken.DecodeClaimsFromCBOR(pc)
		_, verr := psatoken.DecodeAndValidateClaimsFromCBOR(pc)
		if (verr == nil) != (derr == nil && d0.Validate() == nil) {
			return fmt.Sprintf("DecodeAndValidateClaimsFromCBOR err=%v; plain decode err=%v, then Validate() = %v", verr, derr, valOf(d0, derr))
		}
	}
	if pjErr == nil {
		d0, derr := psatoken.DecodeClaimsFromJSON(pj)
		_, verr := psatoken.DecodeAndValidateClaimsFromJSON(pj)
		if (verr == nil) != (derr == nil && d0.Validate() == nil) {
			return fmt.Sprintf("DecodeAndValidateClaimsFromJSON err=%v; plain decode err=%v, then Validate() = %v", verr, derr, valOf(d0, derr))
		}
	}
	if psErr == nil {
		d0, derr := psatoken.DecodeEvidenceFromCOSE(ptok)
		_, verr := psatoken.DecodeAndValidateEvidenceFromCOSE(ptok)
		var v0 error
		if derr == nil {
			v0 = d0.Claims.Validate()
		}
		if (verr == nil) != (derr == nil && v0 == nil) {
			return fmt.Sprintf("DecodeAndValidateEvidenceFromCOSE err=%v; plain decode err=%v, then Validate() of its claims = %v", verr, derr, v0)
		}
	}
	return ""
}

func valOf(c psatoken.IClaims, derr error) error {
	if derr != nil || c == nil {
		return nil
	}
	return c.Validate()
}
