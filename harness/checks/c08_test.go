package checks

import (
	"bytes"
	"encoding/json"
	"fmt"
	"testing"

	"github.com/veraison/psatoken"
	"pgregory.net/rapid"

	"verifharness/icose"
)

// C08 — validating entry points never let an invalid claims-set through.

func c08Gates(m *MClaims, c psatoken.IClaims, kp keyPair, st *Stats) string {
	verr := c.Validate()
	valid := verr == nil
	if valid != m.Valid() {
		return fmt.Sprintf("Validate() = %v but the model says valid=%v (see C01)", verr, m.Valid())
	}

	// gate 1: Evidence.SetClaims
	prev, _ := baseValid(m.Prof, 0).BuildLiteral()
	ev := &psatoken.Evidence{Claims: prev}
	prevObs := Observe(prev)
	err := ev.SetClaims(c)
	if (err == nil) != valid {
		return fmt.Sprintf("SetClaims: err=%v, Validate()=%v", err, verr)
	}
	if err != nil {
		if ev.Claims != prev {
			return "SetClaims failed but replaced the attached claims"
		}
		if d := prevObs.Diff(Observe(ev.Claims)); d != "" {
			return "SetClaims failed but changed the attached claims: " + d
		}
		ev0 := &psatoken.Evidence{}
		if ev0.SetClaims(c) == nil || ev0.Claims != nil {
			return "SetClaims on an empty Evidence failed to refuse / attached something"
		}
	} else if ev.Claims != c {
		return "SetClaims succeeded but did not attach the given claims"
	}
	st.Class("gate=SetClaims")

	// gate 2/3: validate-and-encode
	plainC, plainCErr := psatoken.EncodeClaimsToCBOR(c)
	gotC, err := psatoken.ValidateAndEncodeClaimsToCBOR(c)
	if (err == nil) != (valid && plainCErr == nil) {
		return fmt.Sprintf("ValidateAndEncodeClaimsToCBOR: err=%v, Validate()=%v, plain encoder err=%v", err, verr, plainCErr)
	}
	if err != nil && len(gotC) != 0 {
		return "ValidateAndEncodeClaimsToCBOR returned bytes together with an error"
	}
	if err == nil && !bytes.Equal(gotC, plainC) {
		return fmt.Sprintf("ValidateAndEncodeClaimsToCBOR differs from EncodeClaimsToCBOR: %x vs %x", gotC, plainC)
	}
	if valid && plainCErr != nil {
		return "valid set does not encode to CBOR: " + plainCErr.Error()
	}
	st.Class("gate=EncodeCBOR")
	plainJ, plainJErr := psatoken.EncodeClaimsToJSON(c)
	gotJ, err := psatoken.ValidateAndEncodeClaimsToJSON(c)
	if (err == nil) != (valid && plainJErr == nil) {
		return fmt.Sprintf("ValidateAndEncodeClaimsToJSON: err=%v, Validate()=%v, plain encoder err=%v", err, verr, plainJErr)
	}
	if err != nil && len(gotJ) != 0 {
		return "ValidateAndEncodeClaimsToJSON returned bytes together with an error"
	}
	if err == nil && !bytes.Equal(gotJ, plainJ) {
		return "ValidateAndEncodeClaimsToJSON differs from EncodeClaimsToJSON"
	}
	if valid && plainJErr != nil {
		return "valid set does not encode to JSON: " + plainJErr.Error()
	}
	st.Class("gate=EncodeJSON")

	// gate 4: ValidateAndSign vs Sign
	evS := &psatoken.Evidence{Claims: c}
	plainTok, plainSErr := evS.Sign(kp.Signer())
	evV := &psatoken.Evidence{Claims: c}
	tok, err := evV.ValidateAndSign(kp.Signer())
	if (err == nil) != (valid && plainSErr == nil) {
		return fmt.Sprintf("ValidateAndSign: err=%v, Validate()=%v, Sign err=%v", err, verr, plainSErr)
	}
	if err != nil && len(tok) != 0 {
		return "ValidateAndSign returned a token together with an error"
	}
	if err != nil {
		if k := keyFor(kp.Alg, kp.Idx); evV.Verify(k.Pub) == nil {
			return "Evidence verifies after a failed ValidateAndSign"
		}
	}
	if err == nil {
		a, okA := icose.Split(tok)
		b, okB := icose.Split(plainTok)
		if !okA || !okB {
			return "signed token is not a tag-18 4-array"
		}
		if !bytes.Equal(a.Payload, b.Payload) || !bytes.Equal(a.Protected, b.Protected) {
			return "ValidateAndSign and Sign produce different payload / protected header"
		}
		if !bytes.Equal(a.Payload, plainC) {
			return "signed payload differs from the claims' CBOR encoding"
		}
		if kp.Alg == icose.EdDSA && !bytes.Equal(tok, plainTok) {
			return "ValidateAndSign and Sign tokens differ under deterministic EdDSA"
		}
	}
	st.Class("gate=ValidateAndSign")

	// gate 5: decode-and-validate CBOR. Input bytes: the non-validating
	// encoder's when it can encode the set, else the model's wire form.
	wire := plainC
	if plainCErr != nil {
		wire = m.WireBytes()
	}
	d0, derr := psatoken.DecodeClaimsFromCBOR(wire)
	d1, err := psatoken.DecodeAndValidateClaimsFromCBOR(wire)
	if derr != nil {
		if err == nil {
			return "DecodeAndValidateClaimsFromCBOR accepts bytes the plain decoder rejects"
		}
	} else {
		dv := d0.Validate()
		if (err == nil) != (dv == nil) {
			return fmt.Sprintf("DecodeAndValidateClaimsFromCBOR: err=%v, Validate() of the decoded set=%v", err, dv)
		}
		if err != nil && d1 != nil {
			return "DecodeAndValidateClaimsFromCBOR returned claims together with an error"
		}
		if err == nil {
			if d := Observe(d0).Diff(Observe(d1)); d != "" {
				return "validating and non-validating CBOR decoders differ: " + d
			}
		}
		if plainCErr == nil && (dv == nil) != valid {
			return fmt.Sprintf("validity changed across encode->decode: before %v, after %v", verr, dv)
		}
	}
	st.Class("gate=DecodeCBOR")

	// gate 6: decode-and-validate JSON (+ deprecated alias)
	if plainJErr == nil {
		j0, jerr := psatoken.DecodeClaimsFromJSON(plainJ)
		j1, err := psatoken.DecodeAndValidateClaimsFromJSON(plainJ)
		j2, err2 := psatoken.DecodeJSONClaims(plainJ)
		if (err == nil) != (err2 == nil) {
			return "DecodeJSONClaims (deprecated alias) disagrees with DecodeAndValidateClaimsFromJSON"
		}
		if jerr != nil {
			if err == nil {
				return "DecodeAndValidateClaimsFromJSON accepts a document the plain decoder rejects"
			}
		} else {
			jv := j0.Validate()
			if (err == nil) != (jv == nil) {
				return fmt.Sprintf("DecodeAndValidateClaimsFromJSON: err=%v, Validate() of the decoded set=%v", err, jv)
			}
			if err != nil && (j1 != nil || j2 != nil) {
				return "DecodeAndValidateClaimsFromJSON returned claims together with an error"
			}
			if err == nil {
				if d := Observe(j0).Diff(Observe(j1)); d != "" {
					return "validating and non-validating JSON decoders differ: " + d
				}
			}
		}
		st.Class("gate=DecodeJSON")
	}

	// gate 7: DecodeAndValidateEvidenceFromCOSE
	cwt := plainTok
	if plainSErr != nil {
		var serr error
		cwt, serr = icose.SignedToken(kp.Alg, kp.Priv, m.WireBytes())
		if serr != nil {
			return "VERIF-INFRA: " + serr.Error()
		}
	}
	e0, eerr := psatoken.DecodeEvidenceFromCOSE(cwt)
	e1, err := psatoken.DecodeAndValidateEvidenceFromCOSE(cwt)
	if eerr != nil {
		if err == nil {
			return "DecodeAndValidateEvidenceFromCOSE accepts a token the plain decoder rejects"
		}
	} else {
		evv := e0.Claims.Validate()
		if (err == nil) != (evv == nil) {
			return fmt.Sprintf("DecodeAndValidateEvidenceFromCOSE: err=%v, Validate() of the decoded claims=%v", err, evv)
		}
		if err != nil && e1 != nil {
			return "DecodeAndValidateEvidenceFromCOSE returned an Evidence together with an error"
		}
		if err == nil {
			if d := Observe(e0.Claims).Diff(Observe(e1.Claims)); d != "" {
				return "validating and non-validating COSE decoders differ: " + d
			}
			if (e0.Verify(kp.Pub) == nil) != (e1.Verify(kp.Pub) == nil) {
				return "validating and non-validating COSE decoders differ in verification outcome"
			}
		}
	}
	st.Class("gate=DecodeCOSE")
	return ""
}

func TestC08_Gates(t *testing.T) {
	st := NewStats("C08", "TestC08_Gates", "rapid: valid and invalid claims-sets of both profiles (C01's class-vector generator, as struct literals) through the seven validating entry points (SetClaims, ValidateAndEncode CBOR/JSON, ValidateAndSign, DecodeAndValidate CBOR/JSON(+deprecated alias)/COSE): each fails iff Validate() fails, emits/attaches nothing on failure, and equals its non-validating sibling on success. Non-trivial = invalid set whose defect is not merely a missing lifecycle; distinct = class vector")
	st.Require = []string{"valid", "invalid", "gate=SetClaims", "gate=EncodeCBOR", "gate=EncodeJSON", "gate=ValidateAndSign", "gate=DecodeCBOR", "gate=DecodeJSON", "gate=DecodeCOSE", "invalid-encodable"}
	defer st.Flush(t)
	rapid.Check(t, func(t *rapid.T) {
		p := drawProf(t)
		m := GenAny(t, p)
		c, ok := m.BuildLiteral()
		if !ok {
			st.Class("unrepresentable")
			return
		}
		alg := rapid.SampledFrom(fastAlgs).Draw(t, "alg")
		kp := keyFor(alg, rapid.IntRange(0, 3).Draw(t, "key"))
		if msg := c08Gates(m, c, kp, st); msg != "" {
			t.Fatalf("C08 violated: %s\n [%s]", msg, m.ClassVector())
		}
		cls := []string{"valid"}
		key := ""
		if !m.Valid() {
			cls = []string{"invalid"}
			off := m.Offending()
			if !(len(off) == 1 && off[0] == CLifecycle && m.Lifecycle == nil) {
				key = m.ClassVector()
			}
			if _, err := psatoken.EncodeClaimsToCBOR(c); err == nil {
				cls = append(cls, "invalid-encodable")
			}
		}
		st.Case(key, cls...)
		if key != "" && st.WantSample() {
			st.Sample(map[string]any{"claims": m.ClassVector(), "offending": fmt.Sprint(m.Offending()), "alg": icose.AlgName(alg)})
		}
	})
}

var _ = json.Marshal
