package checks

// Independent executable model of the two built-in PSA profiles: the rules of
// property C01 written once, without calling any psatoken validator.

import (
	"encoding/base64"
	"encoding/hex"
	"fmt"
	"sort"
	"strings"
)

type Prof int

const (
	P1 Prof = 1
	P2 Prof = 2
)

const (
	P1Name = "PSA_IOT_PROFILE_1"
	P2Name = "http://arm.com/psa/2.0.0"
)

func (p Prof) Name() string {
	if p == P1 {
		return P1Name
	}
	return P2Name
}

func (p Prof) String() string {
	if p == P1 {
		return "P1"
	}
	return "P2"
}

// Claim identifiers (model side).
type Claim int

const (
	CProfile Claim = iota
	CClientID
	CLifecycle
	CImplID
	CBootSeed
	CCertRef
	CSwComps
	CNonce
	CInstID
	CVSI
	nClaims
)

var claimNames = [...]string{"profile", "client-id", "lifecycle", "impl-id", "boot-seed", "cert-ref", "sw-components", "nonce", "inst-id", "vsi"}

func (c Claim) String() string { return claimNames[c] }

// Error classes.
type ECls int

const (
	EOK      ECls = iota
	EMissOpt      // missing optional
	EMissMand
	ESyntax
	EProfile
	ENotInProfile
	EOther
)

func (e ECls) String() string {
	return [...]string{"ok", "missing-optional", "missing-mandatory", "wrong-syntax", "wrong-profile", "not-in-profile", "other"}[e]
}

type MComp struct {
	Type, Version, Desc *string
	Value, Signer       *[]byte
	NilEntry            bool // a nil element in the container (reachable through decoding only)
}

type MClaims struct {
	Prof Prof
	// Canon: canonical profile name of the claims implementation judging the
	// set when it is not the built-in one (extension profiles); "" = Prof.Name().
	Canon string
	// ZeroCanon: the object is a plain struct value whose CanonicalProfile
	// field was never set (struct-literal route only): the implementation
	// then expects the empty name.
	ZeroCanon bool
	Profile   *string
	ClientID  *int32
	Lifecycle *uint16
	ImplID    *[]byte
	BootSeed  *[]byte
	CertRef   *string
	CompsNil  bool // component container pointer is nil
	Comps     []*MComp
	NoMeas    *uint64 // P1 only
	// Nonces: nil = claim absent. P1 always has exactly one entry when
	// present; P2 may carry 0..n.
	Nonces *[][]byte
	InstID *[]byte
	VSI    *string
}

func sp(s string) *string   { return &s }
func bp(b []byte) *[]byte   { return &b }
func i32p(v int32) *int32   { return &v }
func u16p(v uint16) *uint16 { return &v }
func u64p(v uint64) *uint64 { return &v }

func clonePtr[T any](p *T) *T {
	if p == nil {
		return nil
	}
	v := *p
	return &v
}

func cloneBytesPtr(p *[]byte) *[]byte {
	if p == nil {
		return nil
	}
	v := append([]byte{}, (*p)...)
	return &v
}

func (c *MComp) Clone() *MComp {
	if c == nil {
		return nil
	}
	return &MComp{
		Type: clonePtr(c.Type), Version: clonePtr(c.Version), Desc: clonePtr(c.Desc),
		Value: cloneBytesPtr(c.Value), Signer: cloneBytesPtr(c.Signer), NilEntry: c.NilEntry,
	}
}

// CanonName is the profile name the judging implementation expects.
func (m *MClaims) CanonName() string {
	if m.ZeroCanon {
		return ""
	}
	if m.Canon != "" {
		return m.Canon
	}
	return m.Prof.Name()
}

func (m *MClaims) Clone() *MClaims {
	n := &MClaims{
		Prof: m.Prof, Canon: m.Canon, ZeroCanon: m.ZeroCanon, Profile: clonePtr(m.Profile), ClientID: clonePtr(m.ClientID),
		Lifecycle: clonePtr(m.Lifecycle), ImplID: cloneBytesPtr(m.ImplID), BootSeed: cloneBytesPtr(m.BootSeed),
		CertRef: clonePtr(m.CertRef), CompsNil: m.CompsNil, NoMeas: clonePtr(m.NoMeas),
		InstID: cloneBytesPtr(m.InstID), VSI: clonePtr(m.VSI),
	}
	for _, c := range m.Comps {
		n.Comps = append(n.Comps, c.Clone())
	}
	if m.Nonces != nil {
		var ns [][]byte
		for _, x := range *m.Nonces {
			if x == nil {
				ns = append(ns, nil) // a null entry stays one
				continue
			}
			ns = append(ns, append([]byte{}, x...))
		}
		if ns == nil {
			ns = [][]byte{}
		}
		n.Nonces = &ns
	}
	return n
}

// ---- the rules ----

func isHashLen(n int) bool { return n == 32 || n == 48 || n == 64 }

// lifecycleState: index 0..6 of the range containing v, or -1.
func lifecycleState(v uint16) int {
	if v&0xff00 == v&0xf000 && v>>12 <= 6 { // high byte is 0x00,0x10,..,0x60
		return int(v >> 12)
	}
	return -1
}

func isDigit(b byte) bool { return b >= '0' && b <= '9' }

// certRefForm: 0 = invalid, 13 = EAN-13, 18 = EAN-13+5. Hand-written scan.
func certRefForm(s string) int {
	if len(s) != 13 && len(s) != 19 {
		return 0
	}
	for i := 0; i < 13; i++ {
		if !isDigit(s[i]) {
			return 0
		}
	}
	if len(s) == 13 {
		return 13
	}
	if s[13] != '-' {
		return 0
	}
	for i := 14; i < 19; i++ {
		if !isDigit(s[i]) {
			return 0
		}
	}
	return 18
}

func certRefOK(p Prof, s string) bool {
	f := certRefForm(s)
	if p == P1 {
		return f != 0
	}
	return f == 18
}

func bootSeedOK(p Prof, n int) bool {
	if p == P1 {
		return n == 32
	}
	return n >= 8 && n <= 32
}

func instIDOK(b []byte) bool { return len(b) == 33 && b[0] == 0x01 }

// compClass: class of the first offending mandatory field (validation order:
// value then signer), EOK if the component is well-formed.
func compClass(c *MComp) ECls {
	if c == nil || c.NilEntry {
		return ESyntax
	}
	if c.Value == nil {
		return EMissMand
	}
	if !isHashLen(len(*c.Value)) {
		return ESyntax
	}
	if c.Signer == nil {
		return EMissMand
	}
	if !isHashLen(len(*c.Signer)) {
		return ESyntax
	}
	return EOK
}

// compClasses: set of classes of all offending fields.
func compClasses(c *MComp) map[ECls]bool {
	r := map[ECls]bool{}
	if c == nil || c.NilEntry {
		r[ESyntax] = true
		return r
	}
	if c.Value == nil {
		r[EMissMand] = true
	} else if !isHashLen(len(*c.Value)) {
		r[ESyntax] = true
	}
	if c.Signer == nil {
		r[EMissMand] = true
	} else if !isHashLen(len(*c.Signer)) {
		r[ESyntax] = true
	}
	return r
}

// Expect returns the set of acceptable classes for the getter of claim c
// (normally one), and whether the result is an "ambiguous cell" of C13.
func (m *MClaims) Expect(c Claim) (cls ECls, alt ECls) {
	alt = -1
	switch c {
	case CProfile:
		if m.Profile == nil {
			if m.Prof == P1 {
				return EOK, alt
			}
			return EMissMand, alt
		}
		if *m.Profile == m.CanonName() {
			return EOK, alt
		}
		return EProfile, alt
	case CClientID:
		if m.ClientID == nil {
			return EMissMand, alt
		}
		return EOK, alt
	case CLifecycle:
		if m.Lifecycle == nil {
			return EMissMand, alt
		}
		if lifecycleState(*m.Lifecycle) < 0 {
			return ESyntax, alt
		}
		return EOK, alt
	case CImplID:
		if m.ImplID == nil {
			return EMissMand, alt
		}
		if len(*m.ImplID) != 32 {
			return ESyntax, alt
		}
		return EOK, alt
	case CBootSeed:
		if m.BootSeed == nil {
			if m.Prof == P1 {
				return EMissMand, alt
			}
			return EMissOpt, alt
		}
		if !bootSeedOK(m.Prof, len(*m.BootSeed)) {
			return ESyntax, alt
		}
		return EOK, alt
	case CCertRef:
		if m.CertRef == nil {
			return EMissOpt, alt
		}
		if !certRefOK(m.Prof, *m.CertRef) {
			return ESyntax, alt
		}
		return EOK, alt
	case CSwComps:
		empty := m.CompsNil || len(m.Comps) == 0
		if m.Prof == P1 {
			if empty {
				if m.NoMeas == nil {
					// "neither": nothing says there are no measurements
					if m.CompsNil {
						return EMissMand, alt
					}
					return EMissMand, ESyntax
				}
				return EOK, alt
			}
			if m.NoMeas != nil {
				return ESyntax, alt
			}
		} else if empty {
			if m.CompsNil {
				return EMissMand, alt
			}
			return EMissMand, ESyntax
		}
		for _, sc := range m.Comps {
			if k := compClass(sc); k != EOK {
				return k, alt
			}
		}
		return EOK, alt
	case CNonce:
		if m.Nonces == nil {
			return EMissMand, alt
		}
		ns := *m.Nonces
		if len(ns) == 0 {
			return ESyntax, EMissMand
		}
		if len(ns) != 1 {
			return ESyntax, alt
		}
		if !isHashLen(len(ns[0])) {
			return ESyntax, alt
		}
		return EOK, alt
	case CInstID:
		if m.InstID == nil {
			return EMissMand, alt
		}
		if !instIDOK(*m.InstID) {
			return ESyntax, alt
		}
		return EOK, alt
	case CVSI:
		if m.VSI == nil {
			return EMissOpt, alt
		}
		if *m.VSI == "" {
			return ESyntax, alt
		}
		return EOK, alt
	}
	panic("bad claim")
}

// Offending returns the claims that make the set invalid.
func (m *MClaims) Offending() []Claim {
	var r []Claim
	for c := Claim(0); c < nClaims; c++ {
		k, _ := m.Expect(c)
		if k != EOK && k != EMissOpt {
			r = append(r, c)
		}
	}
	return r
}

func (m *MClaims) Valid() bool { return len(m.Offending()) == 0 }

// OffendingClasses: every class that some offending claim (or component field)
// may legitimately report.
func (m *MClaims) OffendingClasses() map[ECls]bool {
	r := map[ECls]bool{}
	for _, c := range m.Offending() {
		k, alt := m.Expect(c)
		r[k] = true
		if alt >= 0 {
			r[alt] = true
		}
		if c == CSwComps {
			for _, sc := range m.Comps {
				for k := range compClasses(sc) {
					r[k] = true
				}
			}
		}
	}
	return r
}

// ---- rendering (expected getter observations) ----

func hexs(b []byte) string { return hex.EncodeToString(b) }

func renderComp(c *MComp) string {
	if c == nil || c.NilEntry {
		return "{nil}"
	}
	opt := func(p *string) string {
		if p == nil {
			return "-"
		}
		return fmt.Sprintf("%q", *p)
	}
	byt := func(p *[]byte) string {
		if p == nil {
			return "!" + EMissMand.String()
		}
		if !isHashLen(len(*p)) {
			return "!" + ESyntax.String()
		}
		return hexs(*p)
	}
	return fmt.Sprintf("{t:%s v:%s ver:%s s:%s d:%s}", opt(c.Type), byt(c.Value), opt(c.Version), byt(c.Signer), opt(c.Desc))
}

// ExpectValue renders the value the getter must return when Expect is EOK.
func (m *MClaims) ExpectValue(c Claim) string {
	switch c {
	case CProfile:
		return fmt.Sprintf("%q", m.CanonName())
	case CClientID:
		return fmt.Sprint(*m.ClientID)
	case CLifecycle:
		return fmt.Sprint(*m.Lifecycle)
	case CImplID:
		return hexs(*m.ImplID)
	case CBootSeed:
		return hexs(*m.BootSeed)
	case CCertRef:
		return fmt.Sprintf("%q", *m.CertRef)
	case CSwComps:
		if m.CompsNil || len(m.Comps) == 0 {
			return "[]"
		}
		var parts []string
		for _, sc := range m.Comps {
			parts = append(parts, renderComp(sc))
		}
		return "[" + strings.Join(parts, " ") + "]"
	case CNonce:
		return hexs((*m.Nonces)[0])
	case CInstID:
		return hexs(*m.InstID)
	case CVSI:
		return fmt.Sprintf("%q", *m.VSI)
	}
	panic("bad claim")
}

// ClassVector is a compact description of which class every claim is in; it
// is the distinctness key of most checks.
func (m *MClaims) ClassVector() string {
	var sb strings.Builder
	sb.WriteString(m.Prof.String())
	if m.ZeroCanon {
		sb.WriteString(" zero-canonical-profile")
	}
	lenOf := func(p *[]byte) string {
		if p == nil {
			return "-"
		}
		return fmt.Sprint(len(*p))
	}
	fmt.Fprintf(&sb, " prof=%s", func() string {
		if m.Profile == nil {
			return "-"
		}
		switch *m.Profile {
		case P1Name:
			return "p1"
		case P2Name:
			return "p2"
		case "":
			return "empty"
		}
		return "other"
	}())
	fmt.Fprintf(&sb, " cid=%s", func() string {
		if m.ClientID == nil {
			return "-"
		}
		switch {
		case *m.ClientID == 0:
			return "0"
		case *m.ClientID < 0:
			return "neg"
		}
		return "pos"
	}())
	fmt.Fprintf(&sb, " lc=%s", func() string {
		if m.Lifecycle == nil {
			return "-"
		}
		if s := lifecycleState(*m.Lifecycle); s >= 0 {
			return fmt.Sprintf("s%d", s)
		}
		return fmt.Sprintf("bad%02x", *m.Lifecycle>>8)
	}())
	fmt.Fprintf(&sb, " impl=%s boot=%s", lenOf(m.ImplID), lenOf(m.BootSeed))
	fmt.Fprintf(&sb, " cert=%s", func() string {
		if m.CertRef == nil {
			return "-"
		}
		switch certRefForm(*m.CertRef) {
		case 13:
			return "ean13"
		case 18:
			return "ean13+5"
		}
		return fmt.Sprintf("bad%d", len(*m.CertRef))
	}())
	sb.WriteString(" sw=")
	if m.CompsNil {
		sb.WriteString("nil")
	} else {
		sb.WriteString("[")
		for i, c := range m.Comps {
			if i > 0 {
				sb.WriteString(",")
			}
			if c == nil || c.NilEntry {
				sb.WriteString("nil")
				continue
			}
			o := func(p *string) string {
				if p == nil {
					return "-"
				}
				if *p == "" {
					return "e"
				}
				return "t"
			}
			fmt.Fprintf(&sb, "%s%s%s/%s/%s", o(c.Type), o(c.Version), o(c.Desc), lenOf(c.Value), lenOf(c.Signer))
		}
		sb.WriteString("]")
	}
	if m.NoMeas != nil {
		fmt.Fprintf(&sb, " nomeas=%d", *m.NoMeas)
	}
	sb.WriteString(" nonce=")
	if m.Nonces == nil {
		sb.WriteString("-")
	} else {
		var ls []string
		for _, n := range *m.Nonces {
			if n == nil {
				ls = append(ls, "null")
				continue
			}
			ls = append(ls, fmt.Sprint(len(n)))
		}
		sb.WriteString("(" + strings.Join(ls, ",") + ")")
	}
	fmt.Fprintf(&sb, " inst=%s", func() string {
		if m.InstID == nil {
			return "-"
		}
		if len(*m.InstID) == 0 {
			return "0"
		}
		return fmt.Sprintf("%d/t%d", len(*m.InstID), (*m.InstID)[0])
	}())
	fmt.Fprintf(&sb, " vsi=%s", func() string {
		if m.VSI == nil {
			return "-"
		}
		if *m.VSI == "" {
			return "empty"
		}
		return "t"
	}())
	return sb.String()
}

// IsCanned reports whether the set is in the shape the repository's tests
// already pin (all byte strings 32 bytes, one nonce, ≤ 2 components, every
// claim valid): the "trivial" cases for most checks.
func (m *MClaims) IsCanned() bool {
	if !m.Valid() {
		return false
	}
	if m.ImplID != nil && len(*m.ImplID) != 32 {
		return false
	}
	if m.BootSeed != nil && len(*m.BootSeed) != 32 {
		return false
	}
	if m.Nonces != nil && (len(*m.Nonces) != 1 || len((*m.Nonces)[0]) != 32) {
		return false
	}
	if len(m.Comps) > 2 {
		return false
	}
	for _, c := range m.Comps {
		if c.Version != nil || c.Desc != nil {
			return false
		}
		if len(*c.Value) != 32 || len(*c.Signer) != 32 {
			return false
		}
	}
	if m.ClientID != nil && *m.ClientID <= 0 {
		return false
	}
	return true
}

// ---- JSON rendering of the model (expected document) ----

func b64(b []byte) string { return base64.StdEncoding.EncodeToString(b) }

// ExpectJSON returns the expected generic JSON object (as produced by
// encoding/json into map[string]any) of a VALID claims-set.
func (m *MClaims) ExpectJSON() map[string]any {
	o := map[string]any{}
	if m.Prof == P1 {
		if m.Profile != nil {
			o["psa-profile"] = *m.Profile
		}
		o["psa-client-id"] = float64(*m.ClientID)
		o["psa-security-lifecycle"] = float64(*m.Lifecycle)
		o["psa-implementation-id"] = b64(*m.ImplID)
		o["psa-boot-seed"] = b64(*m.BootSeed)
		if m.CertRef != nil {
			o["psa-hwver"] = *m.CertRef
		}
		if len(m.Comps) > 0 {
			o["psa-software-components"] = compsJSON(m.Comps)
		}
		if m.NoMeas != nil {
			o["psa-no-software-measurements"] = float64(*m.NoMeas)
		}
		o["psa-nonce"] = b64((*m.Nonces)[0])
		o["psa-instance-id"] = b64(*m.InstID)
		if m.VSI != nil {
			o["psa-verification-service-indicator"] = *m.VSI
		}
		return o
	}
	o["eat-profile"] = *m.Profile
	o["psa-client-id"] = float64(*m.ClientID)
	o["psa-security-lifecycle"] = float64(*m.Lifecycle)
	o["psa-implementation-id"] = b64(*m.ImplID)
	if m.BootSeed != nil {
		o["psa-boot-seed"] = b64(*m.BootSeed)
	}
	if m.CertRef != nil {
		o["psa-certification-reference"] = *m.CertRef
	}
	o["psa-software-components"] = compsJSON(m.Comps)
	o["psa-nonce"] = b64((*m.Nonces)[0])
	o["psa-instance-id"] = b64(*m.InstID)
	if m.VSI != nil {
		o["psa-verification-service-indicator"] = *m.VSI
	}
	return o
}

func compsJSON(cs []*MComp) []any {
	r := []any{}
	for _, c := range cs {
		o := map[string]any{}
		if c.Type != nil {
			o["measurement-type"] = *c.Type
		}
		o["measurement-value"] = b64(*c.Value)
		if c.Version != nil {
			o["version"] = *c.Version
		}
		o["signer-id"] = b64(*c.Signer)
		if c.Desc != nil {
			o["measurement-description"] = *c.Desc
		}
		r = append(r, o)
	}
	return r
}

func sortedKeys[V any](m map[string]V) []string {
	ks := make([]string, 0, len(m))
	for k := range m {
		ks = append(ks, k)
	}
	sort.Strings(ks)
	return ks
}
