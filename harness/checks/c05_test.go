package checks

// C05 — no input bytes can make a decode entry point (or what it returns)
// panic.

import (
	"bytes"
	"encoding/asn1"
	"encoding/json"
	"fmt"
	"math/big"
	"os"
	"os/exec"
	"time"
	"path/filepath"
	"runtime/debug"
	"strings"
	"sync"
	"testing"

	"github.com/veraison/psatoken/encoding"

	"github.com/veraison/psatoken"
	"pgregory.net/rapid"

	"verifharness/icbor"
	"verifharness/icose"
)

type c05In struct {
	Entry string `json:"entry_point"`
	Data  hx     `json:"input_hex"`
	Text  string `json:"input_text,omitempty"` // informational, for JSON inputs
}

var c05Kind = registerKind("c05", func(in c05In) string {
	if fam, isCanary := strings.CutPrefix(in.Entry, "(canary after) "); isCanary {
		for _, e := range entriesOf(fam) {
			if _, _, pm := runEntryNoPanic(e, in.Data, true); pm != "" {
				return pm
			}
		}
		return c05Canary()
	}
	e, ok := entryByName(in.Entry)
	if !ok {
		return "VERIF-INFRA: unknown entry point " + in.Entry
	}
	_, _, pm := runEntryNoPanic(e, in.Data, true)
	return pm
})

// wellFormedFor reports whether data gets past the first decoding layer of
// the family (well-formed CBOR item / valid JSON text).
func wellFormedFor(family string, data []byte) bool {
	switch family {
	case "json", "enc-json":
		return json.Valid(data)
	default:
		_, _, err := icbor.Read(data)
		return err == nil
	}
}

// c05Run feeds one input to every entry point of the given families.
// c05Canary: after the calls made for one input (many of which fail), a fixed
// battery of ordinary operations on unrelated, known-good values must still
// work: state left behind by a failed call must not make a later call panic.
var c05CanaryVals struct {
	once   sync.Once
	flat   *ShapeFlat
	outer  *ShapeOuter2
	ext    psatoken.IClaims
	p1json []byte
	p2cbor []byte
	flatJS []byte
	flatCB []byte
}

var c05CanaryTick int

func c05Canary() (panicMsg string) {
	v := &c05CanaryVals
	v.once.Do(func() {
		i7, s := int64(7), "s"
		bs := []byte{1, 2}
		v.flat = &ShapeFlat{A: &i7, B: &s, C: &bs, D: 3, E: "e", F: 9, G: &bs}
		v.outer = &ShapeOuter2{R: 1, ShapeMid: ShapeMid{ShapeInner: ShapeInner{X: &i7, Y: "y"}, Z: &i7}, S: &s}
		m := baseValid(P2, 1)
		v.ext, _ = buildExt(m, &i7)
		if c, ok := baseValid(P1, 1).BuildLiteral(); ok {
			v.p1json, _ = psatoken.EncodeClaimsToJSON(c)
		}
		v.p2cbor = baseValid(P2, 1).WireBytes()
		v.flatJS, _ = json.Marshal(v.flat)
		v.flatCB, _ = hem.Marshal(v.flat)
	})
	defer func() {
		if r := recover(); r != nil {
			panicMsg = fmt.Sprintf("panic in an ordinary operation on an unrelated known-good value AFTER the previous (failed or successful) decoding calls: %v\n    %s", r, firstLines(string(debug.Stack()), 14))
		}
	}()
	_, _ = encoding.SerializeStructToJSON(v.flat)
	_, _ = encoding.SerializeStructToCBOR(hem, v.outer)
	_, _ = psatoken.EncodeClaimsToJSON(v.ext)
	_, _ = psatoken.EncodeClaimsToCBOR(v.ext)
	_ = encoding.PopulateStructFromJSON(v.flatJS, &ShapeFlat{})
	_ = encoding.PopulateStructFromCBOR(hdm, v.flatCB, &ShapeFlat{})
	_, _ = psatoken.DecodeClaimsFromJSON(v.p1json)
	_, _ = psatoken.DecodeClaimsFromCBOR(v.p2cbor)
	return ""
}

type c05Fail struct {
	In  c05In
	Msg string
}

// report saves a replay file and fails an enumeration test.
func (f *c05Fail) report(t testing.TB) {
	if f != nil {
		reportCase(t, "C05", "c05", f.In, f.Msg)
	}
}

func c05Run(st *Stats, families []string, data []byte, class string) (fail *c05Fail) {
	for _, fam := range families {
		wf := wellFormedFor(fam, data)
		anyOK := false
		nCalls := 0
		for _, e := range entriesOf(fam) {
			_, err, pm := runEntryNoPanic(e, data, true)
			if err == nil {
				anyOK = true
			}
			if pm != "" {
				in := c05In{Entry: e.Name, Data: data}
				if strings.Contains(fam, "json") {
					in.Text = truncate(string(data), 300)
				}
				if fail == nil {
					fail = &c05Fail{in, pm}
				}
			}
			nCalls++
		}
		c05CanaryTick++
		if class == "tiny" && c05CanaryTick%16 != 0 {
			// the enumeration of very short inputs runs the canary on a sample
		} else if pm := c05Canary(); pm != "" && fail == nil {
			in := c05In{Entry: "(canary after) " + fam, Data: data}
			fail = &c05Fail{in, pm}
		}
		key := ""
		if wf || anyOK {
			key = fam + "|" + string(data)
		}
		cls := []string{class, "family=" + fam}
		if anyOK {
			cls = append(cls, "decoded-ok")
		} else if wf {
			cls = append(cls, "wellformed-rejected")
		} else {
			cls = append(cls, "malformed")
		}
		st.Case(key, cls...) // counts one evaluation; the rest of the entry-point calls are added below
		st.mu.Lock()
		st.Evals += int64(nCalls - 1)
		st.mu.Unlock()
		if key != "" && class != "tiny" && st.WantSample() {
			s := map[string]string{"class": class, "family": fam}
			if strings.Contains(fam, "json") {
				s["input"] = truncate(string(data), 200)
			} else {
				s["input_hex"] = truncate(hexs(data), 200)
			}
			st.Sample(s)
		}
	}
	return fail
}

var cborFamilies = []string{"cbor", "enc-cbor"}
var jsonFamilies = []string{"json", "enc-json"}
var coseFamilies = []string{"cose"}

// ---- base documents ----

type c05Base struct {
	name string
	node *icbor.Node
}

func c05CBORBases() []c05Base {
	nm := baseValid(P1, 1)
	nm.Comps = nil
	nm.NoMeas = u64p(1)
	r := []c05Base{
		{"p1-v0", baseValid(P1, 0).WireNode()}, {"p1-v1", baseValid(P1, 1).WireNode()}, {"p1-implicit", baseValid(P1, 2).WireNode()},
		{"p2-v0", baseValid(P2, 0).WireNode()}, {"p2-v1", baseValid(P2, 1).WireNode()}, {"p1-nomeas", nm.WireNode()},
		{"components", compsNode(baseValid(P2, 1).Comps)}, {"component", compNode(baseValid(P2, 1).Comps[1])},
	}
	// the shapes of the encoding helpers
	i7, s := int64(7), "s"
	bs := []byte{1, 2}
	for _, sh := range []any{&ShapeFlat{A: &i7, B: &s, C: &bs, D: 3, E: "e", F: 9, G: &bs}, &ShapeOuter2{R: 1, ShapeMid: ShapeMid{ShapeInner: ShapeInner{X: &i7, Y: "y"}, Z: &i7}, S: &s}} {
		b, err := hem.Marshal(sh)
		if err == nil {
			if n, _, err := icbor.Read(b); err == nil {
				r = append(r, c05Base{fmt.Sprintf("%T", sh), n})
			}
		}
	}
	return r
}

func c05Envelope(payload []byte) *icbor.Node {
	kp := keyFor(icose.EdDSA, 0)
	prot := icose.ProtectedAlg(kp.Alg)
	sig, err := icose.Sign(kp.Alg, kp.Priv, prot, payload)
	if err != nil {
		panic("VERIF-INFRA: " + err.Error())
	}
	return icose.Envelope(prot, icbor.Map(), payload, sig)
}

func c05JSONBases() []struct {
	name string
	doc  []byte
} {
	var r []struct {
		name string
		doc  []byte
	}
	add := func(name string, m *MClaims) {
		c, ok := m.BuildLiteral()
		if !ok {
			return
		}
		if b, err := psatoken.EncodeClaimsToJSON(c); err == nil {
			r = append(r, struct {
				name string
				doc  []byte
			}{name, b})
		}
	}
	add("p1-v1", baseValid(P1, 1))
	add("p1-implicit", baseValid(P1, 2))
	add("p2-v1", baseValid(P2, 1))
	nm := baseValid(P1, 0)
	nm.Comps = nil
	nm.NoMeas = u64p(1)
	add("p1-nomeas", nm)
	if c, ok := baseValid(P2, 1).BuildLiteral(); ok {
		if scs, err := c.GetSoftwareComponents(); err == nil {
			if b, err := json.Marshal(scs); err == nil {
				r = append(r, struct {
					name string
					doc  []byte
				}{"components", b})
			}
			if b, err := json.Marshal(scs[1]); err == nil {
				r = append(r, struct {
					name string
					doc  []byte
				}{"component", b})
			}
		}
	}
	i7, s := int64(7), "s"
	bs := []byte{1, 2}
	if b, err := json.Marshal(&ShapeFlat{A: &i7, B: &s, C: &bs, D: 3, E: "e", F: 9, G: &bs}); err == nil {
		r = append(r, struct {
			name string
			doc  []byte
		}{"ShapeFlat", b})
	}
	return r
}

// ---- TestC05_Structured: every node x every mutation, exhaustively ----

func TestC05_Structured(t *testing.T) {
	st := NewStats("C05", "TestC05_Structured", "enumeration: for each base document (CBOR: 6 claims maps of both profiles, a components array, a component map, 2 helper shapes; JSON: the library's own JSON of 4 claims-sets, components, component, a helper shape) every node (keys and values at every depth) x {null, undefined, empty, duplicate, delete, nest in array/map, tag, indefinite, 8-byte head, bstr-wrap, double, swap with sibling, tag18} and x a pool of ~38 replacement items of every CBOR type (JSON: 9 structural mutations x pool of 31 values incl. 300-deep nesting, 1e400, non-base64); each mutant goes to every CBOR (resp. JSON) entry point incl. the per-type unmarshal methods, both extension types and the populate helpers with flat / embedded / interface-embedded destinations, and (wrapped as payload of a correctly signed tag-18 envelope) to the four COSE entry points; the envelope itself is mutated the same way; the root as an indefinite-length container with the break missing, cut after each entry, ending in an item whose last byte is 0xff; both profile claims (CBOR -75000 and 265, JSON psa-profile and eat-profile) are set to every PAIR of pool items; after the calls made for each input a canary battery of ordinary operations on unrelated known-good values must still not panic (state left behind by failed calls). Oracle: recover() - no panic while decoding nor while validating / reading every getter / re-encoding to CBOR and JSON / verifying with 10 keys whatever was returned without error. Non-trivial = the input got past the first decoding layer (well-formed CBOR / valid JSON) or was decoded; distinct = family + input")
	st.Exhaustive = true
	st.Require = []string{"decoded-ok", "wellformed-rejected", "family=cbor", "family=json", "family=cose", "family=enc-cbor", "family=enc-json", "mut=null", "mut=duplicate", "mut=swap", "mut=text-length", "mut=cose-header", "mut=text-pool", "mut=signature-shape", "mut=member-pair", "mut=escaped-member-name", "mut=unterminated-indefinite"}
	defer st.Flush(t)
	shard, shards := shardInfo()
	idx := 0
	mine := func() bool { idx++; return idx%shards == shard }
	pool := cborSwapPool()
	for _, base := range c05CBORBases() {
		isClaims := strings.HasPrefix(base.name, "p1") || strings.HasPrefix(base.name, "p2")
		emit := func(n *icbor.Node, cls string) {
			if !mine() {
				return
			}
			data := icbor.Encode(n)
			c05Run(st, cborFamilies, data, cls).report(t)
			if isClaims {
				c05Run(st, coseFamilies, icbor.Encode(c05Envelope(data)), cls).report(t)
			}
		}
		emit(base.node, "base")
		nslots := len(cborSlots(base.node))
		for si := 0; si < nslots; si++ {
			for k := 0; k < nStructMut; k++ {
				c := base.node.Clone()
				if applyStructMut(cborSlots(c)[si], k) {
					emit(c, "mut="+structMutNames[k])
				}
			}
			for _, repl := range pool {
				c := base.node.Clone()
				cborSlots(c)[si].set(repl.Clone())
				emit(c, "mut=swap")
			}
		}
		// root-level replacements
		for _, repl := range pool {
			emit(repl.Clone(), "mut=root-swap")
		}
		// the root as an indefinite-length container whose break is MISSING,
		// cut after each entry, the last value being an item whose final byte
		// is 0xff (so that the input still ends in the break code's value)
		if base.node.Kind == icbor.KMap || base.node.Kind == icbor.KArray {
			endFF := []*icbor.Node{icbor.U(255), icbor.I(-256), icbor.U(65535), icbor.Bstr([]byte{0xff}), icbor.Bstr([]byte{1, 2, 0xff}), icbor.Arr(icbor.U(255)), icbor.Arr().WithIndef(), icbor.Map(icbor.P(icbor.U(1), icbor.U(255)))}
			n := len(base.node.Pairs)
			if base.node.Kind == icbor.KArray {
				n = len(base.node.Items)
			}
			for j := 1; j <= n; j++ {
				for _, last := range endFF {
					c := base.node.Clone()
					if c.Kind == icbor.KMap {
						c.Pairs = c.Pairs[:j]
						c.Pairs[j-1][1] = last.Clone()
					} else {
						c.Items = c.Items[:j]
						c.Items[j-1] = last.Clone()
					}
					enc := icbor.Encode(c.WithIndef())
					if len(enc) < 2 || enc[len(enc)-1] != 0xff || enc[len(enc)-2] != 0xff {
						continue
					}
					enc = enc[:len(enc)-1] // drop the break
					if !mine() {
						continue
					}
					c05Run(st, cborFamilies, enc, "mut=unterminated-indefinite").report(t)
					if isClaims {
						c05Run(st, coseFamilies, icbor.Encode(c05Envelope(enc)), "mut=unterminated-indefinite").report(t)
					}
				}
			}
		}
	}
	// envelope-level mutation
	env := c05Envelope(baseValid(P2, 1).WireBytes())
	nslots := len(cborSlots(env))
	for si := 0; si < nslots; si++ {
		for k := 0; k < nStructMut; k++ {
			c := env.Clone()
			if applyStructMut(cborSlots(c)[si], k) && mine() {
				c05Run(st, coseFamilies, icbor.Encode(c), "mut="+structMutNames[k]).report(t)
			}
		}
		for _, repl := range pool {
			c := env.Clone()
			cborSlots(c)[si].set(repl.Clone())
			if mine() {
				c05Run(st, coseFamilies, icbor.Encode(c), "mut=swap").report(t)
			}
		}
	}
	// every text item of the claims maps (CBOR) and every string of the JSON
	// documents replaced by n copies of a 1-, 2-, 3- or 4-byte character or
	// of an invalid byte, n over small values and the neighbourhoods of 64,
	// 128, 256, 1024 (byte counts and character counts differ)
	textLens := []int{0, 1, 2, 3, 7, 8, 15, 16, 17, 23, 24, 25, 31, 32, 33, 42, 43, 63, 64, 65, 70, 85, 86, 100, 120, 121, 127, 128, 129, 130, 170, 171, 255, 256, 257, 341, 342, 511, 512, 513, 1023, 1024, 1025}
	units := []string{"a", "é", "€", "😀", "\xff", "e\u0301"}
	for _, base := range c05CBORBases() {
		if !(strings.HasPrefix(base.name, "p1") || strings.HasPrefix(base.name, "p2")) || base.name == "p1-v0" || base.name == "p2-v0" {
			continue
		}
		for si, sl := range cborSlots(base.node) {
			if sl.get().Kind != icbor.KText || sl.side == 0 {
				continue
			}
			for _, u := range units {
				for _, n := range textLens {
					if !mine() {
						continue
					}
					c := base.node.Clone()
					cborSlots(c)[si].set(icbor.Tstr(strings.Repeat(u, n)))
					data := icbor.Encode(c)
					c05Run(st, cborFamilies, data, "mut=text-length").report(t)
					c05Run(st, coseFamilies, icbor.Encode(c05Envelope(data)), "mut=text-length").report(t)
				}
			}
			// ... and by every text of the generators' pool (hash algorithm
			// names, member names, format verbs, ...)
			for _, txt := range append(append([]string{}, interestingTexts...), nonUTF8Texts...) {
				if !mine() {
					continue
				}
				c := base.node.Clone()
				cborSlots(c)[si].set(icbor.Tstr(txt))
				data := icbor.Encode(c)
				c05Run(st, cborFamilies, data, "mut=text-pool").report(t)
				c05Run(st, coseFamilies, icbor.Encode(c05Envelope(data)), "mut=text-pool").report(t)
			}
		}
	}
	for _, base := range c05JSONBases() {
		root, err := parseJN(base.doc)
		if err != nil || !(strings.HasPrefix(base.name, "p1") || strings.HasPrefix(base.name, "p2")) {
			continue
		}
		for si, sl := range jsonSlots(root) {
			if sl.get().kind != 's' {
				continue
			}
			for _, u := range units {
				for _, n := range textLens {
					if !mine() {
						continue
					}
					c := root.clone()
					q, _ := json.Marshal(strings.Repeat(u, n))
					if u == "\xff" { // keep the invalid bytes: write the string raw
						q = []byte("\"" + strings.Repeat(u, n) + "\"")
					}
					jsonSlots(c)[si].set(jRaw(string(q)))
					c05Run(st, jsonFamilies, []byte(c.String()), "mut=text-length").report(t)
				}
			}
			for _, txt := range interestingTexts {
				if !mine() {
					continue
				}
				c := root.clone()
				jsonSlots(c)[si].set(jStr(txt))
				c05Run(st, jsonFamilies, []byte(c.String()), "mut=text-pool").report(t)
			}
		}
	}
	// COSE header parameters: every label 0..40 and a few others, in the
	// protected or the unprotected bucket, with a value of every type
	// (arrays of mixed items included), next to the algorithm
	{
		kp := keyFor(icose.EdDSA, 0)
		payload := baseValid(P2, 1).WireBytes()
		labels := []*icbor.Node{}
		for l := 0; l <= 40; l++ {
			labels = append(labels, icbor.U(uint64(l)))
		}
		for _, l := range []int64{-1, -2, -65537, 256, 257, 258, 259, 260, 65535, 1 << 40} {
			labels = append(labels, icbor.I(l))
		}
		labels = append(labels, icbor.Tstr("x5chain"), icbor.Tstr(""), icbor.Tstr("alg"))
		vals := append(cborSwapPool(),
			icbor.Arr(icbor.Bstr([]byte{0x30, 0x00}), icbor.U(1)), icbor.Arr(icbor.Bstr([]byte{0x30, 0x00}), icbor.Null()),
			icbor.Arr(icbor.Bstr([]byte{0x30, 0x00}), icbor.Tstr("x")), icbor.Arr(icbor.Arr(icbor.Bstr(nil))), icbor.Arr(icbor.I(-7), icbor.Bstr(make([]byte, 32))),
			icbor.Arr(icbor.U(1), icbor.U(2)), icbor.Arr(icbor.Tstr("a"), icbor.U(2)), icbor.Arr(icbor.I(-8)), icbor.Tstr("application/json"), icbor.U(60), icbor.U(50),
			icbor.Map(icbor.P(icbor.U(1), icbor.Tstr("iss")), icbor.P(icbor.U(2), icbor.U(2))))
		for _, lab := range labels {
			for _, v := range vals {
				for bucket := 0; bucket < 2; bucket++ {
					if !mine() {
						continue
					}
					protMap, unprot := icbor.Map(icbor.P(icbor.U(1), icbor.I(kp.Alg))), icbor.Map()
					if bucket == 0 {
						if l, ok := lab.Int(); ok && l == 1 {
							protMap = icbor.Map()
						}
						protMap.Pairs = append(protMap.Pairs, icbor.P(lab.Clone(), v.Clone()))
					} else {
						unprot.Pairs = append(unprot.Pairs, icbor.P(lab.Clone(), v.Clone()))
					}
					prot := icbor.Encode(protMap)
					sig, err := icose.Sign(kp.Alg, kp.Priv, prot, payload)
					if err != nil {
						t.Fatalf("VERIF-INFRA: %v", err)
					}
					c05Run(st, coseFamilies, icbor.Encode(icose.Envelope(prot, unprot, payload, sig)), "mut=cose-header").report(t)
				}
			}
		}
	}
	// signature SHAPES under every algorithm: ASN.1 DER (r, s) with integers
	// of many sizes (smaller / larger than any curve order, zero, negative),
	// raw strings of every length 0..140 step 1 around the standard sizes
	{
		payload := baseValid(P2, 1).WireBytes()
		type rs struct{ R, S *big.Int }
		var sigs [][]byte
		for _, nr := range []int{0, 1, 20, 31, 32, 33, 48, 49, 65, 66, 67, 128, 512} {
			for _, ns := range []int{1, 32, 48, 66, 67, 300} {
				r := new(big.Int).SetBytes(bytes.Repeat([]byte{0xa5}, nr))
				sv := new(big.Int).SetBytes(bytes.Repeat([]byte{0x5a}, ns))
				if der, err := asn1.Marshal(rs{r, sv}); err == nil {
					sigs = append(sigs, der)
				}
				if der, err := asn1.Marshal(rs{new(big.Int).Neg(r), sv}); err == nil && nr%16 == 0 {
					sigs = append(sigs, der, append(append([]byte{}, der...), 0x00))
				}
			}
		}
		sigs = append(sigs, []byte{0x30, 0x00}, []byte{0x30, 0x03, 0x02, 0x01, 0x00}, []byte{0x30, 0x06, 0x02, 0x01, 0x00, 0x02, 0x01, 0x00}, []byte{0x30, 0x84, 0xff, 0xff, 0xff, 0xff}, []byte{0x30, 0x80, 0x00, 0x00})
		for n := 0; n <= 140; n++ {
			if n < 8 || (n >= 28 && n <= 36) || (n >= 60 && n <= 68) || (n >= 94 && n <= 98) || (n >= 130 && n <= 134) || n%16 == 0 {
				sigs = append(sigs, bytes.Repeat([]byte{0x7f}, n))
			}
		}
		for _, alg := range []int64{icose.ES256, icose.ES384, icose.ES512, icose.EdDSA, icose.PS256, -47, -257, 0, 5} {
			prot := icose.ProtectedAlg(alg)
			for _, sg := range sigs {
				if !mine() {
					continue
				}
				c05Run(st, coseFamilies, icbor.Encode(icose.Envelope(prot, icbor.Map(), payload, sg)), "mut=signature-shape").report(t)
			}
		}
	}
	// pairs of TOP-LEVEL entries changed at once: one becomes null, the other
	// takes a value of a wrong type (a decode that fails in one member after
	// another member was reset)
	for _, base := range c05CBORBases() {
		if !(strings.HasPrefix(base.name, "p1") || strings.HasPrefix(base.name, "p2")) {
			continue
		}
		n := len(base.node.Pairs)
		for i := 0; i < n; i++ {
			for j := 0; j < n; j++ {
				if i == j {
					continue
				}
				for _, a := range []*icbor.Node{icbor.Null(), icbor.Undef(), icbor.Arr(), icbor.Map()} {
					for _, b := range []*icbor.Node{icbor.Tstr("x"), icbor.U(1 << 40), icbor.Bstr([]byte{1}), icbor.Arr(icbor.Null())} {
						if !mine() {
							continue
						}
						c := base.node.Clone()
						c.Pairs[i][1], c.Pairs[j][1] = a.Clone(), b.Clone()
						c05Run(st, cborFamilies, icbor.Encode(c), "mut=member-pair").report(t)
					}
				}
			}
		}
	}
	for _, base := range c05JSONBases() {
		root, err := parseJN(base.doc)
		if err != nil || root.kind != 'o' || !(strings.HasPrefix(base.name, "p1") || strings.HasPrefix(base.name, "p2")) {
			continue
		}
		n := len(root.keys)
		for i := 0; i < n; i++ {
			for j := 0; j < n; j++ {
				if i == j {
					continue
				}
				for _, a := range []*jn{jNull(), jArr(), jRaw("{}")} {
					for _, b := range []*jn{jStr("x"), jNum("1099511627776"), jRaw("true"), jArr(jNull())} {
						if !mine() {
							continue
						}
						c := root.clone()
						c.vals[i], c.vals[j] = a.clone(), b.clone()
						c05Run(st, jsonFamilies, []byte(c.String()), "mut=member-pair").report(t)
					}
				}
			}
		}
	}
	// JSON member NAMES written with escape sequences (every character, or a
	// single one), with the original value and with values of other types
	for _, base := range c05JSONBases() {
		root, err := parseJN(base.doc)
		if err != nil || root.kind != 'o' {
			continue
		}
		for i, key := range root.keys {
			if key == "" {
				continue
			}
			allEsc, oneEsc := "", ""
			for ci, r := range key {
				allEsc += fmt.Sprintf("\\u%04x", r)
				if ci == len(key)/2 {
					oneEsc += fmt.Sprintf("\\u%04X", r)
				} else {
					oneEsc += string(r)
				}
			}
			for _, spelling := range []string{allEsc, oneEsc} {
				for _, v := range append([]*jn{root.vals[i]}, jsonSwapPool()...) {
					if !mine() {
						continue
					}
					c := root.clone()
					c.keys[i] = "\x00VERIF-KEY\x00"
					c.vals[i] = v.clone()
					doc := strings.Replace(c.String(), `"\u0000VERIF-KEY\u0000"`, `"`+spelling+`"`, 1)
					c05Run(st, jsonFamilies, []byte(doc), "mut=escaped-member-name").report(t)
				}
			}
		}
	}
	// both profile claims at once (CBOR keys -75000 and 265; JSON members
	// psa-profile and eat-profile), every pair of replacement items
	for _, p := range []Prof{P1, P2} {
		body := bodyPairs(baseValid(p, 0))
		for _, a := range pool {
			for _, b := range pool {
				if !mine() {
					continue
				}
				ps := append([][2]*icbor.Node{icbor.P(icbor.I(-75000), a.Clone()), icbor.P(icbor.U(265), b.Clone())}, body...)
				data := icbor.Encode(icbor.Map(ps...))
				c05Run(st, cborFamilies, data, "mut=profile-pair").report(t)
			}
		}
	}
	jpoolP := jsonSwapPool()
	for _, p := range []Prof{P1, P2} {
		for _, a := range jpoolP {
			for _, b := range jpoolP {
				if !mine() {
					continue
				}
				o := modelJN(baseValid(p, 0))
				o.keys = append(o.keys, "psa-profile", "eat-profile")
				o.vals = append(o.vals, a.clone(), b.clone())
				c05Run(st, jsonFamilies, []byte(o.String()), "mut=profile-pair").report(t)
			}
		}
	}
	// JSON
	jpool := jsonSwapPool()
	for _, base := range c05JSONBases() {
		root, err := parseJN(base.doc)
		if err != nil {
			t.Fatalf("VERIF-INFRA: cannot parse base JSON %s: %v", base.name, err)
		}
		if mine() {
			c05Run(st, jsonFamilies, []byte(root.String()), "base").report(t)
		}
		nslots := len(jsonSlots(root))
		for si := 0; si < nslots; si++ {
			for k := 0; k < nJStructMut; k++ {
				c := root.clone()
				if applyJStructMut(jsonSlots(c)[si], k) && mine() {
					c05Run(st, jsonFamilies, []byte(c.String()), "mut="+jStructMutNames[k]).report(t)
				}
			}
			for _, repl := range jpool {
				c := root.clone()
				jsonSlots(c)[si].set(repl.clone())
				if mine() {
					c05Run(st, jsonFamilies, []byte(c.String()), "mut=swap").report(t)
				}
			}
		}
		for _, repl := range jpool {
			if mine() {
				c05Run(st, jsonFamilies, []byte(repl.String()), "mut=root-swap").report(t)
			}
		}
	}
}

// ---- TestC05_Tiny: complete enumeration of very short inputs ----

var cborAlphabet = []byte{0x00, 0x01, 0x17, 0x18, 0x19, 0x20, 0x40, 0x41, 0x60, 0x61, 0x80, 0x81, 0x9f, 0xa0, 0xa1, 0xbf, 0xc0, 0xd2, 0xd8, 0xf6, 0xf7, 0xf9, 0xff, 0x7f}
var jsonAlphabet = []byte{'{', '}', '[', ']', '"', ':', ',', 'n', '0', 'a', '-', ' ', '\\', 'e', '.', 't'}

func TestC05_Tiny(t *testing.T) {
	st := NewStats("C05", "TestC05_Tiny", "enumeration: ALL byte strings of length 0..2 and all 3-byte strings (quick: plus every 4-byte string whose first byte is a bstr/array/map/tag head and whose other bytes come from a 24-value alphabet of CBOR heads, break and null codes, sampled 1-in-8 by shard-independent stride; thorough: all of them) to every COSE/CBOR/populate-helper entry point; all strings of length 0..4 (thorough: 0..5) over a 16-symbol JSON alphabet to every JSON entry point. Oracle: no panic. Non-trivial = well-formed or decoded; distinct = family + input")
	st.Exhaustive = true
	st.Require = []string{"family=cbor", "family=cose", "family=json", "family=enc-cbor", "family=enc-json"}
	defer st.Flush(t)
	shard, shards := shardInfo()
	idx := 0
	mine := func() bool { idx++; return idx%shards == shard }
	fams := append(append([]string{}, coseFamilies...), cborFamilies...)
	run := func(b []byte) {
		if mine() {
			c05Run(st, fams, b, "tiny").report(t)
		}
	}
	run([]byte{})
	for a := 0; a < 256; a++ {
		run([]byte{byte(a)})
		for b := 0; b < 256; b++ {
			run([]byte{byte(a), byte(b)})
		}
	}
	var heads []byte
	for _, major := range []int{2, 4, 5, 6} {
		for ai := 0; ai < 32; ai++ {
			heads = append(heads, byte(major<<5|ai))
		}
	}
	for _, h := range heads {
		for _, b := range cborAlphabet {
			for _, c := range cborAlphabet {
				run([]byte{h, b, c})
			}
		}
	}
	stride := 8
	if thorough() {
		stride = 1
	}
	n4 := 0
	for _, h := range heads {
		for _, b := range cborAlphabet {
			for _, c := range cborAlphabet {
				for _, d := range cborAlphabet {
					n4++
					if n4%stride == 0 {
						run([]byte{h, b, c, d})
					}
				}
			}
		}
	}
	if stride != 1 {
		st.Exhaustive = false
		st.Extra["four_byte_sampling"] = fmt.Sprintf("1 in %d", stride)
	}
	// JSON
	maxLen := 4
	if thorough() {
		maxLen = 5
	}
	var rec func(prefix []byte)
	rec = func(prefix []byte) {
		if mine() {
			c05Run(st, jsonFamilies, append([]byte{}, prefix...), "tiny").report(t)
		}
		if len(prefix) == maxLen {
			return
		}
		for _, ch := range jsonAlphabet {
			rec(append(prefix, ch))
		}
	}
	rec(nil)
}

// ---- TestC05_Cuts: truncation at every offset, header-byte substitution ----

func c05Vectors() (cborVecs, coseVecs [][]byte, jsonVecs [][]byte) {
	for _, b := range c05CBORBases() {
		cborVecs = append(cborVecs, icbor.Encode(b.node))
	}
	for _, p := range []Prof{P1, P2} {
		coseVecs = append(coseVecs, icbor.Encode(c05Envelope(baseValid(p, 1).WireBytes())))
	}
	if files, err := filepath.Glob(repoDir() + "/testvectors/*/*"); err == nil {
		for _, f := range files {
			b, err := os.ReadFile(f)
			if err != nil || len(b) > 4096 {
				continue
			}
			switch {
			case strings.HasSuffix(f, ".json"):
				jsonVecs = append(jsonVecs, b)
			case strings.HasSuffix(f, ".bin") || strings.HasSuffix(f, ".cbor"):
				coseVecs = append(coseVecs, b)
			}
		}
	}
	for _, b := range c05JSONBases() {
		jsonVecs = append(jsonVecs, b.doc)
	}
	return
}

func TestC05_Cuts(t *testing.T) {
	st := NewStats("C05", "TestC05_Cuts", "enumeration: every generated base document and every repository test vector (CBOR, COSE incl. the TF-M Sign1/Mac0 tokens, JSON): truncation at every offset; every single-byte substitution (all 256 values) of each of the first 8 bytes; for COSE tokens additionally the same substitutions on the first 8 bytes of the payload inside a re-wrapped envelope; every single byte deleted; every single byte duplicated. Oracle: no panic (decode + exercise). Non-trivial = well-formed or decoded; distinct = family + input")
	st.Exhaustive = true
	st.Require = []string{"family=cbor", "family=cose", "family=json", "truncate", "substitute", "long-run"}
	defer st.Flush(t)
	shard, shards := shardInfo()
	idx := 0
	mine := func() bool { idx++; return idx%shards == shard }
	cv, ev, jv := c05Vectors()
	do := func(fams []string, vecs [][]byte) {
		for _, v := range vecs {
			for cut := 0; cut <= len(v); cut++ {
				if mine() {
					c05Run(st, fams, v[:cut], "truncate").report(t)
				}
			}
			for pos := 0; pos < 8 && pos < len(v); pos++ {
				for b := 0; b < 256; b++ {
					if mine() {
						m := append([]byte{}, v...)
						m[pos] = byte(b)
						c05Run(st, fams, m, "substitute").report(t)
					}
				}
			}
			step := 1
			if len(v) > 600 {
				step = len(v) / 300
			}
			for pos := 0; pos < len(v); pos += step {
				if mine() {
					c05Run(st, fams, append(append([]byte{}, v[:pos]...), v[pos+1:]...), "delete-byte").report(t)
				}
				if mine() {
					c05Run(st, fams, append(append(append([]byte{}, v[:pos+1]...), v[pos]), v[pos+1:]...), "duplicate-byte").report(t)
				}
			}
		}
	}
	do(cborFamilies, cv)
	do(coseFamilies, ev)
	do(jsonFamilies, jv)
	// VERY long inputs (8 MiB) that are one run of an opening item - tag
	// heads, array / map heads, indefinite heads, byte-string-wrapped tags;
	// JSON brackets: every entry point returns (a decoder that recurses once
	// per input byte dies of a stack overflow, which nothing can recover
	// from - the driver reports the death of the process as the violation)
	const long = 8 << 20
	for _, unit := range [][]byte{{0xc0}, {0xc6}, {0xd8, 0x18}, {0xd9, 0xd9, 0xf7}, {0x81}, {0xa1, 0x00}, {0x9f}, {0xbf, 0x00}, {0xd2, 0x84}, {0x5f}} {
		if mine() {
			c05Run(st, cborFamilies, bytes.Repeat(unit, long/len(unit)), "long-run").report(t)
		}
		if mine() {
			c05Run(st, coseFamilies, bytes.Repeat(unit, long/len(unit)), "long-run").report(t)
		}
	}
	for _, unit := range []string{"[", "{\"a\":", "[[", " [", "\"", "{", "[1,"} {
		if mine() {
			c05Run(st, jsonFamilies, bytes.Repeat([]byte(unit), long/len(unit)), "long-run").report(t)
		}
	}
	// payload-level substitutions inside a valid envelope
	for _, p := range []Prof{P1, P2} {
		pl := baseValid(p, 1).WireBytes()
		for pos := 0; pos < 8; pos++ {
			for b := 0; b < 256; b++ {
				if mine() {
					m := append([]byte{}, pl...)
					m[pos] = byte(b)
					c05Run(st, coseFamilies, icbor.Encode(c05Envelope(m)), "substitute").report(t)
				}
			}
		}
		for cut := 0; cut <= len(pl); cut++ {
			if mine() {
				c05Run(st, coseFamilies, icbor.Encode(c05Envelope(pl[:cut])), "truncate").report(t)
			}
		}
	}
}

// ---- TestC05_Mutants: random multi-mutation (rapid) ----

func c05Fatal(t *rapid.T, f *c05Fail) {
	if f != nil {
		t.Fatalf("C05 violated: %s\n  entry point: %s\n  input: %x", f.Msg, f.In.Entry, []byte(f.In.Data))
	}
}

func drawCBORMutant(t *rapid.T, root *icbor.Node, nMut int) (*icbor.Node, []string) {
	c := root.Clone()
	pool := cborSwapPool()
	var desc []string
	for i := 0; i < nMut; i++ {
		slots := cborSlots(c)
		if len(slots) == 0 {
			break
		}
		s := slots[rapid.IntRange(0, len(slots)-1).Draw(t, "slot")]
		if genBool.Draw(t, "swap") {
			r := pool[rapid.IntRange(0, len(pool)-1).Draw(t, "repl")]
			s.set(r.Clone())
			desc = append(desc, s.path+"=swap")
		} else {
			k := rapid.IntRange(0, nStructMut-1).Draw(t, "kind")
			if applyStructMut(s, k) {
				desc = append(desc, s.path+"="+structMutNames[k])
			}
		}
	}
	return c, desc
}

func drawJSONMutant(t *rapid.T, root *jn, nMut int) (*jn, []string) {
	c := root.clone()
	pool := jsonSwapPool()
	var desc []string
	for i := 0; i < nMut; i++ {
		slots := jsonSlots(c)
		if len(slots) == 0 {
			break
		}
		s := slots[rapid.IntRange(0, len(slots)-1).Draw(t, "slot")]
		if genBool.Draw(t, "swap") {
			r := pool[rapid.IntRange(0, len(pool)-1).Draw(t, "repl")]
			s.set(r.clone())
			desc = append(desc, s.path+"=swap")
		} else {
			k := rapid.IntRange(0, nJStructMut-1).Draw(t, "kind")
			if applyJStructMut(s, k) {
				desc = append(desc, s.path+"="+jStructMutNames[k])
			}
		}
	}
	return c, desc
}

func byteEdits(t *rapid.T, b []byte) []byte {
	b = append([]byte{}, b...)
	switch rapid.IntRange(0, 5).Draw(t, "byteedit") {
	case 0, 1:
		return b
	case 2:
		if len(b) > 0 {
			return b[:rapid.IntRange(0, len(b)-1).Draw(t, "cut")]
		}
	case 3:
		n := rapid.IntRange(1, 4).Draw(t, "nedits")
		for i := 0; i < n && len(b) > 0; i++ {
			b[rapid.IntRange(0, len(b)-1).Draw(t, "pos")] = genByte.Draw(t, "val")
		}
	case 4:
		return append(b, rapid.SliceOfN(genByte, 1, 4).Draw(t, "tail")...)
	case 5:
		if len(b) > 0 {
			b[0] = rapid.SampledFrom([]byte{0xd2, 0xd1, 0x84, 0xa0, 0xbf, 0x9f, 0xd8, 0xc0, 0xf6}).Draw(t, "first")
		}
	}
	return b
}

func TestC05_Mutants(t *testing.T) {
	st := NewStats("C05", "TestC05_Mutants", "rapid: generated valid or invalid claims-sets of both profiles (model generator of C01, incl. nil component entries) encoded by the independent encoder, 1..4 structural/type-swap mutations at random nodes, then optional byte-level edits (truncate, overwrite, append, first-byte swap); fed to every CBOR entry point, wrapped in a signed envelope to the COSE entry points (envelope mutated too), and - via the library's own JSON of the unmutated set - mutated as JSON for the JSON entry points. Oracle: no panic (decode + exercise). Non-trivial = well-formed or decoded; distinct = family + input")
	st.Require = []string{"decoded-ok", "wellformed-rejected", "malformed", "family=cbor", "family=json", "family=cose"}
	defer st.Flush(t)
	jsonBases := c05JSONBases()
	rapid.Check(t, func(t *rapid.T) {
		switch rapid.IntRange(0, 2).Draw(t, "family") {
		case 0, 1:
			m := GenAny(t, drawProf(t))
			if len(m.Comps) > 0 && rapid.IntRange(0, 7).Draw(t, "nilentry") == 0 {
				m.Comps[rapid.IntRange(0, len(m.Comps)-1).Draw(t, "nilidx")] = &MComp{NilEntry: true}
			}
			n, desc := drawCBORMutant(t, m.WireNode(), rapid.IntRange(0, 4).Draw(t, "nmut"))
			data := byteEdits(t, icbor.Encode(n))
			c05Fatal(t, c05Run(st, cborFamilies, data, fmt.Sprintf("nmut=%d", len(desc))))
			env := c05Envelope(data)
			if genBool.Draw(t, "mutate-envelope") {
				env, _ = drawCBORMutant(t, env, rapid.IntRange(1, 2).Draw(t, "nmut.env"))
			}
			c05Fatal(t, c05Run(st, coseFamilies, byteEdits(t, icbor.Encode(env)), "envelope"))
		default:
			var doc []byte
			if genBool.Draw(t, "frombase") {
				doc = jsonBases[rapid.IntRange(0, len(jsonBases)-1).Draw(t, "base")].doc
			} else {
				m := GenValid(t, drawProf(t), false)
				c, _ := m.BuildLiteral()
				var err error
				if doc, err = psatoken.EncodeClaimsToJSON(c); err != nil {
					t.Fatalf("VERIF-INFRA: valid set does not encode to JSON: %v", err)
				}
			}
			root, err := parseJN(doc)
			if err != nil {
				t.Fatalf("VERIF-INFRA: %v", err)
			}
			n, desc := drawJSONMutant(t, root, rapid.IntRange(0, 4).Draw(t, "nmut"))
			c05Fatal(t, c05Run(st, jsonFamilies, byteEdits(t, []byte(n.String())), fmt.Sprintf("nmut=%d", len(desc))))
		}
	})
}

// ---- native fuzz targets (thorough tier only) ----

func fuzzFamily(f *testing.F, fams []string, seeds [][]byte) {
	for _, s := range seeds {
		f.Add(s)
	}
	f.Fuzz(func(t *testing.T, data []byte) {
		if len(data) > 1<<16 {
			return
		}
		for _, fam := range fams {
			for _, e := range entriesOf(fam) {
				if _, _, pm := runEntryNoPanic(e, data, true); pm != "" {
					t.Fatalf("C05 violated: %s\n  input: %x", pm, data)
				}
			}
		}
	})
}

func c05Seeds() (cborSeeds, coseSeeds, jsonSeeds [][]byte) {
	cv, ev, jv := c05Vectors()
	cborSeeds, coseSeeds, jsonSeeds = cv, ev, jv
	pool := cborSwapPool()
	for _, base := range c05CBORBases()[:6] {
		slots := len(cborSlots(base.node))
		for si := 0; si < slots; si += 3 {
			c := base.node.Clone()
			cborSlots(c)[si].set(pool[(si*7)%len(pool)].Clone())
			b := icbor.Encode(c)
			cborSeeds = append(cborSeeds, b)
			coseSeeds = append(coseSeeds, icbor.Encode(c05Envelope(b)))
		}
	}
	cborSeeds = append(cborSeeds, []byte{0xc0}, []byte{0xa0}, []byte{0xbf, 0xff}, []byte{0xba, 0xff, 0xff, 0xff, 0xff}, []byte{0xa1, 0x19, 0x09, 0x5f, 0x81, 0xf6})
	jsonSeeds = append(jsonSeeds, []byte(`{"a":1,"a":2}`), []byte(`{"psa-software-components":[null]}`), []byte(`{}`), []byte(`null`))
	return
}

func FuzzC05_CBOR(f *testing.F) { s, _, _ := c05Seeds(); fuzzFamily(f, cborFamilies, s) }
func FuzzC05_COSE(f *testing.F) { _, s, _ := c05Seeds(); fuzzFamily(f, coseFamilies, s) }
func FuzzC05_JSON(f *testing.F) { _, _, s := c05Seeds(); fuzzFamily(f, jsonFamilies, s) }

// ---- cold start: the first decodes of a process, made by several goroutines at once ----

// c05ColdWorker is a FRESH process whose very first use of the library is 16
// goroutines decoding (and using the results of) ordinary documents through
// every entry point at the same time: whatever the library builds lazily on
// first use (per-type tables, caches) is built under contention. A recovered
// panic is printed; an unrecoverable runtime error kills the process.
func c05ColdWorker() int {
	var shift int
	fmt.Sscanf(os.Getenv("VERIF_C05_SHIFT"), "%d", &shift)
	type job struct {
		fam string
		doc []byte
	}
	var jobs []job
	for _, p := range []Prof{P1, P2} {
		tok := baseValid(p, 1).WireBytes()
		js := []byte(modelJN(baseValid(p, 1)).String())
		jobs = append(jobs, job{"cbor", tok}, job{"enc-cbor", tok}, job{"cose", icbor.Encode(c05Envelope(tok))}, job{"json", js}, job{"enc-json", js})
	}
	const G = 16
	var wg sync.WaitGroup
	start := make(chan struct{})
	msgs := make([]string, G)
	for g := 0; g < G; g++ {
		wg.Add(1)
		go func(g int) {
			defer wg.Done()
			<-start
			for i := range jobs {
				j := jobs[(i+g+shift)%len(jobs)]
				eps := entriesOf(j.fam)
				for k := range eps {
					e := eps[(k+g*3+shift)%len(eps)]
					if _, _, pm := runEntryNoPanic(e, j.doc, true); pm != "" && msgs[g] == "" {
						msgs[g] = pm
					}
				}
			}
		}(g)
	}
	close(start)
	wg.Wait()
	for _, m := range msgs {
		if m != "" {
			fmt.Println("COLD-PANIC: " + strings.ReplaceAll(m, "\n", " | "))
			return 1
		}
	}
	fmt.Println("COLD-OK")
	return 0
}

type c05ColdIn struct {
	Shift int `json:"shift"`
	Runs  int `json:"runs"`
}

func c05ColdRun(shift int) (violation, infra string) {
	cmd := exec.Command(os.Args[0])
	cmd.Env = append(os.Environ(), "VERIF_WORKER=c05cold", fmt.Sprintf("VERIF_C05_SHIFT=%d", shift), "GOMAXPROCS=16")
	done := make(chan struct{})
	var out []byte
	var err error
	go func() { out, err = cmd.CombinedOutput(); close(done) }()
	select {
	case <-done:
	case <-time.After(120 * time.Second):
		if cmd.Process != nil {
			_ = cmd.Process.Kill()
		}
		<-done
		return "", "cold-start worker did not finish within 120 s"
	}
	txt := string(out)
	switch {
	case strings.Contains(txt, "COLD-OK") && err == nil:
		return "", ""
	case strings.Contains(txt, "COLD-PANIC: "):
		i := strings.Index(txt, "COLD-PANIC: ")
		return "the first decodes of a fresh process, made by 16 goroutines at once with ordinary valid documents: " + truncate(txt[i+len("COLD-PANIC: "):], 900), ""
	case strings.Contains(txt, "fatal error:") || strings.Contains(txt, "panic:"):
		i := strings.Index(txt, "fatal error:")
		if i < 0 {
			i = strings.Index(txt, "panic:")
		}
		return "the first decodes of a fresh process, made by 16 goroutines at once with ordinary valid documents, kill the process: " + truncate(firstLines(txt[i:], 12), 900), ""
	}
	return "", "cold-start worker ended unexpectedly: " + truncate(txt, 400)
}

var c05ColdKind = registerKind("c05cold", func(in c05ColdIn) string {
	for r := 0; r < in.Runs; r++ {
		if v, _ := c05ColdRun(in.Shift); v != "" {
			return v
		}
	}
	return ""
})

func TestC05_ColdStart(t *testing.T) {
	st := NewStats("C05", "TestC05_ColdStart", "fresh processes (quick 8 per shard, thorough 60) whose FIRST use of the library is 16 goroutines decoding - and using the results of - ordinary valid documents of both profiles (claims CBOR, claims JSON, signed token) through every entry point at once, each goroutine in another order: whatever the library builds lazily on first use is built under contention. Violation: a panic in any goroutine, or the process dying with an unrecoverable runtime error (concurrent map writes ...). A sampled schedule: a clean run shows nothing for other interleavings. Non-trivial = every run; distinct = rotation of the job order")
	defer st.Flush(t)
	n := 8
	if thorough() {
		n = 60
	}
	shard, shards := shardInfo()
	for r := 0; r < n; r++ {
		shift := r*shards + shard
		v, infra := c05ColdRun(shift)
		if infra != "" {
			fmt.Printf("VERIF-INFRA: C05 %s\n", infra)
			t.Fatalf("VERIF-INFRA: %s", infra)
		}
		st.Case(fmt.Sprintf("cold|%d", shift), "cold-start")
		if v != "" {
			reportCase(t, "C05", "c05cold", c05ColdIn{Shift: shift, Runs: 20}, v)
		}
	}
}
