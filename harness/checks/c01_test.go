package checks

import (
	"reflect"
	"fmt"
	"strings"
	"testing"

	"github.com/veraison/psatoken"

	"pgregory.net/rapid"
)

// C01 — Validate() accepts a claims-set iff it satisfies its profile's rules.

// c01Check is the oracle: library verdict vs model verdict on a struct-literal
// realisation of m. Returns "" when the property holds on this case.
func c01Check(m *MClaims) (msg string, skipped bool) {
	c, ok := m.BuildLiteral()
	if !ok {
		return "", true
	}
	err := c.Validate()
	want := m.Valid()
	if (err == nil) != want {
		if want {
			return fmt.Sprintf("model: valid, library rejects: %v  [%s]", err, m.ClassVector()), false
		}
		return fmt.Sprintf("model: invalid (offending %v), library accepts  [%s]", m.Offending(), m.ClassVector()), false
	}
	if want {
		// after a successful validation every mandatory getter succeeds and
		// optional getters return the value or missing-optional
		if d := checkGettersAgainstModel(c, m, true); d != "" {
			return "valid set: " + d + "  [" + m.ClassVector() + "]", false
		}
	}
	// verdict must be repeatable on the same object
	if err2 := c.Validate(); (err2 == nil) != (err == nil) {
		return "second Validate() gives a different verdict", false
	}
	if d := c01ExportedValidators(m); d != "" {
		return d + "  [" + m.ClassVector() + "]", false
	}
	return "", false
}

// c01ExportedValidators: the per-claim rules are also exported as stand-alone
// validators (claims_common.go); applied to the values the model holds they
// give the verdict of the model's rule for that claim.
func c01ExportedValidators(m *MClaims) string {
	type vc struct {
		name string
		got  error
		want bool
	}
	var vs []vc
	if m.ImplID != nil {
		vs = append(vs, vc{"ValidateImplID", psatoken.ValidateImplID(*m.ImplID), len(*m.ImplID) == 32})
	}
	if m.InstID != nil {
		vs = append(vs, vc{"ValidateInstID", psatoken.ValidateInstID(*m.InstID), instIDOK(*m.InstID)})
	}
	if m.VSI != nil {
		vs = append(vs, vc{"ValidateVSI", psatoken.ValidateVSI(*m.VSI), *m.VSI != ""})
	}
	if m.Lifecycle != nil {
		vs = append(vs, vc{"ValidateSecurityLifeCycle", psatoken.ValidateSecurityLifeCycle(*m.Lifecycle), lifecycleState(*m.Lifecycle) >= 0})
	}
	if m.Nonces != nil {
		for _, n := range *m.Nonces {
			if n != nil {
				vs = append(vs, vc{"ValidateNonce", psatoken.ValidateNonce(n), isHashLen(len(n))}, vc{"ValidatePSAHashType", psatoken.ValidatePSAHashType(n), isHashLen(len(n))})
			}
		}
	}
	if !m.CompsNil {
		list, allOK, hasNil := []psatoken.ISwComponent{}, true, false
		for _, mc := range m.Comps {
			if mc == nil || mc.NilEntry {
				hasNil = true
				break
			}
			list = append(list, libComp(mc))
			if compClass(mc) != EOK {
				allOK = false
			}
		}
		if !hasNil {
			vs = append(vs, vc{"ValidateSwComponents", psatoken.ValidateSwComponents(list), len(list) > 0 && allOK})
			for i, mc := range m.Comps {
				vs = append(vs, vc{fmt.Sprintf("ValidateSwComponent(#%d)", i), psatoken.ValidateSwComponent(libComp(mc)), compClass(mc) == EOK})
				if mc.Value != nil {
					vs = append(vs, vc{"ValidatePSAHashType(measurement value)", psatoken.ValidatePSAHashType(*mc.Value), isHashLen(len(*mc.Value))})
				}
			}
		}
	}
	for _, v := range vs {
		if (v.got == nil) != v.want {
			return fmt.Sprintf("exported validator %s = %v on the value the claims-set holds; the rule says valid=%v", v.name, v.got, v.want)
		}
		if v.got != nil && classify(v.got) != ESyntax && classify(v.got) != EMissMand {
			return fmt.Sprintf("exported validator %s: error %q is neither wrong-syntax nor missing-mandatory", v.name, v.got)
		}
	}
	return ""
}

var c01Kind = registerKind("c01", func(m MClaims) string {
	msg, _ := c01Check(&m)
	return msg
})

// baseValid is a fixed valid set used as the background of the sweeps.
func baseValid(p Prof, variant int) *MClaims {
	fill := func(n int, b byte) []byte {
		r := make([]byte, n)
		for i := range r {
			r[i] = b + byte(i)
		}
		return r
	}
	m := &MClaims{Prof: p}
	m.Profile = sp(p.Name())
	m.ClientID = i32p(int32(7 - 14*variant))
	m.Lifecycle = u16p(0x3000)
	m.ImplID = bp(fill(32, 0x10))
	m.BootSeed = bp(fill(32, 0x20))
	hl := []int{32, 48, 64}[variant%3]
	m.Comps = []*MComp{{Type: sp("BL"), Value: bp(fill(hl, 0x30)), Signer: bp(fill(32, 0x40))}}
	if variant > 0 {
		m.Comps = append(m.Comps, &MComp{Value: bp(fill(64, 0x50)), Signer: bp(fill(hl, 0x60)), Desc: sp("sha-256"), Version: sp("1.0")})
	}
	ns := [][]byte{fill(hl, 0x70)}
	m.Nonces = &ns
	inst := fill(33, 0x80)
	inst[0] = 1
	m.InstID = &inst
	if variant == 1 {
		m.VSI = sp("https://psa-verifier.org")
		m.CertRef = sp("1234567890123-12345")
	}
	if variant == 2 && p == P1 {
		m.Profile = nil
	}
	return m
}

// c01WideIntegers: should the integer fields of the claims structs be wider
// than the claims (a uint32 behind the 16-bit lifecycle, an int64 behind the
// 32-bit client id), values beyond the claim's width are in no valid range.
func c01WideIntegers() string {
	for _, p := range []Prof{P1, P2} {
		for _, v := range []uint64{0x10000, 0x13000, 0x230ff, 0xffff3000, 0x100000000 + 0x3000, 0x16000} {
			c, _ := baseValid(p, 1).BuildLiteral()
			f := reflect.ValueOf(c).Elem().FieldByName("SecurityLifeCycle")
			if !f.IsValid() || f.Kind() != reflect.Pointer || f.IsNil() {
				continue
			}
			e := f.Elem()
			if e.Kind() < reflect.Uint || e.Kind() > reflect.Uint64 || e.OverflowUint(v) {
				continue // the field cannot hold the value: nothing to judge
			}
			e.SetUint(v)
			if err := c.Validate(); err == nil {
				return fmt.Sprintf("%s claims-set whose security lifecycle is 0x%x (in none of the seven ranges) validates", p, v)
			}
			if got, err := c.GetSecurityLifeCycle(); err == nil {
				return fmt.Sprintf("%s GetSecurityLifeCycle() = 0x%x, nil for a stored lifecycle of 0x%x", p, got, v)
			}
		}
	}
	return ""
}

func TestC01_Sweep(t *testing.T) {
	st := NewStats("C01", "TestC01_Sweep", "exhaustive single-claim sweeps on an otherwise valid set (3 backgrounds x 2 profiles): every byte-string length 0..80 (and 256+k, 512+k, 65536+k for the valid sizes k) for impl-id, boot-seed, nonce, inst-id, component value/signer; the profile-2 nonce in array form with null / empty entries around a value; inst-id type byte 0..255 at length 33; lifecycle range ends and outside neighbours; complete single-edit neighbourhood of both certification-reference forms plus every same-byte-length variant with non-ASCII decimal digits. Non-trivial = the swept value differs from the canned 32-byte/0x3000 values; distinct = (profile, background, claim, value class)")
	st.Exhaustive = true
	defer st.Flush(t)
	if msg := c01WideIntegers(); msg != "" {
		t.Fatalf("C01 violated: %s", msg)
	}
	run := func(m *MClaims, key string) {
		msg, skipped := c01Check(m)
		if skipped {
			st.Class("unrepresentable")
			return
		}
		verdict := "invalid"
		if m.Valid() {
			verdict = "valid"
		}
		if m.IsCanned() {
			key = ""
		}
		st.Case(key, verdict)
		if st.WantSample() && !m.Valid() {
			st.Sample(m.ClassVector())
		}
		if msg != "" {
			reportCase(t, "C01", "c01", m, msg)
		}
	}
	for _, p := range []Prof{P1, P2} {
		for variant := 0; variant < 3; variant++ {
			pre := fmt.Sprintf("%s/v%d/", p, variant)
			lengths := []int{}
			for n := 0; n <= 80; n++ {
				lengths = append(lengths, n)
			}
			// lengths whose low 8 / 16 bits look like a valid size
			lengths = append(lengths, 256, 256+8, 256+32, 256+33, 256+48, 256+64, 512+32, 65536+32, 65536+33, 65536+64)
			for _, n := range lengths {
				buf := make([]byte, n)
				for i := range buf {
					buf[i] = byte(n + i)
				}
				m := baseValid(p, variant)
				m.ImplID = bp(buf)
				run(m, fmt.Sprintf("%simpl/%d", pre, n))

				m = baseValid(p, variant)
				m.BootSeed = bp(buf)
				run(m, fmt.Sprintf("%sboot/%d", pre, n))

				m = baseValid(p, variant)
				ns := [][]byte{buf}
				m.Nonces = &ns
				run(m, fmt.Sprintf("%snonce/%d", pre, n))
				if p == P2 && (isHashLen(n) || n == 0 || n == 8) {
					// the array form with null / empty entries around the value
					for si, shape := range [][][]byte{{buf, nil}, {nil, buf}, {buf, nil, buf}, {nil}, {buf, {}}, {nil, nil}, {buf, nil, nil}} {
						m = baseValid(p, variant)
						sh := append([][]byte{}, shape...)
						m.Nonces = &sh
						run(m, fmt.Sprintf("%snonce-array/%d/#%d", pre, n, si))
					}
				}

				for _, first := range []int{-1, 0, 1, 2, 255} {
					b2 := append([]byte{}, buf...)
					if first >= 0 && n > 0 {
						b2[0] = byte(first)
					}
					m = baseValid(p, variant)
					m.InstID = bp(b2)
					run(m, fmt.Sprintf("%sinst/%d/%d", pre, n, first))
				}

				for ci := range baseValid(p, variant).Comps {
					m = baseValid(p, variant)
					m.Comps[ci].Value = bp(buf)
					run(m, fmt.Sprintf("%scomp%d.value/%d", pre, ci, n))
					m = baseValid(p, variant)
					m.Comps[ci].Signer = bp(buf)
					run(m, fmt.Sprintf("%scomp%d.signer/%d", pre, ci, n))
				}
			}
			// every UEID type byte
			for ty := 0; ty < 256; ty++ {
				m := baseValid(p, variant)
				(*m.InstID)[0] = byte(ty)
				run(m, fmt.Sprintf("%sinst.type/%d", pre, ty))
			}
			// lifecycle range ends and neighbours
			for hi := 0; hi <= 0x70; hi += 0x10 {
				for _, v := range []int{hi<<8 - 1, hi << 8, hi<<8 + 0xff, hi<<8 + 0x100} {
					if v < 0 || v > 0xffff {
						continue
					}
					m := baseValid(p, variant)
					m.Lifecycle = u16p(uint16(v))
					run(m, fmt.Sprintf("%slc/%04x", pre, v))
				}
			}
			// absent claims, one at a time
			for c := Claim(0); c < nClaims; c++ {
				m := baseValid(p, variant)
				switch c {
				case CProfile:
					m.Profile = nil
				case CClientID:
					m.ClientID = nil
				case CLifecycle:
					m.Lifecycle = nil
				case CImplID:
					m.ImplID = nil
				case CBootSeed:
					m.BootSeed = nil
				case CCertRef:
					m.CertRef = nil
				case CSwComps:
					m.Comps = nil
				case CNonce:
					m.Nonces = nil
				case CInstID:
					m.InstID = nil
				case CVSI:
					m.VSI = nil
				}
				run(m, fmt.Sprintf("%sabsent/%s", pre, c))
			}
			// certification reference: both valid forms and their complete
			// single-edit neighbourhood
			alphabet := []string{"0", "5", "9", "-", " ", "\n", "a", "٣", "\x00", "/", ":"}
			for _, base := range []string{"1234567890123", "1234567890123-12345", "0000000000000", "9999999999999-99999"} {
				try := func(s, k string) {
					m := baseValid(p, variant)
					m.CertRef = sp(s)
					run(m, fmt.Sprintf("%scert/%s/%s", pre, base, k))
				}
				try(base, "id")
				for i := 0; i < len(base); i++ {
					try(base[:i]+base[i+1:], fmt.Sprintf("del%d", i))
					for _, ch := range alphabet {
						try(base[:i]+ch+base[i+1:], fmt.Sprintf("sub%d/%q", i, ch))
					}
				}
				for i := 0; i <= len(base); i++ {
					for _, ch := range alphabet {
						try(base[:i]+ch+base[i:], fmt.Sprintf("ins%d/%q", i, ch))
					}
				}
				for i, v := range multiByteDigitVariants(base) {
					try(v, fmt.Sprintf("samebytelen-nonascii-digits/%d", i))
				}
			}
			// every layout of digits around dashes for total lengths
			// 12..21 (a digits, '-', b digits; and two dashes), i.e. also
			// the values that are several edits away from a valid
			// reference but keep its length and alphabet
			for total := 12; total <= 21; total++ {
				for a := 0; a < total; a++ {
					d := strings.Repeat("1234567890", 3)
					s := d[:a] + "-" + d[a:total-1]
					m := baseValid(p, variant)
					m.CertRef = sp(s)
					run(m, fmt.Sprintf("%scert/layout/%d/%d", pre, total, a))
					for b := a + 1; b < total && (total == 19 || total == 20); b++ {
						s2 := s[:b] + "-" + s[b+1:]
						m := baseValid(p, variant)
						m.CertRef = sp(s2)
						run(m, fmt.Sprintf("%scert/layout2/%d/%d/%d", pre, total, a, b))
					}
				}
			}
			// adjacent transpositions of the valid +5 form
			for i := 0; i+1 < 19; i++ {
				b := []byte("1234567890123-12345")
				b[i], b[i+1] = b[i+1], b[i]
				m := baseValid(p, variant)
				m.CertRef = sp(string(b))
				run(m, fmt.Sprintf("%scert/transpose/%d", pre, i))
			}
			// VSI
			for _, s := range []string{"", " ", "x", "\x00"} {
				m := baseValid(p, variant)
				m.VSI = sp(s)
				run(m, fmt.Sprintf("%svsi/%q", pre, s))
			}
			// P1 list / flag combinations; P2 nonce container sizes
			if p == P1 {
				for _, withList := range []bool{false, true} {
					for _, flag := range []int{-1, 0, 1, 2} {
						for _, nilc := range []bool{false, true} {
							m := baseValid(p, variant)
							if !withList {
								m.Comps = nil
								m.CompsNil = nilc
							} else if nilc {
								continue
							}
							if flag >= 0 {
								m.NoMeas = u64p(uint64(flag))
							}
							run(m, fmt.Sprintf("%slistflag/%v/%d/%v", pre, withList, flag, nilc))
						}
					}
				}
			} else {
				for _, sizes := range [][]int{{}, {32}, {32, 32}, {48, 64}, {8}, {7}, {65}, {32, 32, 32}} {
					m := baseValid(p, variant)
					ns := [][]byte{}
					for _, n := range sizes {
						ns = append(ns, make([]byte, n))
					}
					m.Nonces = &ns
					run(m, fmt.Sprintf("%snonces/%v", pre, sizes))
				}
				m := baseValid(p, variant)
				m.Comps = nil
				m.CompsNil = true
				run(m, pre+"nilcontainer")
				m = baseValid(p, variant)
				m.Comps = nil
				run(m, pre+"emptycontainer")
			}
		}
	}
}

func TestC01_Product(t *testing.T) {
	st := NewStats("C01", "TestC01_Product", "rapid: per-claim class vectors (absent / boundary-valid / just-outside / wrong-shape) with 0..4 simultaneously deviating claims, components 0..4 with independent field defects, realised as struct literals; oracle = independent model. Non-trivial = not the canned all-32-byte valid shape; distinct = class vector")
	st.Require = []string{"valid", "invalid", "dev=0", "dev=1", "dev=2", "dev>=3", "P1", "P2"}
	defer st.Flush(t)
	rapid.Check(t, func(t *rapid.T) {
		p := drawProf(t)
		m := GenAny(t, p)
		if rapid.IntRange(0, 9).Draw(t, "zerocanon") == 0 {
			// a plain struct value (no constructor): CanonicalProfile unset
			m.ZeroCanon = true
			if genBool.Draw(t, "zerocanon.noprofile") {
				m.Profile = nil
			}
		}
		msg, skipped := c01Check(m)
		if skipped {
			st.Class("unrepresentable")
			return
		}
		nd := len(m.Offending())
		dev := fmt.Sprintf("dev=%d", nd)
		if nd >= 3 {
			dev = "dev>=3"
		}
		verdict := "invalid"
		if nd == 0 {
			verdict = "valid"
		}
		key := ""
		if !m.IsCanned() {
			key = m.ClassVector()
		}
		st.Case(key, verdict, dev, p.String())
		if key != "" && st.WantSample() {
			st.Sample(m.ClassVector())
		}
		if msg != "" {
			t.Fatalf("C01 violated: %s", msg)
		}
	})
}

// TestC01_AfterHistory: "the verdict depends on nothing else" - in particular
// not on how the object came to hold its current content. A claims-set is
// built VALID through the setters (and validated, read and encoded once), then
// changed in place - component objects the caller still holds are overwritten,
// exported claim fields are replaced - into the content of a second model; the
// verdict and getters must be those of the second model.
func TestC01_AfterHistory(t *testing.T) {
	st := NewStats("C01", "TestC01_AfterHistory", "rapid: a valid claims-set is built through NewClaims+setters (or decoded), validated / read / encoded once, then changed IN PLACE into another model's content: one or more of the component objects the container still points to are overwritten field by field (valid or malformed), and/or all exported claim fields are replaced by those of a freshly drawn (valid or deviating) model; oracle = the independent model of the FINAL content (verdict + getters). Non-trivial = the final content is invalid or differs from the initial one in a component; distinct = final class vector + kind of history")
	st.Require = []string{"component-overwritten", "fields-replaced", "final-invalid", "final-valid", "route=setters", "route=decoded"}
	defer st.Flush(t)
	rapid.Check(t, func(t *rapid.T) {
		p := drawProf(t)
		a := GenValid(t, p, true)
		if p == P1 {
			a.Profile = sp(P1Name)
		}
		if len(a.Comps) == 0 && genBool.Draw(t, "forceComps") {
			a.NoMeas = nil
			a.Comps = drawValidComps(t, "sw")
		}
		route := rapid.SampledFrom([]string{"setters", "decoded"}).Draw(t, "route")
		var c psatoken.IClaims
		var err error
		if route == "setters" {
			c, err = a.BuildSetters()
		} else {
			c, err = psatoken.DecodeClaimsFromCBOR(a.WireBytes())
		}
		if err != nil {
			t.Fatalf("VERIF-INFRA: %v", err)
		}
		// first life: everything is used once
		if verr := c.Validate(); verr != nil {
			t.Fatalf("C01 violated: valid set (%s route) rejected: %v [%s]", route, verr, a.ClassVector())
		}
		_ = Observe(c)
		final := a.Clone()
		cls := []string{"route=" + route}
		// second life, step 1: overwrite component objects in place
		if scs, gerr := c.GetSoftwareComponents(); gerr == nil && len(scs) > 0 && rapid.IntRange(0, 3).Draw(t, "touchcomp") > 0 {
			n := rapid.IntRange(1, min(len(scs), 3)).Draw(t, "ntouch")
			for k := 0; k < n; k++ {
				i := rapid.IntRange(0, len(scs)-1).Draw(t, "compidx")
				nc := drawComp(t, genBool.Draw(t, "comp.valid"), "newcomp")
				ptr, ok := scs[i].(*psatoken.SwComponent)
				if !ok || ptr == nil {
					t.Fatalf("VERIF-INFRA: unexpected component type %T", scs[i])
				}
				*ptr = *libComp(nc)
				final.Comps[i] = nc
			}
			cls = append(cls, "component-overwritten")
		}
		// step 2: replace the exported claim fields by another model's
		if rapid.IntRange(0, 2).Draw(t, "replacefields") == 0 {
			b := GenAny(t, p)
			if lit, ok := b.BuildLiteral(); ok {
				// keep the component container (and its history) unless the
				// new model has no list
				keep := anySwContainer(c)
				keepComps := final.Comps
				overwriteInPlace(c, lit)
				final = b.Clone()
				if len(keepComps) > 0 && !b.CompsNil && len(b.Comps) > 0 && genBool.Draw(t, "keepContainer") {
					switch x := c.(type) {
					case *psatoken.P1Claims:
						x.SwComponents = keep
					case *psatoken.P2Claims:
						x.SwComponents = keep
					}
					final.Comps = keepComps
				}
				cls = append(cls, "fields-replaced")
			}
		}
		verr := c.Validate()
		if (verr == nil) != final.Valid() {
			t.Fatalf("C01 violated: after an in-place change (%v) Validate() = %v but the content now is valid=%v (offending %v): the verdict depends on the object's history\n  before [%s]\n  now    [%s]", cls, verr, final.Valid(), final.Offending(), a.ClassVector(), final.ClassVector())
		}
		if d := checkGettersAgainstModel(c, final, false); d != "" {
			t.Fatalf("C01 violated: after an in-place change (%v): %s\n  now [%s]", cls, d, final.ClassVector())
		}
		if final.Valid() {
			cls = append(cls, "final-valid")
		} else {
			cls = append(cls, "final-invalid")
		}
		key := ""
		if !final.Valid() || len(cls) > 2 {
			key = final.ClassVector() + "|" + fmt.Sprint(cls)
		}
		st.Case(key, cls...)
		if key != "" && st.WantSample() {
			st.Sample(map[string]any{"history": cls, "final": final.ClassVector()})
		}
	})
}
