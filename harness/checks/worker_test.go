package checks

// runWorker dispatches re-executions of the test binary as a worker process
// (see c06_test.go).
func runWorker(kind string) int {
	switch kind {
	default:
		return 2
	}
}
