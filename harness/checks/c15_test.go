package checks

// C15 — the embedding-aware codec merges, round-trips and matches the plain
// codec.

import (
	"bytes"
	"encoding/json"
	"fmt"
	"reflect"
	"strings"
	"testing"

	"github.com/veraison/psatoken"
	"github.com/veraison/psatoken/encoding"
	"pgregory.net/rapid"

	"verifharness/icbor"
)

// ---- the hand-declared shape family (claims convention: integer keyasint
// CBOR keys, JSON names, omitempty only on pointer / string / integer fields,
// "-" fields) ----

type ShapeFlat struct {
	A      *int64  `cbor:"1,keyasint,omitempty" json:"a,omitempty"`
	B      *string `cbor:"2,keyasint,omitempty" json:"b,omitempty"`
	C      *[]byte `cbor:"3,keyasint" json:"c"`
	D      int64   `cbor:"-4,keyasint" json:"d"`
	E      string  `cbor:"5,keyasint,omitempty" json:"e,omitempty"`
	F      uint16  `cbor:"600,keyasint,omitempty" json:"f,omitempty"`
	G      *[]byte `cbor:"-70000,keyasint,omitempty" json:"g,omitempty"`
	Hidden string  `cbor:"-" json:"-"`
}

type ShapeInner struct {
	X *int64 `cbor:"10,keyasint,omitempty" json:"x,omitempty"`
	Y string `cbor:"11,keyasint" json:"y"`
	// a "-" field inside an embedded struct
	Skip *int64 `cbor:"-" json:"-"`
}

func (*ShapeInner) Foo() {}

type ShapeOuter1 struct {
	ShapeInner
	P *string `cbor:"20,keyasint,omitempty" json:"p,omitempty"`
	Q *[]byte `cbor:"21,keyasint" json:"q"`
}

type ShapeMid struct {
	ShapeInner
	Z *int64 `cbor:"30,keyasint,omitempty" json:"z,omitempty"`
}

type ShapeOuter2 struct {
	R int64 `cbor:"40,keyasint,omitempty" json:"r,omitempty"`
	ShapeMid
	S *string `cbor:"41,keyasint" json:"s"`
}

type ShapeEmb interface{ Foo() }

type ShapeOuterI struct {
	T *int64 `cbor:"50,keyasint,omitempty" json:"t,omitempty"`
	ShapeEmb
	U string `cbor:"51,keyasint" json:"u"`
}

// an implementation of the embedded interface that is held BY VALUE
type ShapeInnerV struct {
	X *int64 `cbor:"10,keyasint,omitempty" json:"x,omitempty"`
	Y string `cbor:"11,keyasint" json:"y"`
}

func (ShapeInnerV) Foo() {}

// JSON member names that differ only by case (and by Unicode case folding:
// U+212A KELVIN SIGN folds to k)
type ShapeFold struct {
	HwVer   *string `cbor:"60,keyasint,omitempty" json:"hwver,omitempty"`
	HwVerV2 *string `cbor:"61,keyasint,omitempty" json:"HWVER,omitempty"`
	Serial  int64   `cbor:"62,keyasint" json:"serial"`
	K       *int64  `cbor:"63,keyasint,omitempty" json:"k,omitempty"`
	Kelvin  *int64  `cbor:"64,keyasint,omitempty" json:"\u212a,omitempty"`
}

// an embedded struct whose TYPE is unexported (its exported fields are
// promoted and (un)marshalled by the plain codecs)
type shapeLower struct {
	X *int64 `cbor:"10,keyasint,omitempty" json:"x,omitempty"`
	Y string `cbor:"11,keyasint" json:"y"`
}

type ShapeOuterLower struct {
	shapeLower
	P *string `cbor:"20,keyasint,omitempty" json:"p,omitempty"`
}

// tag options in another order: omitempty before keyasint
type ShapeTagOrder struct {
	A *int64  `cbor:"70,omitempty,keyasint" json:"ta,omitempty"`
	B string  `cbor:"71,keyasint" json:"tb"`
	C *string `cbor:"72,omitempty,keyasint" json:"tc,omitempty"`
	D int64   `cbor:"73,omitempty,keyasint" json:"td,omitempty"`
}

// a NAMED field whose name equals its (struct) type: not an embedded field
type Version struct {
	Major int64 `cbor:"1,keyasint" json:"major"`
	Minor int64 `cbor:"2,keyasint" json:"minor"`
}

type ShapeNamedAsType struct {
	Version Version `cbor:"5,keyasint" json:"version"`
	N       *int64  `cbor:"6,keyasint,omitempty" json:"n,omitempty"`
}

// fields whose cbor and json tags DISAGREE about "-" and omitempty
type ShapeTagsDisagree struct {
	Debug  string  `cbor:"-" json:"debug"`
	Count  *int64  `cbor:"80,keyasint,omitempty" json:"count"`
	Secret string  `cbor:"81,keyasint" json:"-"`
	Opt    *string `cbor:"82,keyasint" json:"opt,omitempty"`
}

// an integer-kind type with a TEXT form (encoding.TextMarshaler): JSON writes
// the text, CBOR the number
type Level int

func (l Level) MarshalText() ([]byte, error) { return []byte(fmt.Sprintf("L%d", int(l))), nil }
func (l *Level) UnmarshalText(b []byte) error {
	var v int
	if _, err := fmt.Sscanf(string(b), "L%d", &v); err != nil {
		return err
	}
	*l = Level(v)
	return nil
}

type ShapeEnum struct {
	Lvl    Level  `cbor:"90,keyasint" json:"lvl"`
	OptLvl *Level `cbor:"91,keyasint,omitempty" json:"optlvl,omitempty"`
	On     bool   `cbor:"92,keyasint" json:"on"`
}

// keys spelled with leading zeros (and an explicit sign): the plain codec reads
// the tag with strconv.Atoi, i.e. as DECIMAL: 010 is ten, -0012 minus twelve
type ShapeKeySpelling struct {
	A *int64  `cbor:"010,keyasint,omitempty" json:"ka,omitempty"`
	B string  `cbor:"-0012,keyasint" json:"kb"`
	C *string `cbor:"0100,keyasint,omitempty" json:"kc,omitempty"`
	D int64   `cbor:"007,keyasint" json:"kd"`
	E *int64  `cbor:"+9,keyasint,omitempty" json:"ke,omitempty"`
	// ... and labels that need more than 32 bits
	F *int64  `cbor:"4294967297,keyasint,omitempty" json:"kf,omitempty"`
	G *int64  `cbor:"-4294967298,keyasint,omitempty" json:"kg,omitempty"`
	H *string `cbor:"9223372036854775807,keyasint,omitempty" json:"kh,omitempty"`
}

// embedded fields of defined NON-struct types, tagged: ordinary fields for
// the plain codecs (nothing to merge), named by their tags
type Label string
type Blob []byte
type Count int64

type ShapeEmbScalar struct {
	Label `cbor:"1,keyasint" json:"label"`
	A     *int64 `cbor:"2,keyasint,omitempty" json:"a,omitempty"`
	Blob  `cbor:"3,keyasint,omitempty" json:"blob,omitempty"`
	Count `cbor:"4,keyasint" json:"count"`
}

// a claim whose value is a plain struct (no codec of its own) that mixes a
// keyasint member, a text-keyed member and an UNTAGGED member (which the plain
// codecs emit under its Go field name); by value and by pointer
type SubClaims struct {
	ID   int64  `cbor:"1,keyasint" json:"id"`
	Site string `cbor:"site" json:"site"`
	Note string
}

type ShapeNested struct {
	Sub  SubClaims  `cbor:"30,keyasint" json:"sub"`
	PSub *SubClaims `cbor:"31,keyasint,omitempty" json:"psub,omitempty"`
	N    *int64     `cbor:"32,keyasint,omitempty" json:"n,omitempty"`
}

// open-typed claims (any, map[string]any, []any) holding numbers, text,
// booleans and nested containers
type ShapeOpen struct {
	Any any            `cbor:"40,keyasint,omitempty" json:"any,omitempty"`
	M   map[string]any `cbor:"41,keyasint,omitempty" json:"m,omitempty"`
	L   []any          `cbor:"42,keyasint,omitempty" json:"l,omitempty"`
	S   string         `cbor:"43,keyasint" json:"s"`
}

type ShapeEmpty struct{}

type ShapeAllOptional struct {
	A *int64  `cbor:"1,keyasint,omitempty" json:"a,omitempty"`
	B *string `cbor:"2,keyasint,omitempty" json:"b,omitempty"`
}

// ---- expected output, written by hand per shape ----

type fd struct {
	key  int64
	name string
	omit bool // declared omitempty
	emit bool // expected in the output
	node *icbor.Node
	jv   any
}

func fPtrInt(key int64, name string, omit bool, p *int64) fd {
	if p == nil {
		return fd{key, name, omit, !omit, icbor.Null(), nil}
	}
	return fd{key, name, omit, true, icbor.I(*p), float64(*p)}
}
func fPtrStr(key int64, name string, omit bool, p *string) fd {
	if p == nil {
		return fd{key, name, omit, !omit, icbor.Null(), nil}
	}
	return fd{key, name, omit, true, icbor.Tstr(*p), *p}
}
func fPtrBytes(key int64, name string, omit bool, p *[]byte) fd {
	if p == nil {
		return fd{key, name, omit, !omit, icbor.Null(), nil}
	}
	return fd{key, name, omit, true, icbor.Bstr(*p), b64(*p)}
}
func fInt(key int64, name string, omit bool, v int64) fd {
	return fd{key, name, omit, !(omit && v == 0), icbor.I(v), float64(v)}
}
func fStr(key int64, name string, omit bool, v string) fd {
	return fd{key, name, omit, !(omit && v == ""), icbor.Tstr(v), v}
}
func fU16(key int64, name string, omit bool, v uint16) fd {
	return fd{key, name, omit, !(omit && v == 0), icbor.U(uint64(v)), float64(v)}
}

func (s *ShapeFlat) fields() []fd {
	return []fd{fPtrInt(1, "a", true, s.A), fPtrStr(2, "b", true, s.B), fPtrBytes(3, "c", false, s.C), fInt(-4, "d", false, s.D),
		fStr(5, "e", true, s.E), fU16(600, "f", true, s.F), fPtrBytes(-70000, "g", true, s.G)}
}
func (s *ShapeInner) fields() []fd {
	return []fd{fPtrInt(10, "x", true, s.X), fStr(11, "y", false, s.Y)}
}

// outer fields first, then the embedded structs in declaration order
func (s *ShapeOuter1) fields() []fd {
	return append([]fd{fPtrStr(20, "p", true, s.P), fPtrBytes(21, "q", false, s.Q)}, s.ShapeInner.fields()...)
}
func (s *ShapeMid) fields() []fd {
	return append([]fd{fPtrInt(30, "z", true, s.Z)}, s.ShapeInner.fields()...)
}
func (s *ShapeOuter2) fields() []fd {
	return append([]fd{fInt(40, "r", true, s.R), fPtrStr(41, "s", false, s.S)}, s.ShapeMid.fields()...)
}
func (s *ShapeOuterI) fields() []fd {
	r := []fd{fPtrInt(50, "t", true, s.T), fStr(51, "u", false, s.U)}
	if in, ok := s.ShapeEmb.(*ShapeInner); ok && in != nil {
		r = append(r, in.fields()...)
	}
	if in, ok := s.ShapeEmb.(ShapeInnerV); ok {
		r = append(r, fPtrInt(10, "x", true, in.X), fStr(11, "y", false, in.Y))
	}
	if in, ok := s.ShapeEmb.(*ShapeInnerV); ok && in != nil {
		r = append(r, fPtrInt(10, "x", true, in.X), fStr(11, "y", false, in.Y))
	}
	return r
}
func (s *ShapeOuterLower) fields() []fd {
	return []fd{fPtrStr(20, "p", true, s.P), fPtrInt(10, "x", true, s.X), fStr(11, "y", false, s.Y)}
}
func (s *ShapeTagOrder) fields() []fd {
	return []fd{fPtrInt(70, "ta", true, s.A), fStr(71, "tb", false, s.B), fPtrStr(72, "tc", true, s.C), fInt(73, "td", true, s.D)}
}
func (s *ShapeNamedAsType) fields() []fd {
	ver := fd{5, "version", false, true, icbor.Map(icbor.P(icbor.U(1), icbor.I(s.Version.Major)), icbor.P(icbor.U(2), icbor.I(s.Version.Minor))),
		map[string]any{"major": float64(s.Version.Major), "minor": float64(s.Version.Minor)}}
	return []fd{ver, fPtrInt(6, "n", true, s.N)}
}

// the CBOR view; fieldsJSON gives the JSON view
func (s *ShapeTagsDisagree) fields() []fd {
	return []fd{fPtrInt(80, "count", true, s.Count), fStr(81, "secret", false, s.Secret), fPtrStr(82, "opt", false, s.Opt)}
}
func (s *ShapeTagsDisagree) fieldsJSON() []fd {
	return []fd{fStr(0, "debug", false, s.Debug), fPtrInt(80, "count", false, s.Count), fPtrStr(82, "opt", true, s.Opt)}
}
func (s *ShapeTagsDisagree) stripFor(format string) any {
	c := *s
	if format == "cbor" {
		c.Debug = ""
	} else {
		c.Secret = ""
	}
	return &c
}

// fieldsFor / expectedAfter: per-format views of a shape (the same for both
// formats unless the shape says otherwise).
func fieldsFor(s shape, format string) []fd {
	if x, ok := s.(interface{ fieldsJSON() []fd }); ok && format == "json" {
		return x.fieldsJSON()
	}
	return s.fields()
}
func expectedAfter(s shape, format string) any {
	if x, ok := s.(interface{ stripFor(string) any }); ok {
		return x.stripFor(format)
	}
	return stripHidden(s)
}

func (s *ShapeEnum) fields() []fd {
	r := []fd{{90, "lvl", false, true, icbor.I(int64(s.Lvl)), fmt.Sprintf("L%d", int(s.Lvl))}}
	if s.OptLvl != nil {
		r = append(r, fd{91, "optlvl", true, true, icbor.I(int64(*s.OptLvl)), fmt.Sprintf("L%d", int(*s.OptLvl))})
	} else {
		r = append(r, fd{91, "optlvl", true, false, icbor.Null(), nil})
	}
	return append(r, fd{92, "on", false, true, icbor.Bool(s.On), s.On})
}
func (s *ShapeFold) fields() []fd {
	return []fd{fPtrStr(60, "hwver", true, s.HwVer), fPtrStr(61, "HWVER", true, s.HwVerV2), fInt(62, "serial", false, s.Serial), fPtrInt(63, "k", true, s.K), fPtrInt(64, "\u212a", true, s.Kelvin)}
}
func (s *ShapeKeySpelling) fields() []fd {
	return []fd{fPtrInt(10, "ka", true, s.A), fStr(-12, "kb", false, s.B), fPtrStr(100, "kc", true, s.C), fInt(7, "kd", false, s.D), fPtrInt(9, "ke", true, s.E),
		fPtrInt(4294967297, "kf", true, s.F), fPtrInt(-4294967298, "kg", true, s.G), fPtrStr(9223372036854775807, "kh", true, s.H)}
}
func (s *ShapeEmbScalar) fields() []fd {
	r := []fd{fStr(1, "label", false, string(s.Label)), fPtrInt(2, "a", true, s.A)}
	if len(s.Blob) > 0 {
		r = append(r, fd{3, "blob", true, true, icbor.Bstr([]byte(s.Blob)), b64([]byte(s.Blob))})
	} else {
		r = append(r, fd{3, "blob", true, false, icbor.Null(), nil})
	}
	return append(r, fInt(4, "count", false, int64(s.Count)))
}

// fPlain: a field whose expected value is what the plain codecs make of it
// (the clause "same map as the plain marshaller's", applied to one value).
func fPlain(key int64, name string, omit, present bool, v any) fd {
	if !present {
		return fd{key, name, omit, !omit, icbor.Null(), nil}
	}
	b, err := hem.Marshal(v)
	if err != nil {
		panic("VERIF-INFRA: " + err.Error())
	}
	n, _, err := icbor.Read(b)
	if err != nil {
		panic("VERIF-INFRA: " + err.Error())
	}
	jb, err := json.Marshal(v)
	if err != nil {
		panic("VERIF-INFRA: " + err.Error())
	}
	var jv any
	if err := json.Unmarshal(jb, &jv); err != nil {
		panic("VERIF-INFRA: " + err.Error())
	}
	return fd{key, name, omit, true, n, jv}
}
func (s *ShapeNested) fields() []fd {
	r := []fd{fPlain(30, "sub", false, true, s.Sub)}
	if s.PSub != nil {
		r = append(r, fPlain(31, "psub", true, true, *s.PSub))
	} else {
		r = append(r, fPlain(31, "psub", true, false, nil))
	}
	return append(r, fPtrInt(32, "n", true, s.N))
}
func (s *ShapeOpen) fields() []fd {
	return []fd{fPlain(40, "any", true, s.Any != nil, s.Any), fPlain(41, "m", true, len(s.M) > 0, s.M), fPlain(42, "l", true, len(s.L) > 0, s.L), fStr(43, "s", false, s.S)}
}

// open-typed values come back from CBOR in the decoder's generic Go types
// (maps inside an any as map[any]any ...): the reference for "reproduces the
// value" is what the plain codec's own round trip reproduces
func (s *ShapeOpen) stripFor(format string) any {
	if format != "cbor" {
		return s
	}
	b, err := hem.Marshal(s)
	if err != nil {
		panic("VERIF-INFRA: " + err.Error())
	}
	r := &ShapeOpen{}
	if err := hdm.Unmarshal(b, r); err != nil {
		panic("VERIF-INFRA: " + err.Error())
	}
	return r
}
func (s *ShapeEmpty) fields() []fd { return nil }
func (s *ShapeAllOptional) fields() []fd {
	return []fd{fPtrInt(1, "a", true, s.A), fPtrStr(2, "b", true, s.B)}
}

type shape interface{ fields() []fd }

// ---- generators ----

func drawOptInt(t *rapid.T, l string) *int64 {
	switch rapid.IntRange(0, 3).Draw(t, l+".k") {
	case 0:
		return nil
	case 1:
		v := rapid.SampledFrom([]int64{0, 1, -1, 23, 24, -24, -25, 255, 256, 65535, 65536, 1 << 32, -(1 << 32), 1<<53 - 1, -(1 << 53)}).Draw(t, l)
		return &v
	}
	v := rapid.Int64Range(-(1<<53), 1<<53).Draw(t, l)
	return &v
}
func drawOptStr(t *rapid.T, l string) *string {
	if rapid.IntRange(0, 2).Draw(t, l+".k") == 0 {
		return nil
	}
	s := drawText(t, l, true)
	return &s
}
func drawOptBytes(t *rapid.T, l string) *[]byte {
	if rapid.IntRange(0, 2).Draw(t, l+".k") == 0 {
		return nil
	}
	n := rapid.SampledFrom([]int{0, 1, 23, 24, 32, 255, 256, 300}).Draw(t, l+".n")
	b := drawBytes(t, n, l)
	if b == nil {
		b = []byte{}
	}
	return &b
}
func drawInt(t *rapid.T, l string) int64 {
	if genBool.Draw(t, l+".zero") {
		return 0
	}
	return rapid.Int64Range(-(1<<53), 1<<53).Draw(t, l)
}
func drawStr(t *rapid.T, l string) string {
	if genBool.Draw(t, l+".zero") {
		return ""
	}
	return drawText(t, l, true)
}

func drawInner(t *rapid.T, l string) ShapeInner {
	return ShapeInner{X: drawOptInt(t, l+".x"), Y: drawStr(t, l+".y"), Skip: drawOptInt(t, l+".skip")}
}

// drawShape returns the value, a function making a fresh destination, and the
// shape's name.
func drawShape(t *rapid.T) (shape, func() any, string) {
	switch rapid.IntRange(0, 11).Draw(t, "shape") {
	case 10:
		s := &ShapeOuterLower{shapeLower: shapeLower{X: drawOptInt(t, "in.x"), Y: drawStr(t, "in.y")}, P: drawOptStr(t, "p")}
		return s, func() any { return &ShapeOuterLower{} }, "embedded-unexported-type"
	case 11:
		s := &ShapeTagOrder{A: drawOptInt(t, "a"), B: drawStr(t, "b"), C: drawOptStr(t, "c"), D: drawInt(t, "d")}
		return s, func() any { return &ShapeTagOrder{} }, "tag-option-order"
	case 8:
		// the embedded interface holds the implementation by value (only
		// readable: the destination of a populate holds a pointer)
		s := &ShapeOuterI{T: drawOptInt(t, "t"), ShapeEmb: ShapeInnerV{X: drawOptInt(t, "in.x"), Y: drawStr(t, "in.y")}, U: drawStr(t, "u")}
		return s, func() any { return &ShapeOuterI{ShapeEmb: &ShapeInnerV{}} }, "embedded-iface-value"
	case 9:
		s := &ShapeFold{HwVer: drawOptStr(t, "hwver"), HwVerV2: drawOptStr(t, "HWVER"), Serial: drawInt(t, "serial"), K: drawOptInt(t, "k"), Kelvin: drawOptInt(t, "kelvin")}
		return s, func() any { return &ShapeFold{} }, "case-fold-names"
	case 0:
		s := &ShapeFlat{A: drawOptInt(t, "a"), B: drawOptStr(t, "b"), C: drawOptBytes(t, "c"), D: drawInt(t, "d"), E: drawStr(t, "e"),
			F: uint16(rapid.SampledFrom([]int{0, 0, 1, 255, 256, 65535}).Draw(t, "f")), G: drawOptBytes(t, "g"), Hidden: drawStr(t, "hidden")}
		return s, func() any { return &ShapeFlat{} }, "flat"
	case 1:
		s := &ShapeOuter1{ShapeInner: drawInner(t, "in"), P: drawOptStr(t, "p"), Q: drawOptBytes(t, "q")}
		return s, func() any { return &ShapeOuter1{} }, "embedded-1"
	case 2:
		s := &ShapeOuter2{R: drawInt(t, "r"), ShapeMid: ShapeMid{ShapeInner: drawInner(t, "in"), Z: drawOptInt(t, "z")}, S: drawOptStr(t, "s")}
		return s, func() any { return &ShapeOuter2{} }, "embedded-2"
	case 3:
		in := drawInner(t, "in")
		s := &ShapeOuterI{T: drawOptInt(t, "t"), ShapeEmb: &in, U: drawStr(t, "u")}
		return s, func() any { return &ShapeOuterI{ShapeEmb: &ShapeInner{}} }, "embedded-iface"
	case 4:
		s := &ShapeOuterI{T: drawOptInt(t, "t"), U: drawStr(t, "u")}
		return s, func() any { return &ShapeOuterI{} }, "embedded-iface-nil"
	case 5:
		return &ShapeEmpty{}, func() any { return &ShapeEmpty{} }, "empty"
	case 6:
		s := &ShapeAllOptional{}
		if rapid.IntRange(0, 2).Draw(t, "allopt.some") == 0 {
			s.A, s.B = drawOptInt(t, "a"), drawOptStr(t, "b")
		}
		return s, func() any { return &ShapeAllOptional{} }, "all-optional"
	default:
		in := drawInner(t, "in")
		s := &ShapeMid{ShapeInner: in, Z: drawOptInt(t, "z")}
		return s, func() any { return &ShapeMid{} }, "embedded-1b"
	}
}

// stripHidden returns a copy of v with every "-" field zeroed (what a round
// trip is expected to reproduce).
func stripHidden(v any) any {
	switch s := v.(type) {
	case *ShapeFlat:
		c := *s
		c.Hidden = ""
		return &c
	case *ShapeOuter1:
		c := *s
		c.Skip = nil
		return &c
	case *ShapeOuter2:
		c := *s
		c.Skip = nil
		return &c
	case *ShapeMid:
		c := *s
		c.Skip = nil
		return &c
	case *ShapeOuterI:
		c := *s
		if in, ok := s.ShapeEmb.(*ShapeInner); ok && in != nil {
			ic := *in
			ic.Skip = nil
			c.ShapeEmb = &ic
		}
		if in, ok := s.ShapeEmb.(ShapeInnerV); ok {
			c.ShapeEmb = &in // the populated destination holds a pointer
		}
		return &c
	}
	return v
}

// ---- oracles ----

func jsonTopLevelKeys(doc []byte) ([]string, error) {
	dec := json.NewDecoder(bytes.NewReader(doc))
	tok, err := dec.Token()
	if err != nil || tok != json.Delim('{') {
		return nil, fmt.Errorf("not an object")
	}
	var keys []string
	for dec.More() {
		tok, err := dec.Token()
		if err != nil {
			return nil, err
		}
		k, ok := tok.(string)
		if !ok {
			return nil, fmt.Errorf("non-string key")
		}
		keys = append(keys, k)
		var skip json.RawMessage
		if err := dec.Decode(&skip); err != nil {
			return nil, err
		}
	}
	return keys, nil
}

// c15CheckCBOR checks the serialised form of s against its hand-written
// expectation and the populate round trip. hasEmbedding=false additionally
// compares with the plain marshaller.
func c15CheckCBOR(s shape, fresh func() any, plainComparable bool) string {
	out, err := encoding.SerializeStructToCBOR(hem, s)
	if err != nil {
		return "SerializeStructToCBOR failed: " + err.Error()
	}
	outSnap := string(out)
	otherTrafficEvery(2)
	if string(out) != outSnap {
		return "the bytes returned by SerializeStructToCBOR changed while unrelated encodes / decodes ran"
	}
	out2, err := encoding.SerializeStructToCBOR(hem, s)
	if err != nil || !bytes.Equal(out, out2) {
		return fmt.Sprintf("serialising twice gives different bytes: %x vs %x", out, out2)
	}
	n, fl, err := icbor.Read(out)
	if err != nil {
		return fmt.Sprintf("output is not one well-formed CBOR item (%v): %x", err, truncate(hexs(out), 200))
	}
	if n.Kind != icbor.KMap || fl.HasIndef {
		return fmt.Sprintf("output is not a single definite-length map: %s", truncate(icbor.Diag(n), 200))
	}
	var want []fd
	for _, f := range fieldsFor(s, "cbor") {
		if f.emit {
			want = append(want, f)
		}
	}
	if len(n.Pairs) != len(want) {
		return fmt.Sprintf("map has %d entries, expected %d (union of outer and embedded fields honouring omitempty and '-'): %s", len(n.Pairs), len(want), truncate(icbor.Diag(n), 300))
	}
	for i, f := range want {
		k, ok := n.Pairs[i][0].Int()
		if !ok || k != f.key {
			return fmt.Sprintf("entry %d has key %s, expected %d (declaration order: outer fields, then embedded): %s", i, icbor.Diag(n.Pairs[i][0]), f.key, truncate(icbor.Diag(n), 300))
		}
		if !icbor.Equal(n.Pairs[i][1], f.node) {
			return fmt.Sprintf("key %d carries %s, expected %s", f.key, truncate(icbor.Diag(n.Pairs[i][1]), 100), truncate(icbor.Diag(f.node), 100))
		}
	}
	// populate round trip
	dst := fresh()
	if err := encoding.PopulateStructFromCBOR(hdm, out, dst); err != nil {
		return fmt.Sprintf("populating a fresh struct from the serialiser's own output fails: %v (bytes %s)", err, truncate(hexs(out), 200))
	}
	if exp := expectedAfter(s, "cbor"); !reflect.DeepEqual(dst, exp) {
		return fmt.Sprintf("populate(serialise(x)) != x:\n  got  %s\n  want %s", dumpJSON(dst), dumpJSON(exp))
	}
	// plain-codec differential
	if plainComparable {
		pb, err := hem.Marshal(s)
		if err != nil {
			return "plain marshaller failed: " + err.Error()
		}
		pn, _, err := icbor.Read(pb)
		if err != nil {
			return "plain marshaller output unreadable: " + err.Error()
		}
		if !icbor.Equal(icbor.Canonical(pn), icbor.Canonical(n)) {
			return fmt.Sprintf("output decodes to a different map than the plain CBOR marshaller's:\n  helper %s\n  plain  %s", truncate(icbor.Diag(n), 300), truncate(icbor.Diag(pn), 300))
		}
	}
	// a missing non-optional key is an error
	for i, f := range want {
		if f.omit {
			continue
		}
		ps := append(append([][2]*icbor.Node{}, n.Pairs[:i]...), n.Pairs[i+1:]...)
		if err := encoding.PopulateStructFromCBOR(hdm, icbor.Encode(icbor.Map(ps...)), fresh()); err == nil {
			return fmt.Sprintf("populate succeeds although the non-optional key %d is missing from the input", f.key)
		}
	}
	// a duplicate key is an error - in whatever form the map arrives
	// (definite, indefinite-length, tag-wrapped, duplicate first or last)
	if len(n.Pairs) > 0 {
		for _, at := range []int{0, len(n.Pairs) - 1} {
			k, _ := n.Pairs[at][0].Int()
			ps := append(append([][2]*icbor.Node{}, n.Pairs...), n.Pairs[at])
			front := append([][2]*icbor.Node{n.Pairs[at]}, n.Pairs...)
			forms := map[string]*icbor.Node{
				"definite":          icbor.Map(ps...),
				"definite, first":   icbor.Map(front...),
				"indefinite":        icbor.Map(ps...).WithIndef(),
				"tagged":            icbor.Tag(55799, icbor.Map(ps...)),
				"tagged indefinite": icbor.Tag(55799, icbor.Map(front...).WithIndef()),
			}
			for name, f := range forms {
				if err := encoding.PopulateStructFromCBOR(hdm, icbor.Encode(f), fresh()); err == nil {
					return fmt.Sprintf("populate succeeds on CBOR input (%s map) with duplicate key %d", name, k)
				}
			}
		}
	}
	// ... also a key the struct has NO field for (a label from a newer
	// revision, a vendor's): once it is ignored, twice it is a duplicate key
	{
		unk := int64(8765432)
		for _, pr := range n.Pairs {
			if k, ok := pr[0].Int(); ok && k == unk {
				unk++
			}
		}
		once := append(append([][2]*icbor.Node{}, n.Pairs...), icbor.P(icbor.I(unk), icbor.U(1)))
		if err := encoding.PopulateStructFromCBOR(hdm, icbor.Encode(icbor.Map(once...)), fresh()); err == nil {
			for name, second := range map[string]*icbor.Node{"same value": icbor.U(1), "another value": icbor.Tstr("x")} {
				twice := append(append([][2]*icbor.Node{}, once...), icbor.P(icbor.I(unk), second))
				spread := append(append([][2]*icbor.Node{icbor.P(icbor.I(unk), second)}, n.Pairs...), icbor.P(icbor.I(unk), icbor.U(1)))
				for form, f := range map[string]*icbor.Node{"definite": icbor.Map(twice...), "first and last": icbor.Map(spread...), "indefinite": icbor.Map(twice...).WithIndef()} {
					if err := encoding.PopulateStructFromCBOR(hdm, icbor.Encode(f), fresh()); err == nil {
						return fmt.Sprintf("populate succeeds on CBOR input (%s map) in which the key %d, which the struct has no field for, occurs twice (%s)", form, unk, name)
					}
				}
			}
		}
	}
	// the same entries as an indefinite-length or tag-wrapped map: if the
	// helper accepts that form at all, the value must be the same
	for name, f := range map[string]*icbor.Node{"indefinite": icbor.Map(n.Pairs...).WithIndef(), "tagged": icbor.Tag(55799, icbor.Map(n.Pairs...))} {
		d2 := fresh()
		if err := encoding.PopulateStructFromCBOR(hdm, icbor.Encode(f), d2); err == nil {
			if exp := expectedAfter(s, "cbor"); !reflect.DeepEqual(d2, exp) {
				return fmt.Sprintf("populate from the %s form of the serialiser's output gives a different value", name)
			}
		}
	}
	return ""
}

func dumpJSON(v any) string {
	b, err := json.Marshal(v)
	if err != nil {
		return fmt.Sprintf("%+v", v)
	}
	return truncate(string(b), 400)
}

func c15CheckJSON(s shape, fresh func() any, plainComparable bool) string {
	out, err := encoding.SerializeStructToJSON(s)
	if err != nil {
		return "SerializeStructToJSON failed: " + err.Error()
	}
	outSnap := string(out)
	otherTrafficEvery(2)
	if string(out) != outSnap {
		return "the bytes returned by SerializeStructToJSON changed while unrelated encodes / decodes ran"
	}
	out2, err := encoding.SerializeStructToJSON(s)
	if err != nil || !bytes.Equal(out, out2) {
		return "serialising to JSON twice gives different bytes"
	}
	var doc map[string]any
	if err := json.Unmarshal(out, &doc); err != nil {
		return fmt.Sprintf("JSON output does not parse as an object: %v: %s", err, truncate(string(out), 200))
	}
	want := map[string]any{}
	var order []string
	var wantF []fd
	for _, f := range fieldsFor(s, "json") {
		if f.emit {
			want[f.name] = f.jv
			order = append(order, f.name)
			wantF = append(wantF, f)
		}
	}
	if !reflect.DeepEqual(doc, want) {
		return fmt.Sprintf("JSON object differs from the union of outer and embedded fields:\n  got  %s\n  want %s", truncate(string(out), 300), dumpJSON(want))
	}
	keys, err := jsonTopLevelKeys(out)
	if err != nil || strings.Join(keys, ",") != strings.Join(order, ",") {
		return fmt.Sprintf("JSON member order %v, expected declaration order %v (duplicates would also show here)", keys, order)
	}
	dst := fresh()
	if err := encoding.PopulateStructFromJSON(out, dst); err != nil {
		return fmt.Sprintf("populating a fresh struct from the serialiser's own JSON fails: %v (%s)", err, truncate(string(out), 200))
	}
	if exp := expectedAfter(s, "json"); !reflect.DeepEqual(dst, exp) {
		return fmt.Sprintf("JSON populate(serialise(x)) != x:\n  got  %s\n  want %s", dumpJSON(dst), dumpJSON(exp))
	}
	if plainComparable {
		pb, err := json.Marshal(s)
		if err != nil {
			return "plain JSON marshaller failed: " + err.Error()
		}
		var pdoc map[string]any
		if err := json.Unmarshal(pb, &pdoc); err != nil || !reflect.DeepEqual(pdoc, doc) {
			return fmt.Sprintf("JSON output decodes to a different object than json.Marshal's:\n  helper %s\n  plain  %s", truncate(string(out), 300), truncate(string(pb), 300))
		}
	}
	for _, f := range wantF {
		if f.omit {
			continue
		}
		d2 := map[string]any{}
		for k, v := range doc {
			if k != f.name {
				d2[k] = v
			}
		}
		b, _ := json.Marshal(d2)
		if err := encoding.PopulateStructFromJSON(b, fresh()); err == nil {
			return fmt.Sprintf("JSON populate succeeds although the non-optional member %q is missing", f.name)
		}
		// ... also when a differently-cased spelling of the name is there
		for _, variant := range []string{strings.ToUpper(f.name), strings.ToUpper(f.name[:1]) + f.name[1:]} {
			if _, taken := doc[variant]; taken || variant == f.name {
				continue
			}
			d2[variant] = doc[f.name]
			b, _ := json.Marshal(d2)
			if err := encoding.PopulateStructFromJSON(b, fresh()); err == nil {
				return fmt.Sprintf("JSON populate succeeds although the non-optional member %q is missing (only %q is there)", f.name, variant)
			}
			delete(d2, variant)
		}
	}
	return ""
}

func TestC15_Shapes(t *testing.T) {
	st := NewStats("C15", "TestC15_Shapes", "rapid: nineteen hand-declared struct shapes following the claims convention (flat; one- and two-level embedded struct; embedded interface holding a struct pointer, a struct by value, or nil; empty struct; all-optional struct; a struct whose JSON member names differ only by (Unicode) case; an embedded struct of an unexported type; tag options with omitempty before keyasint; a named field called like its struct type; cbor and json tags that disagree about '-' and omitempty; an integer-kind field type with a text form; keys spelled with leading zeros / a sign; tagged embedded fields of defined NON-struct types; a claim whose value is a plain struct with keyasint, text-keyed and untagged members; open-typed claims (any / map / slice of any) holding numbers and nested containers) x random field values x random subsets of optional fields set. CBOR: output parsed by the independent reader must be ONE definite map whose entries equal, in declaration order, the hand-written union of outer+embedded fields honouring omitempty and '-'; populate(serialise(x)) == x; for shapes without embedding the decoded map equals the plain marshaller's; bytes stable; deleting any non-optional key or duplicating a key (one of the struct's, or one the struct has no field for) makes populate fail. JSON likewise (no duplicate clause; a differently-cased spelling of a missing non-optional member does not stand in for it). Non-trivial = has an embedded level, or is the empty/all-absent struct; distinct = shape + presence mask")
	st.Require = []string{"flat", "embedded-1", "embedded-2", "embedded-iface", "embedded-iface-nil", "embedded-iface-value", "case-fold-names", "embedded-unexported-type", "tag-option-order", "field-named-as-type", "tags-disagree", "text-marshaler-enum", "key-spelling", "embedded-scalar-types", "struct-valued-claim", "open-typed-claims", "empty", "all-optional", "zero-entries"}
	defer st.Flush(t)
	rapid.Check(t, func(t *rapid.T) {
		s, fresh, name := drawShape(t)
		switch rapid.IntRange(0, 7).Draw(t, "special") {
		case 0:
			s, fresh, name = &ShapeNamedAsType{Version: Version{Major: drawInt(t, "major"), Minor: drawInt(t, "minor")}, N: drawOptInt(t, "n")}, func() any { return &ShapeNamedAsType{} }, "field-named-as-type"
		case 2:
			e := &ShapeEnum{Lvl: Level(rapid.IntRange(-3, 300).Draw(t, "lvl")), On: genBool.Draw(t, "on")}
			if genBool.Draw(t, "optlvl") {
				l := Level(rapid.IntRange(0, 70000).Draw(t, "optlvl.v"))
				e.OptLvl = &l
			}
			s, fresh, name = e, func() any { return &ShapeEnum{} }, "text-marshaler-enum"
		case 5:
			sub := func(l string) SubClaims {
				return SubClaims{ID: drawInt(t, l+".id"), Site: drawStr(t, l+".site"), Note: drawStr(t, l+".note")}
			}
			e := &ShapeNested{Sub: sub("sub"), N: drawOptInt(t, "n")}
			if genBool.Draw(t, "psub") {
				ps := sub("psub")
				e.PSub = &ps
			}
			s, fresh, name = e, func() any { return &ShapeNested{} }, "struct-valued-claim"
		case 6:
			vals := []any{nil, float64(3), 1.5, float64(-70000), "text", true, []any{float64(1), "two", []any{float64(3)}}, map[string]any{"k": float64(12288)}, map[string]any{"deep": []any{map[string]any{"n": float64(1 << 40)}}}, float64(1 << 53)}
			pick := func(l string) any { return vals[rapid.IntRange(0, len(vals)-1).Draw(t, l)] }
			e := &ShapeOpen{Any: pick("any"), S: drawStr(t, "s")}
			if genBool.Draw(t, "m") {
				e.M = map[string]any{"x": pick("m.x")}
			}
			if genBool.Draw(t, "l") {
				e.L = []any{pick("l.0"), pick("l.1")}
			}
			s, fresh, name = e, func() any { return &ShapeOpen{} }, "open-typed-claims"
		case 3:
			s, fresh, name = &ShapeKeySpelling{A: drawOptInt(t, "a"), B: drawStr(t, "b"), C: drawOptStr(t, "c"), D: drawInt(t, "d"), E: drawOptInt(t, "e"), F: drawOptInt(t, "f"), G: drawOptInt(t, "g"), H: drawOptStr(t, "h")}, func() any { return &ShapeKeySpelling{} }, "key-spelling"
		case 4:
			e := &ShapeEmbScalar{Label: Label(drawStr(t, "label")), A: drawOptInt(t, "a"), Count: Count(drawInt(t, "count"))}
			if b := drawOptBytes(t, "blob"); b != nil && len(*b) > 0 {
				e.Blob = Blob(*b)
			}
			s, fresh, name = e, func() any { return &ShapeEmbScalar{} }, "embedded-scalar-types"
		case 1:
			s, fresh, name = &ShapeTagsDisagree{Debug: drawStr(t, "debug"), Count: drawOptInt(t, "count"), Secret: drawStr(t, "secret"), Opt: drawOptStr(t, "opt")}, func() any { return &ShapeTagsDisagree{} }, "tags-disagree"
		}
		plain := name == "flat" || name == "empty" || name == "all-optional" || name == "tag-option-order" || name == "field-named-as-type" || name == "tags-disagree" || name == "text-marshaler-enum" || name == "key-spelling" || name == "embedded-scalar-types" || name == "struct-valued-claim" || name == "open-typed-claims"
		if msg := c15CheckCBOR(s, fresh, plain); msg != "" {
			t.Fatalf("C15 violated (CBOR, shape %s): %s", name, msg)
		}
		if msg := c15CheckJSON(s, fresh, plain); msg != "" {
			t.Fatalf("C15 violated (JSON, shape %s): %s", name, msg)
		}
		mask := ""
		n := 0
		for _, f := range s.fields() {
			if f.emit {
				mask += "1"
				n++
			} else {
				mask += "0"
			}
		}
		cls := []string{name}
		if n == 0 {
			cls = append(cls, "zero-entries")
		}
		key := ""
		if strings.HasPrefix(name, "embedded") || n == 0 {
			key = name + "/" + mask
		}
		st.Case(key, cls...)
		if key != "" && st.WantSample() {
			out, _ := encoding.SerializeStructToCBOR(hem, s)
			st.Sample(map[string]string{"shape": name, "presence": mask, "cbor": truncate(hexs(out), 120)})
		}
	})
}

// ---- synthetic sizes around the header boundaries ----

var synthTypes = map[int]reflect.Type{}

func synthType(n int) reflect.Type {
	if t, ok := synthTypes[n]; ok {
		return t
	}
	fs := make([]reflect.StructField, n)
	i64p := reflect.TypeOf((*int64)(nil))
	for i := range fs {
		fs[i] = reflect.StructField{
			Name: fmt.Sprintf("F%d", i),
			Type: i64p,
			Tag:  reflect.StructTag(fmt.Sprintf(`cbor:"%d,keyasint,omitempty" json:"f%d,omitempty"`, i+1, i)),
		}
	}
	t := reflect.StructOf(fs)
	synthTypes[n] = t
	return t
}

type c15SynthIn struct {
	N      int    `json:"fields"`
	Set    int    `json:"set"`    // number of fields set
	Stride int    `json:"stride"` // which ones: indices i with (i*Stride)%N < Set ... see synthMask
	Format string `json:"format"`
}

func synthMask(n, set, stride int) []bool {
	m := make([]bool, n)
	if n == 0 {
		return m
	}
	// deterministic spread: walk with a stride coprime to n
	for stride%2 == 0 || (n%stride == 0 && stride != 1) {
		stride++
	}
	idx := 0
	for c := 0; c < set; c++ {
		for m[idx] {
			idx = (idx + 1) % n
		}
		m[idx] = true
		idx = (idx + stride) % n
	}
	return m
}

var c15SynthKind = registerKind("c15synth", func(in c15SynthIn) string {
	typ := synthType(in.N)
	v := reflect.New(typ)
	mask := synthMask(in.N, in.Set, in.Stride)
	for i, on := range mask {
		if on {
			x := int64(i)*3 - 7
			v.Elem().Field(i).Set(reflect.ValueOf(&x))
		}
	}
	if in.Format == "json" {
		out, err := encoding.SerializeStructToJSON(v.Interface())
		if err != nil {
			return "SerializeStructToJSON failed: " + err.Error()
		}
		var doc map[string]any
		if err := json.Unmarshal(out, &doc); err != nil {
			return "JSON output does not parse: " + err.Error()
		}
		if len(doc) != in.Set {
			return fmt.Sprintf("JSON object has %d members, %d fields are set", len(doc), in.Set)
		}
		for i, on := range mask {
			if on {
				if got, ok := doc[fmt.Sprintf("f%d", i)]; !ok || got != float64(int64(i)*3-7) {
					return fmt.Sprintf("member f%d is %v", i, got)
				}
			}
		}
		dst := reflect.New(typ)
		if err := encoding.PopulateStructFromJSON(out, dst.Interface()); err != nil {
			return fmt.Sprintf("JSON populate of the serialiser's own output fails with %d entries: %v", in.Set, err)
		}
		if !reflect.DeepEqual(dst.Interface(), v.Interface()) {
			return "JSON populate(serialise(x)) != x"
		}
		if in.N <= 300 {
			pb, err := json.Marshal(v.Interface())
			var pdoc map[string]any
			if err != nil || json.Unmarshal(pb, &pdoc) != nil || !reflect.DeepEqual(pdoc, doc) {
				return "JSON output differs from json.Marshal's object"
			}
		}
		return ""
	}
	out, err := encoding.SerializeStructToCBOR(hem, v.Interface())
	if err != nil {
		return "SerializeStructToCBOR failed: " + err.Error()
	}
	n, fl, err := icbor.Read(out)
	if err != nil {
		return fmt.Sprintf("output with %d entries is not one well-formed CBOR item (%v); first bytes %s", in.Set, err, truncate(hexs(out), 40))
	}
	if n.Kind != icbor.KMap || fl.HasIndef {
		return "output is not a definite-length map"
	}
	if len(n.Pairs) != in.Set {
		return fmt.Sprintf("map header/entries say %d, %d fields are set; first bytes %s", len(n.Pairs), in.Set, truncate(hexs(out), 40))
	}
	pi := 0
	for i, on := range mask {
		if !on {
			continue
		}
		k, _ := n.Pairs[pi][0].Int()
		val, _ := n.Pairs[pi][1].Int()
		if k != int64(i+1) || val != int64(i)*3-7 {
			return fmt.Sprintf("entry %d is %d:%d, expected %d:%d", pi, k, val, i+1, int64(i)*3-7)
		}
		pi++
	}
	dst := reflect.New(typ)
	if err := encoding.PopulateStructFromCBOR(hdm, out, dst.Interface()); err != nil {
		return fmt.Sprintf("populate of the serialiser's own output fails with %d entries: %v (first bytes %s)", in.Set, err, truncate(hexs(out), 40))
	}
	if !reflect.DeepEqual(dst.Interface(), v.Interface()) {
		return "populate(serialise(x)) != x"
	}
	if in.N <= 300 {
		pb, err := hem.Marshal(v.Interface())
		if err != nil {
			return "plain marshal failed: " + err.Error()
		}
		pn, _, err := icbor.Read(pb)
		if err != nil || !icbor.Equal(icbor.Canonical(pn), icbor.Canonical(n)) {
			return "output decodes to a different map than the plain CBOR marshaller's"
		}
	}
	return ""
})

func TestC15_Sizes(t *testing.T) {
	st := NewStats("C15", "TestC15_Sizes", "enumeration: reflect.StructOf-built flat structs of N optional integer fields; for every entry count 0..N (N<=257 in both formats; quick adds 65535/65536 entries in CBOR, thorough adds 65537 and 70000 in CBOR and one 70000 JSON case) with three different placements of the set fields: header length vs entries via the independent reader, exact keys/values in declaration order, populate round trip (reflect.DeepEqual), plain-marshaller differential for N<=300. Non-trivial = entry count within 2 of a header boundary (0, 23/24, 255/256, 65535/65536) or the empty map; distinct = (N, count, placement, format)")
	st.Exhaustive = true
	st.Require = []string{"boundary", "cbor", "json"}
	defer st.Flush(t)
	shard, shards := shardInfo()
	idx := 0
	run := func(in c15SynthIn) {
		idx++
		if idx%shards != shard {
			return
		}
		msg := c15SynthKind(in)
		near := func(b int) bool { return in.Set >= b-2 && in.Set <= b+2 }
		nt := in.Set == 0 || near(23) || near(24) || near(255) || near(256) || near(65535) || near(65536)
		key := ""
		cls := []string{in.Format}
		if nt {
			key = fmt.Sprintf("%d/%d/%d/%s", in.N, in.Set, in.Stride, in.Format)
			cls = append(cls, "boundary")
		}
		st.Case(key, cls...)
		if nt && st.WantSample() && in.Set > 20 {
			st.Sample(in)
		}
		if msg != "" {
			reportCase(t, "C15", "c15synth", in, msg)
		}
	}
	for _, format := range []string{"cbor", "json"} {
		for _, n := range []int{0, 1, 30, 257} {
			for set := 0; set <= n; set++ {
				for _, stride := range []int{1, 7, 101} {
					run(c15SynthIn{n, set, stride, format})
					if set == 0 || set == n {
						break
					}
				}
			}
		}
	}
	big := []int{65535, 65536}
	if thorough() {
		big = append(big, 65537, 70000)
	}
	for _, n := range big {
		run(c15SynthIn{n, n, 1, "cbor"})
	}
	run(c15SynthIn{65537, 65535, 7, "cbor"})
	run(c15SynthIn{65537, 65536, 7, "cbor"})
	if thorough() {
		run(c15SynthIn{70000, 70000, 1, "json"})
		run(c15SynthIn{70000, 65536, 3, "cbor"})
	}
}

// ---- extension profiles built on each base profile ----

func setExtTimestamp(c psatoken.IClaims, ts *int64) {
	switch e := c.(type) {
	case *ExtP2Claims:
		e.Timestamp = ts
	case *ExtP1Claims:
		e.Timestamp = ts
	}
}

// buildExt realises a valid model value on an extension claims instance.
func buildExt(m *MClaims, ts *int64) (psatoken.IClaims, error) {
	var c psatoken.IClaims
	if m.Prof == P2 {
		c = newExtP2Claims()
	} else {
		c = newExtP1Claims()
	}
	b, err := m.BuildSetters()
	if err != nil {
		return nil, err
	}
	// copy the claims the setters produced into the embedded base struct
	switch e := c.(type) {
	case *ExtP2Claims:
		src := b.(*psatoken.P2Claims)
		prof, canon := e.Profile, e.CanonicalProfile
		e.P2Claims = *src
		e.Profile, e.CanonicalProfile = prof, canon
	case *ExtP1Claims:
		src := b.(*psatoken.P1Claims)
		prof, canon := e.Profile, e.CanonicalProfile
		e.P1Claims = *src
		e.Profile, e.CanonicalProfile = prof, canon
	}
	setExtTimestamp(c, ts)
	return c, nil
}

func extWirePairs(m *MClaims, ts *int64) map[int64]*icbor.Node {
	r := map[int64]*icbor.Node{}
	for _, p := range m.WirePairs() {
		k, _ := p[0].Int()
		r[k] = p[1]
	}
	if m.Prof == P2 {
		r[265] = icbor.Tstr(ExtP2Name)
	} else {
		r[-75000] = icbor.Tstr(ExtP1Name)
	}
	if ts != nil {
		r[-75100] = icbor.I(*ts)
	}
	return r
}

func TestC15_Extensions(t *testing.T) {
	st := NewStats("C15", "TestC15_Extensions", "rapid: six styles of extension profile (extstyles_test.go: struct embedding P1Claims / P2Claims plus one extra optional claim with codec methods routed through the embedding-aware helpers, as documented in example_extensions_test.go; derived profiles inheriting every method, one without profile claim, one named by an OID; an extra claim whose Go field name shadows a field of the embedded claims; an extension of an extension) x valid claims-sets x own claims present/absent: the CBOR is one definite map equal (as a key->value map, read independently) to the base profile's wire map plus the profile claim and the extra keys; decoding it (through the dispatcher where the style can be dispatched, and into a fresh instance) reproduces every getter, the own claims, and byte-identical CBOR; JSON round trip likewise. Non-trivial = every case (embedded level present); distinct = style + class vector + own-claim classes")
	st.Require = []string{"ext-on-P1", "ext-on-P2", "ts-absent", "ts-present", "style=ext-p2", "style=ext-p1", "style=inherit-p1", "style=inherit-p2-oid", "style=shadow-p2", "style=nested-p2", "style=lookalike-key-p2"}
	defer st.Flush(t)
	withExtStyles(func() {
		rapid.Check(t, func(t *rapid.T) {
			s := extStyles[rapid.IntRange(0, len(extStyles)-1).Draw(t, "style")]
			p := s.Base
			m := GenValid(t, p, true)
			if p == P1 {
				m.Profile = sp(P1Name) // BuildSetters route keeps the explicit profile
			}
			var own []*int64
			present := false
			for i := range s.OwnKeys {
				ts := drawOptInt(t, fmt.Sprintf("own%d", i))
				if ts != nil && *ts < 0 {
					*ts = -*ts
				}
				if extRuleBroken(ts) {
					*ts = 14 // keep clear of the values the extension's own rule rejects
				}
				present = present || ts != nil
				own = append(own, ts)
			}
			c, err := s.build(m, own...)
			if err != nil {
				t.Fatalf("cannot build extension claims: %v", err)
			}
			if msg := s.roundTrips(c, m, "both", own...); msg != "" {
				t.Fatalf("C15 violated: %s\n  [%s]", msg, m.ClassVector())
			}
			cls := []string{"ext-on-" + p.String(), "style=" + s.Label}
			if !present {
				cls = append(cls, "ts-absent")
			} else {
				cls = append(cls, "ts-present")
			}
			st.Case(fmt.Sprintf("%s|%s|%v", s.Label, m.ClassVector(), len(own)), cls...)
			if st.WantSample() {
				out, _ := psatoken.EncodeClaimsToCBOR(c)
				st.Sample(map[string]string{"style": s.Label, "claims": m.ClassVector(), "cbor": truncate(hexs(out), 160)})
			}
		})
	})
}

func extTimestamp(c psatoken.IClaims) *int64 {
	switch e := c.(type) {
	case *ExtP2Claims:
		return e.Timestamp
	case *ExtP1Claims:
		return e.Timestamp
	}
	return nil
}

// ---- populate calls must not influence one another ----

// every key / member name used by some shape of the family
var c15AllCBORKeys = []int64{1, 2, 3, -4, 5, 600, -70000, 10, 11, 20, 21, 30, 40, 41, 50, 51}
var c15AllJSONNames = []string{"a", "b", "c", "d", "e", "f", "g", "x", "y", "p", "q", "z", "r", "s", "t", "u"}

func TestC15_Sequences(t *testing.T) {
	st := NewStats("C15", "TestC15_Sequences", "rapid: sequences of 2..8 populate calls (CBOR and JSON mixed) over the shape family; every input is the serialiser's output for a drawn value, plus 0..3 extra entries the destination does not know but OTHER shapes do (same key numbers / member names, well-typed values), and, in a third of the steps, minus one non-optional key. Each call is judged on its own, independent of the history: success with populate == value (unknown entries ignored), or an error when a non-optional key is missing. Catches state carried from one call to the next (recycled containers). Non-trivial = sequence has an extra entry in one step and a missing key later; distinct = sequence of (shape, format, extras, dropped)")
	st.Require = []string{"extras", "dropped-mandatory", "cbor", "json"}
	defer st.Flush(t)
	rapid.Check(t, func(t *rapid.T) {
		n := rapid.IntRange(2, 8).Draw(t, "steps")
		var trace []string
		sawExtra, sawDropAfterExtra := false, false
		for i := 0; i < n; i++ {
			s, fresh, name := drawShape(t)
			format := rapid.SampledFrom([]string{"cbor", "json"}).Draw(t, "format")
			own := map[string]bool{}
			var mand []fd
			for _, f := range s.fields() {
				own[fmt.Sprint(f.key)] = true
				own[f.name] = true
				if f.emit && !f.omit {
					mand = append(mand, f)
				}
			}
			// also names the shape knows but did not emit
			nExtra := rapid.IntRange(0, 3).Draw(t, "nextra")
			drop := -1
			if len(mand) > 0 && rapid.IntRange(0, 2).Draw(t, "drop") == 0 {
				drop = rapid.IntRange(0, len(mand)-1).Draw(t, "dropidx")
			}
			step := fmt.Sprintf("%s/%s", name, format)
			var err error
			dst := fresh()
			if format == "cbor" {
				out, serr := encoding.SerializeStructToCBOR(hem, s)
				if serr != nil {
					t.Fatalf("C15: serialise failed: %v", serr)
				}
				node, _, _ := icbor.Read(out)
				var ps [][2]*icbor.Node
				for _, pr := range node.Pairs {
					if k, _ := pr[0].Int(); drop >= 0 && k == mand[drop].key {
						continue
					}
					ps = append(ps, pr)
				}
				for e := 0; e < nExtra; e++ {
					k := rapid.SampledFrom(c15AllCBORKeys).Draw(t, "extrakey")
					if own[fmt.Sprint(k)] || allShapeKeyOwned(s, k) {
						continue
					}
					dup := false
					for _, pr := range ps {
						if kk, _ := pr[0].Int(); kk == k {
							dup = true
						}
					}
					if dup {
						continue
					}
					v := rapid.SampledFrom([]*icbor.Node{icbor.Tstr("stale"), icbor.I(77), icbor.Bstr([]byte{7, 7})}).Draw(t, "extraval")
					ps = append(ps, icbor.P(icbor.I(k), v))
					step += fmt.Sprintf("+%d", k)
					sawExtra = true
				}
				err = encoding.PopulateStructFromCBOR(hdm, icbor.Encode(icbor.Map(ps...)), dst)
			} else {
				out, serr := encoding.SerializeStructToJSON(s)
				if serr != nil {
					t.Fatalf("C15: serialise failed: %v", serr)
				}
				root, perr := parseJN(out)
				if perr != nil {
					t.Fatalf("C15: serialiser's JSON does not parse: %v", perr)
				}
				o := jObj()
				for ki, k := range root.keys {
					if drop >= 0 && k == mand[drop].name {
						continue
					}
					o.keys = append(o.keys, k)
					o.vals = append(o.vals, root.vals[ki])
				}
				for e := 0; e < nExtra; e++ {
					k := rapid.SampledFrom(c15AllJSONNames).Draw(t, "extraname")
					if own[k] || allShapeNameOwned(s, k) {
						continue
					}
					dup := false
					for _, kk := range o.keys {
						if kk == k {
							dup = true
						}
					}
					if dup {
						continue
					}
					v := rapid.SampledFrom([]*jn{jStr("stale"), jNum("77"), jStr("Bwc=")}).Draw(t, "extraval")
					o.keys = append(o.keys, k)
					o.vals = append(o.vals, v)
					step += "+" + k
					sawExtra = true
				}
				err = encoding.PopulateStructFromJSON([]byte(o.String()), dst)
			}
			if drop >= 0 {
				step += fmt.Sprintf("-%s", mand[drop].name)
				if sawExtra {
					sawDropAfterExtra = true
				}
			}
			trace = append(trace, step)
			if drop >= 0 {
				if err == nil {
					t.Fatalf("C15 violated: populate succeeds although the non-optional key %d / %q is missing from the input (call %d of the sequence %v): the result depends on earlier calls", mand[drop].key, mand[drop].name, i+1, trace)
				}
				continue
			}
			if err != nil {
				t.Fatalf("C15 violated: populate of the serialiser's output plus unknown entries fails: %v (call %d of %v)", err, i+1, trace)
			}
			if exp := stripHidden(s); !reflect.DeepEqual(dst, exp) {
				t.Fatalf("C15 violated: populate gives a value that differs from the serialised one (call %d of %v):\n  got  %s\n  want %s", i+1, trace, dumpJSON(dst), dumpJSON(exp))
			}
		}
		var cls []string
		if sawExtra {
			cls = append(cls, "extras")
		}
		if strings.Contains(strings.Join(trace, " "), "-") {
			cls = append(cls, "dropped-mandatory")
		}
		if strings.Contains(strings.Join(trace, " "), "/cbor") {
			cls = append(cls, "cbor")
		}
		if strings.Contains(strings.Join(trace, " "), "/json") {
			cls = append(cls, "json")
		}
		key := ""
		if sawDropAfterExtra {
			key = strings.Join(trace, ";")
		}
		st.Case(key, cls...)
		if key != "" && st.WantSample() {
			st.Sample(trace)
		}
	})
}

// allShapeKeyOwned / allShapeNameOwned: does the shape TYPE know the key
// (including fields that are currently not emitted)?
func allShapeKeyOwned(s shape, k int64) bool {
	for _, kk := range shapeTypeKeys(s) {
		if kk == fmt.Sprint(k) {
			return true
		}
	}
	return false
}

func allShapeNameOwned(s shape, name string) bool {
	for _, kk := range shapeTypeKeys(s) {
		if kk == name {
			return true
		}
	}
	return false
}

func shapeTypeKeys(s shape) []string {
	inner := []string{"10", "11", "x", "y"}
	switch s.(type) {
	case *ShapeFlat:
		return []string{"1", "2", "3", "-4", "5", "600", "-70000", "a", "b", "c", "d", "e", "f", "g"}
	case *ShapeOuter1:
		return append([]string{"20", "21", "p", "q"}, inner...)
	case *ShapeMid:
		return append([]string{"30", "z"}, inner...)
	case *ShapeOuter2:
		return append([]string{"40", "41", "r", "s", "30", "z"}, inner...)
	case *ShapeOuterI:
		return append([]string{"50", "51", "t", "u"}, inner...)
	case *ShapeAllOptional:
		return []string{"1", "2", "a", "b"}
	}
	return nil
}
