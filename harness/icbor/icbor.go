// Package icbor is an independent, from-scratch CBOR (RFC 8949) encoder and
// strict reader used by the verification harness both to assemble inputs the
// library must judge and to parse what the library emits. It deliberately
// imports nothing but the standard library.
package icbor

import (
	"bytes"
	"encoding/binary"
	"encoding/hex"
	"errors"
	"fmt"
	"math"
	"strings"
	"unicode/utf8"
)

type Kind int

const (
	KUint Kind = iota
	KNint
	KBytes
	KText
	KArray
	KMap
	KTag
	KSimple
	KFloat
	KRaw // encode-only: B is emitted verbatim (used to splice deliberately lying / malformed bytes into a tree)
)

func (k Kind) String() string {
	return [...]string{"uint", "nint", "bstr", "tstr", "array", "map", "tag", "simple", "float", "raw"}[k]
}

// Node is one CBOR data item together with the encoding choices used for it.
type Node struct {
	Kind Kind
	// U: uint value; for nint the argument n (value is -1-n); tag number;
	// simple value; raw float bits (of width FloatW).
	U     uint64
	B     []byte     // content of bstr / tstr
	Items []*Node    // array items; for a tag, Items[0] is the content
	Pairs [][2]*Node // map entries in wire order (duplicates allowed)

	// Encoding choices.
	HeadW  int   // 0 = preferred argument width; 1,2,4,8 = that many argument bytes
	Indef  bool  // indefinite-length bstr/tstr/array/map
	Chunks []int // chunk sizes for indefinite strings (nil = one chunk)
	FloatW int   // 2, 4 or 8 for floats
}

// ---- constructors ----

func U(v uint64) *Node { return &Node{Kind: KUint, U: v} }
func I(v int64) *Node {
	if v >= 0 {
		return &Node{Kind: KUint, U: uint64(v)}
	}
	return &Node{Kind: KNint, U: uint64(-1 - v)}
}
func NintArg(n uint64) *Node { return &Node{Kind: KNint, U: n} }
func Bstr(b []byte) *Node    { return &Node{Kind: KBytes, B: append([]byte{}, b...)} }
func Tstr(s string) *Node    { return &Node{Kind: KText, B: []byte(s)} }
func Arr(items ...*Node) *Node {
	return &Node{Kind: KArray, Items: items}
}
func Map(pairs ...[2]*Node) *Node { return &Node{Kind: KMap, Pairs: pairs} }
func P(k, v *Node) [2]*Node       { return [2]*Node{k, v} }
func Tag(n uint64, c *Node) *Node { return &Node{Kind: KTag, U: n, Items: []*Node{c}} }
func Simple(v uint8) *Node        { return &Node{Kind: KSimple, U: uint64(v)} }
func Raw(b []byte) *Node          { return &Node{Kind: KRaw, B: append([]byte{}, b...)} }
func Null() *Node                 { return Simple(22) }
func Undef() *Node                { return Simple(23) }
func Bool(b bool) *Node {
	if b {
		return Simple(21)
	}
	return Simple(20)
}
func F64(f float64) *Node { return &Node{Kind: KFloat, U: math.Float64bits(f), FloatW: 8} }
func F32(f float32) *Node { return &Node{Kind: KFloat, U: uint64(math.Float32bits(f)), FloatW: 4} }
func F16bits(b uint16) *Node {
	return &Node{Kind: KFloat, U: uint64(b), FloatW: 2}
}

// With returns a shallow copy with the given head width forced.
func (n *Node) WithHead(w int) *Node { c := *n; c.HeadW = w; return &c }
func (n *Node) WithIndef(chunks ...int) *Node {
	c := *n
	c.Indef = true
	c.Chunks = chunks
	return &c
}

// Clone makes a deep copy.
func (n *Node) Clone() *Node {
	if n == nil {
		return nil
	}
	c := *n
	c.B = append([]byte(nil), n.B...)
	if n.B != nil && c.B == nil {
		c.B = []byte{}
	}
	c.Chunks = append([]int(nil), n.Chunks...)
	if n.Items != nil {
		c.Items = make([]*Node, len(n.Items))
		for i, it := range n.Items {
			c.Items[i] = it.Clone()
		}
	}
	if n.Pairs != nil {
		c.Pairs = make([][2]*Node, len(n.Pairs))
		for i, p := range n.Pairs {
			c.Pairs[i] = [2]*Node{p[0].Clone(), p[1].Clone()}
		}
	}
	return &c
}

func (n *Node) IsNull() bool  { return n.Kind == KSimple && n.U == 22 }
func (n *Node) IsUndef() bool { return n.Kind == KSimple && n.U == 23 }

// Int returns the integer value of a uint/nint node if it fits an int64.
func (n *Node) Int() (int64, bool) {
	switch n.Kind {
	case KUint:
		if n.U <= math.MaxInt64 {
			return int64(n.U), true
		}
	case KNint:
		if n.U <= math.MaxInt64 {
			return -1 - int64(n.U), true
		}
	}
	return 0, false
}

// MapGet returns the first value under an integer key.
func (n *Node) MapGet(key int64) *Node {
	if n.Kind != KMap {
		return nil
	}
	for _, p := range n.Pairs {
		if v, ok := p[0].Int(); ok && v == key {
			return p[1]
		}
	}
	return nil
}

// ---- encoder ----

func minWidth(v uint64) int {
	switch {
	case v < 24:
		return 0
	case v <= math.MaxUint8:
		return 1
	case v <= math.MaxUint16:
		return 2
	case v <= math.MaxUint32:
		return 4
	}
	return 8
}

func appendHead(out []byte, major byte, v uint64, forceW int) []byte {
	w := minWidth(v)
	if forceW > w {
		w = forceW
	}
	switch w {
	case 0:
		return append(out, major<<5|byte(v))
	case 1:
		return append(out, major<<5|24, byte(v))
	case 2:
		out = append(out, major<<5|25)
		return binary.BigEndian.AppendUint16(out, uint16(v))
	case 4:
		out = append(out, major<<5|26)
		return binary.BigEndian.AppendUint32(out, uint32(v))
	default:
		out = append(out, major<<5|27)
		return binary.BigEndian.AppendUint64(out, v)
	}
}

// Encode serialises the node, honouring its encoding choices.
func Encode(n *Node) []byte { return AppendEncode(nil, n) }

func AppendEncode(out []byte, n *Node) []byte {
	switch n.Kind {
	case KUint:
		return appendHead(out, 0, n.U, n.HeadW)
	case KNint:
		return appendHead(out, 1, n.U, n.HeadW)
	case KBytes, KText:
		major := byte(2)
		if n.Kind == KText {
			major = 3
		}
		if !n.Indef {
			out = appendHead(out, major, uint64(len(n.B)), n.HeadW)
			return append(out, n.B...)
		}
		out = append(out, major<<5|31)
		rest := n.B
		chunks := n.Chunks
		if chunks == nil {
			chunks = []int{len(rest)}
		}
		for _, c := range chunks {
			if c > len(rest) {
				c = len(rest)
			}
			out = appendHead(out, major, uint64(c), 0)
			out = append(out, rest[:c]...)
			rest = rest[c:]
		}
		if len(rest) > 0 {
			out = appendHead(out, major, uint64(len(rest)), 0)
			out = append(out, rest...)
		}
		return append(out, 0xff)
	case KArray:
		if n.Indef {
			out = append(out, 4<<5|31)
		} else {
			out = appendHead(out, 4, uint64(len(n.Items)), n.HeadW)
		}
		for _, it := range n.Items {
			out = AppendEncode(out, it)
		}
		if n.Indef {
			out = append(out, 0xff)
		}
		return out
	case KMap:
		if n.Indef {
			out = append(out, 5<<5|31)
		} else {
			out = appendHead(out, 5, uint64(len(n.Pairs)), n.HeadW)
		}
		for _, p := range n.Pairs {
			out = AppendEncode(out, p[0])
			out = AppendEncode(out, p[1])
		}
		if n.Indef {
			out = append(out, 0xff)
		}
		return out
	case KRaw:
		return append(out, n.B...)
	case KTag:
		out = appendHead(out, 6, n.U, n.HeadW)
		return AppendEncode(out, n.Items[0])
	case KSimple:
		if n.U < 24 && n.HeadW == 0 {
			return append(out, 7<<5|byte(n.U))
		}
		return append(out, 7<<5|24, byte(n.U))
	case KFloat:
		switch n.FloatW {
		case 2:
			out = append(out, 7<<5|25)
			return binary.BigEndian.AppendUint16(out, uint16(n.U))
		case 4:
			out = append(out, 7<<5|26)
			return binary.BigEndian.AppendUint32(out, uint32(n.U))
		default:
			out = append(out, 7<<5|27)
			return binary.BigEndian.AppendUint64(out, n.U)
		}
	}
	panic("icbor: bad node kind")
}

// ---- strict reader ----

// Flags summarise encoding features seen anywhere in an item.
type Flags struct {
	HasIndef     bool
	HasTag       bool
	HasDupKeys   bool // duplicate keys in some map (compared by encoded bytes of the key's preferred form)
	NonPreferred bool // some head uses more argument bytes than necessary
	InvalidUTF8  bool
	MaxDepth     int
}

var (
	ErrTruncated = errors.New("icbor: truncated")
	ErrMalformed = errors.New("icbor: malformed")
	ErrTrailing  = errors.New("icbor: trailing bytes")
	ErrDepth     = errors.New("icbor: nesting too deep")
)

const maxDepth = 512

type reader struct {
	b     []byte
	pos   int
	flags Flags
}

// Read parses exactly one data item; trailing bytes are an error.
func Read(b []byte) (*Node, Flags, error) {
	n, rest, fl, err := ReadFirst(b)
	if err != nil {
		return nil, fl, err
	}
	if len(rest) != 0 {
		return n, fl, ErrTrailing
	}
	return n, fl, nil
}

// ReadFirst parses the first data item and returns the remaining bytes.
func ReadFirst(b []byte) (*Node, []byte, Flags, error) {
	r := &reader{b: b}
	n, err := r.item(1)
	if err != nil {
		return nil, nil, r.flags, err
	}
	return n, b[r.pos:], r.flags, nil
}

func (r *reader) head() (major byte, ai byte, arg uint64, w int, err error) {
	if r.pos >= len(r.b) {
		return 0, 0, 0, 0, ErrTruncated
	}
	ib := r.b[r.pos]
	r.pos++
	major, ai = ib>>5, ib&0x1f
	switch {
	case ai < 24:
		return major, ai, uint64(ai), 0, nil
	case ai == 24:
		w = 1
	case ai == 25:
		w = 2
	case ai == 26:
		w = 4
	case ai == 27:
		w = 8
	case ai == 31:
		return major, ai, 0, 0, nil
	default:
		return 0, 0, 0, 0, fmt.Errorf("%w: reserved additional info %d", ErrMalformed, ai)
	}
	if r.pos+w > len(r.b) {
		return 0, 0, 0, 0, ErrTruncated
	}
	switch w {
	case 1:
		arg = uint64(r.b[r.pos])
	case 2:
		arg = uint64(binary.BigEndian.Uint16(r.b[r.pos:]))
	case 4:
		arg = uint64(binary.BigEndian.Uint32(r.b[r.pos:]))
	case 8:
		arg = binary.BigEndian.Uint64(r.b[r.pos:])
	}
	r.pos += w
	return major, ai, arg, w, nil
}

func (r *reader) item(depth int) (*Node, error) {
	if depth > maxDepth {
		return nil, ErrDepth
	}
	if depth > r.flags.MaxDepth {
		r.flags.MaxDepth = depth
	}
	major, ai, arg, w, err := r.head()
	if err != nil {
		return nil, err
	}
	notePref := func(n *Node) {
		if w > minWidth(arg) {
			n.HeadW = w
			r.flags.NonPreferred = true
		}
	}
	switch major {
	case 0, 1:
		if ai == 31 {
			return nil, fmt.Errorf("%w: indefinite integer", ErrMalformed)
		}
		n := &Node{Kind: KUint, U: arg}
		if major == 1 {
			n.Kind = KNint
		}
		notePref(n)
		return n, nil
	case 2, 3:
		n := &Node{Kind: KBytes}
		if major == 3 {
			n.Kind = KText
		}
		if ai == 31 {
			r.flags.HasIndef = true
			n.Indef = true
			n.B = []byte{}
			n.Chunks = []int{}
			for {
				if r.pos >= len(r.b) {
					return nil, ErrTruncated
				}
				if r.b[r.pos] == 0xff {
					r.pos++
					break
				}
				m2, ai2, arg2, w2, err := r.head()
				if err != nil {
					return nil, err
				}
				if m2 != major || ai2 == 31 {
					return nil, fmt.Errorf("%w: bad chunk in indefinite string", ErrMalformed)
				}
				if w2 > minWidth(arg2) {
					r.flags.NonPreferred = true
				}
				if arg2 > uint64(len(r.b)-r.pos) {
					return nil, ErrTruncated
				}
				chunk := r.b[r.pos : r.pos+int(arg2)]
				if major == 3 && !utf8.Valid(chunk) {
					r.flags.InvalidUTF8 = true
				}
				n.B = append(n.B, chunk...)
				n.Chunks = append(n.Chunks, int(arg2))
				r.pos += int(arg2)
			}
			return n, nil
		}
		notePref(n)
		if arg > uint64(len(r.b)-r.pos) {
			return nil, ErrTruncated
		}
		n.B = append([]byte{}, r.b[r.pos:r.pos+int(arg)]...)
		r.pos += int(arg)
		if major == 3 && !utf8.Valid(n.B) {
			r.flags.InvalidUTF8 = true
		}
		return n, nil
	case 4:
		n := &Node{Kind: KArray, Items: []*Node{}}
		if ai == 31 {
			r.flags.HasIndef = true
			n.Indef = true
			for {
				if r.pos >= len(r.b) {
					return nil, ErrTruncated
				}
				if r.b[r.pos] == 0xff {
					r.pos++
					return n, nil
				}
				it, err := r.item(depth + 1)
				if err != nil {
					return nil, err
				}
				n.Items = append(n.Items, it)
			}
		}
		notePref(n)
		if arg > uint64(len(r.b)-r.pos) {
			return nil, ErrTruncated
		}
		for i := uint64(0); i < arg; i++ {
			it, err := r.item(depth + 1)
			if err != nil {
				return nil, err
			}
			n.Items = append(n.Items, it)
		}
		return n, nil
	case 5:
		n := &Node{Kind: KMap, Pairs: [][2]*Node{}}
		seen := map[string]bool{}
		add := func() error {
			k, err := r.item(depth + 1)
			if err != nil {
				return err
			}
			v, err := r.item(depth + 1)
			if err != nil {
				return err
			}
			ck := string(Encode(canonical(k)))
			if seen[ck] {
				r.flags.HasDupKeys = true
			}
			seen[ck] = true
			n.Pairs = append(n.Pairs, [2]*Node{k, v})
			return nil
		}
		if ai == 31 {
			r.flags.HasIndef = true
			n.Indef = true
			for {
				if r.pos >= len(r.b) {
					return nil, ErrTruncated
				}
				if r.b[r.pos] == 0xff {
					r.pos++
					return n, nil
				}
				if err := add(); err != nil {
					return nil, err
				}
			}
		}
		notePref(n)
		if arg > uint64(len(r.b)-r.pos)/2+1 {
			return nil, ErrTruncated
		}
		for i := uint64(0); i < arg; i++ {
			if err := add(); err != nil {
				return nil, err
			}
		}
		return n, nil
	case 6:
		if ai == 31 {
			return nil, fmt.Errorf("%w: indefinite tag", ErrMalformed)
		}
		r.flags.HasTag = true
		n := &Node{Kind: KTag, U: arg}
		notePref(n)
		c, err := r.item(depth + 1)
		if err != nil {
			return nil, err
		}
		n.Items = []*Node{c}
		return n, nil
	default: // 7
		switch {
		case ai < 24:
			return &Node{Kind: KSimple, U: uint64(ai)}, nil
		case ai == 24:
			if arg < 32 {
				return nil, fmt.Errorf("%w: two-byte simple value < 32", ErrMalformed)
			}
			return &Node{Kind: KSimple, U: arg}, nil
		case ai == 25:
			return &Node{Kind: KFloat, U: arg, FloatW: 2}, nil
		case ai == 26:
			return &Node{Kind: KFloat, U: arg, FloatW: 4}, nil
		case ai == 27:
			return &Node{Kind: KFloat, U: arg, FloatW: 8}, nil
		default:
			return nil, fmt.Errorf("%w: unexpected break", ErrMalformed)
		}
	}
}

// canonical strips all encoding choices (deep copy).
func canonical(n *Node) *Node {
	c := n.Clone()
	var walk func(*Node)
	walk = func(x *Node) {
		x.HeadW = 0
		x.Indef = false
		x.Chunks = nil
		for _, it := range x.Items {
			walk(it)
		}
		for _, p := range x.Pairs {
			walk(p[0])
			walk(p[1])
		}
	}
	walk(c)
	return c
}

// Canonical returns a deep copy with every encoding choice reset to the
// preferred, definite-length form (order of map entries is kept).
func Canonical(n *Node) *Node { return canonical(n) }

// Equal compares two nodes as data (ignoring encoding choices; map entry order
// is significant).
func Equal(a, b *Node) bool {
	return bytes.Equal(Encode(canonical(a)), Encode(canonical(b)))
}

// ---- diagnostic notation (for samples and messages) ----

func Diag(n *Node) string {
	var sb strings.Builder
	diag(&sb, n)
	return sb.String()
}

func diag(sb *strings.Builder, n *Node) {
	if n == nil {
		sb.WriteString("<nil>")
		return
	}
	suffix := ""
	if n.HeadW != 0 {
		suffix = fmt.Sprintf("_%d", map[int]int{1: 0, 2: 1, 4: 2, 8: 3}[n.HeadW])
	}
	switch n.Kind {
	case KUint:
		fmt.Fprintf(sb, "%d%s", n.U, suffix)
	case KNint:
		if n.U <= math.MaxInt64 {
			fmt.Fprintf(sb, "%d%s", -1-int64(n.U), suffix)
		} else {
			fmt.Fprintf(sb, "-1-%d%s", n.U, suffix)
		}
	case KBytes:
		if n.Indef {
			fmt.Fprintf(sb, "(_ h'%s')", hex.EncodeToString(n.B))
		} else {
			fmt.Fprintf(sb, "h'%s'%s", hex.EncodeToString(n.B), suffix)
		}
	case KText:
		if n.Indef {
			fmt.Fprintf(sb, "(_ %q)", string(n.B))
		} else {
			fmt.Fprintf(sb, "%q%s", string(n.B), suffix)
		}
	case KArray:
		sb.WriteString("[")
		if n.Indef {
			sb.WriteString("_ ")
		}
		sb.WriteString(strings.TrimPrefix(suffix+" ", " "))
		for i, it := range n.Items {
			if i > 0 {
				sb.WriteString(", ")
			}
			diag(sb, it)
		}
		sb.WriteString("]")
	case KMap:
		sb.WriteString("{")
		if n.Indef {
			sb.WriteString("_ ")
		}
		sb.WriteString(strings.TrimPrefix(suffix+" ", " "))
		for i, p := range n.Pairs {
			if i > 0 {
				sb.WriteString(", ")
			}
			diag(sb, p[0])
			sb.WriteString(": ")
			diag(sb, p[1])
		}
		sb.WriteString("}")
	case KTag:
		fmt.Fprintf(sb, "%d%s(", n.U, suffix)
		diag(sb, n.Items[0])
		sb.WriteString(")")
	case KSimple:
		switch n.U {
		case 20:
			sb.WriteString("false")
		case 21:
			sb.WriteString("true")
		case 22:
			sb.WriteString("null")
		case 23:
			sb.WriteString("undefined")
		default:
			fmt.Fprintf(sb, "simple(%d)", n.U)
		}
	case KFloat:
		switch n.FloatW {
		case 8:
			fmt.Fprintf(sb, "%v_3", math.Float64frombits(n.U))
		case 4:
			fmt.Fprintf(sb, "%v_2", math.Float32frombits(uint32(n.U)))
		default:
			fmt.Fprintf(sb, "f16(0x%04x)", n.U)
		}
	case KRaw:
		fmt.Fprintf(sb, "raw'%s'", hex.EncodeToString(n.B))
	}
}
