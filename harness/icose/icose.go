// Package icose is an independent COSE_Sign1 (RFC 9052/9053) implementation
// over crypto/* and the harness's own CBOR encoder. It does not import go-cose
// or fxamacker/cbor.
package icose

import (
	"crypto"
	"crypto/ecdsa"
	"crypto/ed25519"
	"crypto/elliptic"
	"crypto/rand"
	"crypto/rsa"
	"crypto/sha256"
	"crypto/sha512"
	"errors"
	"fmt"
	"hash"
	"math/big"

	"verifharness/icbor"
)

// COSE algorithm identifiers.
const (
	ES256 int64 = -7
	ES384 int64 = -35
	ES512 int64 = -36
	EdDSA int64 = -8
	PS256 int64 = -37
	PS384 int64 = -38
	PS512 int64 = -39
)

var AllAlgs = []int64{ES256, ES384, ES512, EdDSA, PS256, PS384, PS512}

func AlgName(a int64) string {
	switch a {
	case ES256:
		return "ES256"
	case ES384:
		return "ES384"
	case ES512:
		return "ES512"
	case EdDSA:
		return "EdDSA"
	case PS256:
		return "PS256"
	case PS384:
		return "PS384"
	case PS512:
		return "PS512"
	}
	return fmt.Sprintf("alg(%d)", a)
}

func algHash(a int64) (crypto.Hash, func() hash.Hash) {
	switch a {
	case ES256, PS256:
		return crypto.SHA256, sha256.New
	case ES384, PS384:
		return crypto.SHA384, sha512.New384
	case ES512, PS512:
		return crypto.SHA512, sha512.New
	}
	return 0, nil
}

// SigLen returns the signature size go-cose/RFC 9053 mandate for alg with the
// harness's key sizes (RSA-2048), or 0 if unknown.
func SigLen(a int64) int {
	switch a {
	case ES256:
		return 64
	case ES384:
		return 96
	case ES512:
		return 132
	case EdDSA:
		return 64
	case PS256, PS384, PS512:
		return 256
	}
	return 0
}

// SigStructure builds Sig_structure = ["Signature1", protected, external_aad, payload].
func SigStructure(protected, external, payload []byte) []byte {
	return icbor.Encode(icbor.Arr(
		icbor.Tstr("Signature1"),
		icbor.Bstr(protected),
		icbor.Bstr(external),
		icbor.Bstr(payload),
	))
}

// ProtectedAlg returns the serialized protected header {1: alg}.
func ProtectedAlg(alg int64) []byte {
	return icbor.Encode(icbor.Map(icbor.P(icbor.U(1), icbor.I(alg))))
}

// SignTBS signs the to-be-signed bytes.
func SignTBS(alg int64, priv crypto.PrivateKey, tbs []byte) ([]byte, error) {
	switch alg {
	case ES256, ES384, ES512:
		k, ok := priv.(*ecdsa.PrivateKey)
		if !ok {
			return nil, errors.New("icose: need *ecdsa.PrivateKey")
		}
		_, newH := algHash(alg)
		h := newH()
		h.Write(tbs)
		r, s, err := ecdsa.Sign(rand.Reader, k, h.Sum(nil))
		if err != nil {
			return nil, err
		}
		n := (k.Curve.Params().BitSize + 7) / 8
		sig := make([]byte, 2*n)
		r.FillBytes(sig[:n])
		s.FillBytes(sig[n:])
		return sig, nil
	case EdDSA:
		k, ok := priv.(ed25519.PrivateKey)
		if !ok {
			return nil, errors.New("icose: need ed25519.PrivateKey")
		}
		return ed25519.Sign(k, tbs), nil
	case PS256, PS384, PS512:
		k, ok := priv.(*rsa.PrivateKey)
		if !ok {
			return nil, errors.New("icose: need *rsa.PrivateKey")
		}
		ch, newH := algHash(alg)
		h := newH()
		h.Write(tbs)
		return rsa.SignPSS(rand.Reader, k, ch, h.Sum(nil), &rsa.PSSOptions{SaltLength: rsa.PSSSaltLengthEqualsHash})
	}
	return nil, fmt.Errorf("icose: unsupported alg %d", alg)
}

// Digest hashes tbs with the hash function alg prescribes (ECDSA and RSA-PSS).
func Digest(alg int64, tbs []byte) []byte {
	_, newH := algHash(alg)
	h := newH()
	h.Write(tbs)
	return h.Sum(nil)
}

// VerifyTBS verifies sig over tbs.
func VerifyTBS(alg int64, pub crypto.PublicKey, tbs, sig []byte) bool {
	switch alg {
	case ES256, ES384, ES512:
		k, ok := pub.(*ecdsa.PublicKey)
		if !ok {
			return false
		}
		n := (k.Curve.Params().BitSize + 7) / 8
		if len(sig) != 2*n {
			return false
		}
		_, newH := algHash(alg)
		h := newH()
		h.Write(tbs)
		r := new(big.Int).SetBytes(sig[:n])
		s := new(big.Int).SetBytes(sig[n:])
		return ecdsa.Verify(k, h.Sum(nil), r, s)
	case EdDSA:
		k, ok := pub.(ed25519.PublicKey)
		if !ok || len(k) != ed25519.PublicKeySize {
			return false
		}
		return ed25519.Verify(k, tbs, sig)
	case PS256, PS384, PS512:
		k, ok := pub.(*rsa.PublicKey)
		if !ok {
			return false
		}
		ch, newH := algHash(alg)
		h := newH()
		h.Write(tbs)
		return rsa.VerifyPSS(k, ch, h.Sum(nil), sig, &rsa.PSSOptions{SaltLength: rsa.PSSSaltLengthEqualsHash}) == nil
	}
	return false
}

// Sign produces a signature for (protected, payload) with empty external AAD.
func Sign(alg int64, priv crypto.PrivateKey, protected, payload []byte) ([]byte, error) {
	return SignTBS(alg, priv, SigStructure(protected, nil, payload))
}

// Verify checks a signature for (protected, payload) with empty external AAD.
func Verify(alg int64, pub crypto.PublicKey, protected, payload, sig []byte) bool {
	return VerifyTBS(alg, pub, SigStructure(protected, nil, payload), sig)
}

// Envelope builds the tagged COSE_Sign1 node from raw parts.
func Envelope(protected []byte, unprotected *icbor.Node, payload, sig []byte) *icbor.Node {
	if unprotected == nil {
		unprotected = icbor.Map()
	}
	return icbor.Tag(18, icbor.Arr(icbor.Bstr(protected), unprotected, icbor.Bstr(payload), icbor.Bstr(sig)))
}

// SignedToken builds a complete, correctly signed token.
func SignedToken(alg int64, priv crypto.PrivateKey, payload []byte) ([]byte, error) {
	prot := ProtectedAlg(alg)
	sig, err := Sign(alg, priv, prot, payload)
	if err != nil {
		return nil, err
	}
	return icbor.Encode(Envelope(prot, nil, payload, sig)), nil
}

// Parts are the content bytes of a tagged 4-array's bstr elements.
type Parts struct {
	Protected, Payload, Signature []byte
	Unprotected                   *icbor.Node
	Node                          *icbor.Node
	Flags                         icbor.Flags
}

// Split parses token as tag-18 4-array [bstr, any, bstr, bstr] and returns the
// content bytes. ok=false if the shape differs or the bytes are not one
// well-formed item.
func Split(token []byte) (Parts, bool) {
	n, fl, err := icbor.Read(token)
	if err != nil {
		return Parts{}, false
	}
	if n.Kind != icbor.KTag || n.U != 18 {
		return Parts{}, false
	}
	a := n.Items[0]
	if a.Kind != icbor.KArray || len(a.Items) != 4 {
		return Parts{}, false
	}
	if a.Items[0].Kind != icbor.KBytes || a.Items[2].Kind != icbor.KBytes || a.Items[3].Kind != icbor.KBytes {
		return Parts{}, false
	}
	return Parts{
		Protected:   a.Items[0].B,
		Unprotected: a.Items[1],
		Payload:     a.Items[2].B,
		Signature:   a.Items[3].B,
		Node:        n,
		Flags:       fl,
	}, true
}

// ProtectedAlgOf extracts the alg (label 1) from serialized protected header bytes.
func ProtectedAlgOf(protected []byte) (int64, bool) {
	if len(protected) == 0 {
		return 0, false
	}
	n, _, err := icbor.Read(protected)
	if err != nil || n.Kind != icbor.KMap {
		return 0, false
	}
	v := n.MapGet(1)
	if v == nil {
		return 0, false
	}
	return v.Int()
}

// ---- deterministic keys ----

// ECDSAKey derives a private key on curve from seed bytes (deterministically).
func ECDSAKey(curve elliptic.Curve, seed []byte) *ecdsa.PrivateKey {
	h := sha512.Sum512(append([]byte("verif-ecdsa-key:"), seed...))
	h2 := sha512.Sum512(h[:])
	d := new(big.Int).SetBytes(append(h[:], h2[:16]...))
	nMinus1 := new(big.Int).Sub(curve.Params().N, big.NewInt(1))
	d.Mod(d, nMinus1)
	d.Add(d, big.NewInt(1))
	priv := &ecdsa.PrivateKey{D: d}
	priv.PublicKey.Curve = curve
	priv.PublicKey.X, priv.PublicKey.Y = curve.ScalarBaseMult(d.Bytes())
	return priv
}

// Ed25519Key derives a key from seed bytes.
func Ed25519Key(seed []byte) ed25519.PrivateKey {
	h := sha256.Sum256(append([]byte("verif-ed25519-key:"), seed...))
	return ed25519.NewKeyFromSeed(h[:])
}

func CurveFor(alg int64) elliptic.Curve {
	switch alg {
	case ES256:
		return elliptic.P256()
	case ES384:
		return elliptic.P384()
	case ES512:
		return elliptic.P521()
	}
	return nil
}
