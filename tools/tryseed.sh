#!/bin/bash
# usage: tools/tryseed.sh <seed-id> [check-id]  - scratch copy of /repo HEAD + the seed's patch, run the check's quick tier against it (VERIF_REPO), remove the copy
s=$1; c=${2:-${s%%-*}}
d=/tmp/try-$s; rm -rf $d; mkdir -p $d && git -C /repo archive HEAD | tar -x -C $d && (cd $d && git apply /verif/seeded/$s/patch.diff) || { echo "cannot apply"; exit 2; }
cd /verif && VERIF_REPO=$d ./check $c --tier quick 2>&1 | grep -v "^WARN" | tail -${TAIL:-12}
rm -rf $d /verif/work/alt-_tmp_try_${s/-/_}
