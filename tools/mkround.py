#!/usr/bin/env python3
"""Prepares one round of seeded-change authoring: per property a scratch git
worktree of /repo under /tmp/wt/r<N>-<id>/repo and a prompt file
/tmp/wt/r<N>-<id>/PROMPT.md that contains ONLY the property's text (from
properties.jsonl) plus one-line summaries of the changes already kept for that
property (so that the author writes something different).  Nothing else from
/verif goes into the prompt.

  tools/mkround.py <N> [ids...]
"""
import glob, json, os, re, subprocess, sys

V = os.path.dirname(os.path.dirname(os.path.abspath(__file__)))
N = sys.argv[1]
ids = sys.argv[2:]
props = [json.loads(l) for l in open(os.path.join(V, "properties.jsonl"))]


def summaries(pid):
    out = []
    for d in sorted(glob.glob(os.path.join(V, "seeded", pid + "-*"))):
        what = ""
        nf = os.path.join(d, "notes.md")
        if os.path.exists(nf):
            body = [l.strip() for l in open(nf) if l.strip() and not l.startswith("#")]
            what = " ".join(body[:2])
        what = re.sub(r"\s+", " ", what)
        what = re.sub(r"^[-* ]*(\*\*)?What:?(\*\*)?:?\s*", "", what)[:230]
        if what:
            out.append("- " + what)
    return out


for p in props:
    pid = p["id"]
    if ids and pid not in ids:
        continue
    base = f"/tmp/wt/r{N}-{pid}"
    os.makedirs(base, exist_ok=True)
    wt = base + "/repo"
    if not os.path.exists(wt):
        subprocess.run(["git", "-C", "/repo", "worktree", "add", "--detach", wt, "HEAD"], check=True, stdout=subprocess.DEVNULL, stderr=subprocess.DEVNULL)
    a = p["anchors"]
    txt = f"""You are a Go developer asked to write two *seeded regressions* for the open-source library veraison/psatoken
(Go library for PSA attestation tokens: profile-specific claim sets with validation, CBOR/JSON encoding, COSE_Sign1 signing and verification).

Your scratch copy of the repository is the git worktree `{wt}` (work ONLY there and in `{base}`; never touch /repo or /verif, do not read /verif).
The sandbox has no network. Before every go command: `export GOFLAGS=-mod=mod GOPROXY=off GOSUMDB=off GOTOOLCHAIN=local` (if `go.sum` or `go.mod` gets rewritten, `git checkout go.mod go.sum`).
The library's dependencies are in the module cache (`go env GOMODCACHE`), you may read them.

## The property

**{p['title']}**

{p['statement']}

It is meant to hold over: {p['quantifier']['text']}

Why the repository's own tests do not settle it: {p['why_tests_cant']}

Relevant files: {', '.join(a.get('files', []))}
Relevant mechanisms: {'; '.join(m['name'] + ' (' + m['where'] + ')' for m in a.get('mechanism', []))}

## What to deliver

TWO different, independent changes to the library (non-test .go files of the repository only), each of which

1. BREAKS the property above (for some input / history / schedule the property's statement is false with the change and true without it),
2. still compiles (`go build ./...`) and passes the repository's existing, unedited test suite (`go test -vet=off -count=1 ./...` - all packages),
3. is REALISTIC: the kind of change a maintainer could plausibly make and a reviewer could plausibly accept (a refactor, an optimisation, a convenience feature, a "tidy-up", a misread of a dependency's API, a too-clever fast path ...), not sabotage, and
4. needs SOMETHING SPECIFIC TO MANIFEST - an unusual but legitimate input, a particular multi-step sequence of calls, a second use of an object, a particular interleaving, a fault at a particular point, or two cooperating sites that each look fine alone. Ordinary use (the examples in the README, the common happy path) must NOT expose it at once.

For each change also write a DEMONSTRATION: a Go test file (package `psatoken`, or package `encoding` if it must live in `encoding/`) with one or more `func TestXxx(t *testing.T)` that FAILS with the change applied and PASSES on the unchanged tree. The test must assert the property's statement for the concrete case (not an implementation detail). First line of the file: a comment `// demo for change <k>; package dir: . ` (or `encoding`), and add the word `-race` to that first line if the demonstration only fails under the race detector.

The two changes must use DIFFERENT mechanisms, touch different aspects of the property, and be different in kind from all of these changes that already exist for this property (do not reuse their mechanisms or their triggering inputs):

{chr(10).join(summaries(pid)) or '(none yet)'}

Prefer clauses of the property statement, API functions, input shapes and object histories that the list above leaves untouched. Look for the less obvious: rarely used exported functions, interactions between two claims, differences between the two profiles and between CBOR / JSON / COSE routes, extension profiles registered by a user, behaviour on a second use of an object, error identity, integer conversions, ordering.

## Output files (exactly these names, in `{base}`)

- `patch1.diff`, `patch2.diff` - each the output of `git diff` in the worktree for ONE change on top of the unchanged HEAD (each must apply alone with `git apply` to a clean checkout);
- `demo1_test.go`, `demo2_test.go` - the demonstrations (self-contained: own helpers with unique names, no new dependencies, no files other than this one);
- `notes1.md`, `notes2.md` - a few lines each, starting with `What:` (what was changed and the stated reason a maintainer would give), then `Needs:` (what is needed for the breakage to manifest), then `Why the suite passes:`.

Verify everything yourself before finishing: for each k, on a clean worktree (`git checkout -- . && git clean -fdq`): the demo passes; then `git apply patch<k>.diff`: `go build ./...` ok, full test suite passes (without the demo file present), and with the demo file copied in, the demo FAILS. Finally leave the worktree clean (`git checkout -- . && git clean -fdq`). If you cannot find a second change that satisfies all conditions, deliver one. Keep your final answer to a few lines: what the two changes are and that you verified them.
"""
    open(base + "/PROMPT.md", "w").write(txt)
    print(pid, len(txt))
