#!/usr/bin/env python3
"""Runs EVERY check (quick tier) against every confirmed seeded change, in
parallel, on scratch copies of the repository (VERIF_REPO mode of ./check), and
records the full caught-by matrix in seeded/<id>/meta.json.

  tools/seedmatrix.py [-j 3] [seed-id ...]

/repo itself is never touched by this tool (the per-seed confirmation and the
run of the target check against /repo itself is tools/seedeval.py's job).
"""
import argparse, glob, json, os, shutil, subprocess, sys, time
from concurrent.futures import ThreadPoolExecutor

V = os.path.dirname(os.path.dirname(os.path.abspath(__file__)))


def sh(cmd, **kw):
    return subprocess.run(cmd, stdout=subprocess.PIPE, stderr=subprocess.STDOUT, text=True, errors="replace", **kw)


def one(seed, checks):
    d = os.path.join(V, "seeded", seed)
    repo = f"/tmp/seedrepo-{seed}"
    shutil.rmtree(repo, ignore_errors=True)
    shutil.copytree("/repo", repo, ignore=shutil.ignore_patterns(".git"))
    r = sh(["git", "apply", os.path.join(d, "patch.diff")], cwd=repo)
    if r.returncode != 0:
        return seed, None, "patch does not apply: " + r.stdout
    env = dict(os.environ, VERIF_REPO=repo, VERIF_TIER="quick")
    r = sh([os.path.join(V, "check"), "--build"], cwd=V, env=env)
    if r.returncode != 0:
        return seed, None, "does not build: " + r.stdout[-500:]
    env["VERIF_NOBUILD"] = "1"
    res = {}
    for c in checks:
        t0 = time.time()
        r = sh([os.path.join(V, "check"), c, "--tier", "quick"], cwd=V, env=env)
        line = next((l for l in r.stdout.splitlines() if "violated" in l), "")
        res[c] = {"rc": r.returncode, "wall_s": round(time.time() - t0, 1), "first_message": line.strip()[:400]}
    shutil.rmtree(repo, ignore_errors=True)
    alt = os.path.join(V, "work", "alt-" + "".join(ch if ch.isalnum() else "_" for ch in repo).replace("__", "_"))
    for p in glob.glob(os.path.join(V, "work", "alt-*" + seed.replace("-", "_") + "*")):
        shutil.rmtree(p, ignore_errors=True)
    mf = os.path.join(d, "meta.json")
    m = json.load(open(mf))
    if "matrix_quick" in m and os.environ.get("SEEDMATRIX_SKIP_DONE"):
        pass
    m["matrix_quick"] = res
    m["matrix_caught_by"] = sorted(c for c, x in res.items() if x["rc"] == 1)
    m["matrix_inconclusive"] = sorted(c for c, x in res.items() if x["rc"] == 2)
    json.dump(m, open(mf, "w"), indent=1)
    return seed, m["matrix_caught_by"], ""


def main():
    ap = argparse.ArgumentParser()
    ap.add_argument("-j", type=int, default=3)
    ap.add_argument("seeds", nargs="*")
    a = ap.parse_args()
    skip_done = bool(os.environ.get("SEEDMATRIX_SKIP_DONE"))
    seeds = a.seeds or sorted(os.path.basename(p) for p in glob.glob(os.path.join(V, "seeded", "*")) if os.path.exists(os.path.join(p, "patch.diff")))
    if skip_done:
        seeds = [s for s in seeds if "matrix_quick" not in json.load(open(os.path.join(V, "seeded", s, "meta.json")))]
    checks = sh([os.path.join(V, "check"), "--list"], cwd=V).stdout.split()
    with ThreadPoolExecutor(max_workers=a.j) as ex:
        for seed, caught, err in ex.map(lambda s: one(s, checks), seeds):
            print(seed, caught if not err else err, flush=True)


if __name__ == "__main__":
    sys.exit(main())
