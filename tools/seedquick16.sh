#!/bin/bash
# usage: tools/seedquick5.sh C01 ...  round-16 seeds (/tmp/wt/r16-<id>/patch{1,2}) are recorded as <id>-23 / <id>-24; target check only
cd "$(dirname "$0")/.."
for id in "$@"; do
  for i in 1 2; do
    d=/tmp/wt/r16-$id
    [ -f $d/patch$i.diff ] && [ -f $d/demo$i\_test.go ] || { echo "== $id-$((i+28)): missing files"; continue; }
    race=""; head -3 $d/demo$i\_test.go | grep -q "\-race" && race="--race"
    python3 tools/seedeval.py $id-$((i+28)) $id $d/patch$i.diff $d/demo$i\_test.go --checks ${CHECKS:-$id} $race $ALT 2>&1 | grep -E "^seed|NOT CONF|FAILS|PASSES|APPLY|COMPILE|not clean"
    [ -d seeded/$id-$((i+28)) ] && cp $d/notes$i.md seeded/$id-$((i+28))/notes.md
  done
done
