#!/bin/bash
# usage: tools/mutpy.sh <file-in-repo> <checks,comma-separated> <<< "python: receives s (file text), must assign s"
# Applies an ad-hoc mutation expressed as python code on stdin, runs repo tests + given checks (quick), reverts.
f=$1; checks=$2
code=$(cat)
cd /repo || exit 2
python3 - "$f" "$code" <<'PY'
import sys
f,code=sys.argv[1:3]
s=open(f).read(); s0=s
g={'s':s}
exec(code,g)
s=g['s']
if s==s0: print("MUTATION DID NOT APPLY"); sys.exit(3)
open(f,'w').write(s)
PY
rc=$?
if [ $rc -ne 0 ]; then git checkout -- .; exit $rc; fi
(GOPROXY=off GOFLAGS=-mod=readonly go build ./... && GOPROXY=off GOFLAGS=-mod=readonly go test -vet=off -count=1 ./... >/tmp/mut_test.log 2>&1 && echo "repo tests: PASS" || echo "repo tests: FAIL/BUILD")
cd /verif
for c in ${checks//,/ }; do
  out=$(./check $c 2>&1); rc=$?
  echo "$c rc=$rc $(echo "$out" | grep -m1 -E 'VIOLATION|OK property|INFRA' | cut -c1-200)"
  echo "$out" | grep -m1 "violated" | cut -c1-400
done
git -C /repo checkout -- .
rm -rf /verif/replays
