#!/usr/bin/env python3
"""Regenerates /verif/MANIFEST.json from the table below (keeps it valid)."""
import json, os, subprocess, sys

VERIF = os.path.dirname(os.path.dirname(os.path.abspath(__file__)))

# id -> (technique, level text, level note, design ref)
CLAIMED = {
    "C01": ("exhaustive boundary sweeps + rapid class-vector products vs an independent profile model",
            "Generated-input search: every byte-string length 0..80, every UEID type byte, all lifecycle range ends, the full single-edit neighbourhood of both certification-reference forms (enumerated completely) plus tens of thousands of random multi-deviation class vectors per run are judged by Validate() and by an independent rule model; any disagreement in either direction is a violation. Exploration is the right level: the space (~1e8 class combinations) is finite but too large to enumerate, while every boundary the rules mention is enumerated. A third test builds a valid set through setters or decoding, uses it once, then changes components and fields in place: the verdict must follow the final content (history independence). Plain struct values with an unset canonical profile and wrap-around lengths (256+k, 65536+k) are included. All layouts of digits around one or two dashes for lengths 12..21 and adjacent transpositions of the certification reference are enumerated.",
            "Trusts the harness's own model of the rules (written from the property statement) and the struct-literal construction route (components injected with reflect/unsafe, P2 nonce containers through eat.Nonce's decoder).",
            "DESIGN.md §4 C01"),
    "C02": ("complete single-bit-flip sweeps + rapid splices/truncations/edits/wrong keys; independent COSE field splitter decides which mutants must not verify",
            "Generated-input search over mutated tokens: for tokens signed with each of the 7 algorithms every single-bit flip is tried (complete sweep for the fast algorithms in quick, all in thorough), plus random splices of protected/payload/signature content between tokens, truncations, multi-byte edits, foreign signatures, envelopes lacking alg/payload/signature, and every wrong-key pairing. A mutant whose protected, payload or signature content differs (as split by an independent CBOR reader) must fail to decode or fail to verify. Exploration: the mutation space is unbounded; the single-bit neighbourhood is enumerated. Also: equivalent-but-different re-encodings of the covered bytes, content appended/cut with adjusted length, re-spellings of the signature (DER, padding), the genuine token with its payload removed, and all payload-/alg-/signature-less messages given to an Evidence that previously held the genuine token; thorough adds a coverage-guided fuzz target with the same oracle. Unsigned claims in 16 other containers (UCCS/CWT tags, Mac0, COSE_Sign, missing/empty signature) next to the genuine header and signature never verify. A decoded altered token is also used (SetClaims of its own claims, reads, other keys) before a second verification attempt.",
            "Trusts the independent splitter (icbor/icose) to say which bytes the signature covers; ECDSA malleability (r, n-s) is outside the property and not generated.",
            "DESIGN.md §4 C02"),
    "C03": ("rapid round trips over valid claims x 7 algorithms x keys, checked by an independent COSE parser and independent signature verifier",
            "Generated-input search: valid claims-sets of both profiles (all optional subsets, hash sizes, 1..4 components) are signed with every algorithm go-cose supports; the token is parsed by the harness's own CBOR reader (tag 18, 4-array, protected = {1: alg}, payload byte-identical to the validated encoding), verified by the harness's own crypto/* based verifier, then decoded and verified by the library and compared claim for claim. Exploration: inputs are unbounded. Signing is also done on Evidence objects with a past (signed/decoded with another algorithm, failed calls), with ECDSA algorithm/curve mixes, with unrelated encodes between signing and checking; decoded claims must re-encode to exactly the signed payload; a failed second decode must not leave the first token's claims under the second token's signature. A candidate-key loop (several wrong keys, then the right one) must end in success with the claims unchanged. Byte-string claims may contain CBOR-looking fragments (profile keys followed by well-formed heads).",
            "Trusts crypto/ecdsa, ed25519 and rsa-PSS from the Go standard library and the harness's Sig_structure builder.",
            "DESIGN.md §4 C03"),
    "C04": ("exhaustive per-key x wire-class sweep + rapid products of rule-level and wire-level deviations, tokens built by an independent CBOR encoder; independent conformance model + wire-fidelity oracle; known-finding classifiers",
            "Generated-input search: tokens assembled by the harness's own encoder from a model claims-set (0..4 rule deviations) and 0..3 wire-level mutations per token (null/undefined, every wrong major type incl. look-alikes, out-of-width integers, floats, tags, indefinite forms, non-preferred heads, duplicate keys), permuted keys, unknown int/negative/huge/text keys, mixed-profile key sets; decode-and-validate must accept iff the model is valid and no non-conformant wire form is present, and every getter of an accepted token must return the wire value. Every key x every wire class is enumerated on four backgrounds per profile. Five root causes inherited from the CBOR library's leniency are recorded as known findings, recognised by classifier predicates and excluded so the search continues. Look-alike profile names and same-byte-length non-ASCII digit strings are among the rule-level deviations. Non-preferred head widths are also put on map keys (incl. key 265); whatever the non-validating decoder takes must have been taken as the profile it declares.",
            "Encodings the specifications leave open (tags, duplicate keys, one-element nonce array, flag != 1, non-preferred heads, explicit empty list next to the flag, tokens whose profile claim was disturbed while the other profile's keys are mixed in) get no accept/reject verdict.",
            "DESIGN.md §4 C04"),
    "C05": ("complete enumeration of tiny inputs, every-node x every-mutation sweeps, truncation/substitution sweeps, rapid multi-mutants, native go fuzzing (thorough); oracle = recover() around decode + full use of the result",
            "Generated-input search over byte strings for 35 decoding entry points (COSE evidence, claims CBOR/JSON with and without validation, the per-type unmarshal methods incl. two extension types, populate helpers with flat/embedded/interface-embedded destinations): ALL strings of length <= 3 and a structured 4-byte family, every node of 10 base documents replaced by ~50 other items or structurally mutated, every truncation and header-byte substitution of all vectors, tens of thousands of random multi-mutants; whatever decodes without error is then validated, read through every getter, re-encoded and verified with 10 kinds of key. Any panic (or runtime fatal error) is a violation. Exploration: the input space is all byte strings. After the calls made for every input a canary battery of ordinary operations on unrelated values must not panic (state left by failed calls); both profile claims are set to every pair of pool items. Every text item is swept over 43 lengths x six character widths (incl. an invalid byte), and COSE header parameters over 54 labels x 52 values x both buckets. Signature shapes (DER with integers of many sizes, raw strings of many lengths) under nine algorithm ids, the whole text pool in every text item, and documents with two members changed at once are enumerated.",
            "Only panics are judged, not verdicts. Malformed Go key objects (wrong-length ed25519 keys) are outside 'any key'.",
            "DESIGN.md §4 C05"),
    "C06": ("enumerated header bombs / nesting / oversize documents and rapid mutants measured (TotalAlloc delta, wall time) in an address-space-limited single-goroutine worker process; native fuzzing with the allocation oracle in the target (thorough)",
            "Generated-input search over inputs <= 64 KiB: every major type x additional-info x declared length x 0..16 following bytes at 20 structural positions, nesting to depth 32000 (CBOR) / 65536 (JSON), long strings, many-key maps; each call's allocation must stay below 1 MiB + 1 KiB per input byte and return within 5 s; worker death by out-of-memory is attributed to the in-flight input. Exploration. Tag-wrapped documents (42 tag numbers, 1..3 deep), nesting hidden inside byte strings, distinct-duplicate member names and error-path documents followed by ordinary ones are included; a hang that only shows after earlier inputs is replayed as a sequence in a fresh worker. Declared lengths that wrap around when converted or added, and documents with two members changed at once, are enumerated.",
            "TotalAlloc is process-wide: the worker runs one goroutine, GC workers do not allocate heap objects. The wall bound is only reported after 4 measurements (3 in fresh processes).",
            "DESIGN.md §4 C06"),
    "C07": ("rapid over profile-claim classes x formats x registered-profile subsets (checkpoint hook), tokens from an independent CBOR encoder / own JSON writer; oracle = reference dispatcher + independent profile model of the selected profile",
            "Generated-input search: bodies of either profile (valid or deviating), in CBOR (optionally with the other profile's body mixed in) and JSON, combined with every class of profile claim under each profile's key or member (absent, null, undefined, empty, non-text, 11 names) and every subset of three extra registered profiles; a reference dispatcher says which profile must be selected or that decoding must fail; the result type, decode-and-validate verdict (validity under the selected profile's rules, computed by the independent model with cross-read member names), reported profile and NewClaims(p) are compared. The same CBOR is also decoded as COSE payload by Evidence objects that already hold claims; refused registrations may precede decoding; JSON profile strings/member names may be written with equivalent escapes; extension tokens may break only the extension's own rule. Two registered profiles that inherit everything from the built-in types (one declared through key 265 without a profile-1 claim, one named by an OID with a byte-string eat_profile) are part of every subset.",
            "Key 265 carrying ''/null/undefined/non-text or the profile-1 name gets the weaker verdict 'error or identical to the token without key 265' (specifications silent).",
            "DESIGN.md §4 C07"),
    "C08": ("rapid: C01's valid and invalid claims-sets through all validating entry points, differential against Validate() and the non-validating sibling",
            "Generated-input search: each generated claims-set (0..4 deviating claims) goes through SetClaims, validate-and-encode CBOR/JSON, ValidateAndSign and the decode-and-validate variants (CBOR, JSON, COSE); a gate must fail iff Validate() fails (and iff the model says invalid), emit/attach nothing on failure, and equal its non-validating sibling on success. A second test exercises the gates in context (Evidence with a past, in-place flips of validity between two gate calls, repeated calls); decode gates also see re-wrapped inputs (tags, unknown keys); instances of a registered extension profile whose own rule is met or broken go through every gate; results are re-checked after unrelated encodes. Caller-supplied signers for unnamed algorithms and payloads with text / extreme / duplicated labels go through the sign and decode gates.",
            "Trusts the profile model for the iff direction; bytes for decode gates come from the library's non-validating encoder or the independent encoder.",
            "DESIGN.md §4 C08"),
    "C09": ("rapid round trips (valid sets of both profiles and extension profiles, decodable-but-invalid tokens): observation equality + byte stability",
            "Generated-input search: decode(encode(x)) must give identical results from every getter and encode(decode(encode(x))) identical bytes; for tokens that decode but are invalid the encoder must error or round-trip to the same observations. Registered extension profiles on both bases (extra claim absent/zero/non-zero), null component entries, long lists and texts are included; encoded bytes are used only after unrelated encodes have happened. Six extension styles (own codec, inherited codec, OID-named, shadowing field name, extension of an extension) are round-tripped and their wire maps read independently.",
            "Observation = all getters + component getters + validity; trusts those getters to expose all claim state.",
            "DESIGN.md §4 C09"),
    "C10": ("rapid: emitted CBOR parsed by an independent strict CBOR reader and compared with the model's expected wire map",
            "Generated-input search: for valid sets built through setters and obtained by decoding (permuted keys, extra keys, no-measurements form) the emitted bytes must be one definite-length map, no duplicates, nothing trailing, exactly the expected integer keys with exact types and values, single nonce bare, never list+flag. Decoded tokens carry unknown keys inside component maps; a decoded component may be updated in place before encoding; lists of 23..256 components and texts of 23..257 bytes occur. Further routes: claims decoded from JSON with null / unknown members and 64-bit flag values; the same component object listed at several positions. Refused setter calls may come between building and encoding.",
            "Trusts the independent reader and the model's key table (taken from the property statement).",
            "DESIGN.md §4 C10"),
    "C11": ("exhaustive setter sweeps (lengths 0..80, cert-ref edit neighbourhood) + rapid state machine of 1..40 setter calls against a reference model",
            "Generated histories: every setter of both profiles and of the component type is swept over the value classes of C01; random interleavings of valid and invalid setter calls are compared step by step with a reference model (success iff the rule accepts; getter returns the value; failure leaves every observation unchanged; final encoding equals that of a fresh set given only the final values). The clear operation must leave zero components whatever it returns; same-byte-length non-ASCII digit strings are swept. Non-UTF-8 texts go through every text setter; components sharing their field pointers must not influence one another.",
            "Trusts the model rules; observation is getters + both encodings + validity.",
            "DESIGN.md §4 C11"),
    "C12": ("rapid: JSON round trip, CBOR->JSON->CBOR byte equality, and generic encoding/json parse of the emitted document vs the model's expected object",
            "Generated-input search over valid sets with hostile text (non-ASCII, control, quotes), negative client ids, P1 without explicit profile; member names, base64 payloads and omissions are checked by the standard library's generic JSON parser against the model. Flag values up to 2^64-1 (exact comparison), escape-like texts, and use of the JSON only after unrelated encodes are included. Texts equal to member names, CBOR keys and profile names are in the pool.",
            "Trusts encoding/json's generic decoder and base64 from the standard library.",
            "DESIGN.md §4 C12"),
    "C13": ("rapid: per-claim defect x route table of expected errors.Is classes; constructed error trees for FilterError with by-construction truth",
            "Generated-input search: each claim/field defect alone must produce exactly the expected sentinel class through getter, Validate and setter routes, combinations must produce the class of some offending claim; FilterError is run on error trees built from sentinels, derived errors, look-alike fresh errors and five wrapper kinds, and must return nil iff a missing-optional/not-in-profile sentinel is reachable, else the identical error value. A third test gives the exported validators claims/component implementations of a hypothetical derived profile whose getters return arbitrarily wrapped errors: validation must succeed iff every injected error is in a filtered class. Malformed components of another ISwComponent implementation and the errors of every validating gate (validate-and-encode, SetClaims, ValidateAndSign) are classified too.",
            "Three ambiguous cells (empty-but-present list, empty nonce container) accept either of two classes, see DESIGN.md.",
            "DESIGN.md §4 C13"),
    "C14": ("exhaustive enumeration of all 65 536 lifecycle values against a table oracle",
            "Every uint16 value is pushed through LifeCycleToState, IsValid, ValidateSecurityLifeCycle, both profiles' setter/getter (setter and struct-literal routes) and CBOR decode-and-validate, compared with a table oracle; state names compared with the specified strings. The input space is finite and enumerated completely (exhaustive: true). Setters are also run on claims-sets already holding the same / a valid / an invalid value, and the invalid state must be the StateInvalid constant itself. Setters and getters are also swept on zero-value objects, objects with an absent or foreign profile claim and instances of derived profiles.",
            "Trusts the seven-range table written from the property statement.",
            "DESIGN.md §4 C14"),
    "C15": ("rapid over a hand-declared shape family with hand-written expectations + enumeration of reflect.StructOf sizes around header boundaries + extension-profile round trips; independent CBOR reader, plain-codec differential",
            "Generated-input search: twelve struct shapes (flat, 1- and 2-level embedded, embedded interface with pointer/value/nil, empty, all-optional, case-fold names, unexported embedded type, tag option order) x random values x optional subsets; every entry count 0..257 and 65535/65536(/65537/70000) of synthetic structs; extension profiles on both base profiles. The serialised map must equal the hand-written union in declaration order with a correct header, populate must reproduce the value, match the plain marshaller for shapes without embedding, be byte-stable, and fail on a missing non-optional or duplicate key. Duplicate keys are tried in definite, indefinite, tagged and duplicate-first forms; a fourth test runs populate histories with unknown entries that other shapes know (no state may carry over between calls). Ten shapes (adds an interface holding a struct by value and member names differing only by case); the six extension styles replace the two extension profiles.",
            "Shapes stay inside the claims convention (see DESIGN.md S-notes: no embedded pointer-to-struct, no empty non-nil slices under omitempty).",
            "DESIGN.md §4 C15"),
    "C16": ("rapid state machine over the global profile register (checkpoint hook gives every history the pristine register) against a model register; probe battery + deep fingerprints of every instance",
            "Generated histories (1..30 steps) of Register(new / existing / unregistrable shape), NewClaims, CBOR/JSON decode repeated 32x, in-place mutation of one instance (setters, exported pointers and slices, returned components, container) and probes, with 0..8 extra profiles of three shapes (sharing eat-profile, sharing psa-profile, own JSON member). After every registration the full battery of lookups for 12 names must equal the model's expectation (so a failed registration changes nothing and a successful one changes only the new name); every instance must equal the first one obtained the same way, be a distinct object, and stay unchanged while other instances are mutated; repeated JSON dispatch must give one outcome. Documents naming two registered profiles, or an unregistered name under a single member, must be rejected on each of 32 calls. Profiles are registered as comparable structs, structs with func/slice fields and pointers (a panic is reported as such); bystander documents declaring a built-in profile must decode identically under every register content. Registration from inside a profile's factory and a claims type with two sibling embedded structs are part of the histories.",
            "Hook: VerifCheckpointProfiles (build tag verif) only snapshots/restores the register map; the register itself is exercised through the public API.",
            "DESIGN.md §4 C16"),
    "C17": ("rapid-generated concurrent programs (16..48 goroutines over shared claims-sets / Evidence / buffers) in a -race binary; oracle = race detector log + equality with a sequential run of the same scripts on a fresh pool",
            "Generated schedules (sampled, not enumerated): each program is a pool of shared objects and per-goroutine scripts of 10..60 read-side operations (create, decode CBOR/JSON/COSE, validate, getters, encode, MarshalJSON, Verify on shared objects; Sign/ValidateAndSign on private Evidence with shared claims; setters and codec helpers on private objects) started behind a barrier with GOMAXPROCS=16. Any race-detector report, or any operation whose result differs from the sequential reference, is a violation. The race detector flags conflicting unsynchronised accesses whenever both execute, independent of timing luck, which makes sampling effective for the realistic regressions (package-level cache, lazy initialisation, in-place normalisation through a pointer receiver). The concurrent run comes before the sequential reference; operations include extension-profile decodes, decodes that fail inside the helpers, and a synthetic struct type unique to each program (cold caches). Private objects are re-used as decode destinations after setter calls; shared Evidence includes envelopes without algorithm / with key ids and extra parameters. Duplicate-key tokens, long validating decodes, DER-signature Evidence and steps touching every shared object are in the mix.",
            "The Go scheduler owns the interleaving: a race needing a rare schedule can be missed, and a reported race may not reproduce from the saved program (the detector's report is saved as the replay then). Registration is not part of the mix (the register is only read).",
            "DESIGN.md §4 C17"),
    "C18": ("rapid sequences of read-side calls with a reflect-based deep fingerprint before/after every call + repeat-equality; input-buffer scribbling and cross-instance mutation for aliasing",
            "Generated histories: subjects of seven kinds (literal, setters, decoded from CBOR/JSON, extension instance, decoded and freshly signed Evidence; valid or deviating) x 1..30 random read-side calls; after each call the deep fingerprint of everything reachable (exported fields, pointers, slices, component container) must be unchanged and an immediate repeat must return the identical result; decoding from a private buffer that is then overwritten (0x00/0xff/noise) must change no getter, encoding or Verify outcome, the decoder must not write to its input, and a second instance decoded from the same bytes must be unaffected by writes into the first instance's returned slices. Results handed out earlier must keep their content while other objects are encoded; Verify outcomes must equal 'key is the signer's' whatever was verified before; the first reads of a decoded subject are compared with what it was built from. Subjects include setter-built sets with non-UTF-8 free text and decoded Evidence whose envelopes carry key ids and further header parameters. Subjects include nonce arrays of identical values and an extension with a pointer-embedded optional group.",
            "The COSE message inside an Evidence is unexported: only its behaviour (Verify outcomes, MarshalJSON) is required to be stable; a change confined to it is recorded as a class, not a violation.",
            "DESIGN.md §4 C18"),
    "C19": ("rapid state machine over one Evidence with injected signer faults, against a reference model of the envelope/claims binding",
            "Generated histories (1..30 steps) of SetClaims / Sign / ValidateAndSign / UnmarshalCOSE / Verify with faulty signers (error, empty signature, junk, unsupported algorithm) and hostile tokens at arbitrary positions; after every step the model's invariants are checked (failed operation returns nothing; after failed sign every Verify fails; Verify success implies claims equal the decoding of the covered payload; a later good sign succeeds). Tokens include correctly signed claims maps with one wrong-typed claim (failure in the claims layer after the profile was selected); unrelated traffic runs between operations and their verification. Attached claims include extension-profile instances (nested, OID-named) and claims that encode but cannot be decoded in this process (unregistered profile, non-UTF-8 text), for which the binding clause is evaluated on the payload bytes.",
            "Trusts the independent splitter for 'the payload the signature covers' and by-construction knowledge of which key verifies which token.",
            "DESIGN.md §4 C19"),
    "C20": ("enumerated envelope grid built with an independent CBOR/COSE encoder; independent well-formedness classifier as oracle",
            "Enumeration of structurally mutated envelopes around correctly signed material (tags none/0..30/61/98/nested, array lengths 0..6, each element replaced by 20 other items and by indefinite / long-head forms, 18 payload variants, trailing bytes, TF-M Mac0/Sign1 vectors): decoding may succeed only if the independent classifier sees a tag-18 4-array bstr/map/bstr(map)/non-empty bstr with nothing after it. Every envelope is also given to Evidence objects with a past (decoded / attached / signed, optionally followed by a failed decode); tagged non-map payloads, tag numbers congruent to 18 mod 256 and tag 18 inside other tags are covered; thorough adds a fuzz target. The correct envelope in 13 text transport encodings and 14 content-type / typ header values x 6 non-map payloads are enumerated. Well-formed messages of the other COSE kinds (Sign, Mac0, Mac, Encrypt0, Encrypt) are enumerated under 8 tags.",
            "Only the 'only' direction is judged (acceptance of valid material is C03); tagged payload items carry no verdict.",
            "DESIGN.md §4 C20"),
}

NOT_YET = "check not built yet in this session (see DESIGN.md §4 for the planned generator and oracle); will be claimed when its quick tier runs clean"


def main():
    props = [json.loads(l) for l in open(os.path.join(VERIF, "properties.jsonl"))]
    hook_commits = []
    try:
        out = subprocess.run(["git", "-C", "/repo", "log", "--format=%H %s"], capture_output=True, text=True).stdout
        hook_commits = [l.split()[0] for l in out.splitlines() if " verif:" in l]
    except Exception:
        pass
    checks, na = [], []
    for p in props:
        pid = p["id"]
        if pid in CLAIMED:
            tech, text, note, ref = CLAIMED[pid]
            checks.append({
                "property_id": pid,
                "quick_cmd": f"./check {pid} --tier quick",
                "thorough_cmd": f"./check {pid} --tier thorough",
                "evidence_file": f"/verif/evidence/{pid}.json",
                "replay_cmd_template": f"./check {pid} --replay {{path}}",
                "engine": "harness",
                "level_claimed": {"category": "exploration", "text": text, "design_ref": ref},
                "level_note": note,
                "technique": tech,
            })
        else:
            na.append({"property_id": pid, "reason": NOT_YET})
    man = {
        "version": 1,
        "setup_cmd": "./check --build",
        "hooks": {
            "guard": "verif",
            "enable": "go test -tags verif (harness module /verif/harness with `replace github.com/veraison/psatoken => /repo`)",
            "baseline_off_cmd": "cd /repo && GOPROXY=off GOFLAGS=-mod=readonly go test -vet=off -count=1 ./...",
            "source_commits": hook_commits,
            "add_only": True,
        },
        "engines": [{
            "name": "harness",
            "path": "/verif/harness",
            "serves_properties": sorted(CLAIMED),
            "kind_free_text": "Go test binary (pgregory.net/rapid v1.3.0 properties, exhaustive enumerations, native go fuzz targets) driven and sharded by /verif/check; independent CBOR/COSE/profile-model oracles in harness/icbor, harness/icose, harness/checks/model_test.go",
        }],
        "checks": checks,
        "not_applicable": na,
        "notes": "All checks: exit 0 held / 1 VIOLATION line / 2 infrastructure trouble. Known findings: /verif/KNOWN_FINDINGS.txt. Seeded regressions used to test the checks: /verif/seeded/.",
    }
    with open(os.path.join(VERIF, "MANIFEST.json"), "w") as f:
        json.dump(man, f, indent=1)
        f.write("\n")
    try:
        import jsonschema
        jsonschema.validate(man, json.load(open("/root/.vp/MANIFEST.schema.json")))
        print("MANIFEST.json valid;", len(checks), "claimed,", len(na), "not claimed")
    except ImportError:
        print("MANIFEST.json written (jsonschema not importable here)")


if __name__ == "__main__":
    main()
