#!/usr/bin/env python3
"""Regenerates /verif/MANIFEST.json from the table below (keeps it valid)."""
import json, os, subprocess, sys

VERIF = os.path.dirname(os.path.dirname(os.path.abspath(__file__)))

# id -> (technique, level text, level note, design ref)
CLAIMED = {
    "C01": ("exhaustive boundary sweeps + rapid class-vector products vs an independent profile model",
            "Generated-input search: every byte-string length 0..80, every UEID type byte, all lifecycle range ends, the full single-edit neighbourhood of both certification-reference forms (enumerated completely) plus tens of thousands of random multi-deviation class vectors per run are judged by Validate() and by an independent rule model; any disagreement in either direction is a violation. Exploration is the right level: the space (~1e8 class combinations) is finite but too large to enumerate, while every boundary the rules mention is enumerated.",
            "Trusts the harness's own model of the rules (written from the property statement) and the struct-literal construction route (components injected with reflect/unsafe, P2 nonce containers through eat.Nonce's decoder).",
            "DESIGN.md §4 C01"),
}

NOT_YET = "check not built yet in this session (see DESIGN.md §4 for the planned generator and oracle); will be claimed when its quick tier runs clean"


def main():
    props = [json.loads(l) for l in open(os.path.join(VERIF, "properties.jsonl"))]
    hook_commits = []
    try:
        out = subprocess.run(["git", "-C", "/repo", "log", "--format=%H %s"], capture_output=True, text=True).stdout
        hook_commits = [l.split()[0] for l in out.splitlines() if " verif:" in l]
    except Exception:
        pass
    checks, na = [], []
    for p in props:
        pid = p["id"]
        if pid in CLAIMED:
            tech, text, note, ref = CLAIMED[pid]
            checks.append({
                "property_id": pid,
                "quick_cmd": f"./check {pid} --tier quick",
                "thorough_cmd": f"./check {pid} --tier thorough",
                "evidence_file": f"/verif/evidence/{pid}.json",
                "replay_cmd_template": f"./check {pid} --replay {{path}}",
                "engine": "harness",
                "level_claimed": {"category": "exploration", "text": text, "design_ref": ref},
                "level_note": note,
                "technique": tech,
            })
        else:
            na.append({"property_id": pid, "reason": NOT_YET})
    man = {
        "version": 1,
        "setup_cmd": "./check --build",
        "hooks": {
            "guard": "verif",
            "enable": "go test -tags verif (harness module /verif/harness with `replace github.com/veraison/psatoken => /repo`)",
            "baseline_off_cmd": "cd /repo && GOPROXY=off GOFLAGS=-mod=readonly go test -vet=off -count=1 ./...",
            "source_commits": hook_commits,
            "add_only": True,
        },
        "engines": [{
            "name": "harness",
            "path": "/verif/harness",
            "serves_properties": sorted(CLAIMED),
            "kind_free_text": "Go test binary (pgregory.net/rapid v1.3.0 properties, exhaustive enumerations, native go fuzz targets) driven and sharded by /verif/check; independent CBOR/COSE/profile-model oracles in harness/icbor, harness/icose, harness/checks/model_test.go",
        }],
        "checks": checks,
        "not_applicable": na,
        "notes": "All checks: exit 0 held / 1 VIOLATION line / 2 infrastructure trouble. Known findings: /verif/KNOWN_FINDINGS.txt. Seeded regressions used to test the checks: /verif/seeded/.",
    }
    with open(os.path.join(VERIF, "MANIFEST.json"), "w") as f:
        json.dump(man, f, indent=1)
        f.write("\n")
    try:
        import jsonschema
        jsonschema.validate(man, json.load(open("/root/.vp/MANIFEST.schema.json")))
        print("MANIFEST.json valid;", len(checks), "claimed,", len(na), "not claimed")
    except ImportError:
        print("MANIFEST.json written (jsonschema not importable here)")


if __name__ == "__main__":
    main()
