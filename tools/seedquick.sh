#!/bin/bash
# usage: tools/seedquick.sh C01 C02 ...   evaluates seeds against their own target check only
cd /verif
for id in "$@"; do
  for i in 1 2; do
    d=/tmp/wt/out-$id
    [ -f $d/patch$i.diff ] && [ -f $d/demo$i\_test.go ] || { echo "== $id-$i: missing files"; continue; }
    race=""; grep -q "\-race" $d/demo$i\_test.go && race="--race"
    python3 tools/seedeval.py $id-$i $id $d/patch$i.diff $d/demo$i\_test.go --checks $id $race 2>&1 | tail -3 | grep -v "^  C.*rc=0" 
  done
done
