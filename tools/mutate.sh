#!/bin/bash
# usage: tools/mutate.sh <file-in-repo> <python-regex-old> <new> <check-id>...
# Applies a one-off textual mutation to /repo, runs the given checks (quick), reverts.
f=$1; old=$2; new=$3; shift 3
cd /repo || exit 2
python3 - "$f" "$old" "$new" <<'PY'
import sys,re
f,old,new=sys.argv[1:4]
s=open(f).read()
n=re.subn(old,new,s,count=1)
if n[1]==0: print("MUTATION DID NOT APPLY"); sys.exit(3)
open(f,'w').write(n[0])
PY
rc=$?
if [ $rc -ne 0 ]; then git checkout -- .; exit $rc; fi
(GOPROXY=off GOFLAGS=-mod=readonly go build ./... && GOPROXY=off GOFLAGS=-mod=readonly go test -vet=off -count=1 ./... >/tmp/mut_test.log 2>&1 && echo "repo tests: PASS" || echo "repo tests: FAIL/BUILD")
cd /verif
for c in "$@"; do
  out=$(./check $c 2>&1); rc=$?
  echo "$c rc=$rc $(echo "$out" | grep -m1 -E 'VIOLATION|OK property|INFRA' | cut -c1-200)"
  echo "$out" | grep -m1 "violated" | cut -c1-300
done
git -C /repo checkout -- .
rm -f /verif/replays/*
