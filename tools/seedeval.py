#!/usr/bin/env python3
"""Evaluate one seeded regression against the checks.

  tools/seedeval.py <seed-id> <property-id> <patch.diff> <demo_test.go> [--checks C01,C05 | --all] [--needs "..."] [--tier quick]

1. In a scratch worktree of /repo (under /tmp, removed afterwards): the patch
   applies, the unedited repository test suite passes with it, the
   demonstration fails with it and passes without it.
2. The patch is applied to /repo itself (git apply), the selected checks are
   run, and /repo is restored (git checkout -- .) whatever happens.
3. /verif/seeded/<seed-id>/ gets patch.diff, the demonstration and meta.json.
"""
import argparse, json, os, re, shutil, subprocess, sys, time

ENV = dict(os.environ, GOPROXY="off", GOFLAGS="-mod=readonly", GOTOOLCHAIN="local")
VERIF = os.path.dirname(os.path.dirname(os.path.abspath(__file__)))


def sh(cmd, cwd=None, env=None, timeout=3600):
    r = subprocess.run(cmd, cwd=cwd, env=env or ENV, stdout=subprocess.PIPE, stderr=subprocess.STDOUT, text=True, errors="replace", timeout=timeout)
    return r.returncode, r.stdout


def main():
    ap = argparse.ArgumentParser()
    ap.add_argument("seed")
    ap.add_argument("prop")
    ap.add_argument("patch")
    ap.add_argument("demo")
    ap.add_argument("--checks", default="")
    ap.add_argument("--all", action="store_true")
    ap.add_argument("--needs", default="")
    ap.add_argument("--notes", default="")
    ap.add_argument("--tier", default="quick")
    ap.add_argument("--race", action="store_true", help="run the demonstration with -race")
    ap.add_argument("--alt", action="store_true", help="run the checks against a scratch COPY of /repo (VERIF_REPO mode) instead of applying the patch to /repo itself")
    a = ap.parse_args()
    patch, demo = os.path.abspath(a.patch), os.path.abspath(a.demo)
    meta = {"seed": a.seed, "breaks_property": a.prop, "needs_to_manifest": a.needs, "ran": []}
    first = open(demo).readline()
    sub = "encoding" if re.search(r"\bencoding\b", first) and "package encoding" in open(demo).read() else "."
    wt = f"/tmp/seedeval-{a.seed}"
    sh(["git", "-C", "/repo", "worktree", "remove", "--force", wt])
    rc, out = sh(["git", "-C", "/repo", "worktree", "add", "--detach", wt, "HEAD"])
    if rc != 0:
        print(out)
        return 2
    ok = True
    try:
        demo_dst = os.path.join(wt, sub, "zz_seed_demo_test.go")
        racef = ["-race"] if a.race else []
        # pristine: demo passes
        shutil.copyfile(demo, demo_dst)
        rc, out = sh(["go", "test", "-vet=off", "-count=1"] + racef + ["-run", demo_test_names(demo), "./" + sub], cwd=wt)
        meta["ran"].append({"what": "demonstration on the pristine tree", "rc": rc})
        if rc != 0:
            print("DEMO FAILS ON PRISTINE TREE\n" + out[-1500:])
            ok = False
        os.remove(demo_dst)
        rc, out = sh(["git", "apply", patch], cwd=wt)
        if rc != 0:
            print("PATCH DOES NOT APPLY\n" + out)
            return 2
        rc, out = sh(["go", "build", "./..."], cwd=wt)
        if rc != 0:
            print("DOES NOT COMPILE\n" + out[-1500:])
            return 2
        rc, out = sh(["go", "test", "-vet=off", "-count=1", "./..."], cwd=wt)
        meta["ran"].append({"what": "repository test suite with the change", "rc": rc})
        if rc != 0:
            print("SUITE FAILS WITH THE CHANGE\n" + out[-1500:])
            ok = False
        shutil.copyfile(demo, demo_dst)
        rc, out = sh(["go", "test", "-vet=off", "-count=1"] + racef + ["-run", demo_test_names(demo), "./" + sub], cwd=wt)
        meta["ran"].append({"what": "demonstration with the change", "rc": rc})
        if rc == 0:
            print("DEMO PASSES WITH THE CHANGE (does not demonstrate anything)")
            ok = False
    finally:
        sh(["git", "-C", "/repo", "worktree", "remove", "--force", wt])
        shutil.rmtree(wt, ignore_errors=True)
    meta["confirmed"] = ok
    if not ok:
        print("NOT CONFIRMED; not kept")
        return 1
    # run the checks against /repo with the patch
    checks = [c for c in a.checks.split(",") if c]
    if a.all or not checks:
        rc, out = sh([os.path.join(VERIF, "check"), "--list"], cwd=VERIF, env=os.environ.copy())
        checks = out.split()
    results = {}
    altrepo = f"/tmp/seedrepo-{a.seed}"
    cenv = dict(os.environ, VERIF_TIER=a.tier)
    if a.alt:
        shutil.rmtree(altrepo, ignore_errors=True)
        # the committed tree, not the working tree: another job may have a seed applied to /repo right now
        os.makedirs(altrepo)
        subprocess.run("git -C /repo archive HEAD | tar -x -C " + altrepo, shell=True, check=True)
        rc, out = sh(["git", "apply", patch], cwd=altrepo)
        cenv["VERIF_REPO"] = altrepo
    else:
        rc, out = sh(["git", "-C", "/repo", "status", "--porcelain"])
        if out.strip():
            print("/repo is not clean; refusing")
            return 2
        rc, out = sh(["git", "-C", "/repo", "apply", patch])
    if rc != 0:
        print(out)
        return 2
    try:
        for c in checks:
            t0 = time.time()
            rc, out = sh([os.path.join(VERIF, "check"), c, "--tier", a.tier], cwd=VERIF, env=cenv)
            line = next((l for l in out.splitlines() if "violated" in l), "")
            results[c] = {"rc": rc, "wall_s": round(time.time() - t0, 1), "first_message": line.strip()[:400]}
            print(f"  {c}: rc={rc} {line.strip()[:160]}")
    finally:
        if a.alt:
            shutil.rmtree(altrepo, ignore_errors=True)
            import glob as _g
            for pth in _g.glob(os.path.join(VERIF, "work", "alt-*" + a.seed.replace("-", "_"))):
                shutil.rmtree(pth, ignore_errors=True)
        else:
            sh(["git", "-C", "/repo", "checkout", "--", "."])
            shutil.rmtree(os.path.join(VERIF, "replays"), ignore_errors=True)
            # evidence files were rewritten by runs against a modified tree: restore them
            sh(["git", "-C", VERIF, "checkout", "--", "evidence"])
    caught = sorted(c for c, r in results.items() if r["rc"] == 1)
    meta["checks_run"] = results
    meta["caught_by"] = caught
    meta["tier"] = a.tier
    meta["run_against"] = "scratch copy of /repo (VERIF_REPO)" if a.alt else "/repo itself (git apply ... git checkout)"
    meta["notes"] = a.notes
    d = os.path.join(VERIF, "seeded", a.seed)
    os.makedirs(d, exist_ok=True)
    shutil.copyfile(patch, os.path.join(d, "patch.diff"))
    shutil.copyfile(demo, os.path.join(d, "demo_test.go"))
    with open(os.path.join(d, "meta.json"), "w") as f:
        json.dump(meta, f, indent=1)
    print(f"seed {a.seed}: breaks {a.prop}; caught by {caught or 'NOTHING'}; target check {'CAUGHT' if a.prop in caught else 'MISSED'}")
    return 0


def demo_test_names(demo):
    names = re.findall(r"^func (Test\w+)\(", open(demo).read(), re.M)
    return "^(" + "|".join(names) + ")$" if names else "."


if __name__ == "__main__":
    sys.exit(main())
