// mutgen enumerates syntactic mutants of Go source files (stdlib only).
//
//	mutgen -list file.go            one line per mutant: index, line, kind, detail
//	mutgen -emit N file.go          the mutated file text on stdout
//
// Operators: relational / logical / arithmetic operator replacement, integer
// literal +1 / -1, if-condition negation and "never taken", statement deletion
// (assignments with '=', expression statements, inc/dec), return-error
// replaced by nil is left out (types are unknown here).  Mutants that do not
// compile are discarded by the caller.
package main

import (
	"flag"
	"fmt"
	"go/ast"
	"go/parser"
	"go/token"
	"os"
	"sort"
	"strconv"
)

type mut struct {
	off, end int // byte range replaced
	repl     string
	line     int
	kind     string
}

var opRepl = map[token.Token][]string{
	token.EQL: {"!="}, token.NEQ: {"=="},
	token.LSS: {"<=", ">"}, token.LEQ: {"<", ">"},
	token.GTR: {">=", "<"}, token.GEQ: {">", "<"},
	token.LAND: {"||"}, token.LOR: {"&&"},
	token.ADD: {"-"}, token.SUB: {"+"},
	token.SHL: {">>"}, token.SHR: {"<<"},
	token.AND: {"|"}, token.OR: {"&"},
}

func main() {
	list := flag.Bool("list", false, "")
	emit := flag.Int("emit", -1, "")
	flag.Parse()
	file := flag.Arg(0)
	src, err := os.ReadFile(file)
	if err != nil {
		panic(err)
	}
	fset := token.NewFileSet()
	f, err := parser.ParseFile(fset, file, src, 0)
	if err != nil {
		panic(err)
	}
	var ms []mut
	off := func(p token.Pos) int { return fset.Position(p).Offset }
	line := func(p token.Pos) int { return fset.Position(p).Line }
	ast.Inspect(f, func(n ast.Node) bool {
		switch x := n.(type) {
		case *ast.BinaryExpr:
			// string concatenation with + -> - does not compile; harmless
			for _, r := range opRepl[x.Op] {
				ms = append(ms, mut{off(x.OpPos), off(x.OpPos) + len(x.Op.String()), r, line(x.OpPos), "op " + x.Op.String() + "->" + r})
			}
		case *ast.BasicLit:
			if x.Kind == token.INT {
				v, err := strconv.ParseInt(x.Value, 0, 64)
				if err == nil {
					ms = append(ms, mut{off(x.Pos()), off(x.End()), strconv.FormatInt(v+1, 10), line(x.Pos()), "int " + x.Value + "+1"})
					if v > 0 {
						ms = append(ms, mut{off(x.Pos()), off(x.End()), strconv.FormatInt(v-1, 10), line(x.Pos()), "int " + x.Value + "-1"})
					}
				}
			}
		case *ast.IfStmt:
			ms = append(ms, mut{off(x.Cond.Pos()), off(x.Cond.End()), "!(" + string(src[off(x.Cond.Pos()):off(x.Cond.End())]) + ")", line(x.Cond.Pos()), "if negated"})
			ms = append(ms, mut{off(x.Cond.Pos()), off(x.Cond.End()), "false && (" + string(src[off(x.Cond.Pos()):off(x.Cond.End())]) + ")", line(x.Cond.Pos()), "if never"})
		case *ast.BlockStmt:
			for _, s := range x.List {
				switch st := s.(type) {
				case *ast.AssignStmt:
					if st.Tok != token.DEFINE {
						ms = append(ms, mut{off(st.Pos()), off(st.End()), "", line(st.Pos()), "del assign"})
					}
				case *ast.ExprStmt:
					ms = append(ms, mut{off(st.Pos()), off(st.End()), "", line(st.Pos()), "del call"})
				case *ast.IncDecStmt:
					ms = append(ms, mut{off(st.Pos()), off(st.End()), "", line(st.Pos()), "del incdec"})
				case *ast.BranchStmt:
					if st.Tok == token.BREAK && st.Label == nil {
						ms = append(ms, mut{off(st.Pos()), off(st.End()), "continue", line(st.Pos()), "break->continue"})
					} else if st.Tok == token.CONTINUE && st.Label == nil {
						ms = append(ms, mut{off(st.Pos()), off(st.End()), "break", line(st.Pos()), "continue->break"})
					}
				}
			}
		case *ast.UnaryExpr:
			if x.Op == token.NOT {
				ms = append(ms, mut{off(x.OpPos), off(x.OpPos) + 1, "", line(x.OpPos), "drop !"})
			}
		}
		return true
	})
	sort.SliceStable(ms, func(i, j int) bool { return ms[i].off < ms[j].off })
	if *list {
		for i, m := range ms {
			fmt.Printf("%d\t%d\t%s\n", i, m.line, m.kind)
		}
		return
	}
	if *emit >= 0 && *emit < len(ms) {
		m := ms[*emit]
		os.Stdout.Write(src[:m.off])
		os.Stdout.WriteString(m.repl)
		os.Stdout.Write(src[m.end:])
	}
}
