#!/usr/bin/env python3
"""Regenerates appendix A of DESIGN.md (between the markers) from /verif/seeded/*/meta.json."""
import glob, json, os, re
V = os.path.dirname(os.path.dirname(os.path.abspath(__file__)))
rows = []
for d in sorted(glob.glob(os.path.join(V, "seeded", "*"))):
    mf = os.path.join(d, "meta.json")
    if not os.path.exists(mf):
        continue
    m = json.load(open(mf))
    what = m.get("what", "")
    if not what and os.path.exists(os.path.join(d, "notes.md")):
        body = [l.strip() for l in open(os.path.join(d, "notes.md")) if l.strip() and not l.startswith("#")]
        what = " ".join(body[:2])
    what = re.sub(r"\s+", " ", what).replace("|", "/")[:260]
    caught = sorted(set(m.get("caught_by", [])) | set(m.get("matrix_caught_by", [])))
    runs = dict(m.get("checks_run", {}))
    runs.update(m.get("matrix_quick", {}))
    m["checks_run"] = runs
    infra = sorted(c for c, r in runs.items() if r.get("rc") == 2)
    tgt = m["breaks_property"]
    rows.append((m["seed"], tgt, what, "yes" if tgt in caught else "NO", ", ".join(c for c in caught if c != tgt) or "-", len(m.get("checks_run", {})), ", ".join(infra)))
out = ["| seed | breaks | the change (and what it needs to manifest) | caught by its target check (quick tier) | also caught by | checks run | inconclusive (exit 2) |", "|---|---|---|---|---|---|---|"]
for r in rows:
    out.append("| %s | %s | %s | %s | %s | %d | %s |" % r)
n = len(rows)
hit = sum(1 for r in rows if r[3] == "yes")
out.append("")
out.append(f"{hit} of {n} seeded changes are caught by the quick tier of the check of the property they were written to break.")
txt = "\n".join(out)
p = os.path.join(V, "DESIGN.md")
s = open(p).read()
a, b = "<!-- SEEDTABLE:BEGIN -->", "<!-- SEEDTABLE:END -->"
if a in s:
    s = s[:s.index(a) + len(a)] + "\n" + txt + "\n" + s[s.index(b):]
else:
    s += "\n\n## Appendix A. Seeded changes and the checks that catch them\n\n" + a + "\n" + txt + "\n" + b + "\n"
open(p, "w").write(s)
print(f"{hit}/{n}")
