#!/usr/bin/env python3
"""Systematic mutation sweep (sensitivity of the checks to SMALL syntactic changes).

  tools/mutsweep.py [--lanes 6] [--files a.go,b.go] [--skip C17] [--out mutsweep]

For every mutant tools/mutgen produces for the library's non-test sources:
  1. in a scratch copy of the committed /repo tree (one per lane, under /tmp,
     removed at the end): write the mutated file, `go build ./...`, run the
     repository's own test suite; mutants that do not build or that the suite
     kills are dropped ("killed-by-suite");
  2. survivors: the quick tier of the checks is run against the copy
     (VERIF_REPO mode, one harness build per mutant), most likely check first,
     stopping at the first check that reports a VIOLATION.
Results: <out>/results.jsonl (one object per mutant) and <out>/SUMMARY.md; the
mutants NO check caught are listed for triage (equivalent mutant / outside every
listed property / blind spot).
"""
import argparse, json, os, shutil, subprocess, sys, threading, time, queue, re

V = os.path.dirname(os.path.dirname(os.path.abspath(__file__)))
FILES = ["cbor.go", "claims_common.go", "claims_p1.go", "claims_p2.go", "errors.go", "evidence.go", "iclaims.go", "iswcomponent.go",
         "profile.go", "swcomponent.go", "swcomponents.go", "encoding/cbor.go", "encoding/embedded.go", "encoding/json.go"]
ORDER = {
    "claims": ["C01", "C11", "C13", "C04", "C14", "C07", "C08", "C09", "C10", "C12", "C18", "C03", "C19", "C05", "C15", "C16", "C20", "C02", "C06", "C17"],
    "evidence": ["C03", "C19", "C20", "C02", "C08", "C18", "C05", "C13", "C07", "C14", "C01", "C04", "C09", "C10", "C11", "C12", "C15", "C16", "C06", "C17"],
    "iclaims": ["C07", "C04", "C08", "C16", "C13", "C01", "C12", "C09", "C20", "C05", "C11", "C10", "C14", "C15", "C18", "C19", "C03", "C02", "C06", "C17"],
    "encoding": ["C15", "C09", "C05", "C07", "C12", "C16", "C10", "C06", "C18", "C19", "C08", "C20", "C04", "C01", "C03", "C11", "C13", "C14", "C02", "C17"],
}
GOENV = dict(os.environ, GOPROXY="off", GOSUMDB="off", GOTOOLCHAIN="local", GOFLAGS="-mod=mod")


def order_for(f):
    if f.startswith("encoding/"):
        return ORDER["encoding"]
    if f in ("evidence.go",):
        return ORDER["evidence"]
    if f in ("iclaims.go", "profile.go", "cbor.go"):
        return ORDER["iclaims"]
    return ORDER["claims"]


def sh(cmd, **kw):
    return subprocess.run(cmd, stdout=subprocess.PIPE, stderr=subprocess.STDOUT, text=True, errors="replace", **kw)


def main():
    ap = argparse.ArgumentParser()
    ap.add_argument("--lanes", type=int, default=6)
    ap.add_argument("--files", default="")
    ap.add_argument("--skip", default="")
    ap.add_argument("--out", default="mutsweep")
    ap.add_argument("--only", default="", help="file:index,... re-run just these mutants")
    a = ap.parse_args()
    out = os.path.abspath(a.out)
    os.makedirs(out, exist_ok=True)
    mutgen = os.path.join(out, "mutgen")
    r = sh(["go", "build", "-o", mutgen, "."], cwd=os.path.join(V, "tools", "mutgen"), env=GOENV)
    if r.returncode != 0:
        print(r.stdout)
        return 2
    files = [f for f in a.files.split(",") if f] or FILES
    skip = set(s for s in a.skip.split(",") if s)
    only = set(o for o in a.only.split(",") if o)
    work = queue.Queue()
    n = 0
    for f in files:
        for ln in sh([mutgen, "-list", "/repo/" + f]).stdout.splitlines():
            idx, line, kind = ln.split("\t")
            if only and f"{f}:{idx}" not in only:
                continue
            work.put((f, int(idx), int(line), kind))
            n += 1
    print(f"{n} mutants", flush=True)
    lock = threading.Lock()
    resf = open(os.path.join(out, "results.jsonl"), "a")

    def lane(k):
        repo = f"/tmp/mutlane-{os.getpid()}-{k}"
        shutil.rmtree(repo, ignore_errors=True)
        os.makedirs(repo)
        subprocess.run(f"git -C /repo archive HEAD | tar -x -C {repo}", shell=True, check=True)
        altwork = os.path.join(V, "work", "alt-" + re.sub(r"[^A-Za-z0-9]+", "_", repo))
        env = dict(GOENV, VERIF_REPO=repo, VERIF_NOBUILD="1", VERIF_TIER="quick")
        tenv = dict(os.environ, GOPROXY="off", GOFLAGS="-mod=readonly", GOTOOLCHAIN="local")
        try:
            while True:
                try:
                    f, idx, line, kind = work.get_nowait()
                except queue.Empty:
                    return
                rec = {"file": f, "index": idx, "line": line, "kind": kind}
                orig = open(os.path.join("/repo", f)).read()
                mutated = sh([mutgen, "-emit", str(idx), "/repo/" + f]).stdout
                open(os.path.join(repo, f), "w").write(mutated)
                try:
                    r = sh(["go", "build", "./..."], cwd=repo, env=tenv)
                    if r.returncode != 0:
                        rec["status"] = "no-build"
                    else:
                        r = sh(["go", "vet", "./..."], cwd=repo, env=tenv) if False else None
                        try:
                            r = sh(["go", "test", "-vet=off", "-count=1", "-timeout", "120s", "./..."], cwd=repo, env=tenv, timeout=300)
                            killed = r.returncode != 0
                        except subprocess.TimeoutExpired:
                            killed = True
                        if killed:
                            rec["status"] = "killed-by-suite"
                        else:
                            shutil.rmtree(altwork, ignore_errors=True)
                            rec["checks"] = {}
                            rec["status"] = "UNCAUGHT"
                            for c in order_for(f):
                                if c in skip:
                                    continue
                                t0 = time.time()
                                try:
                                    r = sh([os.path.join(V, "check"), c, "--tier", "quick"], cwd=V, env=env, timeout=1500)
                                    rc, txt = r.returncode, r.stdout
                                except subprocess.TimeoutExpired:
                                    rc, txt = 2, "driver timeout"
                                rec["checks"][c] = {"rc": rc, "s": round(time.time() - t0, 1)}
                                if rc == 1:
                                    rec["status"] = "caught"
                                    rec["caught_by"] = c
                                    rec["message"] = next((l.strip()[:300] for l in txt.splitlines() if "violated" in l), "")
                                    break
                                if rc == 2:
                                    rec["checks"][c]["tail"] = txt[-300:]
                            shutil.rmtree(altwork, ignore_errors=True)
                finally:
                    open(os.path.join(repo, f), "w").write(orig)
                with lock:
                    resf.write(json.dumps(rec) + "\n")
                    resf.flush()
                    print(f"{f}:{idx} L{line} {kind}: {rec['status']} {rec.get('caught_by', '')}", flush=True)
        finally:
            shutil.rmtree(repo, ignore_errors=True)
            shutil.rmtree(altwork, ignore_errors=True)

    ths = [threading.Thread(target=lane, args=(k,)) for k in range(a.lanes)]
    for t in ths:
        t.start()
    for t in ths:
        t.join()
    resf.close()
    recs = [json.loads(l) for l in open(os.path.join(out, "results.jsonl"))]
    cnt = {}
    for r_ in recs:
        cnt[r_["status"]] = cnt.get(r_["status"], 0) + 1
    with open(os.path.join(out, "SUMMARY.md"), "w") as fh:
        fh.write("# mutation sweep\n\n" + json.dumps(cnt) + "\n\n## uncaught\n\n")
        for r_ in recs:
            if r_["status"] == "UNCAUGHT":
                fh.write(f"- {r_['file']}:{r_['index']} line {r_['line']} {r_['kind']} checks={ {c: v['rc'] for c, v in r_['checks'].items()} }\n")
    print(cnt)
    return 0


if __name__ == "__main__":
    sys.exit(main())
