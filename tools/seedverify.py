#!/usr/bin/env python3
"""Re-runs the TARGET check of every kept seeded change against /repo itself:
git -C /repo apply <patch>; ./check <property>; git -C /repo checkout -- .
and records the outcome in seeded/<id>/meta.json (target_on_repo).

  tools/seedverify.py [--alt] [seed-id ...]

--alt: run against a scratch copy of the committed /repo tree with the patch
applied (VERIF_REPO) instead of /repo itself; recorded as target_alt_seed<N>.

Nothing else may use /repo while this runs. /repo must be clean. VERIF_SEED
(default 1) is passed on to the checks; a value other than 1 is recorded under
target_on_repo_seed<N>.
"""
import glob, json, os, subprocess, sys, time

V = os.path.dirname(os.path.dirname(os.path.abspath(__file__)))


def sh(cmd, **kw):
    return subprocess.run(cmd, stdout=subprocess.PIPE, stderr=subprocess.STDOUT, text=True, errors="replace", **kw)


def main():
    alt = "--alt" in sys.argv
    if alt:
        sys.argv.remove("--alt")
    seeds = sys.argv[1:] or sorted(os.path.basename(p) for p in glob.glob(os.path.join(V, "seeded", "*")) if os.path.exists(os.path.join(p, "patch.diff")))
    if not alt and sh(["git", "-C", "/repo", "status", "--porcelain"]).stdout.strip():
        print("/repo is not clean; refusing")
        return 2
    head = sh(["git", "-C", "/repo", "rev-parse", "--short", "HEAD"]).stdout.strip()
    vhead = sh(["git", "-C", V, "rev-parse", "--short", "HEAD"]).stdout.strip()
    bad = 0
    for s in seeds:
        d = os.path.join(V, "seeded", s)
        m = json.load(open(os.path.join(d, "meta.json")))
        prop = m["breaks_property"]
        env = os.environ.copy()
        if alt:
            # a scratch copy of the COMMITTED tree (VERIF_REPO): /repo itself is not touched
            scratch = "/tmp/seedverify-alt-%d" % os.getpid()
            subprocess.run(["rm", "-rf", scratch])
            os.makedirs(scratch)
            subprocess.run("git -C /repo archive HEAD | tar -x -C " + scratch, shell=True, check=True)
            r = sh(["git", "apply", os.path.join(d, "patch.diff")], cwd=scratch)
            env["VERIF_REPO"] = scratch
        else:
            r = sh(["git", "-C", "/repo", "apply", os.path.join(d, "patch.diff")])
        if r.returncode != 0:
            print(s, "PATCH DOES NOT APPLY", r.stdout.strip()[:200])
            bad += 1
            continue
        t0 = time.time()
        try:
            r = sh([os.path.join(V, "check"), prop, "--tier", "quick"], cwd=V, env=env)
        finally:
            if alt:
                subprocess.run(["rm", "-rf", scratch])
                subprocess.run("rm -rf " + os.path.join(V, "work", "alt-*seedverify_alt_%d" % os.getpid()), shell=True)
            else:
                sh(["git", "-C", "/repo", "checkout", "--", "."])
                sh(["git", "-C", "/repo", "clean", "-fdq"])
        line = next((l for l in r.stdout.splitlines() if "violated" in l), "")
        vs = os.environ.get("VERIF_SEED", "1")
        m[("target_alt_seed" + vs) if alt else ("target_on_repo" if vs == "1" else "target_on_repo_seed" + vs)] = {"rc": r.returncode, "wall_s": round(time.time() - t0, 1), "repo_head": head, "verif_head": vhead, "first_message": line.strip()[:300]}
        json.dump(m, open(os.path.join(d, "meta.json"), "w"), indent=1)
        print(s, prop, "rc=%d" % r.returncode, "CAUGHT" if r.returncode == 1 else "MISSED/INCONCLUSIVE", flush=True)
        if r.returncode != 1:
            bad += 1
    sh(["git", "-C", V, "checkout", "--", "evidence"])
    subprocess.run(["rm", "-rf", os.path.join(V, "replays")])
    print("not caught:", bad)
    return 0


if __name__ == "__main__":
    sys.exit(main())
