#!/bin/bash
# usage: tools/seedbatch.sh C14 C15 ...   evaluates /tmp/wt/out-<id>/patch{1,2}.diff with all checks
cd /verif
for id in "$@"; do
  for i in 1 2; do
    d=/tmp/wt/out-$id
    [ -f $d/patch$i.diff ] && [ -f $d/demo$i\_test.go ] || { echo "== $id-$i: missing files"; continue; }
    needs=$(grep -i -m1 -A2 "manifest" $d/notes$i.md 2>/dev/null | tr '\n' ' ' | cut -c1-400)
    race=""; grep -q "\-race" $d/demo$i\_test.go && race="--race"
    echo "== $id-$i"
    python3 tools/seedeval.py $id-$i $id $d/patch$i.diff $d/demo$i\_test.go --all $race --needs "$needs" 2>&1 | tail -25
  done
done
